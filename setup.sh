#!/bin/bash
# Build the framework offline from files on disk: full .vo build of the Coq development
# (no -vos), then warm the Go build cache with one driver so that quick checks start warm.
set -e
cd "$(dirname "$0")"
export GOFLAGS=-mod=mod GOPROXY=off GOSUMDB=off GOTOOLCHAIN=local
python3 - <<'PY'
import sys, os
sys.path.insert(0, "bin")
import check
ok = True
if os.path.isdir("harness/verifx"):
    import tempfile
    d = tempfile.mkdtemp(dir="/var/tmp")
    ok, msg = check.run_translator({}, d)
    print("translator:", msg)
check.ensure_makefile()
PY
(cd coq && timeout 3000 make -k -j16 2>&1 | grep -v '^Closed under' | tail -15) || true
python3 - <<'PY'
import sys, os, shutil
sys.path.insert(0, "bin")
import check
from props import PROPS
d = "/var/tmp/verif-setup"
shutil.rmtree(d, ignore_errors=True); os.makedirs(d)
READY = [l.strip() for l in open('registry/READY') if l.strip()]
for pid, p in sorted(PROPS.items()):
    if pid not in READY: continue
    ok, out, b = check.build_driver(p, d)
    print("driver", pid, "ok" if ok else "FAILED")
shutil.rmtree(d, ignore_errors=True)
PY
echo setup done
