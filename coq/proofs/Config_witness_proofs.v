(* Config_witness_proofs.v — concrete witnesses: the refutation of the full field-by-field
   clause for cluster blocks (known finding C14-K1), non-vacuity examples, the documented
   example of docs/sso_config.md, and a template text outside the guard. *)
From V Require Import Base Base_proofs CorrBase Config Config_proofs Corr_C14 Corr_C14_proofs.
From Coq Require Import Permutation.

(* every string accepted; a from/to value s is read as http://s with host s (no ports or paths in the witnesses) *)
Definition all_ok : oracle := MOr (fun _ => true) (fun _ => true) (fun _ => true) (fun s => (lit_http, s)) lit_http.

Definition w_env : env :=
  ME (s_ "sso") []
     (MO [] [] [] [] [s_ "env.example.com"] [] false false false false (zs 10) (zs 60) 0%Z false (s_ "google") (s_ "_sso_proxy")).

(* DESIGN §6 C14 / §7 D6: default block {allowed_groups: [g1]; skip_auth_regex: [^/a$]},
   cluster block {options: {timeout: 5s}} *)
Definition w_default : routecfg :=
  MR (s_ "foo.example.com") (s_ "foo.internal") []
     (Some (MO [] [] [s_ "^/a$"] [s_ "g1"] [] [] false false false false 0%Z 0%Z 0%Z false [] [])).
Definition w_cluster : routecfg :=
  MR [] [] [] (Some (MO [] [] [] [] [] [] false false false false (zs 5) 0%Z 0%Z false [] [])).
Definition w_doc : doc :=
  [MS (s_ "foo") [(lit_default, Some (MB w_default [])); (s_ "sso", Some (MB w_cluster []))]].

(* the full-strength clause: for EVERY option field, a cluster block changes only what it states *)
Definition cluster_field_by_field : Prop :=
  forall (A : Type) (emp : A -> bool) (f : opts -> A), is_field emp f ->
  forall d c : routecfg,
    inherits emp (ofield f (rc_options c)) (ofield f (rc_options d))
             (ofield f (rc_options (merge_route true d c))).

Lemma cluster_field_by_field_refuted : ~ cluster_field_by_field.
Proof.
  intros H. specialize (H _ emp_list o_groups fld_groups w_default w_cluster).
  vm_compute in H. discriminate.
Qed.

(* ... and what it means end to end: the default block's group restriction and skip list are
   gone, the deployment default domain is the only rule left *)
Lemma cluster_drops_default_options :
  ofield o_groups (rc_options w_default) = [s_ "g1"] /\
  ofield o_groups (rc_options w_cluster) = [] /\ ofield o_skip_auth_regex (rc_options w_cluster) = [] /\
  exists u, set_upstream_configs all_ok w_env w_doc = Ok [u] /\
            u_groups u = [] /\ u_skip u = [] /\ u_domains u = [s_ "env.example.com"] /\ u_addresses u = [] /\
            u_timeout u = zs 5.
Proof. repeat split. eexists. vm_compute. repeat split. Qed.

Definition w_tables : tables :=
  MT lit_http [] [] [] [(s_ "foo.example.com", (lit_http, s_ "foo.example.com")); (s_ "foo.internal", (lit_http, s_ "foo.internal"))].

(* the monitor attributes exactly this observation to known finding 1 *)
Lemma witness_judged_known :
  judge (CLoad w_env w_tables w_doc (to_obs (set_upstream_configs (oracle_of w_tables) w_env w_doc))) = 101.
Proof. vm_compute. reflexivity. Qed.

(* ---- the documented example (docs/sso_config.md) resolves as the docs describe ---- *)
Definition docs_opts : opts :=
  MO [(s_ "X-Frame-Options", s_ "DENY")] [(s_ "Authorization", s_ "Basic dXNlcjpwYXNzd29yZA==")]
     [s_ "^\/github-webhook\/$"] [s_ "sso-test-group-1@example.com"; s_ "sso-test-group-2@example.com"] [] []
     false false false false 0%Z 0%Z 0%Z false [] [].
Definition docs_doc : doc :=
  [MS (s_ "example_service")
      [(lit_default, Some (MB (MR (s_ "example-service.sso.{{cluster}}.{{root_domain}}")
                                  (s_ "example-service.{{cluster}}.{{root_domain}}") [] (Some docs_opts)) []));
       (s_ "prod", Some (MB (MR (s_ "example-service.example.com") [] [] None) []))]].
Definition docs_env (cluster : str) : env :=
  ME cluster [(s_ "cluster", cluster); (s_ "root_domain", s_ "example.com")] (e_defaults w_env).

Lemma docs_example_default_cluster :
  exists u, set_upstream_configs all_ok (docs_env (s_ "sso")) docs_doc = Ok [u] /\
    u_service u = s_ "example_service" /\
    u_from u = s_ "example-service.sso.sso.example.com" /\ u_to u = s_ "example-service.sso.example.com" /\
    u_kind u = 0 /\ u_route u = [lit_http; s_ "example-service.sso.sso.example.com"; lit_http; s_ "example-service.sso.example.com"] /\
    u_groups u = o_groups docs_opts /\ u_skip u = o_skip_auth_regex docs_opts /\
    u_header_overrides u = o_header_overrides docs_opts /\ u_inject_headers u = o_inject_headers docs_opts /\
    u_domains u = [s_ "env.example.com"] /\ u_timeout u = zs 10.
Proof. eexists. vm_compute. repeat split. Qed.

(* the prod block overrides `from` only; everything else stays in force *)
Lemma docs_example_prod_cluster :
  exists u, set_upstream_configs all_ok (docs_env (s_ "prod")) docs_doc = Ok [u] /\
    u_from u = s_ "example-service.example.com" /\ u_to u = s_ "example-service.prod.example.com" /\
    u_groups u = o_groups docs_opts /\ u_skip u = o_skip_auth_regex docs_opts /\
    u_header_overrides u = o_header_overrides docs_opts.
Proof. eexists. vm_compute. repeat split. Qed.

(* ---- non-vacuity of the hypotheses used by the theorems ---- *)
Example fail_closed_hyp_satisfiable :
  exists ups, set_upstream_configs all_ok (docs_env (s_ "sso")) docs_doc = Ok ups /\ ups <> [].
Proof. eexists. split; [vm_compute; reflexivity | discriminate]. Qed.

Example malformed_hyp_satisfiable :
  exists u0, In u0 (routes (e_cluster w_env) (subst_doc (e_tvars w_env)
               [MS (s_ "foo") [(lit_default, Some (MB (MR (s_ "a") (s_ "b") (s_ "regex") None) []))]])) /\
             malformed all_ok w_env u0.
Proof.
  eexists. split; [left; reflexivity|]. right; right; right; left. vm_compute. repeat split; discriminate.
Qed.

Example d6_free_hyp_satisfiable :
  doc_wf (subst_doc (e_tvars (docs_env (s_ "prod"))) docs_doc) = true /\ env_wf (docs_env (s_ "prod")) = true /\
  forallb (fun t => negb (sel_d6 t))
          (spec_selected (e_cluster (docs_env (s_ "prod"))) (subst_doc (e_tvars (docs_env (s_ "prod"))) docs_doc)) = true.
Proof. vm_compute. repeat split. Qed.

Example extra_route_example :
  let parent := MU0 (s_ "foo") w_default [] in
  let e := MR (s_ "x.example.com") [] [] (Some (MO [] [] [] [s_ "only-x"] [] [] false false false false 0%Z 0%Z 0%Z false [] [])) in
  let r := effective_opts (e_defaults w_env) (u0_route (resolve_extra parent e)) in
  o_groups r = [s_ "only-x"] /\ o_skip_auth_regex r = [s_ "^/a$"] /\ o_domains r = [s_ "env.example.com"].
Proof. vm_compute. repeat split. Qed.

Definition t_tv : smap := [(s_ "cluster", s_ "sso"); (s_ "root_domain", s_ "example.com")].
Definition t_toks : list token := [TLit (s_ "from: a."); TVar (s_ "cluster"); TLit (s_ "."); TVar (s_ "root_domain"); TVar (s_ "nope")].

Example templates_hyp_satisfiable :
  tv_ok t_tv /\ NoDup (keys t_tv) /\ Forall tok_ok t_toks /\
  subst_all (rev t_tv) (render t_toks) = s_ "from: a.sso.example.com{{nope}}".
Proof.
  split; [apply tv_wf_spec; vm_compute; reflexivity|].
  split; [apply keys_nodup_spec; vm_compute; reflexivity|].
  split; [apply toks_wf_spec; vm_compute; reflexivity | vm_compute; reflexivity].
Qed.

(* outside the guard (a placeholder nested in braces) the iteration order of the variable map
   shows: the same text and the same variables give two different results *)
Lemma templates_unguarded_order_dependent :
  exists (tv tv' : smap) (text : str),
    Permutation tv tv' /\ NoDup (keys tv) /\ tv_ok tv /\
    subst_all tv text <> subst_all tv' text /\
    occurs (placeholder (s_ "ab")) (subst_all tv' text).
Proof.
  exists [(s_ "k", s_ "b"); (s_ "ab", s_ "X")], [(s_ "ab", s_ "X"); (s_ "k", s_ "b")], (s_ "{{a{{k}}}}").
  split; [apply perm_swap|].
  split; [apply keys_nodup_spec; vm_compute; reflexivity|].
  split; [apply tv_wf_spec; vm_compute; reflexivity|].
  split; [vm_compute; discriminate|].
  exists [], []. vm_compute. reflexivity.
Qed.
