(* RespHeaders_gen_proofs.v — C18 theorems instantiated with the tables the translator extracts
   from the Go source (gen/Gen_Headers.v), facts about those tables checked by computation, and
   the refutations (concrete witnesses). *)
From V Require Import Base Base_proofs RespHeaders RespHeaders_proofs Gen_Headers.
From Coq Require Import ZifyN ZifyNat ZifyBool.
Require Coq.Strings.String.
Import Coq.Strings.String.StringSyntax.

Definition T := proxy_security_headers.
Definition H := proxy_hsts.
Definition D := modify_response_deleted.
Definition TD := modify_response_trailer_deleted.
Definition hsts_k : str := canon (fst H).

(* the three headers the property names *)
Definition three : list str := [k_xcto; k_xfo; k_xxp].

Definition is_some {A} (o : option A) : bool := match o with Some _ => true | None => false end.

(* facts about the generated tables — re-checked whenever the source changes *)
Definition proxy_tables_ok : bool :=
  forallb key_ok three && forallb (fun k => negb (str_eqb k hsts_k)) three &&
  forallb (fun k => is_some (tbl_lookup k T)) three &&            (* the table has all three *)
  forallb (fun k => mem_str k (map canon D)) three &&             (* ModifyResponse deletes all three *)
  option_eqb str_eqb (tbl_lookup k_xcto T) (Some v_nosniff) &&     (* http.Error re-sets the table's value *)
  key_ok hsts_k && negb (str_eqb hsts_k k_xcto) && str_eqb hsts_k k_hsts &&
  is_nil (filter (fun k => negb (is_some (tbl_lookup (canon k) T))) (map fst T)).

Lemma proxy_tables_ok_true : proxy_tables_ok = true.
Proof. vm_compute. reflexivity. Qed.

Lemma three_facts k : In k three ->
  key_ok k = true /\ str_eqb k hsts_k = false /\ (exists v, tbl_lookup k T = Some v) /\
  mem_str k (map canon D) = true.
Proof.
  intros Hin. cbn in Hin.
  repeat (destruct Hin as [<-|Hin]; [repeat split; try (vm_compute; reflexivity); eexists; vm_compute; reflexivity|]).
  contradiction.
Qed.

Lemma xcto_value : tbl_lookup k_xcto T = Some v_nosniff. Proof. vm_compute. reflexivity. Qed.
Lemma hsts_key_ok : key_ok hsts_k = true. Proof. vm_compute. reflexivity. Qed.
Lemma hsts_ne_xcto : str_eqb hsts_k k_xcto = false. Proof. vm_compute. reflexivity. Qed.

(* what "benign" means on today's tree for a forwarded response (nothing is required of
   responses the proxy produces itself) *)
Definition today_benign (cfg : config) (k : str) (o : outcome) : Prop :=
  match o with
  | OLocal _ _ _ _ => True
  | OForward _ _ u =>
      (c_replace cfg = false -> u_n1xx u = 0%nat) /\
      (c_replace cfg = true -> mem_str k (map canon TD) = true \/ line_hits k (u_trailers u) = false)
  end.

(* C18_three_headers (partial): *)
Theorem three_headers_today cfg q o k :
  In k three -> today_benign cfg k o ->
  match proxy_handle T H D TD cfg q o with
  | NoResponse => True
  | Resp s h =>
      exists tv, tbl_lookup k T = Some tv /\
        (tbl_lookup k (c_overrides cfg) = None -> hget k h = [VStr tv]) /\
        (forall ov, tbl_lookup k (c_overrides cfg) = Some ov ->
           hget k h = [VStr ov] \/ (outcome_is_auth401 o = true /\ k = k_xcto /\ hget k h = [VStr tv] /\ s = 401))
  end.
Proof.
  intros Hin Hb. destruct (three_facts k Hin) as [Hok [Hh [[tv Htv] Hd]]].
  assert (Hb' : outcome_benign D TD cfg k o).
  { destruct o; [exact I|]. destruct Hb as [B1 B2]. split; [left; exact Hd | split; assumption]. }
  pose proof (protected_header T H D TD cfg q o k Hok Hh Hb') as P.
  destruct (proxy_handle T H D TD cfg q o); [|exact I].
  exists tv. split; [exact Htv|]. unfold effective in P. split.
  - intros Hn. rewrite Hn, Htv in P. destruct P as [P|[_ [-> [P _]]]]; [exact P|].
    rewrite xcto_value in Htv. inversion Htv; subst. exact P.
  - intros ov Ho. rewrite Ho in P. destruct P as [P|[P1 [-> [P Ps]]]]; [left; exact P|].
    right. rewrite xcto_value in Htv. inversion Htv; subst. auto.
Qed.

(* every response the proxy produces itself: no side condition at all *)
Theorem three_headers_local cfg q c cookies user loc k :
  In k three ->
  match proxy_handle T H D TD cfg q (OLocal c cookies user loc) with
  | NoResponse => False
  | Resp s h =>
      exists tv, tbl_lookup k T = Some tv /\
        (tbl_lookup k (c_overrides cfg) = None -> hget k h = [VStr tv]) /\
        (forall ov, tbl_lookup k (c_overrides cfg) = Some ov ->
           hget k h = [VStr ov] \/ (is_auth401 c = true /\ k = k_xcto /\ hget k h = [VStr tv] /\ s = 401))
  end.
Proof.
  intros Hin. pose proof (three_headers_today cfg q (OLocal c cookies user loc) k Hin I) as P.
  unfold proxy_handle in *. destruct (c_secure cfg && needs_redirect q); exact P.
Qed.

(* for ANY lists of keys ModifyResponse deletes from headers and trailers that contain the key:
   no trailer condition is needed (this is the repaired code for the trailer defect) *)
Theorem three_headers_repaired deleted td cfg q o k :
  In k three -> mem_str k (map canon deleted) = true -> mem_str k (map canon td) = true ->
  (forall cs us u, o = OForward cs us u -> c_replace cfg = false -> u_n1xx u = 0%nat) ->
  match proxy_handle T H deleted td cfg q o with
  | NoResponse => True
  | Resp s h =>
      hget k h = match effective T cfg k with Some v => [VStr v] | None => [] end \/
      (outcome_is_auth401 o = true /\ k = k_xcto /\ hget k h = [VStr v_nosniff] /\ s = 401)
  end.
Proof.
  intros Hin Hd Htd H1. destruct (three_facts k Hin) as [Hok [Hh _]].
  apply protected_header; [exact Hok | exact Hh|].
  destruct o as [|cs us u]; [exact I|]. split; [left; exact Hd | split; [apply (H1 cs us u eq_refl) | intros _; left; exact Htd]].
Qed.

(* HSTS, for ANY deletion lists that contain it (the repaired code): with secure cookies every
   response carries exactly the proxy's value *)
Theorem hsts_repaired deleted td cfg q o :
  mem_str hsts_k (map canon deleted) = true -> mem_str hsts_k (map canon td) = true ->
  c_secure cfg = true ->
  (forall cs us u, o = OForward cs us u -> c_replace cfg = false -> u_n1xx u = 0%nat) ->
  match proxy_handle T H deleted td cfg q o with
  | NoResponse => True
  | Resp _ h => hget hsts_k h = [VStr (snd H)]
  end.
Proof.
  intros Hd Htd Hs H1. apply hsts_header; [exact hsts_key_ok | exact hsts_ne_xcto | exact Hs|].
  destruct o as [|cs us u]; [exact I|]. split; [left; exact Hd | split; [apply (H1 cs us u eq_refl) | intros _; left; exact Htd]].
Qed.

(* HSTS on today's tree (partial): it holds on every response the proxy produces itself, and on
   forwarded responses when the upstream sends no Strict-Transport-Security header or trailer
   (and, without TimeoutHandler, no 1xx response) *)
Theorem hsts_today_partial cfg q o :
  c_secure cfg = true ->
  match o with
  | OLocal _ _ _ _ => True
  | OForward _ _ u =>
      (mem_str hsts_k (map canon D) = true \/ line_hits hsts_k (u_lines u) = false) /\
      (c_replace cfg = false -> u_n1xx u = 0%nat) /\
      (c_replace cfg = true -> mem_str hsts_k (map canon TD) = true \/ line_hits hsts_k (u_trailers u) = false)
  end ->
  match proxy_handle T H D TD cfg q o with
  | NoResponse => True
  | Resp _ h => hget hsts_k h = [VStr (snd H)]
  end.
Proof.
  intros Hs Hb. apply hsts_header; [exact hsts_key_ok | exact hsts_ne_xcto | exact Hs|].
  destruct o; [exact I | exact Hb].
Qed.

(* ------------------------------------------------------------------------------------------ *)
(* refutations: the code shape of today's tree — ModifyResponse deletes exactly the table's keys
   from the upstream's headers and nothing from its trailers *)

Definition D_today : list str := map fst T.
Definition TD_today : list str := [].

Definition cfg_w (replace : bool) : config :=
  {| c_overrides := []; c_secure := true; c_httponly := true; c_cookie_domain := [];
     c_cookie_name := bs "_sso_proxy"; c_replace := replace |}.
Definition q_w : request :=
  {| q_scheme := []; q_xfp := bs "https"; q_host := bs "app.example.test"; q_path := bs "/";
     q_rawquery := []; q_get := true |}.
Definition u_hsts : upstream :=
  {| u_n1xx := 0; u_status := 200; u_lines := [(bs "Strict-Transport-Security", bs "max-age=0")];
     u_announced := []; u_trailers := [] |}.
Definition u_trailer : upstream :=
  {| u_n1xx := 0; u_status := 200; u_lines := [(bs "Trailer", bs "X-Frame-Options")];
     u_announced := [bs "X-Frame-Options"]; u_trailers := [(bs "X-Frame-Options", bs "ALLOWALL")] |}.
Definition u_1xx : upstream :=
  {| u_n1xx := 1; u_status := 200; u_lines := []; u_announced := []; u_trailers := [] |}.

(* K1: under http.TimeoutHandler (the default: timeout set, no flush interval) the upstream's
   Strict-Transport-Security REPLACES the proxy's *)
Lemma hsts_refuted_replace :
  c_secure (cfg_w true) = true /\
  exists h, proxy_handle T H D_today TD_today (cfg_w true) q_w (OForward [] None u_hsts) = Resp 200 h /\
            hget hsts_k h = [VStr (bs "max-age=0")].
Proof. split; [reflexivity|]. eexists. split; vm_compute; reflexivity. Qed.

(* K2: without it (flush_interval set) the response carries two values *)
Lemma hsts_refuted_append :
  c_secure (cfg_w false) = true /\
  exists h, proxy_handle T H D_today TD_today (cfg_w false) q_w (OForward [] None u_hsts) = Resp 200 h /\
            hget hsts_k h = [VStr (snd H); VStr (bs "max-age=0")].
Proof. split; [reflexivity|]. eexists. split; vm_compute; reflexivity. Qed.

(* K4: under http.TimeoutHandler an announced trailer named like a protected header replaces it *)
Lemma three_refuted_trailer :
  exists h, proxy_handle T H D_today TD_today (cfg_w true) q_w (OForward [] None u_trailer) = Resp 200 h /\
            hget k_xfo h = [VStr (bs "ALLOWALL")] /\ tbl_lookup k_xfo (c_overrides (cfg_w true)) = None.
Proof. eexists. split; [|split]; vm_compute; reflexivity. Qed.

Lemma fold_hdel_nil {A} ds : fold_left (fun (h : hdr A) d => hdel d h) ds [] = [].
Proof. induction ds as [|d ds IH]; [reflexivity | exact IH]. Qed.

(* K3: WHATEVER ModifyResponse deletes — without TimeoutHandler one 1xx response from the upstream
   (103 Early Hints, 100 Continue) makes ReverseProxy clear the real writer's header map: every
   header the middleware chain and the handler had set is gone from the final response *)
Theorem onexx_wipes tbl hsts deleted td cfg q cookies user :
  c_replace cfg = false -> (c_secure cfg && needs_redirect q) = false ->
  proxy_handle tbl hsts deleted td cfg q (OForward cookies user u_1xx) = Resp 200 [].
Proof.
  intros Hr Hn. unfold proxy_handle. rewrite Hn, Hr. unfold forward, u_1xx.
  cbn [u_lines u_announced u_trailers u_n1xx u_status read_lines existsb].
  change (remove_hop hval_str (@nil (str * list hval))) with (@nil (str * list hval)).
  rewrite fold_hdel_nil. reflexivity.
Qed.

Lemma three_refuted_1xx deleted td :
  exists cfg q o h, proxy_handle T H deleted td cfg q o = Resp 200 h /\
    hget k_xcto h = [] /\ hget k_xfo h = [] /\ hget k_xxp h = [] /\ hget hsts_k h = [] /\ c_secure cfg = true.
Proof.
  exists (cfg_w false), q_w, (OForward [] None u_1xx), [].
  split; [apply onexx_wipes; reflexivity | repeat split].
Qed.

(* Observation on the repaired code (ModifyResponse also deletes the four keys from resp.Trailer):
   the transport refills res.Trailer while the body is read, so an upstream that announces and
   sends trailers named like protected headers still has them relayed — but only in the chunked
   TRAILER section (what net/http's client shows in resp.Trailer); the response HEADER fields keep
   exactly the proxy's values, with and without TimeoutHandler. *)
Definition D_rep : list str := D_today ++ [k_hsts].
Definition TD_rep : list str := D_rep.
Definition u_trailers2 : upstream :=
  {| u_n1xx := 0; u_status := 200; u_lines := [(bs "Trailer", bs "Strict-Transport-Security, X-Frame-Options")];
     u_announced := [bs "Strict-Transport-Security"; bs "X-Frame-Options"];
     u_trailers := [(bs "Strict-Transport-Security", bs "max-age=0"); (bs "X-Frame-Options", bs "ALLOWALL")] |}.

Lemma trailers_are_not_headers : forall replace,
  exists h, proxy_handle T H D_rep TD_rep (cfg_w replace) q_w (OForward [] None u_trailers2) = Resp 200 h /\
    hget k_xfo h = match tbl_lookup k_xfo T with Some v => [VStr v] | None => [] end /\
    hget hsts_k h = [VStr (snd H)] /\
    proxy_trailers T H D_rep TD_rep (cfg_w replace) q_w (OForward [] None u_trailers2) k_xfo = [VStr (bs "ALLOWALL")] /\
    proxy_trailers T H D_rep TD_rep (cfg_w replace) q_w (OForward [] None u_trailers2) hsts_k = [VStr (bs "max-age=0")].
Proof. intros [|]; eexists; repeat split; vm_compute; reflexivity. Qed.

(* non-vacuity: one concrete response per outcome class *)
Definition show (r : result) : N * list (list hval) :=
  match r with
  | Resp s h => (s, [hget k_xcto h; hget k_xfo h; hget k_xxp h; hget hsts_k h])
  | NoResponse => (0, [])
  end.
Definition expected_hdrs : list (list hval) :=   (* whatever values the tables have today *)
  map (fun k => match tbl_lookup k T with Some v => [VStr v] | None => [] end) three ++ [[VStr (snd H)]].
Definition all_classes : list lclass :=
  [LSignIn; LErrorPage 401; LErrorPage 403; LErrorPage 500; LXhr 401; LCallbackOk; LSignOut; LCerts; LRobots;
   LFavicon404; LAuthOnly202; LAuthOnly401; LMuxRedirect; LBadGateway; LTimeout].
Example nv_every_class :
  map (fun c => show (proxy_handle T H D TD (cfg_w true) q_w (OLocal c [CkSession true] None (bs "/x")))) all_classes =
  map (fun c => (lclass_status c, expected_hdrs)) all_classes.
Proof. vm_compute. reflexivity. Qed.
Example nv_forward :
  show (proxy_handle T H D TD (cfg_w true) q_w
          (OForward [] (Some (bs "a@b.c"))
             {| u_n1xx := 0; u_status := 200; u_lines := [(bs "x-frame-options", bs "ALLOWALL"); (bs "X-Frame-Options", [])];
                u_announced := []; u_trailers := [] |})) = (200, expected_hdrs).
Proof. vm_compute. reflexivity. Qed.
Example nv_redirect :
  match proxy_handle T H D TD (cfg_w true)
          {| q_scheme := []; q_xfp := bs "http"; q_host := bs "app.example.test:8080"; q_path := bs "/a b/?";
             q_rawquery := bs "x=1"; q_get := true |} (OLocal LCerts [] None []) with
  | Resp s h => (s, hget k_location h)
  | NoResponse => (0, [])
  end = (301, [VStr (bs "https://app.example.test:8080/a%20b/%3F?x=1")]).
Proof. vm_compute. reflexivity. Qed.

(* ------------------------------------------------------------------------------------------ *)
(* sso-auth *)

Definition AT := auth_security_headers.
Definition auth_names : list str :=
  [bs "Content-Security-Policy"; bs "Referrer-Policy"; k_hsts; k_xcto; k_xfo; k_xxp].

Definition auth_table_ok : bool :=
  forallb (fun k => is_some (tbl_lookup k AT)) auth_names &&
  option_eqb str_eqb (tbl_lookup k_xcto AT) (Some v_nosniff) &&
  forallb (fun kv => negb (str_eqb (canon (fst kv)) k_set_cookie) && negb (str_eqb (canon (fst kv)) k_content_type) &&
                     negb (str_eqb (canon (fst kv)) k_content_length)) AT.
Lemma auth_table_ok_true : auth_table_ok = true.
Proof. vm_compute. reflexivity. Qed.

Lemma auth_xcto : tbl_lookup k_xcto AT = Some v_nosniff. Proof. vm_compute. reflexivity. Qed.

(* an authenticator handler: Sets headers that are not in the table, adds cookies, or calls http.Error *)
Definition aop_ok (o : aop) : bool :=
  match o with
  | ASet k' _ => negb (is_some (tbl_lookup (canon k') AT))
  | _ => true
  end.

Lemma lookup_hit_key k tbl v : tbl_lookup k tbl = Some v -> exists kv, In kv tbl /\ str_eqb k (canon (fst kv)) = true.
Proof.
  induction tbl as [|x tbl IH] using rev_ind; [discriminate|].
  rewrite tbl_lookup_app. destruct (str_eqb k (canon (fst x))) eqn:E.
  - intros _. exists x. split; [apply in_or_app; right; left; reflexivity | exact E].
  - intros Hl. destruct (IH Hl) as [kv [Hin Hk]]. exists kv. split; [apply in_or_app; left; exact Hin | exact Hk].
Qed.

Theorem auth_headers_gen ops k v :
  forallb aop_ok ops = true -> tbl_lookup k AT = Some v ->
  hget k (auth_handle AT ops) = [VStr v].
Proof.
  intros Hops Hk. apply auth_headers; [exact Hk | exact auth_xcto|].
  apply Forall_forall. intros o Ho. rewrite forallb_forall in Hops. specialize (Hops o Ho).
  destruct (lookup_hit_key k AT v Hk) as [kv [Hin Hkv]]. apply str_eqb_eq in Hkv.
  pose proof auth_table_ok_true as Tok. unfold auth_table_ok in Tok.
  apply andb_true_iff in Tok as [_ Tok]. rewrite forallb_forall in Tok. specialize (Tok kv Hin).
  rewrite <- Hkv in Tok. apply andb_true_iff in Tok as [Tok T3]. apply andb_true_iff in Tok as [T1 T2].
  apply negb_true_iff in T1, T2, T3.
  destruct o as [k' v'|l|]; cbn [aop_hits aop_ok] in *.
  - destruct (str_eqb k (canon k')) eqn:E; [|reflexivity]. apply str_eqb_eq in E.
    rewrite <- E, Hk in Hops. discriminate.
  - exact T1.
  - rewrite T2, T3. reflexivity.
Qed.

(* ------------------------------------------------------------------------------------------ *)
(* instances used by props/C18.v *)

Theorem https_redirect_gen cfg q :
  c_secure cfg = true -> needs_redirect q = true ->
  forall o, exists h,
    proxy_handle T H D TD cfg q o = Resp 301 h /\
    h = fold_left (apply_op cfg (q_host q)) (redirect_ops q) (chain_headers T H cfg) /\
    hget k_location h = [VStr (location_of q)] /\ hget hsts_k h = [VStr (snd H)].
Proof.
  intros Hs Hr o. destruct (https_redirect T H D TD cfg q Hs Hr o) as [h [P1 [P2 P3]]].
  exists h. split; [exact P1 | split; [exact P2 | split; [exact P3|]]]. subst h.
  rewrite hget_apply_ops by (apply redirect_ops_nohit; exact hsts_key_ok).
  rewrite hget_chain, Hs. unfold hsts_k. rewrite str_eqb_refl. reflexivity.
Qed.

Theorem local_cookies_gen cfg q c cookies user loc :
  cookie_name_valid (c_cookie_name cfg) = true ->
  tbl_lookup k_set_cookie (c_overrides cfg) = None ->
  (c_secure cfg && needs_redirect q) = false ->
  match proxy_handle T H D TD cfg q (OLocal c cookies user loc) with
  | NoResponse => False
  | Resp _ h => hget k_set_cookie h = map (fun op => VCookie (cookie_of_op cfg (q_host q) op)) cookies
  end.
Proof.
  intros Hn Ho Hr. apply local_cookies; [exact Hn | exact Ho | | | exact Hr]; vm_compute; reflexivity.
Qed.

(* the process (cmd/sso-auth after d58c694): every response - the TimeoutHandler's own 503 included -
   carries every header of the table with exactly its value *)
Lemma auth_keys_not_gap : forallb (fun kv => negb (str_eqb (canon (fst kv)) (canon k_gap_auth))) AT = true.
Proof. vm_compute. reflexivity. Qed.

Theorem auth_process_headers fired ops k v :
  forallb aop_ok ops = true -> tbl_lookup k AT = Some v -> hget k (auth_process AT fired ops) = [VStr v].
Proof.
  intros Hops Hk. unfold auth_process, hdel. rewrite hget_hdel_raw.
  destruct (lookup_hit_key k AT v Hk) as [kv [Hin Hkv]]. apply str_eqb_eq in Hkv.
  pose proof auth_keys_not_gap as G. rewrite forallb_forall in G. specialize (G kv Hin).
  rewrite <- Hkv in G. apply negb_true_iff in G. rewrite G.
  assert (Ho : hget k (set_all VStr AT []) = [VStr v]) by (rewrite hget_set_all, Hk; reflexivity).
  destruct fired; [exact Ho|].
  rewrite hget_merge_replace. destruct (hhas k (auth_handle AT ops)); [apply auth_headers_gen; assumption | exact Ho].
Qed.

(* ------------------------------------------------------------------------------------------ *)
(* PROTECTIVENESS of the generated tables: a weakened source (X-Frame-Options: ALLOWALL, a short
   max-age, X-XSS-Protection: 0, ...) breaks these; strengthening does not *)
Definition proxy_tables_protective : bool :=
  forallb (fun k => match tbl_lookup k T with Some v => protective k v | None => false end) three &&
  protective hsts_k (snd H) &&
  (* every other entry of the table too (no requirement for names the predicate does not know) *)
  forallb (fun kv => protective (canon (fst kv)) (snd kv)) T.
Lemma proxy_tables_protective_true : proxy_tables_protective = true.
Proof. vm_compute. reflexivity. Qed.

Lemma three_protective k tv : In k three -> tbl_lookup k T = Some tv -> protective k tv = true.
Proof.
  intros Hin Ht. pose proof proxy_tables_protective_true as P. unfold proxy_tables_protective in P.
  apply andb_true_iff in P as [P _]. apply andb_true_iff in P as [P _].
  rewrite forallb_forall in P. specialize (P k Hin). rewrite Ht in P. exact P.
Qed.
Lemma hsts_protective : protective hsts_k (snd H) = true.
Proof. vm_compute. reflexivity. Qed.

(* the auth table: canonical keys distinct (so every entry is the value of its key), the six names
   present, every entry protective *)
Definition auth_table_protective : bool :=
  forallb (fun kv => option_eqb str_eqb (tbl_lookup (canon (fst kv)) AT) (Some (snd kv))) AT &&
  forallb (fun k => match tbl_lookup k AT with Some v => protective k v | None => false end) auth_names &&
  forallb (fun kv => protective (canon (fst kv)) (snd kv)) AT.
Lemma auth_table_protective_true : auth_table_protective = true.
Proof. vm_compute. reflexivity. Qed.
