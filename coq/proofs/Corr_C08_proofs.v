(* The monitor of Corr_C08 accepts the model's own prediction for every request, every oracle
   table and every provider script, as soon as the generator's intent lists are consistent with
   the request ([sane], which [judge] checks on every case): this ties the boolean specification
   that is applied to the implementation's observations to the theorems of AuthBack_proofs. *)
From V Require Import Base Base_proofs CorrBase AuthBack AuthBack_proofs Corr_C08.
From Coq Require Import ZifyN ZifyNat ZifyBool.

Lemma strs_eqb_refl a : strs_eqb a a = true.
Proof. apply strs_eqb_eq. reflexivity. Qed.

Lemma has_field_no_body : has_field no_body = false.
Proof. reflexivity. Qed.

Lemma handler_body_2xx cfg e h r fs :
  has_field (rs_body (run_handler cfg e h r fs)) = true -> is_2xx (rs_status (run_handler cfg e h r fs)) = true.
Proof.
  destruct h; simpl; unfold get_profile, validate_token, redeem, refresh.
  - destruct (is_nil (form_get k_email _)); [discriminate|].
    destruct (e_groups e) as [gs|pe]; [reflexivity | discriminate].
  - destruct (is_nil _); [discriminate|]. destruct (e_valid e); discriminate.
  - destruct (parse_form r fs) as [fs' er]. destruct er; [discriminate|].
    destruct (unseal _ _ _); [|discriminate]. destruct (_ || _)%bool; [discriminate | reflexivity].
  - destruct (parse_form r fs) as [fs' er]. destruct er; [discriminate|].
    destruct (is_nil _); [discriminate|]. destruct (e_refresh e); [reflexivity | discriminate].
Qed.

Lemma serve_body_2xx cfg e pre r :
  has_field (rs_body (serve cfg e pre r)) = true -> is_2xx (rs_status (serve cfg e pre r)) = true.
Proof.
  unfold serve, serve_table.
  destruct (find_route (rq_path r) routes) as [rt|] eqn:Ef; [|discriminate].
  apply find_route_in in Ef as [Hin _].
  assert (Hb : both_gates rt) by (pose proof routes_all_gated as H; rewrite Forall_forall in H; auto).
  destruct (serve_route_cases cfg e rt r pre Hb) as [[_ ->]|[[_ [_ [_ ->]]]|[[_ [_ [_ ->]]]|[_ [_ [_ ->]]]]]];
    try discriminate.
  apply handler_body_2xx.
Qed.

Lemma forallb_mem_incl (l ids : list str) x :
  forallb (fun v => mem_str v ids) l = true -> In x l -> mem_str x ids = true.
Proof. intros H Hx. rewrite forallb_forall in H. exact (H x Hx). Qed.

Lemma cfg_valid_spec cfg : cfg_valid cfg = true -> cfg_id cfg <> [] /\ cfg_secret cfg <> [].
Proof.
  unfold cfg_valid. intros H. apply andb_true_iff in H as [H1 H2].
  apply negb_true_iff in H1, H2. apply is_nil_false in H1, H2. auto.
Qed.

(* a handler ran => the caller is entitled in the generator's (independent) reading *)
Lemma ran_entitled cfg e pre r ids secrets h :
  cfg_valid cfg = true ->
  forallb (fun v => mem_str v ids) (id_values r) = true ->
  forallb (fun v => mem_str v secrets) (secret_values r) = true ->
  rs_ran (serve cfg e pre r) = Some h -> entitled cfg ids secrets = true.
Proof.
  intros Hv Hi Hs Hr. apply cfg_valid_spec in Hv as [Hv1 Hv2].
  destruct (serve_gate_sound cfg e pre r) as [H1 _]. destruct (H1 h Hr) as [Ei Es].
  unfold entitled. apply andb_true_iff. split.
  - apply (forallb_mem_incl _ _ _ Hi). apply presented_id_known; assumption.
  - apply (forallb_mem_incl _ _ _ Hs). apply presented_secret_known; assumption.
Qed.

Lemma session_eqb_eq a b : session_eqb a b = true -> a = b.
Proof.
  destruct a, b. unfold session_eqb. simpl. rewrite !andb_true_iff.
  intros [[[[H1 H2] H3] H4] H5]. apply str_eqb_eq in H1, H2, H3. apply Z.eqb_eq in H4, H5. congruence.
Qed.

Lemma body_is_session_redeem e s : body_is_session (e_now e) s (redeem_body e s) = true.
Proof.
  unfold body_is_session, redeem_body, opt_str_eqb, expires_close. simpl.
  rewrite !str_eqb_refl. simpl. lia.
Qed.

Theorem monitor_accepts_model : forall now cfg pre r tab ref grp valid ids secrets kind csess leak,
  let e := mk_env now tab ref grp valid in
  let m := serve cfg e pre r in
  cfg_valid cfg = true ->
  sane cfg r e ids secrets kind csess = true ->
  (leak = true -> has_field (rs_body (serve cfg e pre r)) = true) ->
  holds_req now cfg r ids secrets kind csess (rs_status (serve cfg e pre r)) (rs_calls m) (rs_body (serve cfg e pre r)) leak false = true.
Proof.
  intros now cfg pre r tab ref grp valid ids secrets kind csess leak e m Hv Hsane Hleak. subst m.
  unfold sane in Hsane. apply andb_true_iff in Hsane as [Hsane Hcode].
  apply andb_true_iff in Hsane as [Hi Hs].
  assert (HC : (is_2xx (rs_status (serve cfg e pre r)) || (negb (has_field (rs_body (serve cfg e pre r))) && negb leak))%bool = true).
  { destruct (has_field (rs_body (serve cfg e pre r))) eqn:Ef.
    - rewrite (serve_body_2xx cfg e pre r Ef). reflexivity.
    - destruct leak; [specialize (Hleak eq_refl); discriminate Hleak|]. apply orb_true_r. }
  unfold holds_req. rewrite HC, andb_true_r. apply andb_true_iff. split.
  - (* A *)
    destruct (rs_ran (serve cfg e pre r)) as [h|] eqn:Er.
    + rewrite (ran_entitled cfg e pre r ids secrets h Hv Hi Hs Er). reflexivity.
    + destruct (serve_gate_sound cfg e pre r) as [_ H2]. destruct (H2 Er) as [Hc [Hb Hst]].
      apply orb_true_iff. right.
      assert (leak = false) as ->.
      { destruct leak; [|reflexivity]. specialize (Hleak eq_refl). rewrite Hb in Hleak. discriminate Hleak. }
      unfold effects. rewrite Hc, Hb. simpl.
      destruct Hst as [-> | [-> | [-> | ->]]]; reflexivity.
  - (* B *)
    destruct (str_eqb (rq_path r) p_redeem) eqn:Ep; [|reflexivity]. simpl.
    apply str_eqb_eq in Ep. simpl in Hcode.
    destruct (redeem_cases cfg e pre r Ep) as [[_ [Hc [Hb Hst]]]|[_ [_ [[s [Ho [[F1 F2] Hr]]]|[_ Hr]]]]].
    + rewrite Hc, Hb. simpl.
      assert (leak = false) as ->.
      { destruct leak; [|reflexivity]. specialize (Hleak eq_refl). rewrite Hb in Hleak. discriminate Hleak. }
      destruct Hst as [-> | [-> | ->]]; reflexivity.
    + unfold unseal in Hcode. rewrite Ho, N.eqb_refl in Hcode.
      assert (Ex : ((s_refresh_dl s <? now) || (s_lifetime_dl s <? now))%Z = false) by (unfold e in F1, F2; simpl in F1, F2; lia).
      rewrite Ex in Hcode. simpl in Hcode. apply andb_true_iff in Hcode as [Hk Hcs].
      rewrite Hr. simpl. rewrite Hk. simpl.
      destruct csess as [s0|]; [|discriminate Hcs]. simpl in Hcs. apply session_eqb_eq in Hcs. subst s0.
      exact (body_is_session_redeem e s).
    + rewrite Hr. simpl.
      destruct leak; [|reflexivity]. specialize (Hleak eq_refl). rewrite Hr in Hleak. discriminate Hleak.
Qed.

(* so a case whose observation equals the model's prediction is never judged a violation *)
Corollary judge_model_is_fine : forall mode now cfg pre r tab ref grp valid ids secrets kind csess,
  let e := mk_env now tab ref grp valid in
  let m := serve cfg e pre r in
  sane cfg r e ids secrets kind csess = true ->
  judge (CReq mode now cfg (cfg_valid cfg) pre r tab ref grp valid ids secrets kind csess
              (rs_status m) (rs_calls m) (rs_body m) (has_field (rs_body m)) false) = 0.
Proof.
  intros mode now cfg pre r tab ref grp valid ids secrets kind csess e m Hsane.
  unfold judge. fold e. fold m. rewrite Hsane.
  assert (Hb : body_close (if str_eqb (rq_path r) p_redeem then 10%Z else 0%Z) (rs_body m) (rs_body m) = true).
  { unfold body_close, opt_str_eqb, option_eqb, expires_close.
    destruct (rs_body m) as [a b c d g]; simpl.
    destruct a, b, c, g; simpl; rewrite ?str_eqb_refl; simpl;
      rewrite ?strs_eqb_refl; simpl;
      destruct d; try reflexivity; destruct (str_eqb (rq_path r) p_redeem); lia. }
  rewrite Hb, N.eqb_refl.
  assert (Hc : list_eqb pcall_eqb (rs_calls m) (rs_calls m) = true).
  { apply list_eqb_spec; [|reflexivity]. intros x y. split.
    - destruct x, y; simpl; try discriminate; rewrite ?andb_true_iff;
        [intros H; apply str_eqb_eq in H; congruence
        |intros [[H1 H2] H3]; apply str_eqb_eq in H1, H3; apply strs_eqb_eq in H2; congruence
        |intros H; apply str_eqb_eq in H; congruence].
    - intros <-. destruct x; simpl; rewrite ?str_eqb_refl, ?strs_eqb_refl; reflexivity. }
  rewrite Hc. assert (bool_eqb (cfg_valid cfg) (cfg_valid cfg) = true) as -> by (destruct (cfg_valid cfg); reflexivity).
  simpl. destruct (cfg_valid cfg) eqn:Ev; [|reflexivity]. simpl.
  subst m e.
  rewrite (monitor_accepts_model now cfg pre r tab ref grp valid ids secrets kind csess _ Ev Hsane (fun H => H)).
  reflexivity.
Qed.

Lemma has_client_in n cs : has_client n cs = true -> exists v, In (n, v) cs.
Proof.
  induction cs as [|[a v] cs IH]; simpl; [discriminate|].
  rewrite orb_true_iff. intros [H|H].
  - apply str_eqb_eq in H. subst. exists v. left; reflexivity.
  - destruct (IH H) as [w Hw]. exists w. right; exact Hw.
Qed.

Theorem judge_model_config_fine : forall clients,
  judge (CVal clients (clients_validate clients) (fst (new_authenticator_creds clients))
              (snd (new_authenticator_creds clients))) = 0.
Proof.
  intros clients. unfold judge. destruct (new_authenticator_creds clients) as [mid msec] eqn:E. simpl.
  rewrite !str_eqb_refl. assert (bool_eqb (clients_validate clients) (clients_validate clients) = true) as ->
    by (destruct (clients_validate clients); reflexivity). simpl.
  destruct (clients_validate clients) eqn:Ev; [|reflexivity]. simpl.
  destruct (has_client proxy_name clients) eqn:Eh; [|reflexivity]. simpl.
  destruct (validate_gives_guard clients Ev (has_client_in _ _ Eh)) as [H1 H2].
  rewrite E in H1, H2. simpl in H1, H2. apply is_nil_false in H1, H2. rewrite H1, H2. reflexivity.
Qed.
