From V Require Import Base.

Lemma list_eqb_spec {A} (eqb : A -> A -> bool)
  (Heq : forall x y, eqb x y = true <-> x = y) :
  forall a b, list_eqb eqb a b = true <-> a = b.
Proof.
  induction a as [|x a IH]; intros [|y b]; simpl; split; intros H; try congruence; try discriminate.
  - apply andb_true_iff in H as [H1 H2]. apply Heq in H1. apply IH in H2. congruence.
  - inversion H; subst. apply andb_true_iff; split; [apply Heq; reflexivity | apply IH; reflexivity].
Qed.

Lemma str_eqb_eq a b : str_eqb a b = true <-> a = b.
Proof. apply list_eqb_spec. intros; apply N.eqb_eq. Qed.

Lemma str_eqb_refl a : str_eqb a a = true.
Proof. apply str_eqb_eq; reflexivity. Qed.

Lemma str_eqb_neq a b : str_eqb a b = false <-> a <> b.
Proof.
  split; intros H.
  - intros E. apply str_eqb_eq in E. congruence.
  - destruct (str_eqb a b) eqn:E; [apply str_eqb_eq in E; contradiction | reflexivity].
Qed.

Lemma strs_eqb_eq a b : strs_eqb a b = true <-> a = b.
Proof. apply list_eqb_spec. intros; apply str_eqb_eq. Qed.

Lemma mem_str_In x l : mem_str x l = true <-> In x l.
Proof.
  induction l as [|y l IH]; simpl; [split; [discriminate | tauto]|].
  rewrite orb_true_iff, IH, str_eqb_eq. split; intros [H|H]; auto.
Qed.

Lemma has_prefix_spec s p : has_prefix s p = true <-> exists r, s = p ++ r.
Proof.
  revert s; induction p as [|c p IH]; intros s; simpl.
  - split; [intros _; exists s; reflexivity | reflexivity].
  - destruct s as [|d s]; [split; [discriminate | intros [r Hr]; discriminate]|].
    rewrite andb_true_iff, N.eqb_eq, IH. split.
    + intros [-> [r ->]]. exists r; reflexivity.
    + intros [r Hr]. inversion Hr; subst. split; [reflexivity | exists r; reflexivity].
Qed.

Lemma has_suffix_spec s suf : has_suffix s suf = true <-> exists r, s = r ++ suf.
Proof.
  unfold has_suffix. rewrite has_prefix_spec. split; intros [r Hr].
  - exists (rev r). rewrite <- (rev_involutive s), Hr, rev_app_distr, rev_involutive. reflexivity.
  - exists (rev r). rewrite Hr, rev_app_distr. reflexivity.
Qed.

Lemma positions_from_nil i l : positions_from i l = [] <-> Forall (fun b => b = false) l.
Proof.
  revert i; induction l as [|b l IH]; intros i; simpl.
  - split; auto.
  - destruct b.
    + split; [discriminate | intros H; inversion H; discriminate].
    + rewrite IH. split; intros H; [constructor; auto | inversion H; auto].
Qed.
