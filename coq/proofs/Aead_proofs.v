(* Proofs about Aead.v: round trip, symbolic authenticity (nothing opens that was not sealed under
   the key), wrong key / truncation / extension / byte change, freshness, canonicity (strict mode),
   malleability of the lax mode /repo uses today, and the free instance of the ideal AEAD. *)
From V Require Import Base Base_proofs B64 B64_proofs Aead.
From Coq Require Import ZifyN ZifyNat ZifyBool.

(* ---- list helpers ----------------------------------------------------------------------------- *)
Lemma app_inj_head_len {A} (a a' b b' : list A) :
  length a = length a' -> a ++ b = a' ++ b' -> a = a' /\ b = b'.
Proof.
  revert a'. induction a as [|x a IH]; intros [|y a'] Hl H; cbn in *; try discriminate; [auto|].
  inversion H; subst. destruct (IH a' ltac:(lia) H2) as [-> ->]. auto.
Qed.

Lemma app_inj_tail_len {A} (a a' b b' : list A) :
  length b = length b' -> a ++ b = a' ++ b' -> a = a' /\ b = b'.
Proof.
  intros Hl H. apply app_inj_head_len; [|exact H].
  apply (f_equal (@length A)) in H. rewrite !app_length in H. lia.
Qed.

Lemma firstn_length_app {A} (a b : list A) : firstn (length a) (a ++ b) = a.
Proof. induction a as [|x a IH]; cbn; [destruct b; reflexivity | rewrite IH; reflexivity]. Qed.

Lemma skipn_length_app {A} (a b : list A) : skipn (length a) (a ++ b) = b.
Proof. induction a as [|x a IH]; cbn; [reflexivity | exact IH]. Qed.

Lemma set_nth_length i x l : length (set_nth i x l) = length l.
Proof. revert i; induction l as [|y l IH]; intros [|i]; cbn; try reflexivity. rewrite IH; reflexivity. Qed.

Lemma set_nth_neq i x l : (i < length l)%nat -> nth i l 0 <> x -> set_nth i x l <> l.
Proof.
  revert i; induction l as [|y l IH]; intros [|i] Hl Hx; cbn in *; try lia.
  - intros E. inversion E. congruence.
  - intros E. inversion E as [E']. revert E'. apply IH; [lia | exact Hx].
Qed.

(* ---- the free instance of the ideal AEAD ------------------------------------------------------ *)
Lemma free_open_seal k n c p : free_open k n c = Some p <-> c = free_seal k n p.
Proof.
  unfold free_open, free_seal. set (pre := k :: N.of_nat (length n) :: n).
  change (k :: N.of_nat (length n) :: n ++ p) with (pre ++ p).
  destruct (has_prefix c pre) eqn:E.
  - apply has_prefix_spec in E as [r ->]. rewrite skipn_length_app. split; intros H.
    + inversion H; reflexivity.
    + apply app_inv_head in H. rewrite H. reflexivity.
  - split; [discriminate|]. intros ->.
    assert (has_prefix (pre ++ p) pre = true) by (apply has_prefix_spec; exists p; reflexivity). congruence.
Qed.

Lemma free_seal_free k n p k' n' p' :
  free_seal k n p = free_seal k' n' p' -> k = k' /\ n = n' /\ p = p'.
Proof.
  unfold free_seal. intros H. inversion H as [[Hk Hl Hr]]. apply Nnat.Nat2N.inj in Hl.
  destruct (app_inj_head_len _ _ _ _ Hl Hr) as [-> ->]. auto.
Qed.

Lemma free_seal_nonempty k n p : free_seal k n p <> [].
Proof. discriminate. Qed.

Definition free_aead : ideal_aead N :=
  {| seal := free_seal; open := free_open; open_seal := free_open_seal;
     seal_free := free_seal_free; seal_nonempty := free_seal_nonempty |}.

(* ---- framing theorems, for every ideal AEAD and every codec with a left inverse ---------------- *)
Section Proofs.
  Context {K V : Type}.
  Variable A : ideal_aead K.
  Variable codec : V -> str.
  Variable uncodec : str -> option V.
  Hypothesis codec_left : forall v, uncodec (codec v) = Some v.

  Notation enc := (encrypt (seal A)).
  Notation dec := (decrypt (open A)).
  Notation mar := (marshal (seal A) codec).
  Notation unm := (unmarshal (open A) uncodec).

  Lemma codec_inj v v' : codec v = codec v' -> v = v'.
  Proof. intros H. pose proof (codec_left v) as E. rewrite H, codec_left in E. congruence. Qed.

  (* Decrypt splits exactly where Encrypt joined *)
  Lemma decrypt_encrypt k k' n p :
    length n = 16%nat -> dec k' (enc k n p) = open A k' n (seal A k n p).
  Proof.
    intros Hn. unfold decrypt, encrypt, nonce_size.
    pose proof (seal_nonempty A k n p) as Hne.
    destruct (N.of_nat (length (seal A k n p ++ n)) <=? 16) eqn:E.
    - rewrite app_length in E. destruct (seal A k n p); [congruence | cbn [length] in E; lia].
    - replace (length (seal A k n p ++ n) - N.to_nat 16)%nat with (length (seal A k n p))
        by (rewrite app_length; lia).
      rewrite firstn_length_app, skipn_length_app. reflexivity.
  Qed.

  (* whatever Decrypt opens is a complete joined form built by Encrypt under the same key *)
  Lemma decrypt_inv k j p : dec k j = Some p -> exists n, length n = 16%nat /\ j = enc k n p.
  Proof.
    unfold decrypt, encrypt, nonce_size. destruct (N.of_nat (length j) <=? 16) eqn:E; [discriminate|].
    set (pivot := (length j - N.to_nat 16)%nat). intros H. apply (open_seal A) in H.
    exists (skipn pivot j). split.
    - rewrite skipn_length. subst pivot. lia.
    - rewrite <- H. symmetry. apply firstn_skipn.
  Qed.

  Lemma decode_value_encode m b : bytes_ok b -> decode_value m (b64url_encode b) = Some b.
  Proof.
    intros H. unfold decode_value. rewrite encode_no_crlf, andb_false_r. apply b64_roundtrip; exact H.
  Qed.

  (* round trip *)
  Theorem roundtrip m k n v :
    length n = 16%nat -> bytes_ok (enc k n (codec v)) -> unm m k (mar k n v) = Some v.
  Proof.
    intros Hn Hb. unfold unmarshal, marshal. rewrite (decode_value_encode m _ Hb), (decrypt_encrypt k k n _ Hn).
    rewrite (proj2 (open_seal A k n _ (codec v)) eq_refl). apply codec_left.
  Qed.

  (* symbolic authenticity *)
  Theorem reject_unsealed m k s v :
    unm m k s = Some v ->
    exists n p, length n = 16%nat /\ decode_value m s = Some (enc k n p) /\ uncodec p = Some v /\
                (forall v', p = codec v' -> v' = v).
  Proof.
    unfold unmarshal. destruct (decode_value m s) as [j|] eqn:Ed; [|discriminate].
    destruct (dec k j) as [p|] eqn:Ep; [|discriminate]. intros Hu.
    destruct (decrypt_inv k j p Ep) as [n [Hn ->]]. exists n, p. repeat split; auto.
    intros v' ->. rewrite codec_left in Hu. congruence.
  Qed.

  (* with an exact partial inverse the payload is literally codec v *)
  Theorem reject_unsealed_exact m k s v :
    (forall p w, uncodec p = Some w -> p = codec w) ->
    unm m k s = Some v -> exists n, length n = 16%nat /\ decode_value m s = Some (enc k n (codec v)).
  Proof.
    intros Hex H. destruct (reject_unsealed m k s v H) as [n [p [Hn [Hd [Hu _]]]]].
    exists n. rewrite <- (Hex p v Hu). auto.
  Qed.

  (* wrong key *)
  Theorem wrong_key_decoded k k' n p : k' <> k -> length n = 16%nat -> dec k' (enc k n p) = None.
  Proof.
    intros Hk Hn. rewrite (decrypt_encrypt k k' n p Hn).
    destruct (open A k' n (seal A k n p)) as [p'|] eqn:E; [|reflexivity].
    apply (open_seal A) in E. apply (seal_free A) in E as [E _]. congruence.
  Qed.

  Theorem wrong_key m k k' n v :
    k' <> k -> length n = 16%nat -> bytes_ok (enc k n (codec v)) -> unm m k' (mar k n v) = None.
  Proof.
    intros Hk Hn Hb. unfold unmarshal, marshal.
    rewrite (decode_value_encode m _ Hb), (wrong_key_decoded k k' n _ Hk Hn). reflexivity.
  Qed.

  (* any decoded form other than the genuine one opens only if it is, in its entirety, ANOTHER
     genuine seal under the same key (another nonce or another plaintext) *)
  Definition another_seal (k : K) (n p j' p' : str) : Prop :=
    exists n', length n' = 16%nat /\ j' = enc k n' p' /\ (n', p') <> (n, p).

  Theorem modified k n p j' p' :
    j' <> enc k n p -> dec k j' = Some p' -> another_seal k n p j' p'.
  Proof.
    intros Hne H. destruct (decrypt_inv k j' p' H) as [n' [Hn' ->]]. exists n'. repeat split; auto.
    intros E. inversion E; subst. congruence.
  Qed.

  Theorem truncate k n p i p' :
    (i < length (enc k n p))%nat -> dec k (firstn i (enc k n p)) = Some p' ->
    another_seal k n p (firstn i (enc k n p)) p'.
  Proof.
    intros Hi. apply modified. intros E. apply (f_equal (@length N)) in E. rewrite firstn_length in E. lia.
  Qed.

  Theorem extend k n p x p' :
    x <> [] -> dec k (enc k n p ++ x) = Some p' -> another_seal k n p (enc k n p ++ x) p'.
  Proof.
    intros Hx. apply modified. intros E. apply (f_equal (@length N)) in E. rewrite app_length in E.
    destruct x; [congruence | cbn [length] in E; lia].
  Qed.

  Theorem flip k n p i x p' :
    (i < length (enc k n p))%nat -> nth i (enc k n p) 0 <> x ->
    dec k (set_nth i x (enc k n p)) = Some p' -> another_seal k n p (set_nth i x (enc k n p)) p'.
  Proof. intros Hi Hx. apply modified. apply set_nth_neq; assumption. Qed.

  (* a truncation to at most 16 bytes never opens: the length check *)
  Theorem too_short k j : (length j <= 16)%nat -> dec k j = None.
  Proof. intros H. unfold decrypt, nonce_size. replace (N.of_nat (length j) <=? 16) with true by lia. reflexivity. Qed.

  (* sealing is injective in (key, nonce, value); in particular two seals of the same value with
     different nonces are different strings *)
  Theorem marshal_inj k n v k' n' v' :
    length n = length n' -> bytes_ok (enc k n (codec v)) -> bytes_ok (enc k' n' (codec v')) ->
    mar k n v = mar k' n' v' -> k = k' /\ n = n' /\ v = v'.
  Proof.
    intros Hl Hb Hb' H. unfold marshal in H. apply b64_encode_inj in H; [|assumption|assumption].
    unfold encrypt in H. apply app_inj_tail_len in H as [H1 H2]; [|exact Hl].
    apply (seal_free A) in H1 as [-> [_ Hc]]. apply codec_inj in Hc. auto.
  Qed.

  Theorem fresh k n1 n2 v :
    length n1 = length n2 -> bytes_ok (enc k n1 (codec v)) -> bytes_ok (enc k n2 (codec v)) ->
    n1 <> n2 -> mar k n1 v <> mar k n2 v.
  Proof. intros Hl H1 H2 Hn E. apply marshal_inj in E as [_ [E _]]; auto. Qed.

  (* canonicity in the strict mode: the ONLY strings that open are literally Marshal outputs *)
  Theorem canonical_strict m k s v :
    m_strict m = true -> m_nocrlf m = true -> unm m k s = Some v ->
    exists n p, length n = 16%nat /\ s = b64url_encode (enc k n p) /\ uncodec p = Some v /\
                (forall v', p = codec v' -> v' = v).
  Proof.
    intros Hs Hc H. destruct (reject_unsealed m k s v H) as [n [p [Hn [Hd [Hu Hv]]]]].
    exists n, p. repeat split; auto. unfold decode_value in Hd. rewrite Hs, Hc in Hd. cbn [andb] in Hd.
    destruct (has_crlf s) eqn:E; [discriminate|]. apply b64_canonical_strict; assumption.
  Qed.

  (* the strongest true statement for every mode: the presented string, after dropping CR/LF and
     clearing the ignored bits of its last character, is literally a Marshal output *)
  Theorem canonical_partial m k s v :
    unm m k s = Some v ->
    exists n p, length n = 16%nat /\ normalize s = Some (b64url_encode (enc k n p)) /\ uncodec p = Some v.
  Proof.
    intros H. destruct (reject_unsealed m k s v H) as [n [p [Hn [Hd [Hu _]]]]].
    exists n, p. repeat split; auto. unfold decode_value in Hd.
    destruct (m_nocrlf m && has_crlf s); [discriminate|]. eapply b64_canonical_partial; exact Hd.
  Qed.

  Theorem canonical_len4 m k s v :
    has_crlf s = false -> (length s mod 4 = 0)%nat -> unm m k s = Some v ->
    exists n p, length n = 16%nat /\ s = b64url_encode (enc k n p) /\ uncodec p = Some v.
  Proof.
    intros Hc Hl H. destruct (reject_unsealed m k s v H) as [n [p [Hn [Hd [Hu _]]]]].
    exists n, p. repeat split; auto. unfold decode_value in Hd.
    destruct (m_nocrlf m && has_crlf s); [discriminate|]. eapply b64_canonical_len4; eassumption.
  Qed.

  (* today's mode: a CR or LF inserted anywhere changes nothing — universal malleability *)
  Theorem crlf_malleable m k c a b :
    m_nocrlf m = false -> is_crlf c = true -> unm m k (a ++ c :: b) = unm m k (a ++ b).
  Proof.
    intros Hm Hc. unfold unmarshal, decode_value. rewrite Hm. cbn [andb].
    rewrite (decode_insert_crlf _ c a b Hc). reflexivity.
  Qed.

  (* the sealed string depends on the value only through seal's output (confidentiality of seal
     itself is an assumption about the primitive, not a theorem) *)
  Theorem opaque_partial :
    exists f : str -> str -> str, forall k n v, mar k n v = f (seal A k n (codec v)) n.
  Proof. exists (fun c n => b64url_encode (c ++ n)). reflexivity. Qed.
End Proofs.

(* ---- witnesses on the free instance (V = plaintext, identity codec) ---------------------------- *)
Definition w_nonce : str := [1; 2; 3; 4; 5; 6; 7; 8; 9; 10; 11; 12; 13; 14; 15; 16].
Definition w_nonce2 : str := [1; 2; 3; 4; 5; 6; 7; 8; 9; 10; 11; 12; 13; 14; 15; 17].
Definition w_mar := marshal (seal free_aead) (fun v : str => v).
Definition w_unm := unmarshal (open free_aead) (fun p : str => Some p).
Definition w_genuine : str := w_mar 7 w_nonce [104].
(* the genuine string with the unused low bits of its last character set *)
Definition w_bits : str := removelast w_genuine ++ [N.succ (last w_genuine 0)].
Definition w_lf : str := firstn 5 w_genuine ++ 10 :: skipn 5 w_genuine.

Example roundtrip_nv : w_unm lax_mode 7 w_genuine = Some [104] /\ w_unm strict_mode 7 w_genuine = Some [104].
Proof. vm_compute. split; reflexivity. Qed.

Example rejected_nv :
  w_unm lax_mode 8 w_genuine = None /\                                   (* wrong key *)
  w_unm lax_mode 7 (firstn 20 w_genuine) = None /\                       (* truncated *)
  w_unm lax_mode 7 (w_genuine ++ [65; 65]) = None /\                     (* extended *)
  w_unm lax_mode 7 (set_nth 3 67 w_genuine) = None /\                    (* a character changed *)
  w_unm lax_mode 7 (w_genuine ++ [61]) = None /\                         (* '=' padding added *)
  w_unm lax_mode 7 [] = None.
Proof. vm_compute. repeat split; reflexivity. Qed.

Example fresh_nv : w_mar 7 w_nonce [104] <> w_mar 7 w_nonce2 [104].
Proof. vm_compute. discriminate. Qed.

(* canonicity is false in today's mode: two strings other than the genuine one open to its value *)
Theorem canonical_refuted :
  exists (k : N) (n : str) (v : str) (s1 s2 : str),
    w_unm repo_mode k (w_mar k n v) = Some v /\
    s1 <> w_mar k n v /\ has_crlf s1 = false /\ w_unm lax_mode k s1 = Some v /\   (* trailing bits *)
    s2 <> w_mar k n v /\ w_unm lax_mode k s2 = Some v.                            (* LF inserted *)
Proof.
  exists 7, w_nonce, [104], w_bits, w_lf. vm_compute. repeat split; try reflexivity; discriminate.
Qed.

(* ... and both witnesses are rejected in the strict mode *)
Example strict_rejects_witnesses : w_unm strict_mode 7 w_bits = None /\ w_unm strict_mode 7 w_lf = None.
Proof. vm_compute. split; reflexivity. Qed.

(* ---- the cookie path ---------------------------------------------------------------------------- *)
(* [sub a b]: a occurs in b as a contiguous substring *)
Definition sub (a b : str) : Prop := exists pre post, b = pre ++ a ++ post.

Lemma sub_refl a : sub a a.
Proof. exists [], []. rewrite app_nil_r. reflexivity. Qed.

Lemma sub_trans a b c : sub a b -> sub b c -> sub a c.
Proof.
  intros [p1 [q1 ->]] [p2 [q2 ->]]. exists (p2 ++ p1), (q1 ++ q2). rewrite !app_assoc. reflexivity.
Qed.

Lemma sub_cons a c b : sub a b -> sub a (c :: b).
Proof. intros [p [q ->]]. exists (c :: p), q. reflexivity. Qed.

Lemma trim_left_sub s : sub (trim_left s) s.
Proof.
  induction s as [|c s IH]; cbn [trim_left]; [apply sub_refl|].
  destruct (is_ows c); [apply sub_cons; exact IH | apply sub_refl].
Qed.

Lemma trim_right_prefix s : exists post, s = trim_right s ++ post.
Proof.
  induction s as [|c s [post IH]]; cbn [trim_right]; [exists []; reflexivity|].
  destruct (trim_right s) as [|x r] eqn:E.
  - destruct (is_ows c); [exists (c :: s); reflexivity | exists s; reflexivity].
  - exists post. cbn [app]. f_equal. exact IH.
Qed.

Lemma trim_sub s : sub (trim s) s.
Proof.
  unfold trim. apply sub_trans with (trim_left s); [|apply trim_left_sub].
  destruct (trim_right_prefix (trim_left s)) as [post H]. exists [], post. exact H.
Qed.

Lemma split_on_sub sep s :
  (forall x r, split_on sep s = x :: r -> exists post, s = x ++ post) /\
  (forall p, In p (split_on sep s) -> sub p s).
Proof.
  induction s as [|c s [IH1 IH2]]; cbn [split_on].
  - split; [intros x r H; inversion H; subst; exists []; reflexivity|].
    intros p [<-|[]]. apply sub_refl.
  - destruct (c =? sep) eqn:Ec.
    + split; [intros x r H; inversion H; subst; exists (c :: s); reflexivity|].
      intros p [<-|H]; [exists [], (c :: s); reflexivity | apply sub_cons, IH2, H].
    + destruct (split_on sep s) as [|x r] eqn:Es.
      * split; [intros x r H; inversion H; subst; exists s; reflexivity|].
        intros p [<-|[]]. exists [], s. reflexivity.
      * destruct (IH1 x r eq_refl) as [post Hp]. split.
        -- intros x' r' H; inversion H; subst x' r'. exists post. cbn [app]. f_equal. exact Hp.
        -- intros p [<-|H].
           ++ exists [], post. cbn [app]. f_equal. exact Hp.
           ++ apply sub_cons, IH2. right; exact H.
Qed.

Lemma cut_at_sub sep s a b : cut_at sep s = (a, b) -> sub b s.
Proof.
  revert a b. induction s as [|c s IH]; intros a b H; cbn [cut_at] in H.
  - inversion H; subst. apply sub_refl.
  - destruct (c =? sep).
    + inversion H; subst. exists [c], []. rewrite app_nil_r. reflexivity.
    + destruct (cut_at sep s) as [a' b'] eqn:E. inversion H; subst. apply sub_cons. eapply IH; reflexivity.
Qed.

Lemma strip_quotes_sub raw : sub (strip_quotes raw) raw.
Proof.
  unfold strip_quotes. destruct raw as [|c r]; [apply sub_refl|].
  destruct (rev r) as [|d m] eqn:Er; [apply sub_refl|].
  destruct ((c =? 34) && (d =? 34)) eqn:E; [|apply sub_refl].
  apply andb_true_iff in E as [Ec Ed]. apply N.eqb_eq in Ec, Ed. subst c d.
  exists [34], [34]. rewrite <- (rev_involutive r), Er. cbn [rev app]. reflexivity.
Qed.

Lemma cookie_of_part_sub name part v : cookie_of_part name part = Some v -> sub v part.
Proof.
  unfold cookie_of_part. pose proof (trim_sub part) as Ht. destruct (trim part) as [|c p] eqn:E; [discriminate|].
  destruct (cut_at 61 (c :: p)) as [nm val] eqn:Ec. destruct (str_eqb (trim nm) name); [|discriminate].
  unfold parse_cookie_value. destruct (forallb valid_cookie_value_byte (strip_quotes val)); [|discriminate].
  intros H; inversion H; subst v.
  eapply sub_trans; [apply strip_quotes_sub|]. eapply sub_trans; [eapply cut_at_sub; exact Ec | exact Ht].
Qed.

Lemma first_some_inv {A B} (f : A -> option B) l y :
  first_some f l = Some y -> exists x, In x l /\ f x = Some y.
Proof.
  induction l as [|x l IH]; cbn [first_some]; [discriminate|].
  destruct (f x) as [z|] eqn:E.
  - intros H; inversion H; subst. exists x; split; [left; reflexivity | exact E].
  - intros H. destruct (IH H) as [x' [Hin Hx]]. exists x'; split; [right; exact Hin | exact Hx].
Qed.

(* The value LoadSession hands to Unmarshal is, byte for byte, a contiguous piece of one of the
   Cookie header lines, made of valid cookie-value bytes: nothing is decoded, folded or joined. *)
Theorem cookie_lookup_sub name lines cv :
  cookie_lookup name lines = Some cv ->
  (exists line, In line lines /\ sub cv line) /\ forallb valid_cookie_value_byte cv = true.
Proof.
  unfold cookie_lookup. intros H. apply first_some_inv in H as [part [Hin Hp]]. split.
  - apply in_flat_map in Hin as [line [Hl Hs]]. exists line. split; [exact Hl|].
    eapply sub_trans; [eapply cookie_of_part_sub; exact Hp|].
    eapply sub_trans; [apply (proj2 (split_on_sub 59 (trim line))); exact Hs | apply trim_sub].
  - unfold cookie_of_part in Hp. destruct (trim part) as [|c p]; [discriminate|].
    destruct (cut_at 61 (c :: p)) as [nm val]. destruct (str_eqb (trim nm) name); [|discriminate].
    unfold parse_cookie_value in Hp.
    destruct (forallb valid_cookie_value_byte (strip_quotes val)) eqn:E; [|discriminate].
    inversion Hp; subst. exact E.
Qed.

Section LoadProofs.
  Context {K V : Type}.
  Variable A : ideal_aead K.
  Variable codec : V -> str.
  Variable uncodec : str -> option V.
  Hypothesis codec_left : forall v, uncodec (codec v) = Some v.

  (* LoadSession returns a session only for a request one of whose Cookie lines literally contains
     a Marshal output under the store's key (strict mode), and returns the value sealed in it *)
  Theorem load_session_canonical m k name lines v :
    m_strict m = true -> m_nocrlf m = true ->
    load_session (open A) uncodec m k name lines = LSession v ->
    exists n p line, length n = 16%nat /\ In line lines /\
      sub (b64url_encode (encrypt (seal A) k n p)) line /\ uncodec p = Some v /\
      (forall v', p = codec v' -> v' = v).
  Proof.
    intros Hs Hc. unfold load_session. destruct (cookie_lookup name lines) as [cv|] eqn:El; [|discriminate].
    destruct (unmarshal (open A) uncodec m k cv) as [w|] eqn:Eu; [|discriminate].
    intros H; inversion H; subst w.
    destruct (canonical_strict A codec uncodec codec_left m k cv v Hs Hc Eu) as [n [p [Hn [-> [Hu Hv]]]]].
    destruct (cookie_lookup_sub name lines _ El) as [[line [Hin Hsub]] _].
    exists n, p, line. repeat split; auto.
  Qed.

  (* and the cookie carrying exactly a genuine string does load (round trip through the cookie path) *)
  Theorem load_session_roundtrip m k name n v :
    length n = 16%nat -> bytes_ok (encrypt (seal A) k n (codec v)) ->
    cookie_lookup name [name ++ 61 :: marshal (seal A) codec k n v] = Some (marshal (seal A) codec k n v) ->
    load_session (open A) uncodec m k name [name ++ 61 :: marshal (seal A) codec k n v] = LSession v.
  Proof.
    intros Hn Hb Hl. unfold load_session. rewrite Hl.
    rewrite (roundtrip A codec uncodec codec_left m k n v Hn Hb). reflexivity.
  Qed.
End LoadProofs.

Definition w_cookie_name : str := [95; 115; 115; 111].   (* "_sso" *)
Example cookie_lookup_nv :
  cookie_lookup w_cookie_name [[120; 61; 49; 59; 32] ++ w_cookie_name ++ [61] ++ w_genuine] = Some w_genuine /\
  cookie_lookup w_cookie_name [w_cookie_name ++ [61; 34] ++ w_genuine ++ [34]] = Some w_genuine /\   (* quoted *)
  cookie_lookup w_cookie_name [w_cookie_name ++ [61; 37; 53; 54] ++ tl w_genuine] <> Some w_genuine /\ (* %56... *)
  cookie_lookup w_cookie_name [w_cookie_name ++ [61] ++ w_genuine ++ [128]] = None.                    (* invalid byte *)
Proof. vm_compute. repeat split; try reflexivity. discriminate. Qed.
