(* Proofs about Aead.v: round trip, symbolic authenticity (nothing opens that was not sealed under
   the key), wrong key / truncation / extension / byte change, freshness, canonicity (strict mode),
   malleability of the lax mode /repo uses today, and the free instance of the ideal AEAD. *)
From V Require Import Base Base_proofs B64 B64_proofs Aead.
From Coq Require Import ZifyN ZifyNat ZifyBool.

(* ---- list helpers ----------------------------------------------------------------------------- *)
Lemma app_inj_head_len {A} (a a' b b' : list A) :
  length a = length a' -> a ++ b = a' ++ b' -> a = a' /\ b = b'.
Proof.
  revert a'. induction a as [|x a IH]; intros [|y a'] Hl H; cbn in *; try discriminate; [auto|].
  inversion H; subst. destruct (IH a' ltac:(lia) H2) as [-> ->]. auto.
Qed.

Lemma app_inj_tail_len {A} (a a' b b' : list A) :
  length b = length b' -> a ++ b = a' ++ b' -> a = a' /\ b = b'.
Proof.
  intros Hl H. apply app_inj_head_len; [|exact H].
  apply (f_equal (@length A)) in H. rewrite !app_length in H. lia.
Qed.

Lemma firstn_length_app {A} (a b : list A) : firstn (length a) (a ++ b) = a.
Proof. induction a as [|x a IH]; cbn; [destruct b; reflexivity | rewrite IH; reflexivity]. Qed.

Lemma skipn_length_app {A} (a b : list A) : skipn (length a) (a ++ b) = b.
Proof. induction a as [|x a IH]; cbn; [reflexivity | exact IH]. Qed.

Lemma set_nth_length i x l : length (set_nth i x l) = length l.
Proof. revert i; induction l as [|y l IH]; intros [|i]; cbn; try reflexivity. rewrite IH; reflexivity. Qed.

Lemma set_nth_neq i x l : (i < length l)%nat -> nth i l 0 <> x -> set_nth i x l <> l.
Proof.
  revert i; induction l as [|y l IH]; intros [|i] Hl Hx; cbn in *; try lia.
  - intros E. inversion E. congruence.
  - intros E. inversion E as [E']. revert E'. apply IH; [lia | exact Hx].
Qed.

(* ---- the free instance of the ideal AEAD ------------------------------------------------------ *)
Lemma free_open_seal k n c p : free_open k n c = Some p <-> c = free_seal k n p.
Proof.
  unfold free_open, free_seal. set (pre := k :: N.of_nat (length n) :: n).
  change (k :: N.of_nat (length n) :: n ++ p) with (pre ++ p).
  destruct (has_prefix c pre) eqn:E.
  - apply has_prefix_spec in E as [r ->]. rewrite skipn_length_app. split; intros H.
    + inversion H; reflexivity.
    + apply app_inv_head in H. rewrite H. reflexivity.
  - split; [discriminate|]. intros ->.
    assert (has_prefix (pre ++ p) pre = true) by (apply has_prefix_spec; exists p; reflexivity). congruence.
Qed.

Lemma free_seal_free k n p k' n' p' :
  free_seal k n p = free_seal k' n' p' -> k = k' /\ n = n' /\ p = p'.
Proof.
  unfold free_seal. intros H. inversion H as [[Hk Hl Hr]]. apply Nnat.Nat2N.inj in Hl.
  destruct (app_inj_head_len _ _ _ _ Hl Hr) as [-> ->]. auto.
Qed.

Lemma free_seal_nonempty k n p : free_seal k n p <> [].
Proof. discriminate. Qed.

Definition free_aead : ideal_aead N :=
  {| seal := free_seal; open := free_open; open_seal := free_open_seal;
     seal_free := free_seal_free; seal_nonempty := free_seal_nonempty |}.

(* ---- framing theorems, for every ideal AEAD and every codec with a left inverse ---------------- *)
Section Proofs.
  Context {K V : Type}.
  Variable A : ideal_aead K.
  Variable codec : V -> str.
  Variable uncodec : str -> option V.
  Hypothesis codec_left : forall v, uncodec (codec v) = Some v.

  Notation enc := (encrypt (seal A)).
  Notation dec := (decrypt (open A)).
  Notation mar := (marshal (seal A) codec).
  Notation unm := (unmarshal (open A) uncodec).

  Lemma codec_inj v v' : codec v = codec v' -> v = v'.
  Proof. intros H. pose proof (codec_left v) as E. rewrite H, codec_left in E. congruence. Qed.

  (* Decrypt splits exactly where Encrypt joined *)
  Lemma decrypt_encrypt k k' n p :
    length n = 16%nat -> dec k' (enc k n p) = open A k' n (seal A k n p).
  Proof.
    intros Hn. unfold decrypt, encrypt, nonce_size.
    pose proof (seal_nonempty A k n p) as Hne.
    destruct (N.of_nat (length (seal A k n p ++ n)) <=? 16) eqn:E.
    - rewrite app_length in E. destruct (seal A k n p); [congruence | cbn [length] in E; lia].
    - replace (length (seal A k n p ++ n) - N.to_nat 16)%nat with (length (seal A k n p))
        by (rewrite app_length; lia).
      rewrite firstn_length_app, skipn_length_app. reflexivity.
  Qed.

  (* whatever Decrypt opens is a complete joined form built by Encrypt under the same key *)
  Lemma decrypt_inv k j p : dec k j = Some p -> exists n, length n = 16%nat /\ j = enc k n p.
  Proof.
    unfold decrypt, encrypt, nonce_size. destruct (N.of_nat (length j) <=? 16) eqn:E; [discriminate|].
    set (pivot := (length j - N.to_nat 16)%nat). intros H. apply (open_seal A) in H.
    exists (skipn pivot j). split.
    - rewrite skipn_length. subst pivot. lia.
    - rewrite <- H. symmetry. apply firstn_skipn.
  Qed.

  Lemma decode_value_encode m b : bytes_ok b -> decode_value m (b64url_encode b) = Some b.
  Proof.
    intros H. unfold decode_value. rewrite encode_no_crlf, andb_false_r. apply b64_roundtrip; exact H.
  Qed.

  (* round trip *)
  Theorem roundtrip m k n v :
    length n = 16%nat -> bytes_ok (enc k n (codec v)) -> unm m k (mar k n v) = Some v.
  Proof.
    intros Hn Hb. unfold unmarshal, marshal. rewrite (decode_value_encode m _ Hb), (decrypt_encrypt k k n _ Hn).
    rewrite (proj2 (open_seal A k n _ (codec v)) eq_refl). apply codec_left.
  Qed.

  (* symbolic authenticity *)
  Theorem reject_unsealed m k s v :
    unm m k s = Some v ->
    exists n p, length n = 16%nat /\ decode_value m s = Some (enc k n p) /\ uncodec p = Some v /\
                (forall v', p = codec v' -> v' = v).
  Proof.
    unfold unmarshal. destruct (decode_value m s) as [j|] eqn:Ed; [|discriminate].
    destruct (dec k j) as [p|] eqn:Ep; [|discriminate]. intros Hu.
    destruct (decrypt_inv k j p Ep) as [n [Hn ->]]. exists n, p. repeat split; auto.
    intros v' ->. rewrite codec_left in Hu. congruence.
  Qed.

  (* with an exact partial inverse the payload is literally codec v *)
  Theorem reject_unsealed_exact m k s v :
    (forall p w, uncodec p = Some w -> p = codec w) ->
    unm m k s = Some v -> exists n, length n = 16%nat /\ decode_value m s = Some (enc k n (codec v)).
  Proof.
    intros Hex H. destruct (reject_unsealed m k s v H) as [n [p [Hn [Hd [Hu _]]]]].
    exists n. rewrite <- (Hex p v Hu). auto.
  Qed.

  (* wrong key *)
  Theorem wrong_key_decoded k k' n p : k' <> k -> length n = 16%nat -> dec k' (enc k n p) = None.
  Proof.
    intros Hk Hn. rewrite (decrypt_encrypt k k' n p Hn).
    destruct (open A k' n (seal A k n p)) as [p'|] eqn:E; [|reflexivity].
    apply (open_seal A) in E. apply (seal_free A) in E as [E _]. congruence.
  Qed.

  Theorem wrong_key m k k' n v :
    k' <> k -> length n = 16%nat -> bytes_ok (enc k n (codec v)) -> unm m k' (mar k n v) = None.
  Proof.
    intros Hk Hn Hb. unfold unmarshal, marshal.
    rewrite (decode_value_encode m _ Hb), (wrong_key_decoded k k' n _ Hk Hn). reflexivity.
  Qed.

  (* any decoded form other than the genuine one opens only if it is, in its entirety, ANOTHER
     genuine seal under the same key (another nonce or another plaintext) *)
  Definition another_seal (k : K) (n p j' p' : str) : Prop :=
    exists n', length n' = 16%nat /\ j' = enc k n' p' /\ (n', p') <> (n, p).

  Theorem modified k n p j' p' :
    j' <> enc k n p -> dec k j' = Some p' -> another_seal k n p j' p'.
  Proof.
    intros Hne H. destruct (decrypt_inv k j' p' H) as [n' [Hn' ->]]. exists n'. repeat split; auto.
    intros E. inversion E; subst. congruence.
  Qed.

  Theorem truncate k n p i p' :
    (i < length (enc k n p))%nat -> dec k (firstn i (enc k n p)) = Some p' ->
    another_seal k n p (firstn i (enc k n p)) p'.
  Proof.
    intros Hi. apply modified. intros E. apply (f_equal (@length N)) in E. rewrite firstn_length in E. lia.
  Qed.

  Theorem extend k n p x p' :
    x <> [] -> dec k (enc k n p ++ x) = Some p' -> another_seal k n p (enc k n p ++ x) p'.
  Proof.
    intros Hx. apply modified. intros E. apply (f_equal (@length N)) in E. rewrite app_length in E.
    destruct x; [congruence | cbn [length] in E; lia].
  Qed.

  Theorem flip k n p i x p' :
    (i < length (enc k n p))%nat -> nth i (enc k n p) 0 <> x ->
    dec k (set_nth i x (enc k n p)) = Some p' -> another_seal k n p (set_nth i x (enc k n p)) p'.
  Proof. intros Hi Hx. apply modified. apply set_nth_neq; assumption. Qed.

  (* a truncation to at most 16 bytes never opens: the length check *)
  Theorem too_short k j : (length j <= 16)%nat -> dec k j = None.
  Proof. intros H. unfold decrypt, nonce_size. replace (N.of_nat (length j) <=? 16) with true by lia. reflexivity. Qed.

  (* sealing is injective in (key, nonce, value); in particular two seals of the same value with
     different nonces are different strings *)
  Theorem marshal_inj k n v k' n' v' :
    length n = length n' -> bytes_ok (enc k n (codec v)) -> bytes_ok (enc k' n' (codec v')) ->
    mar k n v = mar k' n' v' -> k = k' /\ n = n' /\ v = v'.
  Proof.
    intros Hl Hb Hb' H. unfold marshal in H. apply b64_encode_inj in H; [|assumption|assumption].
    unfold encrypt in H. apply app_inj_tail_len in H as [H1 H2]; [|exact Hl].
    apply (seal_free A) in H1 as [-> [_ Hc]]. apply codec_inj in Hc. auto.
  Qed.

  Theorem fresh k n1 n2 v :
    length n1 = length n2 -> bytes_ok (enc k n1 (codec v)) -> bytes_ok (enc k n2 (codec v)) ->
    n1 <> n2 -> mar k n1 v <> mar k n2 v.
  Proof. intros Hl H1 H2 Hn E. apply marshal_inj in E as [_ [E _]]; auto. Qed.

  (* canonicity in the strict mode: the ONLY strings that open are literally Marshal outputs *)
  Theorem canonical_strict m k s v :
    m_strict m = true -> m_nocrlf m = true -> unm m k s = Some v ->
    exists n p, length n = 16%nat /\ s = b64url_encode (enc k n p) /\ uncodec p = Some v /\
                (forall v', p = codec v' -> v' = v).
  Proof.
    intros Hs Hc H. destruct (reject_unsealed m k s v H) as [n [p [Hn [Hd [Hu Hv]]]]].
    exists n, p. repeat split; auto. unfold decode_value in Hd. rewrite Hs, Hc in Hd. cbn [andb] in Hd.
    destruct (has_crlf s) eqn:E; [discriminate|]. apply b64_canonical_strict; assumption.
  Qed.

  (* the strongest true statement for every mode: the presented string, after dropping CR/LF and
     clearing the ignored bits of its last character, is literally a Marshal output *)
  Theorem canonical_partial m k s v :
    unm m k s = Some v ->
    exists n p, length n = 16%nat /\ normalize s = Some (b64url_encode (enc k n p)) /\ uncodec p = Some v.
  Proof.
    intros H. destruct (reject_unsealed m k s v H) as [n [p [Hn [Hd [Hu _]]]]].
    exists n, p. repeat split; auto. unfold decode_value in Hd.
    destruct (m_nocrlf m && has_crlf s); [discriminate|]. eapply b64_canonical_partial; exact Hd.
  Qed.

  Theorem canonical_len4 m k s v :
    has_crlf s = false -> (length s mod 4 = 0)%nat -> unm m k s = Some v ->
    exists n p, length n = 16%nat /\ s = b64url_encode (enc k n p) /\ uncodec p = Some v.
  Proof.
    intros Hc Hl H. destruct (reject_unsealed m k s v H) as [n [p [Hn [Hd [Hu _]]]]].
    exists n, p. repeat split; auto. unfold decode_value in Hd.
    destruct (m_nocrlf m && has_crlf s); [discriminate|]. eapply b64_canonical_len4; eassumption.
  Qed.

  (* today's mode: a CR or LF inserted anywhere changes nothing — universal malleability *)
  Theorem crlf_malleable m k c a b :
    m_nocrlf m = false -> is_crlf c = true -> unm m k (a ++ c :: b) = unm m k (a ++ b).
  Proof.
    intros Hm Hc. unfold unmarshal, decode_value. rewrite Hm. cbn [andb].
    rewrite (decode_insert_crlf _ c a b Hc). reflexivity.
  Qed.

  (* the sealed string depends on the value only through seal's output (confidentiality of seal
     itself is an assumption about the primitive, not a theorem) *)
  Theorem opaque_partial :
    exists f : str -> str -> str, forall k n v, mar k n v = f (seal A k n (codec v)) n.
  Proof. exists (fun c n => b64url_encode (c ++ n)). reflexivity. Qed.
End Proofs.

(* ---- witnesses on the free instance (V = plaintext, identity codec) ---------------------------- *)
Definition w_nonce : str := [1; 2; 3; 4; 5; 6; 7; 8; 9; 10; 11; 12; 13; 14; 15; 16].
Definition w_nonce2 : str := [1; 2; 3; 4; 5; 6; 7; 8; 9; 10; 11; 12; 13; 14; 15; 17].
Definition w_mar := marshal (seal free_aead) (fun v : str => v).
Definition w_unm := unmarshal (open free_aead) (fun p : str => Some p).
Definition w_genuine : str := w_mar 7 w_nonce [104].
(* the genuine string with the unused low bits of its last character set *)
Definition w_bits : str := removelast w_genuine ++ [N.succ (last w_genuine 0)].
Definition w_lf : str := firstn 5 w_genuine ++ 10 :: skipn 5 w_genuine.

Example roundtrip_nv : w_unm lax_mode 7 w_genuine = Some [104] /\ w_unm strict_mode 7 w_genuine = Some [104].
Proof. vm_compute. split; reflexivity. Qed.

Example rejected_nv :
  w_unm lax_mode 8 w_genuine = None /\                                   (* wrong key *)
  w_unm lax_mode 7 (firstn 20 w_genuine) = None /\                       (* truncated *)
  w_unm lax_mode 7 (w_genuine ++ [65; 65]) = None /\                     (* extended *)
  w_unm lax_mode 7 (set_nth 3 67 w_genuine) = None /\                    (* a character changed *)
  w_unm lax_mode 7 (w_genuine ++ [61]) = None /\                         (* '=' padding added *)
  w_unm lax_mode 7 [] = None.
Proof. vm_compute. repeat split; reflexivity. Qed.

Example fresh_nv : w_mar 7 w_nonce [104] <> w_mar 7 w_nonce2 [104].
Proof. vm_compute. discriminate. Qed.

(* canonicity is false in today's mode: two strings other than the genuine one open to its value *)
Theorem canonical_refuted :
  exists (k : N) (n : str) (v : str) (s1 s2 : str),
    w_unm repo_mode k (w_mar k n v) = Some v /\
    s1 <> w_mar k n v /\ has_crlf s1 = false /\ w_unm lax_mode k s1 = Some v /\   (* trailing bits *)
    s2 <> w_mar k n v /\ w_unm lax_mode k s2 = Some v.                            (* LF inserted *)
Proof.
  exists 7, w_nonce, [104], w_bits, w_lf. vm_compute. repeat split; try reflexivity; discriminate.
Qed.

(* ... and both witnesses are rejected in the strict mode *)
Example strict_rejects_witnesses : w_unm strict_mode 7 w_bits = None /\ w_unm strict_mode 7 w_lf = None.
Proof. vm_compute. split; reflexivity. Qed.
