From V Require Import Base Base_proofs Validators ProxyCore ProxyCore_proofs ProxyWorld.
From Coq Require Import ZifyBool.
Open Scope Z_scope.

Section World.
Variable lower : str -> str.
Variable c : cfg.
Variable pol_of : str -> upolicy.

Notation step := (step lower c pol_of).
Notation run := (run lower c pol_of).
Notation respond := (respond lower c pol_of).

(* provenance invariant of every sealed session in existence *)
Definition good (now : Z) (i : isess) : Prop :=
  s_lifetime_dl (i_s i) = i_login i + c_L c /\
  s_upstream (i_s i) = i_host i /\
  s_slug (i_s i) = c_slug c /\
  s_email (i_s i) = i_email i /\
  i_login i <= i_at i /\ i_at i <= now /\
  s_valid_dl (i_s i) <= i_at i + c_V c /\
  (exists ans, login_admit lower (u_rules (pol_of (i_host i))) (i_email i) ans = true).

Definition Inv (w : world) : Prop := Forall (good (w_now w)) (w_issued w).

Lemma good_mono now now' i : now <= now' -> good now i -> good now' i.
Proof. unfold good. intros Hle H. intuition lia. Qed.

Lemma inv_init : Inv (init).
Proof. constructor. Qed.

(* what any handler re-saves descends from the presented cookie *)
Lemma handle_saved now u r a s' :
  rs_cookie (handle lower now c u r a) = CSaved s' ->
  exists s, r_cookie r = Sealed s /\
    s_lifetime_dl s' = s_lifetime_dl s /\ s_upstream s' = s_upstream s /\ s_slug s' = s_slug s /\
    s_email s' = s_email s /\ (s_valid_dl s' = s_valid_dl s \/ s_valid_dl s' = now + c_V c).
Proof.
  assert (A: forall s', ao_cookie (authenticate lower now c u (r_host r) (r_cookie r) a) = CSaved s' ->
     exists s, r_cookie r = Sealed s /\
    s_lifetime_dl s' = s_lifetime_dl s /\ s_upstream s' = s_upstream s /\ s_slug s' = s_slug s /\
    s_email s' = s_email s /\ (s_valid_dl s' = s_valid_dl s \/ s_valid_dl s' = now + c_V c)).
  { intros s1 H. destruct (r_cookie r) as [| |s] eqn:Eck; [discriminate | discriminate |].
    exists s. split; [reflexivity|]. apply authenticate_saved_preserves in H. tauto. }
  assert (P: forall s', rs_cookie (proxy_handle lower now c u r a) = CSaved s' ->
     ao_cookie (authenticate lower now c u (r_host r) (r_cookie r) a) = CSaved s').
  { intros s1. unfold proxy_handle. destruct (whitelisted u r); [discriminate|].
    destruct (ao_err (authenticate lower now c u (r_host r) (r_cookie r) a)); auto. }
  unfold handle. destruct (r_endpoint r).
  - intros H. apply A, P, H.
  - cbn. apply A.
  - destruct (ao_err (authenticate lower now c u (r_host r) (r_cookie r) a)); [cbn; apply A|].
    cbn. destruct (rs_cookie (proxy_handle lower now c u r a)) eqn:Ep; try discriminate.
    + apply A.
    + intros H; inversion H; subst. apply A, P. reflexivity.
Qed.

Lemma inv_step w e : Inv w -> Inv (step w e).
Proof.
  intros HI. destruct e as [dt | host email access rtok ex ans | host o sk x ep ck a]; cbn [ProxyWorld.step].
  - unfold Inv in *. cbn. eapply Forall_impl; [|exact HI]. intros i. apply good_mono. lia.
  - destruct (login_admit lower (u_rules (pol_of host)) email ans) eqn:Ea; [|exact HI].
    unfold Inv in *. cbn. apply Forall_app. split; [exact HI|]. constructor; [|constructor].
    unfold good. cbn. repeat split; try lia. eauto.
  - destruct (rs_cookie (respond w host o sk x ep ck a)) as [| |s'] eqn:Ec; try exact HI.
    destruct (parent_of w ck) as [p|] eqn:Ep; [|exact HI].
    unfold Inv in *. cbn. apply Forall_app. split; [exact HI|]. constructor; [|constructor].
    unfold ProxyWorld.respond in Ec. apply handle_saved in Ec as [s [Hck [H1 [H2 [H3 [H4 H5]]]]]].
    cbn in Hck. destruct ck as [| |k]; cbn in Hck, Ep; try discriminate.
    rewrite Ep in Hck. inversion Hck; subst s.
    assert (Hg: good (w_now w) p).
    { rewrite Forall_forall in HI. apply HI. eapply nth_error_In; eauto. }
    unfold good in *. cbn. destruct Hg as [G1 [G2 [G3 [G4 [G5 [G6 [G7 G8]]]]]]].
    repeat (split; [first [congruence | lia]|]). exact G8.
Qed.

Lemma inv_run_from w evs : Inv w -> Inv (fold_left step evs w).
Proof. revert w; induction evs as [|e evs IH]; intros w H; cbn; [exact H | apply IH, inv_step, H]. Qed.

Lemma inv_run evs : Inv (run evs).
Proof. apply inv_run_from, inv_init. Qed.

Lemma now_nonneg_mono w e : w_now w <= w_now (step w e).
Proof. destruct e; cbn; try lia. - destruct (login_admit _ _ _ _); cbn; lia.
  - destruct (rs_cookie _); try lia. destruct (parent_of _ _); cbn; lia. Qed.

(* ---------- mediation over histories ---------- *)
Lemma handle_served now u r a :
  served (handle lower now c u r a) = true ->
  (r_endpoint r = EProxy /\ whitelisted u r = true) \/
  exists s, r_cookie r = Sealed s /\ session_ok lower now c u (r_host r) s a.
Proof.
  unfold served, handle. destruct (r_endpoint r) eqn:Eep.
  - destruct (rs_out (proxy_handle lower now c u r a)) as [id| |] eqn:Eo; try discriminate. intros _.
    apply proxy_forward_sound in Eo as [[Hw _]|[_ [s [Hs [Hok _]]]]]; [left; auto | right; eauto].
  - cbn. destruct (ao_err _); discriminate.
  - destruct (ao_err (authenticate lower now c u (r_host r) (r_cookie r) a)) eqn:Ee; [cbn; discriminate|].
    intros _. right. eapply authenticate_sound; eauto.
Qed.

Theorem mediation_history evs host o sk x ep ck a :
  let w := run evs in
  served (respond w host o sk x ep ck a) = true ->
  (ep = EProxy /\ whitelisted (pol_of host) (mk_request w host o sk x ep ck) = true) \/
  exists k i, ck = CkIssued k /\ nth_error (w_issued w) k = Some i /\
    good (w_now w) i /\ i_host i = host /\
    session_ok lower (w_now w) c (pol_of host) host (i_s i) a /\
    w_now w <= i_login i + c_L c.
Proof.
  intros w H. unfold ProxyWorld.respond in H. apply handle_served in H as [[H1 H2]|[s [Hs Hok]]]; [left; auto|].
  right. cbn in Hs. destruct ck as [| |k]; cbn in Hs; try discriminate.
  destruct (nth_error (w_issued w) k) as [i|] eqn:En; [|discriminate]. inversion Hs; subst s.
  assert (Hg: good (w_now w) i).
  { pose proof (inv_run evs) as HI. unfold Inv in HI. rewrite Forall_forall in HI. apply HI. eapply nth_error_In; eauto. }
  exists k, i. split; [reflexivity|]. split; [exact En|]. split; [exact Hg|].
  cbn [r_host mk_request] in Hok. split; [|split; [exact Hok|]].
  - destruct Hg as [_ [G2 _]]. destruct Hok as [_ [Hu _]]. congruence.
  - destruct Hg as [G1 _]. destruct Hok as [_ [_ [Hl _]]]. lia.
Qed.

Lemma proxy_served_auth now u r a :
  served (proxy_handle lower now c u r a) = true -> whitelisted u r = false ->
  ao_err (authenticate lower now c u (r_host r) (r_cookie r) a) = None /\
  rs_calls (proxy_handle lower now c u r a) = ao_calls (authenticate lower now c u (r_host r) (r_cookie r) a).
Proof.
  unfold served, proxy_handle. intros H Hw. rewrite Hw in *.
  destruct (ao_err (authenticate lower now c u (r_host r) (r_cookie r) a)) as [e|]; [|auto].
  destruct e; discriminate.
Qed.

(* served without asking the authenticator => a check (or the login) happened within the validity TTL *)
Theorem fresh_within_valid_ttl evs host x ck a :
  let w := run evs in
  served (respond w host false false x EProxy ck a) = true ->
  rs_calls (respond w host false false x EProxy ck a) = [] ->
  exists k i, ck = CkIssued k /\ nth_error (w_issued w) k = Some i /\
    w_now w <= s_valid_dl (i_s i) /\ w_now w <= s_refresh_dl (i_s i) /\ w_now w <= i_at i + c_V c.
Proof.
  intros w Hs Hc. pose proof Hs as Hs0.
  apply mediation_history in Hs as [[_ Hw]|[k [i [Hck [Hn [Hg [Hh [Hok Hl]]]]]]]].
  - unfold whitelisted in Hw. cbn in Hw. rewrite andb_false_r in Hw. discriminate.
  - exists k, i. split; [exact Hck|]. split; [exact Hn|].
    unfold ProxyWorld.respond, handle in Hc, Hs0. cbn [r_endpoint mk_request] in Hc, Hs0.
    assert (Hnw: whitelisted (pol_of host) (mk_request (run evs) host false false x EProxy ck) = false).
    { unfold whitelisted. cbn. rewrite andb_false_r. reflexivity. }
    destruct (proxy_served_auth _ _ _ _ Hs0 Hnw) as [Ee Hcalls].
    rewrite Hcalls in Hc. subst ck. unfold w in *. cbn [r_cookie r_host mk_request cookie_of] in Ee, Hc.
    rewrite Hn in Ee, Hc.
    pose proof (authenticate_calls lower _ _ _ _ _ _ Ee) as [Hdue _].
    destruct (Z_lt_dec (s_refresh_dl (i_s i)) (w_now w)) as [L1|L1]; [exfalso; apply Hdue; auto|].
    destruct (Z_lt_dec (s_valid_dl (i_s i)) (w_now w)) as [L2|L2]; [exfalso; apply Hdue; auto|].
    destruct Hg as [_ [_ [_ [_ [_ [_ [G7 _]]]]]]]. unfold w in *. repeat split; lia.
Qed.

(* ---------- the linear browser machine: bounded outage grace ---------- *)
Notation bresponse := (bresponse lower c pol_of).
Notation bnext := (bnext lower c pol_of).
Notation brun := (brun lower c pol_of).

Definition binv (st : bstate) : Prop :=
  match b_cookie st with Some s => s_grace s = b_outage st | None => True end.

Lemma bresponse_cases host st b :
  let now := b_now st + Z.max 0 (b_dt b) in
  let rs := bresponse host st b in
  match b_cookie st with
  | None => rs_cookie rs = CCleared /\ served rs = false
  | Some s =>
      (rs_cookie rs = CCleared /\ served rs = false) \/
      (rs_cookie rs = CNone /\ served rs = true /\ rs_calls rs = []) \/
      (exists s', rs_cookie rs = CSaved s' /\ served rs = true /\ now <= s_lifetime_dl s /\
         s_lifetime_dl s' = s_lifetime_dl s /\
         ((s_grace s' = None) \/
          (s_grace s' = Some (match s_grace s with Some g => g | None => now end) /\ outage_grace now c s)))
  end.
Proof.
  intros now rs. subst rs. unfold ProxyWorld.bresponse, handle, proxy_handle, whitelisted. cbn -[authenticate].
  rewrite andb_false_r. cbn -[authenticate]. fold now.
  destruct (b_cookie st) as [s|]; [|cbn; auto].
  unfold authenticate, expired.
  destruct (negb (str_eqb (s_slug s) (c_slug c))); [left; cbn; auto|].
  destruct (negb (str_eqb host (s_upstream s))); [left; cbn; auto|].
  destruct (s_lifetime_dl s <? now) eqn:El; [left; cbn; auto|].
  destruct (s_refresh_dl s <? now) eqn:Er.
  - destruct (refresh_session now c (p_groups (u_rules (pol_of host))) s (b_ans b)) as [[r s'] calls] eqn:Erf.
    destruct r; try (left; cbn; auto; fail).
    destruct (request_gate lower (u_rules (pol_of host)) (s_email s')); [|left; cbn; auto].
    right. right. exists s'. cbn. split; [reflexivity|]. split; [reflexivity|]. split; [lia|].
    pose proof (refresh_preserves _ _ _ _ _ _ _ _ Erf) as [H1 _]. split; [exact H1|].
    pose proof (grace_stamp_refresh _ _ _ _ _ _ _ Erf) as [[_ Hg]|[_ [Hg [_ [_ Ho]]]]]; [left; exact Hg | right; auto].
  - destruct (s_valid_dl s <? now) eqn:Ev.
    + destruct (validate_session now c (p_groups (u_rules (pol_of host))) s (b_ans b)) as [[ok s'] calls] eqn:Evs.
      destruct ok; [|left; cbn; auto].
      destruct (request_gate lower (u_rules (pol_of host)) (s_email s')); [|left; cbn; auto].
      right. right. exists s'. cbn. split; [reflexivity|]. split; [reflexivity|]. split; [lia|].
      pose proof (validate_preserves _ _ _ _ _ _ _ _ Evs) as [H1 _]. split; [exact H1|].
      pose proof (grace_stamp_validate _ _ _ _ _ _ _ Evs) as [[_ Hg]|[_ [Hg Ho]]]; [left; exact Hg | right; auto].
    + destruct (request_gate lower (u_rules (pol_of host)) (s_email s)); [|left; cbn; auto].
      right. left. cbn. auto.
Qed.

Lemma binv_next host st b : binv st -> binv (bnext host st b).
Proof.
  intros HI. pose proof (bresponse_cases host st b) as Hc. cbv zeta in Hc.
  unfold binv, ProxyWorld.bnext. cbn [b_cookie b_outage].
  unfold binv in HI. destruct (b_cookie st) as [s|].
  - destruct Hc as [[Hc Hs]|[[Hc [Hs _]]|[s' [Hc [Hs [_ [_ Hg]]]]]]]; rewrite Hc.
    + exact I.
    + unfold outage_after, grace_served, full_success. rewrite Hc, Hs. cbn. exact HI.
    + unfold outage_after, grace_served, full_success. rewrite Hc, Hs. cbn [andb].
      destruct Hg as [Hg|[Hg _]]; rewrite Hg; [reflexivity|]. rewrite HI. reflexivity.
  - destruct Hc as [Hc _]. rewrite Hc. exact I.
Qed.

Lemma binv_run host bs : forall st, binv st -> binv (brun host st bs).
Proof. induction bs as [|b bs IH]; intros st H; cbn; [exact H | apply IH, binv_next, H]. Qed.

(* The trace-derived outage start (computed from observations only) bounds every grace-served step. *)
Theorem grace_bounded host st bs b :
  binv st ->
  let st' := brun host st bs in
  let now := b_now st' + Z.max 0 (b_dt b) in
  grace_served (bresponse host st' b) = true ->
  exists g s, b_outage (bnext host st' b) = Some g /\ b_cookie st' = Some s /\
    g = (match b_outage st' with Some g0 => g0 | None => now end) /\
    now < g + c_G c /\ now <= s_lifetime_dl s.
Proof.
  intros HI st' now Hgs. pose proof (binv_run host bs st HI) as HI'. fold st' in HI'.
  pose proof (bresponse_cases host st' b) as Hc. cbv zeta in Hc. fold now in Hc.
  unfold binv in HI'. unfold grace_served in Hgs.
  destruct (b_cookie st') as [s|] eqn:Eck.
  - destruct Hc as [[Hc Hs]|[[Hc [Hs _]]|[s' [Hc [Hs [Hl [_ Hg]]]]]]]; rewrite Hc in Hgs.
    + rewrite andb_false_r in Hgs. discriminate.
    + rewrite andb_false_r in Hgs. discriminate.
    + destruct Hg as [Hg|[Hg Ho]]; rewrite Hg in Hgs; [rewrite andb_false_r in Hgs; discriminate|].
      exists (match b_outage st' with Some g0 => g0 | None => now end), s.
      split; [|split; [reflexivity|split; [reflexivity|]]].
      * unfold ProxyWorld.bnext. cbn [b_outage]. fold now. unfold outage_after, grace_served.
        rewrite Hc, Hs, Hg. reflexivity.
      * unfold outage_grace in Ho. rewrite HI' in Ho. split; [exact Ho | exact Hl].
  - destruct Hc as [Hc Hs]. rewrite Hs in Hgs. discriminate.
Qed.

(* one successful check ends the episode: the next outage starts a fresh grace period *)
Theorem success_resets host st b :
  binv st ->
  full_success (bresponse host st b) = true ->
  b_outage (bnext host st b) = None /\
  exists s', b_cookie (bnext host st b) = Some s' /\ s_grace s' = None.
Proof.
  intros HI Hf. unfold ProxyWorld.bnext. cbn [b_outage b_cookie]. unfold outage_after.
  unfold full_success in Hf. unfold grace_served. apply andb_true_iff in Hf as [Hs Hf]. rewrite Hs.
  destruct (rs_cookie (bresponse host st b)) as [| |s'] eqn:Ec; try discriminate.
  destruct (s_grace s') eqn:Eg; [discriminate|]. cbn [andb]. unfold full_success. rewrite Hs, Ec, Eg. cbn [andb].
  split; [reflexivity | eauto].
Qed.

(* the lifetime bound of a browser session never moves *)
Theorem browser_lifetime_fixed host bs : forall st s,
  b_cookie st = Some s ->
  match b_cookie (brun host st bs) with Some s' => s_lifetime_dl s' = s_lifetime_dl s | None => True end.
Proof.
  induction bs as [|b bs IH]; intros st s Hs; cbn.
  - rewrite Hs. reflexivity.
  - pose proof (bresponse_cases host st b) as Hc. cbv zeta in Hc. rewrite Hs in Hc.
    destruct (b_cookie (bnext host st b)) as [s1|] eqn:E1.
    + specialize (IH (bnext host st b) s1 E1).
      assert (s_lifetime_dl s1 = s_lifetime_dl s).
      { unfold ProxyWorld.bnext in E1. cbn [b_cookie] in E1.
        destruct Hc as [[Hc _]|[[Hc _]|[s' [Hc [_ [_ [Hl _]]]]]]]; rewrite Hc in E1.
        - discriminate. - congruence. - inversion E1; subst; exact Hl. }
      unfold ProxyWorld.brun in IH. destruct (b_cookie (fold_left (bnext host) bs (bnext host st b))); [congruence | exact I].
    + clear IH. assert (forall bs st, b_cookie st = None -> b_cookie (brun host st bs) = None) as Hnone.
      { induction bs0 as [|b0 bs0 IH0]; intros st0 H0; cbn; [exact H0|]. apply IH0.
        pose proof (bresponse_cases host st0 b0) as Hc0. cbv zeta in Hc0. rewrite H0 in Hc0.
        unfold ProxyWorld.bnext. cbn [b_cookie]. destruct Hc0 as [Hc0 _]. rewrite Hc0. reflexivity. }
      pose proof (Hnone bs _ E1) as Hn. unfold ProxyWorld.brun in Hn. rewrite Hn. exact I.
Qed.

End World.
