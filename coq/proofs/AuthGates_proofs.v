(* AuthGates_proofs.v — lemmas for C07: the domain gate, ParseInt / Sprint, the signature gate
   (ideal MAC), concatenation (non-)ambiguity, and the route table. *)
From V Require Import Base Base_proofs Url Url_proofs AuthGates.
From Coq Require Import ZifyN ZifyBool.

(* ================================================================== root domains *)
Lemma trim_split d : exists k, d = repeat c_dot k ++ trim_left_dots d.
Proof.
  induction d as [|c d [k IH]]; [exists 0%nat; reflexivity|]. simpl.
  destruct (N.eqb_spec c c_dot) as [->|].
  - exists (S k). simpl. rewrite <- IH. reflexivity.
  - exists 0%nat. reflexivity.
Qed.

Lemma norm_domain_shape c : exists c', norm_domain c = c_dot :: c' /\ trim_left_dots c' = trim_left_dots c.
Proof.
  unfold norm_domain. destruct c as [|x c].
  - exists []. split; reflexivity.
  - cbn [has_prefix]. destruct (N.eqb_spec c_dot x) as [<-|Hne].
    + exists c. split; [reflexivity|]. simpl. reflexivity.
    + exists (x :: c). split; reflexivity.
Qed.

Lemma trim_norm c : trim_left_dots (norm_domain c) = trim_left_dots c.
Proof.
  destruct (norm_domain_shape c) as [c' [-> H]]. simpl. exact H.
Qed.

Lemma suffix_norm hn c : has_suffix hn (norm_domain c) = true ->
  exists p, hn = p ++ c_dot :: trim_left_dots c.
Proof.
  intros H. apply has_suffix_spec in H as [p ->].
  destruct (norm_domain_shape c) as [c' [-> Ht]]. rewrite <- Ht.
  destruct (trim_split c') as [k Hk].
  exists (p ++ repeat c_dot k).
  rewrite <- app_assoc. f_equal.
  transitivity (c_dot :: repeat c_dot k ++ trim_left_dots c'); [f_equal; exact Hk|].
  change (c_dot :: repeat c_dot k ++ trim_left_dots c')
    with ((c_dot :: repeat c_dot k) ++ trim_left_dots c').
  rewrite repeat_cons, <- app_assoc. reflexivity.
Qed.

Lemma domain_match_in hn cfg :
  existsb (domain_match hn) (norm_domains cfg) = true -> in_domain hn cfg.
Proof.
  rewrite existsb_exists. intros [d [Hd Hm]]. unfold norm_domains in Hd.
  apply in_map_iff in Hd as [c [<- Hc]]. exists c. split; [exact Hc|].
  unfold domain_match in Hm. apply orb_true_iff in Hm as [Hm|Hm].
  - right. apply suffix_norm. exact Hm.
  - left. apply str_eqb_eq in Hm. rewrite trim_norm in Hm. exact Hm.
Qed.

Theorem valid_redirect_parsed uri cfg :
  valid_redirect_uri uri (norm_domains cfg) = true ->
  exists u, go_parse uri = Some u /\ uri <> [] /\ u_host u <> [] /\ in_domain (hostname u) cfg.
Proof.
  unfold valid_redirect_uri. destruct (go_parse uri) as [u|]; [|discriminate].
  rewrite !andb_true_iff, !negb_true_iff. intros [[H1 H2] H3]. exists u.
  split; [reflexivity|]. split; [destruct uri; [discriminate | discriminate]|].
  split; [destruct (u_host u); [discriminate | discriminate]|].
  apply domain_match_in. exact H3.
Qed.

(* the host every RFC 3986 reading assigns to an accepted URI is in-domain *)
Theorem host_in_domain uri cfg sch ui h port rest :
  valid_redirect_uri uri (norm_domains cfg) = true ->
  rfc_split uri sch ui h port rest ->
  in_domain (rfc_hostname h) cfg.
Proof.
  intros Hv Hs. destruct (valid_redirect_parsed uri cfg Hv) as [u [Hp [_ [Hh Hd]]]].
  rewrite <- (go_rfc_agree uri u sch ui h port rest Hp Hh Hs). exact Hd.
Qed.

(* for a host without percent signs the decoded name is the literal text *)
Lemma pct_decode_nopct s : ~ In c_pct s -> pct_decode s = s.
Proof.
  induction s as [|c s IH]; intros H; [reflexivity|].
  rewrite pct_decode_other by (intros ->; apply H; left; reflexivity).
  rewrite IH; [reflexivity | intros Hc; apply H; right; exact Hc].
Qed.

(* hexEscapeNonASCII leaves an all-ASCII string alone: the sign-out Location is the URI itself *)
Lemma hex_escape_ascii s : forallb (fun c => c <? 128) s = true -> hex_escape_non_ascii s = s.
Proof.
  induction s as [|c s IH]; [reflexivity|]. simpl. rewrite andb_true_iff. intros [Hc Hs].
  unfold hex_escape_non_ascii in *. simpl. rewrite Hc. simpl. rewrite (IH Hs). reflexivity.
Qed.

(* ================================================================== decimal numbers *)
Open Scope Z_scope.

Definition val_from (acc : Z) (s : str) : Z := fold_left (fun a c => a * 10 + digit_val c) s acc.

Lemma digits_val_eq s : digits_val s = val_from 0 s.
Proof. reflexivity. Qed.

Lemma val_from_app acc a b : val_from acc (a ++ b) = val_from (val_from acc a) b.
Proof. unfold val_from. apply fold_left_app. Qed.

Lemma val_from_acc s : forall acc, val_from acc s = acc * 10 ^ Z.of_nat (length s) + val_from 0 s.
Proof.
  induction s as [|c s IH]; intros acc.
  - simpl. lia.
  - change (val_from acc (c :: s)) with (val_from (acc * 10 + digit_val c) s).
    change (val_from 0 (c :: s)) with (val_from (0 * 10 + digit_val c) s).
    rewrite (IH (acc * 10 + digit_val c)), (IH (0 * 10 + digit_val c)).
    change (length (c :: s)) with (S (length s)). rewrite Nat2Z.inj_succ, Z.pow_succ_r by lia. lia.
Qed.

Lemma digits_val_app a b : digits_val (a ++ b) = digits_val a * 10 ^ Z.of_nat (length b) + digits_val b.
Proof. rewrite !digits_val_eq, val_from_app, val_from_acc. reflexivity. Qed.

Lemma digit_val_range c : is_digit c = true -> 0 <= digit_val c <= 9.
Proof. unfold is_digit, digit_val. lia. Qed.

Lemma digits_val_bounds s : forallb is_digit s = true -> 0 <= digits_val s < 10 ^ Z.of_nat (length s).
Proof.
  induction s as [|c s IH] using rev_ind; intros H.
  - simpl. unfold digits_val. simpl. lia.
  - rewrite forallb_app' in H. apply andb_true_iff in H as [Hs Hc]. simpl in Hc. rewrite andb_true_r in Hc.
    rewrite digits_val_app. simpl length. specialize (IH Hs).
    assert (E : digits_val [c] = digit_val c) by (unfold digits_val; simpl; lia). rewrite E.
    pose proof (digit_val_range c Hc). rewrite app_length. simpl length.
    rewrite Nat2Z.inj_add. change (Z.of_nat 1) with 1. rewrite Z.pow_add_r by lia.
    change (10 ^ 1) with 10. lia.
Qed.

(* dec_aux: digits only, and the right value when the fuel suffices *)
Lemma digit_mod n : is_digit (48 + n mod 10)%N = true.
Proof. unfold is_digit. pose proof (N.mod_lt n 10%N ltac:(discriminate)). lia. Qed.

Lemma dec_aux_digits fuel : forall n acc,
  forallb is_digit acc = true -> forallb is_digit (dec_aux fuel n acc) = true.
Proof.
  induction fuel as [|f IH]; intros n acc Ha.
  - cbn [dec_aux forallb]. rewrite digit_mod, Ha. reflexivity.
  - assert (Hd : forallb is_digit ((48 + n mod 10)%N :: acc) = true).
    { cbn [forallb]. rewrite digit_mod, Ha. reflexivity. }
    cbn [dec_aux]. destruct (n <? 10)%N; [exact Hd | apply IH; exact Hd].
Qed.

Lemma digits_val_cons c s : digits_val (c :: s) = digit_val c * 10 ^ Z.of_nat (length s) + digits_val s.
Proof.
  change (c :: s) with ([c] ++ s). rewrite digits_val_app.
  assert (E : digits_val [c] = digit_val c) by (unfold digits_val; simpl; lia). rewrite E. reflexivity.
Qed.

Lemma dec_aux_val fuel : forall n acc,
  Z.of_N n < 2 ^ Z.of_nat fuel ->
  digits_val (dec_aux fuel n acc) = Z.of_N n * 10 ^ Z.of_nat (length acc) + digits_val acc.
Proof.
  induction fuel as [|f IH]; intros n acc Hn.
  - simpl in Hn. assert (n = 0%N) by lia. subst n. cbn [dec_aux].
    rewrite digits_val_cons. unfold digit_val. change (0 mod 10)%N with 0%N. simpl. lia.
  - assert (Hstep : digits_val ((48 + n mod 10)%N :: acc) =
                    Z.of_N (n mod 10) * 10 ^ Z.of_nat (length acc) + digits_val acc).
    { rewrite digits_val_cons. unfold digit_val. f_equal. f_equal. lia. }
    cbn [dec_aux]. destruct (N.ltb_spec n 10%N) as [Hlt|Hge].
    + rewrite Hstep. rewrite N.mod_small by exact Hlt. reflexivity.
    + rewrite Nat2Z.inj_succ, Z.pow_succ_r in Hn by lia.
      assert (Hq : Z.of_N (n / 10) < 2 ^ Z.of_nat f).
      { rewrite N2Z.inj_div. change (Z.of_N 10) with 10.
        pose proof (Z.div_mod (Z.of_N n) 10 ltac:(lia)) as E.
        pose proof (Z.mod_pos_bound (Z.of_N n) 10 ltac:(lia)). lia. }
      rewrite (IH _ _ Hq), Hstep. simpl length. rewrite Nat2Z.inj_succ, Z.pow_succ_r by lia.
      rewrite N2Z.inj_div, N2Z.inj_mod. change (Z.of_N 10) with 10.
      pose proof (Z.div_mod (Z.of_N n) 10 ltac:(lia)) as E. nia.
Qed.

Lemma dec_N_digits n : forallb is_digit (dec_N n) = true.
Proof. apply dec_aux_digits. reflexivity. Qed.

Lemma dec_N_val n : digits_val (dec_N n) = Z.of_N n.
Proof.
  unfold dec_N. rewrite dec_aux_val.
  - simpl. unfold digits_val. simpl. lia.
  - pose proof (N.size_gt n) as H. rewrite N_nat_Z.
    assert (E : Z.of_N (2 ^ N.size n) = 2 ^ Z.of_N (N.size n)) by (rewrite N2Z.inj_pow; reflexivity).
    lia.
Qed.

Lemma dec_N_nonempty n : dec_N n <> [].
Proof.
  unfold dec_N. generalize (N.to_nat (N.size n)) as fuel. intros fuel.
  assert (G : forall f m acc, dec_aux f m acc <> []).
  { induction f as [|f IH]; intros m acc; simpl; [discriminate|]. destruct (m <? 10)%N; [discriminate | apply IH]. }
  apply G.
Qed.

Lemma dec_nonneg_digits t : 0 <= t -> forallb is_digit (dec t) = true /\ dec t <> [] /\ digits_val (dec t) = t.
Proof.
  intros H. destruct t as [|p|p]; [| |lia].
  - repeat split; discriminate.
  - simpl dec. split; [apply dec_N_digits|]. split; [apply dec_N_nonempty|]. rewrite dec_N_val. reflexivity.
Qed.

Lemma dec_inj_nonneg a b : 0 <= a -> 0 <= b -> dec a = dec b -> a = b.
Proof.
  intros Ha Hb E. destruct (dec_nonneg_digits a Ha) as [_ [_ Va]]. destruct (dec_nonneg_digits b Hb) as [_ [_ Vb]].
  rewrite <- Va, <- Vb, E. reflexivity.
Qed.

(* ParseInt: range and non-negativity facts *)
Definition parse_int_body (neg : bool) (digs : str) : option Z :=
  if is_nil digs || negb (forallb is_digit digs) then None
  else let v := digits_val digs in
       if neg then (if v <=? two63 then Some (- v) else None)
       else (if v <? two63 then Some v else None).

Lemma parse_int_unfold s :
  parse_int s = match s with
                | [] => None
                | c :: r => if (c =? 43)%N then parse_int_body false r
                            else if (c =? 45)%N then parse_int_body true r
                            else parse_int_body false s
                end.
Proof.
  destruct s as [|c r]; [reflexivity|]. unfold parse_int, parse_int_body.
  destruct (c =? 43)%N; [reflexivity|]. destruct (c =? 45)%N; reflexivity.
Qed.

Lemma parse_int_body_range neg digs t : parse_int_body neg digs = Some t -> - two63 <= t < two63.
Proof.
  unfold parse_int_body.
  destruct (is_nil digs || negb (forallb is_digit digs)) eqn:E; [intros H; discriminate H|].
  apply orb_false_iff in E as [_ E]. apply negb_false_iff in E.
  pose proof (digits_val_bounds digs E) as [Hv _]. cbv zeta.
  destruct neg.
  - destruct (Z.leb_spec (digits_val digs) two63) as [L|L]; [|intros G; discriminate G].
    intros G; inversion G. unfold two63 in *. lia.
  - destruct (Z.ltb_spec (digits_val digs) two63) as [L|L]; [|intros G; discriminate G].
    intros G; inversion G. unfold two63 in *. lia.
Qed.

Lemma parse_int_range s t : parse_int s = Some t -> - two63 <= t < two63.
Proof.
  rewrite parse_int_unfold. destruct s as [|c r]; [intros H; discriminate H|].
  destruct (c =? 43)%N; [apply parse_int_body_range|].
  destruct (c =? 45)%N; apply parse_int_body_range.
Qed.

(* ================================================================== the signature gate *)
Lemma tag_eqb_eq a b : tag_eqb a b = true <-> a = b.
Proof.
  destruct a as [k m|x], b as [k' m'|y]; simpl; split; intros H; try discriminate.
  - apply andb_true_iff in H as [H1 H2]. apply str_eqb_eq in H1, H2. subst. reflexivity.
  - inversion H; subst. rewrite !str_eqb_refl. reflexivity.
  - apply str_eqb_eq in H. subst. reflexivity.
  - inversion H; subst. apply str_eqb_refl.
Qed.

Lemma wrap64_le z : - two63 <= z -> wrap64 z <= z.
Proof.
  intros H. unfold wrap64. pose proof (Z.mod_le (z + two63) (2 ^ 64) ltac:(lia) ltac:(lia)). lia.
Qed.

Lemma not_too_old now t : - two63 <= t -> too_old now t = false -> now - t * ns <= ttl_ns.
Proof.
  intros Ht H. unfold too_old in H. rewrite Z.gtb_ltb, Z.ltb_ge in H.
  unfold tm_internal in H. pose proof (wrap64_le (t + unix_to_internal)) as W.
  unfold unix_to_internal, two63, ns, ttl_ns in *. lia.
Qed.

Theorem valid_signature_sound now uri sg ts secret :
  valid_signature now uri sg ts secret = true ->
  uri <> [] /\ ts <> [] /\ secret <> [] /\ go_parse uri <> None /\
  exists t, parse_int ts = Some t /\ sg = SigTag (Mac secret (uri ++ dec t)) /\ now - t * ns <= ttl_ns.
Proof.
  unfold valid_signature. destruct sg as [| |tg]; try discriminate.
  destruct (is_nil uri || is_nil ts || is_nil secret) eqn:E; [discriminate|].
  apply orb_false_iff in E as [E E3]. apply orb_false_iff in E as [E1 E2].
  destruct (go_parse uri) as [u|] eqn:Eg; [|discriminate].
  destruct (parse_int ts) as [t|] eqn:Et; [|discriminate].
  destruct (too_old now t) eqn:Eo; [discriminate|]. intros H. apply tag_eqb_eq in H. subst tg.
  split; [destruct uri; [discriminate | discriminate]|].
  split; [destruct ts; [discriminate | discriminate]|].
  split; [destruct secret; [discriminate | discriminate]|].
  split; [discriminate|]. exists t. split; [reflexivity|]. split; [reflexivity|].
  apply not_too_old; [|exact Eo]. exact (proj1 (parse_int_range ts t Et)).
Qed.

Theorem signature_from_proxy now uri sg ts secret issued :
  valid_signature now uri sg ts secret = true -> issued_only secret issued sg ->
  exists u0 t0 t, In (u0, t0) issued /\ parse_int ts = Some t /\
                  u0 ++ dec t0 = uri ++ dec t /\ now - t * ns <= ttl_ns.
Proof.
  intros Hv Hi. destruct (valid_signature_sound _ _ _ _ _ Hv) as [_ [_ [_ [_ [t [Ht [Hs Ha]]]]]]].
  destruct (Hi _ Hs) as [u0 [t0 [Hin Hm]]]. exists u0, t0, t. repeat split; auto.
Qed.

(* ---------- concatenation: when does the signed text determine (uri, ts)? ---------- *)

Lemma all_digits_last p c : forallb is_digit (p ++ [c]) = true -> is_digit c = true.
Proof. rewrite forallb_app'. simpl. rewrite andb_true_r, andb_true_iff. tauto. Qed.

Lemma pow10_pos n : 0 < 10 ^ Z.of_nat n.
Proof. apply Z.pow_pos_nonneg; lia. Qed.

(* the purely textual fact: with a non-digit at the end of the signed URI and non-negative
   times, a different presented pair must extend the URI by leading digits of the time,
   which makes the presented time less than half the signed one *)
Theorem concat_cases u0 t0 u t :
  ends_nondigit u0 -> 0 <= t0 -> 0 <= t ->
  u0 ++ dec t0 = u ++ dec t ->
  (u = u0 /\ t = t0) \/
  (exists l, l <> [] /\ u = u0 ++ l /\ forallb is_digit l = true /\ 2 * t < t0).
Proof.
  intros [p0 [c0 [-> Hc0]]] Ht0 Ht E.
  destruct (dec_nonneg_digits t0 Ht0) as [D0 [N0 V0]]. destruct (dec_nonneg_digits t Ht) as [D1 [N1 V1]].
  apply app_eq_app in E as [l [[E1 E2]|[E1 E2]]].
  - (* u0 = u ++ l, dec t = l ++ dec t0 *)
    destruct l as [|x l] using rev_ind.
    + left. rewrite app_nil_r in E1. simpl in E2. split; [auto | apply dec_inj_nonneg; auto].
    + exfalso. rewrite app_assoc in E1. apply app_inj_tail in E1 as [_ ->].
      rewrite E2, forallb_app' in D1. apply andb_true_iff in D1 as [D1 _].
      apply all_digits_last in D1. congruence.
  - (* u = u0 ++ l, dec t0 = l ++ dec t *)
    destruct l as [|x l].
    + left. rewrite app_nil_r in E1. simpl in E2. split; [auto | apply dec_inj_nonneg; auto].
    + right. exists (x :: l). split; [discriminate|]. split; [exact E1|].
      rewrite E2, forallb_app' in D0. apply andb_true_iff in D0 as [Dl _]. split; [exact Dl|].
      assert (Hval : t0 = digits_val (x :: l) * 10 ^ Z.of_nat (length (dec t)) + t).
      { rewrite <- V0 at 1. rewrite E2, digits_val_app, V1. reflexivity. }
      pose proof (digits_val_bounds _ Dl) as [Hl _]. pose proof (digits_val_bounds _ D1) as [_ Hb].
      rewrite V1 in Hb. pose proof (pow10_pos (length (dec t))) as Hp.
      assert (digits_val (x :: l) <> 0).
      { intros Z0. rewrite Z0 in Hval. simpl in Hval. subst t0.
        apply (f_equal (@length N)) in E2. rewrite app_length in E2. simpl in E2. lia. }
      nia.
Qed.

(* with the freshness test and a proxy clock that is not ahead by more than [skew] seconds,
   the signed text determines the pair exactly *)
Lemma ns_eq : ns = 1000000000.
Proof. reflexivity. Qed.
Ltac tnum := unfold ttl_ns in *; rewrite ?ns_eq in *.

Theorem signed_exactly u0 t0 u t now skew :
  ends_nondigit u0 -> 0 <= t0 -> t0 * ns <= now + skew * ns -> 0 <= skew -> (600 + skew) * ns <= now ->
  - two63 <= t -> now - t * ns <= ttl_ns ->
  u0 ++ dec t0 = u ++ dec t ->
  u = u0 /\ t = t0.
Proof.
  intros He Ht0 Hclock Hsk Hnow Htr Hage E.
  assert (Ht : 0 <= t) by (tnum; lia).
  destruct (concat_cases u0 t0 u t He Ht0 Ht E) as [G|[l [_ [_ [_ H2]]]]]; [exact G|].
  exfalso. tnum. lia.
Qed.

(* the collision that exists without the freshness / trailing-digit guards (information) *)
Theorem concat_ambiguity :
  (exists u0 t0 u t, ends_nondigit u0 /\ 0 <= t0 /\ 0 <= t /\ u0 ++ dec t0 = u ++ dec t /\ u <> u0) /\
  (exists u0 t0 u t, 0 <= t0 /\ t0 < t /\ u0 ++ dec t0 = u ++ dec t /\ u <> u0).
Proof.
  split.
  - exists [120; 47]%N, 123, [120; 47; 49]%N, 23. repeat split; try lia; try discriminate.
    exists [120]%N, 47%N. split; reflexivity.
  - exists [120; 47; 49]%N, 23, [120; 47]%N, 123. repeat split; try lia; discriminate.
Qed.

Close Scope Z_scope.

(* ================================================================== route table *)
Ltac gate_step H :=
  match type of H with
  | context [if ?b then _ else _] => let E := fresh "E" in destruct b eqn:E; try discriminate H
  | context [match ?x with _ => _ end] => let E := fresh "E" in destruct x eqn:E; try discriminate H
  end.

Lemma neg_false b : negb b = false -> b = true.
Proof. destruct b; [reflexivity | discriminate]. Qed.

(* every redirect to a caller-supplied URI passed validRedirectURI for exactly that URI *)
Theorem redirect_validated c now ep q src hw :
  serve c now ep q = ORedirect src hw -> valid_redirect_uri src (root_domains c) = true.
Proof.
  intros H. destruct ep; unfold serve, gate_methods, gate_client_id, gate_redirect_uri, gate_signature,
    oauth_start, oauth_callback, sign_in_handler, sign_out_handler, proxy_oauth_redirect in H;
    repeat gate_step H; inversion H; subst; auto using neg_false.
Qed.

(* a code is attached only by /sign_in, and only behind both gates *)
Theorem code_gated c now ep q src :
  serve c now ep q = ORedirect src WithCode ->
  ep = EpSignIn /\ src = q_uri q /\ q_meth q = GET /\ q_client_id q = c_client_id c /\
  valid_redirect_uri src (root_domains c) = true /\
  valid_signature now src (q_sig q) (q_ts q) (c_secret c) = true.
Proof.
  intros H. destruct ep; unfold serve, gate_methods, gate_client_id, gate_redirect_uri, gate_signature,
    oauth_start, oauth_callback, sign_in_handler, sign_out_handler, proxy_oauth_redirect in H;
    repeat gate_step H; inversion H; subst.
  repeat split; auto using neg_false.
  - simpl in E. destruct (q_meth q); try discriminate E; reflexivity.
  - apply str_eqb_eq. auto using neg_false.
Qed.

(* a sign-out redirect happens only behind both gates *)
Theorem sign_out_gated c now q src hw :
  serve c now EpSignOut q = ORedirect src hw ->
  src = q_uri q /\ hw = Verbatim /\
  valid_redirect_uri src (root_domains c) = true /\
  valid_signature now src (q_sig q) (q_ts q) (c_secret c) = true.
Proof.
  intros H. unfold serve, gate_methods, gate_redirect_uri, gate_signature, sign_out_handler in H;
    repeat gate_step H; inversion H; subst; repeat split; auto using neg_false.
Qed.

(* a login is started at the identity provider only for validated outer and nested URIs and a
   valid signature over the nested one *)
Theorem idp_start_gated c now ep q a :
  serve c now ep q = OIdP a ->
  ep = EpStart /\ q_outer q = Some a /\ valid_redirect_uri a (root_domains c) = true /\
  exists b, q_nested q = Some b /\ valid_redirect_uri b (root_domains c) = true /\
            valid_signature now b (q_sig q) (q_ts q) (c_secret c) = true.
Proof.
  intros H. destruct ep; unfold serve, gate_methods, gate_client_id, gate_redirect_uri, gate_signature,
    oauth_start, oauth_callback, sign_in_handler, sign_out_handler, proxy_oauth_redirect in H;
    repeat gate_step H; inversion H; subst.
  repeat split; auto using neg_false. eexists. repeat split; eauto using neg_false.
Qed.

(* the callback forwards the URI recovered from the state untouched, after re-validating it *)
Theorem callback_gated c now q src hw :
  serve c now EpCallback q = ORedirect src hw ->
  hw = Verbatim /\ (exists nonce, q_cb_state q = StPair nonce src /\ q_cb_csrf q = Some nonce) /\
  valid_redirect_uri src (root_domains c) = true.
Proof.
  intros H. unfold serve, gate_methods, oauth_callback in H; repeat gate_step H; inversion H; subst.
  repeat split; auto using neg_false. eexists. split; [reflexivity|].
  f_equal. apply neg_false in E8. apply str_eqb_eq in E8. exact E8.
Qed.

(* ================================================================== the property, assembled *)
Theorem redirect_host_in_domain c now ep q src hw sch ui h port rest :
  serve c now ep q = ORedirect src hw -> rfc_split src sch ui h port rest ->
  in_domain (rfc_hostname h) (c_domains c).
Proof.
  intros H Hs. exact (host_in_domain src (c_domains c) _ _ _ _ _ (redirect_validated _ _ _ _ _ _ H) Hs).
Qed.

Theorem code_needs_signature c now ep q issued :
  issued_only (c_secret c) issued (q_sig q) ->
  (forall src, serve c now ep q = ORedirect src WithCode ->
     valid_signature now src (q_sig q) (q_ts q) (c_secret c) = true /\ signed_fresh now issued src (q_ts q)) /\
  (forall src hw, ep = EpSignOut -> serve c now ep q = ORedirect src hw ->
     valid_signature now src (q_sig q) (q_ts q) (c_secret c) = true /\ signed_fresh now issued src (q_ts q)) /\
  (forall a, serve c now ep q = OIdP a ->
     exists b, q_nested q = Some b /\
       valid_signature now b (q_sig q) (q_ts q) (c_secret c) = true /\ signed_fresh now issued b (q_ts q)).
Proof.
  intros Hi. split; [|split].
  - intros src H. destruct (code_gated _ _ _ _ _ H) as [_ [_ [_ [_ [_ Hs]]]]]. split; [exact Hs|].
    exact (signature_from_proxy _ _ _ _ _ _ Hs Hi).
  - intros src hw -> H. destruct (sign_out_gated _ _ _ _ _ H) as [_ [_ [_ Hs]]]. split; [exact Hs|].
    exact (signature_from_proxy _ _ _ _ _ _ Hs Hi).
  - intros a H. destruct (idp_start_gated _ _ _ _ _ H) as [_ [_ [_ [b [Hb [_ Hs]]]]]]. exists b.
    split; [exact Hb|]. split; [exact Hs|]. exact (signature_from_proxy _ _ _ _ _ _ Hs Hi).
Qed.

(* no backslash anywhere in the authority of an accepted URI (WHATWG readers treat it as a slash) *)
Theorem accepted_no_backslash uri cfg sch ui h port rest :
  valid_redirect_uri uri (norm_domains cfg) = true -> rfc_split uri sch ui h port rest ->
  ~ In c_bslash (opt_userinfo ui ++ h ++ opt_port port).
Proof.
  intros Hv Hs. destruct (valid_redirect_parsed uri cfg Hv) as [u [Hp [_ [Hh _]]]].
  exact (accepted_authority_no_backslash uri u sch ui h port rest Hp Hh Hs).
Qed.

(* ================================================================== the Location of the code redirect *)
(* ProxyOAuthRedirect writes URL.String() of the re-parsed redirect with the configured scheme.
   Up to the end of the authority that text is [authority_string (c_scheme c) u]; what follows is a
   path, query or fragment ([tail]). Every RFC reading of the emitted text names an in-domain host. *)
Theorem code_location_in_domain c now ep q src :
  serve c now ep q = ORedirect src WithCode ->
  forallb byte_ok src = true -> (c_scheme c = [] \/ scheme_ok (c_scheme c)) ->
  exists u, go_parse src = Some u /\
    forall tail s' ui' h' p' r', rest_ok tail ->
      rfc_split (authority_string (c_scheme c) u ++ tail) s' ui' h' p' r' ->
      in_domain (rfc_hostname h') (c_domains c).
Proof.
  intros H Hb Hsch. destruct (code_gated _ _ _ _ _ H) as [_ [_ [_ [_ [Hv _]]]]].
  destruct (valid_redirect_parsed src (c_domains c) Hv) as [u [Hp [_ [Hh Hd]]]].
  exists u. split; [exact Hp|]. intros tail s' ui' h' p' r' Ht Hs.
  destruct (go_parse_bytes src u Hp Hb) as [B1 B2].
  rewrite (string_authority_host (c_scheme c) u tail s' ui' h' p' r' Hsch B1 B2 Ht Hs). exact Hd.
Qed.

(* and that text is all-ASCII, so http.Redirect's hexEscapeNonASCII leaves it alone *)
Theorem code_location_prefix c src u :
  go_parse src = Some u -> forallb byte_ok src = true -> forallb ascii (c_scheme c) = true ->
  location_prefix c (ORedirect src WithCode) = Some (authority_string (c_scheme c) u).
Proof.
  intros Hp Hb Hs. unfold location_prefix. rewrite Hp. f_equal. apply hex_escape_id.
  destruct (go_parse_bytes src u Hp Hb) as [B1 B2]. apply authority_string_ascii; assumption.
Qed.

(* ================================================================== the request on the wire *)
(* Which of several presented values is read is decided by ParseForm's precedence, and it is the
   SAME value for the redirect gate, the signature gate and the handler. *)
Lemma values_of_app k a b : values_of k (a ++ b) = values_of k a ++ values_of k b.
Proof. unfold values_of. rewrite filter_app, map_app. reflexivity. Qed.

Lemma get_first_in k pairs : get_first k pairs <> [] -> In (get_first k pairs) (values_of k pairs).
Proof.
  induction pairs as [|[a b] r IH]; intros H; [exfalso; apply H; reflexivity|].
  cbn [get_first] in *. unfold values_of. cbn [filter fst]. destruct (str_eqb a k).
  - left. reflexivity.
  - apply IH. exact H.
Qed.

Lemma form_get_presented w k : form_get w k <> [] -> In (form_get w k) (presented w k).
Proof.
  intros H. unfold form_get in *. apply get_first_in in H. unfold presented.
  set (v := get_first k (form_pairs w)) in *. clearbody v. unfold form_pairs in H.
  rewrite values_of_app in *. apply in_or_app. apply in_app_or in H as [H|H]; [|right; exact H].
  destruct (body_read w); [left; exact H | destruct H].
Qed.

Lemma query_get_presented w k : query_get w k <> [] -> In (query_get w k) (presented w k).
Proof.
  intros H. unfold query_get in *. apply get_first_in in H. unfold presented. rewrite values_of_app.
  apply in_or_app. right. exact H.
Qed.

(* a code redirect or a sign-out redirect goes to exactly the value Form.Get returns — the first
   body value when the body is read (POST, urlencoded), else the first query value — and both
   gates judged that very value together with the sig / ts values read the same way *)
Theorem wire_redirect_reads_form c now ep w src hw :
  serve_wire c now ep w = ORedirect src hw -> (ep = EpSignIn \/ ep = EpSignOut) ->
  src = form_get w k_redirect_uri /\
  valid_redirect_uri src (root_domains c) = true /\
  valid_signature now src (sig_lookup (w_sigtab w) (form_get w k_sig)) (form_get w k_ts) (c_secret c) = true.
Proof.
  unfold serve_wire. intros H [->| ->].
  - assert (hw = WithCode).
    { destruct hw; [|reflexivity]. exfalso. unfold serve, gate_methods, gate_client_id, gate_redirect_uri, gate_signature,
        sign_in_handler, proxy_oauth_redirect in H. repeat gate_step H; inversion H. }
    subst hw. destruct (code_gated _ _ _ _ _ H) as [_ [Hu [_ [_ [Hv Hs]]]]].
    cbn [request_of_wire q_uri q_sig q_ts] in Hu, Hs. subst src. auto.
  - destruct (sign_out_gated _ _ _ _ _ H) as [Hu [_ [Hv Hs]]].
    cbn [request_of_wire q_uri q_sig q_ts] in Hu, Hs. subst src. auto.
Qed.

(* the value read is one the client presented, and so are the sig and ts that vouched for it *)
Theorem wire_redirect_presented c now ep w src hw :
  serve_wire c now ep w = ORedirect src hw -> (ep = EpSignIn \/ ep = EpSignOut) ->
  In src (presented w k_redirect_uri) /\
  exists s t, In s (presented w k_sig) /\ In t (presented w k_ts) /\
              valid_signature now src (sig_lookup (w_sigtab w) s) t (c_secret c) = true.
Proof.
  intros H Hep. destruct (wire_redirect_reads_form _ _ _ _ _ _ H Hep) as [-> [Hv Hs]].
  pose proof (valid_signature_sound _ _ _ _ _ Hs) as [Hu [Ht [_ [_ [t [_ [Hsg _]]]]]]].
  split; [apply form_get_presented; exact Hu|].
  exists (form_get w k_sig), (form_get w k_ts). split; [|split; [apply form_get_presented; exact Ht | exact Hs]].
  apply form_get_presented. intros E. rewrite E in Hsg. discriminate Hsg.
Qed.

Theorem wire_callback_presented c now w src hw :
  serve_wire c now EpCallback w = ORedirect src hw ->
  hw = Verbatim /\ valid_redirect_uri src (root_domains c) = true /\
  exists st n, In st (presented w k_state) /\ state_lookup (w_statetab w) st = StPair n src.
Proof.
  unfold serve_wire. intros H. destruct (callback_gated _ _ _ _ _ H) as [-> [[n [Hst _]] Hv]].
  split; [reflexivity|]. split; [exact Hv|]. cbn [request_of_wire q_cb_state] in Hst.
  exists (form_get w k_state), n. split; [|exact Hst].
  apply form_get_presented. intros E. rewrite E in Hst. discriminate Hst.
Qed.

Theorem wire_idp_presented c now ep w a :
  serve_wire c now ep w = OIdP a ->
  ep = EpStart /\
  exists x, In x (presented w k_redirect_uri) /\
    let i := start_lookup (w_starttab w) x in
    si_outer i = Some a /\ valid_redirect_uri a (root_domains c) = true /\
    exists b, si_nested i = Some b /\ valid_redirect_uri b (root_domains c) = true /\
              valid_signature now b (si_sig i) (si_ts i) (c_secret c) = true.
Proof.
  unfold serve_wire. intros H. destruct (idp_start_gated _ _ _ _ _ H) as [-> [Ho [Hv [b [Hb [Hvb Hs]]]]]].
  split; [reflexivity|]. cbn [request_of_wire q_outer q_nested q_sig q_ts] in Ho, Hb, Hs.
  exists (query_get w k_redirect_uri). split.
  - apply query_get_presented. intros E. rewrite E in Ho. cbn in Ho. inversion Ho; subst a. discriminate Hv.
  - cbv zeta. split; [exact Ho|]. split; [exact Hv|]. exists b. auto.
Qed.

(* ================================================================== reading the clock during a request *)
(* The answer depends on the clock only through the freshness test, and that test only gets
   stricter as time passes. So if the service read its clock anywhere between two instants, its
   answer is the model's answer for one of the two ends (used by the timed sequences, whose
   real-time margins are small). *)
Lemma too_old_mono a b t : (a <= b)%Z -> too_old a t = true -> too_old b t = true.
Proof. unfold too_old. rewrite !Z.gtb_ltb, !Z.ltb_lt. lia. Qed.

Lemma valid_signature_antitone a b uri sg ts secret : (a <= b)%Z ->
  valid_signature b uri sg ts secret = true -> valid_signature a uri sg ts secret = true.
Proof.
  intros Hab. unfold valid_signature. destruct sg as [| |tg]; auto.
  destruct (is_nil uri || is_nil ts || is_nil secret); auto. destruct (go_parse uri); auto.
  destruct (parse_int ts) as [t|]; auto.
  destruct (too_old a t) eqn:Ea; [rewrite (too_old_mono a b t Hab Ea); auto|].
  destruct (too_old b t); [discriminate | auto].
Qed.

Lemma serve_same_verdict c a b ep q :
  (forall uri, valid_signature a uri (q_sig q) (q_ts q) (c_secret c) = valid_signature b uri (q_sig q) (q_ts q) (c_secret c)) ->
  serve c a ep q = serve c b ep q.
Proof.
  intros H. destruct ep; unfold serve, gate_signature, oauth_start; rewrite ?H; try reflexivity.
  destruct (q_outer q); [|reflexivity]. destruct (q_nested q) as [n|]; [rewrite (H n)|]; reflexivity.
Qed.

Theorem serve_clock_bracket c lo mid hi ep q :
  (lo <= mid)%Z -> (mid <= hi)%Z ->
  serve c mid ep q = serve c lo ep q \/ serve c mid ep q = serve c hi ep q.
Proof.
  intros H1 H2.
  (* only one signed text is judged per request *)
  set (u := match ep with EpStart => match q_nested q with Some n => n | None => [] end | _ => q_uri q end).
  assert (Hdep : forall x y, valid_signature x u (q_sig q) (q_ts q) (c_secret c) = valid_signature y u (q_sig q) (q_ts q) (c_secret c) ->
                 serve c x ep q = serve c y ep q).
  { intros x y E. subst u. destruct ep; unfold serve, gate_signature, oauth_start; rewrite ?E; try reflexivity.
    destruct (q_outer q); [|reflexivity]. destruct (q_nested q) as [n|]; [rewrite E|]; reflexivity. }
  destruct (valid_signature mid u (q_sig q) (q_ts q) (c_secret c)) eqn:Em.
  - left. apply Hdep. rewrite Em. symmetry. exact (valid_signature_antitone lo mid _ _ _ _ H1 Em).
  - right. apply Hdep. rewrite Em. symmetry.
    destruct (valid_signature hi u (q_sig q) (q_ts q) (c_secret c)) eqn:Eh; [|reflexivity].
    rewrite (valid_signature_antitone mid hi _ _ _ _ H2 Eh) in Em. discriminate.
Qed.

(* ================================================================== the outermost handler *)
(* NewAuthenticatorMux adds no redirect of its own: a redirect (or a login start) comes from a
   route of the authenticator, for a request whose Host header is exactly the configured one *)
Theorem outer_redirect_from_route c sh rh p now w o :
  outer_serve c sh rh p now w = o ->
  (exists src hw, o = ORedirect src hw) \/ (exists a, o = OIdP a) ->
  exists ep, p = OpRoute ep /\ rh = sh /\ serve_wire c now ep w = o.
Proof.
  intros H Ho. unfold outer_serve in H. destruct p as [| |ep].
  - subst o. destruct Ho as [[? [? Ho]]|[? Ho]]; discriminate Ho.
  - destruct (str_eqb rh sh); subst o; destruct Ho as [[? [? Ho]]|[? Ho]]; discriminate Ho.
  - destruct (str_eqb rh sh) eqn:E.
    + exists ep. apply str_eqb_eq in E. auto.
    + subst o. destruct Ho as [[? [? Ho]]|[? Ho]]; discriminate Ho.
Qed.
