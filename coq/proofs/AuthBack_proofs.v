(* Proofs about AuthBack.v (property C08). *)
From V Require Import Base Base_proofs AuthBack.
From Coq Require Import ZifyN ZifyNat ZifyBool.

(* ---------------------------------------------------------------------------------------- *)
(* form helpers *)

Lemma is_nil_true {A} (l : list A) : is_nil l = true <-> l = [].
Proof. destruct l; simpl; split; congruence. Qed.

Lemma is_nil_false {A} (l : list A) : is_nil l = false <-> l <> [].
Proof. destruct l; simpl; split; congruence. Qed.

Lemma values_of_app k a b : values_of k (a ++ b) = values_of k a ++ values_of k b.
Proof.
  induction a as [|[x y] a IH]; simpl; [reflexivity|].
  destruct (str_eqb k x); simpl; rewrite IH; reflexivity.
Qed.

(* Get returns one of the values of the key, unless it returns "" *)
Lemma form_get_in_values k f : form_get k f <> [] -> In (form_get k f) (values_of k f).
Proof.
  induction f as [|[x y] f IH]; simpl; [congruence|].
  destruct (str_eqb k x); simpl; auto.
Qed.

Lemma form_get_is_first k f : form_get k f = match values_of k f with [] => [] | v :: _ => v end.
Proof.
  induction f as [|[x y] f IH]; simpl; [reflexivity|].
  destruct (str_eqb k x); simpl; auto.
Qed.

(* ---------------------------------------------------------------------------------------- *)
(* ParseForm *)

Definition the_form (r : request) : form := fst (compute_form r).
Definition fs_ok (r : request) (fs : form_state) : Prop := fs = None \/ fs = Some (the_form r).
(* the error the NEXT ParseForm call returns in this state *)
Definition pending_err (r : request) (fs : form_state) : bool :=
  match fs with None => snd (compute_form r) | Some _ => false end.

Lemma parse_form_ok r fs : fs_ok r fs -> parse_form r fs = (Some (the_form r), pending_err r fs).
Proof.
  unfold the_form. intros [-> | ->]; unfold parse_form, pending_err; [|reflexivity].
  destruct (compute_form r); reflexivity.
Qed.

Lemma init_state_ok pre r : fs_ok r (init_state pre r).
Proof.
  unfold init_state. destruct pre; [right | left; reflexivity].
  rewrite parse_form_ok by (left; reflexivity). reflexivity.
Qed.

Lemma init_state_err pre r :
  pending_err r (init_state pre r) = if pre then false else snd (compute_form r).
Proof.
  unfold init_state. destruct pre; [|reflexivity].
  rewrite parse_form_ok by (left; reflexivity). reflexivity.
Qed.

(* the form is: (nothing or the parsed body) followed by the parsed query *)
Lemma the_form_shape r :
  exists bp, the_form r = bp ++ fst (parse_query (rq_query r)) /\
             (bp = [] \/ bp = fst (parse_query (rq_body r))).
Proof.
  unfold the_form, compute_form.
  destruct (parse_query (rq_query r)) as [qp qe].
  destruct (reads_body (rq_method r)); [destruct (ct_urlenc (rq_ctype r))|].
  - destruct (parse_query (rq_body r)) as [bp be]. exists bp. simpl. auto.
  - exists []. simpl. auto.
  - exists []. simpl. auto.
Qed.

Lemma values_the_form_incl k r :
  incl (values_of k (the_form r))
       (values_of k (fst (parse_query (rq_body r))) ++ values_of k (fst (parse_query (rq_query r)))).
Proof.
  destruct (the_form_shape r) as [bp [-> [-> | ->]]]; rewrite values_of_app; simpl.
  - apply incl_appr, incl_refl.
  - apply incl_refl.
Qed.

(* ---------------------------------------------------------------------------------------- *)
(* the two gates *)

Definition gate_passes_b (cfg : config) (g : gate) (r : request) : bool :=
  match g with
  | GClientID => str_eqb (presented_id r) (cfg_id cfg)
  | GClientSecret => str_eqb (presented_secret r) (cfg_secret cfg)
  end.

Definition gate_passes (cfg : config) (g : gate) (r : request) : Prop :=
  match g with
  | GClientID => presented_id r = cfg_id cfg
  | GClientSecret => presented_secret r = cfg_secret cfg
  end.

Lemma gate_passes_iff cfg g r : gate_passes_b cfg g r = true <-> gate_passes cfg g r.
Proof. destruct g; simpl; apply str_eqb_eq. Qed.

Lemma gate_step cfg g (f : hfun) r fs : fs_ok r fs ->
  apply_gate cfg g f r fs =
    if pending_err r fs then err_resp 500
    else if gate_passes_b cfg g r then f r (Some (the_form r)) else err_resp 401.
Proof.
  intros Hok. destruct g; simpl; unfold validate_client_id, validate_client_secret;
    rewrite (parse_form_ok r fs Hok); destruct (pending_err r fs); try reflexivity;
    unfold presented_id, presented_secret, form_of, the_form; reflexivity.
Qed.

Lemma wrap_spec cfg (h : hfun) r : forall gs fs, fs_ok r fs -> gs <> [] ->
  (pending_err r fs = false /\ (forall g, In g gs -> gate_passes cfg g r) /\
   wrap cfg gs h r fs = h r (Some (the_form r)))
  \/ (pending_err r fs = true /\ wrap cfg gs h r fs = err_resp 500)
  \/ (pending_err r fs = false /\ (exists g, In g gs /\ ~ gate_passes cfg g r) /\
      wrap cfg gs h r fs = err_resp 401).
Proof.
  induction gs as [|g gs IH]; intros fs Hok Hne; [congruence|].
  cbn [wrap fold_right]. fold (wrap cfg gs h). rewrite (gate_step cfg g _ r fs Hok).
  destruct (pending_err r fs) eqn:Ee; [right; left; auto|].
  destruct (gate_passes_b cfg g r) eqn:Eg.
  - apply gate_passes_iff in Eg. destruct gs as [|g' gs'].
    + left. split; [reflexivity|]. split; [|reflexivity].
      intros g0 [<-|[]]. exact Eg.
    + assert (Hok' : fs_ok r (Some (the_form r))) by (right; reflexivity).
      destruct (IH (Some (the_form r)) Hok' ltac:(discriminate)) as [[_ [Ha Hw]]|[[He _]|[_ [[g0 [Hg0 Hn]] Hw]]]].
      * left. split; [reflexivity|]. split; [|exact Hw].
        intros g0 [<-|Hin]; [exact Eg | apply Ha; exact Hin].
      * discriminate He.
      * right; right. split; [reflexivity|]. split; [|exact Hw].
        exists g0. split; [right; exact Hg0 | exact Hn].
  - right; right. split; [reflexivity|]. split; [|reflexivity].
    exists g. split; [left; reflexivity|]. rewrite <- gate_passes_iff. congruence.
Qed.

Lemma run_handler_ran cfg e h r fs : rs_ran (run_handler cfg e h r fs) = Some h.
Proof.
  destruct h; simpl; unfold get_profile, validate_token, redeem, refresh.
  - destruct (is_nil (form_get k_email _)); [reflexivity|]. destruct (e_groups e); reflexivity.
  - destruct (is_nil _); [reflexivity|]. destruct (e_valid e); reflexivity.
  - destruct (parse_form r fs) as [fs' er]. destruct er; [reflexivity|].
    destruct (unseal _ _ _); [|reflexivity]. destruct (_ || _)%bool; reflexivity.
  - destruct (parse_form r fs) as [fs' er]. destruct er; [reflexivity|].
    destruct (is_nil _); [reflexivity|]. destruct (e_refresh e); reflexivity.
Qed.

Definition both_gates (rt : route) : Prop := In GClientID (r_gates rt) /\ In GClientSecret (r_gates rt).

Definition creds_ok (cfg : config) (r : request) : Prop :=
  presented_id r = cfg_id cfg /\ presented_secret r = cfg_secret cfg.

(* outcome of a route that carries both gates: exactly one of four things happens *)
Lemma serve_route_cases cfg e rt r pre : both_gates rt ->
  let rs := serve_route cfg e rt r (init_state pre r) in
  (mem_str (rq_method r) (r_methods rt) = false /\ rs = err_resp 405)
  \/ (mem_str (rq_method r) (r_methods rt) = true /\ pre = false /\ snd (compute_form r) = true /\
      rs = err_resp 500)
  \/ (mem_str (rq_method r) (r_methods rt) = true /\ (pre = true \/ snd (compute_form r) = false) /\
      ~ creds_ok cfg r /\ rs = err_resp 401)
  \/ (mem_str (rq_method r) (r_methods rt) = true /\ (pre = true \/ snd (compute_form r) = false) /\
      creds_ok cfg r /\ rs = run_handler cfg e (r_handler rt) r (Some (the_form r))).
Proof.
  intros [Hid Hsec]. cbv zeta. unfold serve_route, with_methods.
  destruct (mem_str (rq_method r) (r_methods rt)) eqn:Em; [|left; auto]. right.
  assert (Hne : r_gates rt <> []) by (intros E; rewrite E in Hid; destruct Hid).
  pose proof (wrap_spec cfg (run_handler cfg e (r_handler rt)) r (r_gates rt) (init_state pre r)
                (init_state_ok pre r) Hne) as H.
  rewrite init_state_err in H.
  assert (Hpre : forall b, (if pre then false else snd (compute_form r)) = b ->
                 if b then pre = false /\ snd (compute_form r) = true
                 else pre = true \/ snd (compute_form r) = false).
  { intros b <-. destruct pre; [left; reflexivity|]. destruct (snd (compute_form r)); auto. }
  destruct H as [[He [Ha Hw]]|[[He Hw]|[He [[g [Hg Hn]] Hw]]]]; apply Hpre in He.
  - right; right. split; [reflexivity|]. split; [exact He|]. split; [|exact Hw].
    split; [exact (Ha GClientID Hid) | exact (Ha GClientSecret Hsec)].
  - left. destruct He as [He1 He2]. auto.
  - right; left. split; [reflexivity|]. split; [exact He|]. split; [|exact Hw].
    intros [H1 H2]. apply Hn. destruct g; simpl; assumption.
Qed.

(* C08_gate_sound *)
Theorem gate_sound : forall cfg e rt r pre, both_gates rt ->
  let rs := serve_route cfg e rt r (init_state pre r) in
  (forall h, rs_ran rs = Some h ->
     h = r_handler rt /\ mem_str (rq_method r) (r_methods rt) = true /\
     presented_id r = cfg_id cfg /\ presented_secret r = cfg_secret cfg) /\
  (rs_ran rs = None ->
     rs_calls rs = [] /\ rs_body rs = no_body /\
     ((rs_status rs = 405 /\ mem_str (rq_method r) (r_methods rt) = false) \/
      (rs_status rs = 500 /\ pre = false /\ snd (compute_form r) = true) \/
      (rs_status rs = 401 /\ (presented_id r <> cfg_id cfg \/ presented_secret r <> cfg_secret cfg)))).
Proof.
  intros cfg e rt r pre Hb. cbv zeta.
  destruct (serve_route_cases cfg e rt r pre Hb) as [[Hm ->]|[[Hm [Hp [He ->]]]|[[Hm [Hp [Hc ->]]]|[Hm [Hp [[Hc1 Hc2] ->]]]]]].
  - split; [intros h H; discriminate H|]. intros _. simpl. split; [reflexivity|]. split; [reflexivity|].
    left. split; [reflexivity | exact Hm].
  - split; [intros h H; discriminate H|]. intros _. simpl. split; [reflexivity|]. split; [reflexivity|].
    right; left. split; [reflexivity|]. split; [exact Hp | exact He].
  - split; [intros h H; discriminate H|]. intros _. simpl. split; [reflexivity|]. split; [reflexivity|].
    right; right. split; [reflexivity|].
    destruct (str_eqb (presented_id r) (cfg_id cfg)) eqn:E1.
    + apply str_eqb_eq in E1. right. intros E2. apply Hc. split; assumption.
    + apply str_eqb_neq in E1. left. exact E1.
  - split.
    + intros h H. rewrite run_handler_ran in H. injection H as <-. auto.
    + intros H. rewrite run_handler_ran in H. discriminate H.
Qed.

(* contrapositive: wrong or missing credentials never reach a gated handler *)
Corollary gate_refuses : forall cfg e rt r pre, both_gates rt ->
  presented_id r <> cfg_id cfg \/ presented_secret r <> cfg_secret cfg ->
  let rs := serve_route cfg e rt r (init_state pre r) in
  rs_ran rs = None /\ rs_calls rs = [] /\ rs_body rs = no_body /\
  (rs_status rs = 401 \/ rs_status rs = 405 \/ rs_status rs = 500).
Proof.
  intros cfg e rt r pre Hb Hw. cbv zeta.
  destruct (gate_sound cfg e rt r pre Hb) as [H1 H2].
  destruct (rs_ran (serve_route cfg e rt r (init_state pre r))) as [h|] eqn:Er.
  - destruct (H1 h eq_refl) as [_ [_ [Hi Hs]]]. destruct Hw; contradiction.
  - split; [reflexivity|]. destruct (H2 eq_refl) as [Hc [Hb' Hst]]. split; [exact Hc|]. split; [exact Hb'|].
    destruct Hst as [[-> _]|[[-> _]|[-> _]]]; auto.
Qed.

(* and the gates are not vacuous: right credentials on a well-formed request do run the handler *)
Lemma gate_complete : forall cfg e rt r pre, both_gates rt ->
  mem_str (rq_method r) (r_methods rt) = true -> (pre = true \/ snd (compute_form r) = false) ->
  presented_id r = cfg_id cfg -> presented_secret r = cfg_secret cfg ->
  serve_route cfg e rt r (init_state pre r) = run_handler cfg e (r_handler rt) r (Some (the_form r)).
Proof.
  intros cfg e rt r pre Hb Hm Hp Hi Hs.
  destruct (serve_route_cases cfg e rt r pre Hb) as [[Hm' _]|[[_ [Hp1 [Hp2 _]]]|[[_ [_ [Hc _]]]|[_ [_ [_ H]]]]]].
  - congruence.
  - destruct Hp; congruence.
  - exfalso. apply Hc. split; assumption.
  - exact H.
Qed.

(* ---------------------------------------------------------------------------------------- *)
(* the gates' reading implies the reading that does not follow the gates: the configured
   credential really occurs among the values the caller sent *)

Lemma presented_id_known r id : presented_id r = id -> id <> [] -> In id (id_values r).
Proof.
  unfold presented_id, id_values. fold (the_form r). intros H Hne.
  destruct (is_nil (form_get k_client_id (the_form r))) eqn:En.
  - apply in_or_app. right. subst id. apply form_get_in_values. exact Hne.
  - apply is_nil_false in En. subst id. apply (values_the_form_incl k_client_id r).
    apply form_get_in_values. exact En.
Qed.

Lemma presented_secret_known r s : presented_secret r = s -> s <> [] -> In s (secret_values r).
Proof.
  unfold presented_secret, secret_values. fold (the_form r). intros H Hne.
  destruct (is_nil (form_get k_client_secret (the_form r))) eqn:En.
  - apply in_or_app. right. apply in_or_app. right. subst s. apply form_get_in_values. exact Hne.
  - apply is_nil_false in En. subst s.
    pose proof (values_the_form_incl k_client_secret r _ (form_get_in_values _ _ En)) as H.
    apply in_app_or in H as [H|H]; apply in_or_app; [left; exact H | right; apply in_or_app; left; exact H].
Qed.

Theorem gate_sound_knowledge : forall cfg e rt r pre h, both_gates rt ->
  cfg_id cfg <> [] -> cfg_secret cfg <> [] ->
  rs_ran (serve_route cfg e rt r (init_state pre r)) = Some h ->
  In (cfg_id cfg) (id_values r) /\ In (cfg_secret cfg) (secret_values r).
Proof.
  intros cfg e rt r pre h Hb Hi Hs Hr.
  destruct (gate_sound cfg e rt r pre Hb) as [H1 _]. destruct (H1 h Hr) as [_ [_ [Ei Es]]].
  split; [apply presented_id_known | apply presented_secret_known]; assumption.
Qed.

(* ---------------------------------------------------------------------------------------- *)
(* the route table *)

Definition back_channel_paths : list str := [p_profile; p_validate; p_redeem; p_refresh].

Theorem routes_gated : forall p, In p back_channel_paths ->
  exists rt, find_route p routes = Some rt /\ r_path rt = p /\
             r_gates rt = [GClientID; GClientSecret] /\ both_gates rt.
Proof.
  intros p Hp. simpl in Hp.
  destruct Hp as [<-|[<-|[<-|[<-|[]]]]]; eexists; (split; [vm_compute; reflexivity|]);
    (split; [reflexivity|]); (split; [reflexivity|]); split; simpl; auto.
Qed.

Lemma find_route_in p t rt : find_route p t = Some rt -> In rt t /\ r_path rt = p.
Proof.
  induction t as [|x t IH]; simpl; [discriminate|].
  destruct (str_eqb p (r_path x)) eqn:E.
  - intros H. injection H as <-. apply str_eqb_eq in E. auto.
  - intros H. destruct (IH H). auto.
Qed.

(* table-level statement, for ANY table whose routes all carry both gates: nothing is served
   to a caller whose credentials are not the configured ones *)
Theorem table_gate_sound : forall t cfg e pre r, Forall both_gates t ->
  let rs := serve_table t cfg e pre r in
  (forall h, rs_ran rs = Some h -> presented_id r = cfg_id cfg /\ presented_secret r = cfg_secret cfg) /\
  (rs_ran rs = None -> rs_calls rs = [] /\ rs_body rs = no_body /\
     (rs_status rs = 401 \/ rs_status rs = 404 \/ rs_status rs = 405 \/ rs_status rs = 500)).
Proof.
  intros t cfg e pre r Ht. cbv zeta. unfold serve_table.
  destruct (find_route (rq_path r) t) as [rt|] eqn:Ef.
  - apply find_route_in in Ef as [Hin _]. rewrite Forall_forall in Ht. specialize (Ht rt Hin).
    destruct (gate_sound cfg e rt r pre Ht) as [H1 H2]. split.
    + intros h Hr. destruct (H1 h Hr) as [_ [_ [A B]]]. auto.
    + intros Hr. destruct (H2 Hr) as [A [B C]]. split; [exact A|]. split; [exact B|].
      destruct C as [[-> _]|[[-> _]|[-> _]]]; auto.
  - split; [intros h H; discriminate H|]. intros _. simpl. auto.
Qed.

Lemma routes_all_gated : Forall both_gates routes.
Proof. unfold routes. repeat (apply Forall_cons; [split; simpl; auto|]). apply Forall_nil. Qed.

Theorem serve_gate_sound : forall cfg e pre r,
  let rs := serve cfg e pre r in
  (forall h, rs_ran rs = Some h -> presented_id r = cfg_id cfg /\ presented_secret r = cfg_secret cfg) /\
  (rs_ran rs = None -> rs_calls rs = [] /\ rs_body rs = no_body /\
     (rs_status rs = 401 \/ rs_status rs = 404 \/ rs_status rs = 405 \/ rs_status rs = 500)).
Proof. intros cfg e pre r. exact (table_gate_sound routes cfg e pre r routes_all_gated). Qed.

Corollary serve_refuses : forall cfg e pre r,
  presented_id r <> cfg_id cfg \/ presented_secret r <> cfg_secret cfg ->
  let rs := serve cfg e pre r in
  rs_ran rs = None /\ rs_calls rs = [] /\ rs_body rs = no_body /\
  (rs_status rs = 401 \/ rs_status rs = 404 \/ rs_status rs = 405 \/ rs_status rs = 500).
Proof.
  intros cfg e pre r Hw. cbv zeta. destruct (serve_gate_sound cfg e pre r) as [H1 H2].
  destruct (rs_ran (serve cfg e pre r)) as [h|] eqn:Er.
  - destruct (H1 h eq_refl) as [A B]. destruct Hw; contradiction.
  - split; [reflexivity | exact (H2 eq_refl)].
Qed.

(* every provider call and every data-carrying body comes from a handler that ran *)
Lemma effects_need_handler : forall cfg e pre r,
  let rs := serve cfg e pre r in
  rs_calls rs <> [] \/ rs_body rs <> no_body -> rs_ran rs <> None.
Proof.
  intros cfg e pre r. cbv zeta. intros H Hn.
  destruct (serve_gate_sound cfg e pre r) as [_ H2]. destruct (H2 Hn) as [A [B _]].
  destruct H; contradiction.
Qed.

(* ---------------------------------------------------------------------------------------- *)
(* /redeem *)

Definition redeem_body (e : env) (s : session) : body :=
  {| b_access := Some (s_access s); b_refresh := Some (s_refresh_tok s); b_email := Some (s_email s);
     b_expires := Some (s_refresh_dl s - e_now e)%Z; b_groups := None |}.

Definition fresh (e : env) (s : session) : Prop := (e_now e <= s_refresh_dl s)%Z /\ (e_now e <= s_lifetime_dl s)%Z.

Lemma redeem_parsed cfg e r :
  let rs := redeem cfg e r (Some (the_form r)) in
  (exists s, e_open e (presented_code r) = Some (cfg_code_key cfg, s) /\ fresh e s /\
             rs = ran HRedeem 200 [] (redeem_body e s))
  \/ ((forall s, e_open e (presented_code r) = Some (cfg_code_key cfg, s) -> ~ fresh e s) /\
      rs = ran HRedeem 401 [] no_body).
Proof.
  cbv zeta. unfold redeem, parse_form, form_of, unseal, presented_code. fold (the_form r).
  destruct (e_open e (form_get k_code (the_form r))) as [[k s]|] eqn:Eo.
  - destruct (N.eqb k (cfg_code_key cfg)) eqn:Ek.
    + apply N.eqb_eq in Ek. subst k.
      destruct ((s_refresh_dl s <? e_now e) || (s_lifetime_dl s <? e_now e))%Z eqn:Ex.
      * right. split; [|reflexivity]. intros s' H. injection H as <-. unfold fresh. lia.
      * left. exists s. split; [reflexivity|]. split; [unfold fresh; lia | reflexivity].
    + right. split; [|reflexivity]. intros s' H. injection H as E _. apply N.eqb_neq in Ek. congruence.
  - right. split; [|reflexivity]. intros s' H. discriminate H.
Qed.

Lemma redeem_route_found : find_route p_redeem routes =
  Some {| r_path := p_redeem; r_methods := [m_post]; r_gates := [GClientID; GClientSecret]; r_handler := HRedeem |}.
Proof. vm_compute. reflexivity. Qed.

(* complete case analysis of a request to /redeem *)
Lemma redeem_cases cfg e pre r : rq_path r = p_redeem ->
  let rs := serve cfg e pre r in
  (rs_ran rs = None /\ rs_calls rs = [] /\ rs_body rs = no_body /\
   (rs_status rs = 401 \/ rs_status rs = 405 \/ rs_status rs = 500))
  \/ (creds_ok cfg r /\ rq_method r = m_post /\
      ((exists s, e_open e (presented_code r) = Some (cfg_code_key cfg, s) /\ fresh e s /\
                  rs = ran HRedeem 200 [] (redeem_body e s))
       \/ ((forall s, e_open e (presented_code r) = Some (cfg_code_key cfg, s) -> ~ fresh e s) /\
           rs = ran HRedeem 401 [] no_body))).
Proof.
  intros Hp. cbv zeta. unfold serve, serve_table. rewrite Hp, redeem_route_found.
  set (rt := {| r_path := p_redeem; r_methods := [m_post]; r_gates := [GClientID; GClientSecret]; r_handler := HRedeem |}).
  assert (Hb : both_gates rt) by (split; simpl; auto).
  destruct (serve_route_cases cfg e rt r pre Hb) as [[Hm ->]|[[Hm [_ [_ ->]]]|[[Hm [_ [_ ->]]]|[Hm [_ [Hc ->]]]]]].
  - left. simpl. auto 6.
  - left. simpl. auto 6.
  - left. simpl. auto 6.
  - right. split; [exact Hc|]. split.
    + simpl in Hm. rewrite orb_false_r in Hm. apply str_eqb_eq in Hm. exact Hm.
    + exact (redeem_parsed cfg e r).
Qed.

(* C08_redeem_genuine *)
Theorem redeem_genuine : forall cfg e pre r, rq_path r = p_redeem ->
  let rs := serve cfg e pre r in
  rs_status rs = 200 ->
  exists s, e_open e (presented_code r) = Some (cfg_code_key cfg, s) /\
            (e_now e <= s_refresh_dl s)%Z /\ (e_now e <= s_lifetime_dl s)%Z /\
            rs_body rs = redeem_body e s /\ rs_calls rs = [] /\
            presented_id r = cfg_id cfg /\ presented_secret r = cfg_secret cfg /\ rq_method r = m_post.
Proof.
  intros cfg e pre r Hp. cbv zeta. intros H200.
  destruct (redeem_cases cfg e pre r Hp) as [[_ [_ [_ Hst]]]|[[Hi Hs] [Hm [[s [Ho [[F1 F2] Hr]]]|[_ Hr]]]]].
  - rewrite H200 in Hst. destruct Hst as [H|[H|H]]; discriminate H.
  - exists s. rewrite Hr. simpl. auto 10.
  - rewrite Hr in H200. discriminate H200.
Qed.

(* anything that is not a fresh session sealed under the code key is refused, whoever asks *)
Theorem redeem_rejects : forall cfg e pre r, rq_path r = p_redeem ->
  (forall s, e_open e (presented_code r) = Some (cfg_code_key cfg, s) -> ~ fresh e s) ->
  let rs := serve cfg e pre r in
  rs_body rs = no_body /\ rs_calls rs = [] /\
  (rs_status rs = 401 \/ rs_status rs = 405 \/ rs_status rs = 500) /\
  (rs_ran rs <> None -> rs_status rs = 401).
Proof.
  intros cfg e pre r Hp Hbad. cbv zeta.
  destruct (redeem_cases cfg e pre r Hp) as [[Hn [Hc [Hb Hst]]]|[_ [_ [[s [Ho [Hf _]]]|[_ Hr]]]]].
  - split; [exact Hb|]. split; [exact Hc|]. split; [exact Hst|]. intros H; contradiction.
  - exfalso. exact (Hbad s Ho Hf).
  - rewrite Hr. simpl. auto.
Qed.

(* the named kinds of bad code *)
Corollary redeem_rejects_kinds : forall cfg e pre r, rq_path r = p_redeem ->
  (e_open e (presented_code r) = None                                            (* corrupted, truncated, forged *)
   \/ (exists k s, e_open e (presented_code r) = Some (k, s) /\ k <> cfg_code_key cfg)  (* cookie key, foreign key *)
   \/ (exists k s, e_open e (presented_code r) = Some (k, s) /\
                   ((s_refresh_dl s < e_now e)%Z \/ (s_lifetime_dl s < e_now e)%Z))) -> (* expired *)
  let rs := serve cfg e pre r in
  rs_status rs <> 200 /\ rs_body rs = no_body /\ rs_calls rs = [].
Proof.
  intros cfg e pre r Hp Hk. cbv zeta.
  assert (Hbad : forall s, e_open e (presented_code r) = Some (cfg_code_key cfg, s) -> ~ fresh e s).
  { intros s Ho [F1 F2]. destruct Hk as [Hk|[[k [s' [Hk Hne]]]|[k [s' [Hk Hx]]]]]; rewrite Hk in Ho; try discriminate Ho.
    - injection Ho as E1 E2. congruence.
    - injection Ho as E1 E2. subst s'. lia. }
  destruct (redeem_rejects cfg e pre r Hp Hbad) as [Hb [Hc [Hst _]]].
  split; [|auto]. destruct Hst as [-> | [-> | ->]]; discriminate.
Qed.

Corollary redeem_cookie_key_rejected : forall cfg e pre r s, rq_path r = p_redeem ->
  cfg_cookie_key cfg <> cfg_code_key cfg ->
  e_open e (presented_code r) = Some (cfg_cookie_key cfg, s) ->
  let rs := serve cfg e pre r in
  rs_status rs <> 200 /\ rs_body rs = no_body /\ rs_calls rs = [].
Proof.
  intros cfg e pre r s Hp Hne Ho. apply redeem_rejects_kinds; [exact Hp|].
  right; left. exists (cfg_cookie_key cfg), s. auto.
Qed.

(* ---------------------------------------------------------------------------------------- *)
(* the other three handlers: the provider is called at most once, and only by a handler *)

Lemma calls_at_most_one : forall cfg e pre r, (length (rs_calls (serve cfg e pre r)) <= 1)%nat.
Proof.
  intros cfg e pre r. unfold serve, serve_table.
  destruct (find_route (rq_path r) routes) as [rt|] eqn:Ef; [|simpl; lia].
  apply find_route_in in Ef as [Hin _].
  assert (Hb : both_gates rt) by (pose proof routes_all_gated as H; rewrite Forall_forall in H; auto).
  destruct (serve_route_cases cfg e rt r pre Hb) as [[_ ->]|[[_ [_ [_ ->]]]|[[_ [_ [_ ->]]]|[_ [_ [_ ->]]]]]];
    try (simpl; lia).
  destruct (r_handler rt); simpl; unfold get_profile, validate_token, redeem, refresh, parse_form.
  - destruct (is_nil (form_get k_email _)); [simpl; lia|]. destruct (e_groups e); simpl; lia.
  - destruct (is_nil _); [simpl; lia|]. destruct (e_valid e); simpl; lia.
  - destruct (unseal _ _ _); [|simpl; lia]. destruct (_ || _)%bool; simpl; lia.
  - destruct (is_nil _); [simpl; lia|]. destruct (e_refresh e); simpl; lia.
Qed.

(* ---------------------------------------------------------------------------------------- *)
(* configuration guard *)

Lemma lookup_client_in n cs : (exists v, In (n, v) cs) -> In (n, lookup_client n cs) cs.
Proof.
  induction cs as [|[a v] cs IH]; intros [w Hw]; [destruct Hw|]. simpl.
  destruct (str_eqb n a) eqn:E.
  - apply str_eqb_eq in E. subst. left; reflexivity.
  - right. apply IH. destruct Hw as [Hw|Hw]; [|exists w; exact Hw].
    injection Hw as -> _. rewrite str_eqb_refl in E. discriminate E.
Qed.

Theorem validate_gives_guard : forall cs, clients_validate cs = true ->
  (exists v, In (proxy_name, v) cs) ->
  fst (new_authenticator_creds cs) <> [] /\ snd (new_authenticator_creds cs) <> [].
Proof.
  intros cs Hv Hex. unfold new_authenticator_creds.
  pose proof (lookup_client_in proxy_name cs Hex) as Hin.
  unfold clients_validate in Hv. rewrite forallb_forall in Hv. specialize (Hv _ Hin).
  unfold client_ok in Hv. simpl in Hv. apply andb_true_iff in Hv as [H1 H2].
  apply negb_true_iff in H1, H2. apply is_nil_false in H1, H2. auto.
Qed.

(* ---------------------------------------------------------------------------------------- *)
(* non-vacuity: concrete requests that are served, one per endpoint, and one refused per gate *)

Definition ex_cfg : config := {| cfg_id := [105;100]; cfg_secret := [115;101;99]; cfg_code_key := 1; cfg_cookie_key := 2 |}.
Definition ex_sess : session :=
  {| s_email := [97;64;98]; s_access := [65;84]; s_refresh_tok := [82;84]; s_refresh_dl := 3600; s_lifetime_dl := 86400 |}.
Definition ex_code : str := [67;48].
Definition ex_env : env :=
  {| e_now := 0;
     e_open := fun c => if str_eqb c ex_code then Some (1, ex_sess)
                        else if str_eqb c [67;49] then Some (2, ex_sess) else None;
     e_refresh := RefOk [78;65;84] 3600; e_groups := GrpOk [[103;49]]; e_valid := true |}.
Definition urlenc : ctype := {| ct_urlenc := true; ct_err := false |}.
Definition noct : ctype := {| ct_urlenc := false; ct_err := false |}.
(* "client_id=id&client_secret=sec" *)
Definition ex_creds : str := k_client_id ++ [61;105;100;38] ++ k_client_secret ++ [61;115;101;99].

Definition ex_redeem_req : request :=
  {| rq_path := p_redeem; rq_method := m_post; rq_query := []; rq_ctype := urlenc;
     rq_body := ex_creds ++ [38] ++ k_code ++ [61] ++ ex_code; rq_headers := [] |}.
Example redeem_served : serve ex_cfg ex_env false ex_redeem_req = ran HRedeem 200 [] (redeem_body ex_env ex_sess).
Proof. vm_compute. reflexivity. Qed.

Definition ex_refresh_req : request :=
  {| rq_path := p_refresh; rq_method := m_post; rq_query := k_client_id ++ [61;105;100]; rq_ctype := urlenc;
     rq_body := k_refresh_token ++ [61;82;84]; rq_headers := [(h_client_secret, [115;101;99])] |}.
Example refresh_served : rs_status (serve ex_cfg ex_env false ex_refresh_req) = 201 /\
  rs_calls (serve ex_cfg ex_env false ex_refresh_req) = [PRefresh [82;84]].
Proof. vm_compute. auto. Qed.

Definition ex_profile_req : request :=
  {| rq_path := p_profile; rq_method := m_get; rq_query := ex_creds ++ [38] ++ k_email ++ [61;97;64;98];
     rq_ctype := noct; rq_body := []; rq_headers := [(h_access_token, [65;84])] |}.
Example profile_served : rs_status (serve ex_cfg ex_env true ex_profile_req) = 200 /\
  rs_calls (serve ex_cfg ex_env true ex_profile_req) = [PGroups [97;64;98] [] [65;84]].
Proof. vm_compute. auto. Qed.

Definition ex_validate_req : request :=
  {| rq_path := p_validate; rq_method := m_get; rq_query := ex_creds; rq_ctype := noct; rq_body := [];
     rq_headers := [(h_access_token, [65;84])] |}.
Example validate_served : serve ex_cfg ex_env false ex_validate_req = ran HValidate 200 [PValidate [65;84]] no_body.
Proof. vm_compute. reflexivity. Qed.

(* refused by the client-id gate (wrong id), by the secret gate (header and form disagree: the
   form wins), by the method gate, and by the parse error (bare mux only) *)
Example refused_wrong_id :
  serve ex_cfg ex_env false {| rq_path := p_validate; rq_method := m_get;
     rq_query := k_client_id ++ [61;105;38] ++ k_client_secret ++ [61;115;101;99];
     rq_ctype := noct; rq_body := []; rq_headers := [(h_access_token, [65;84])] |} = err_resp 401.
Proof. vm_compute. reflexivity. Qed.
Example refused_wrong_secret_form_wins :
  serve ex_cfg ex_env false {| rq_path := p_validate; rq_method := m_get;
     rq_query := k_client_id ++ [61;105;100;38] ++ k_client_secret ++ [61;120];
     rq_ctype := noct; rq_body := []; rq_headers := [(h_client_secret, [115;101;99]); (h_access_token, [65;84])] |}
  = err_resp 401.
Proof. vm_compute. reflexivity. Qed.
Example refused_method : serve ex_cfg ex_env false
  {| rq_path := p_redeem; rq_method := m_get; rq_query := ex_creds; rq_ctype := noct; rq_body := []; rq_headers := [] |}
  = err_resp 405.
Proof. vm_compute. reflexivity. Qed.
(* "client_id=id&client_secret=sec&x=%zz": 500 on the bare mux; behind the logging handler the
   error is swallowed and the well-formed pairs are used *)
Example malformed_bare_500 : serve ex_cfg ex_env false
  {| rq_path := p_validate; rq_method := m_get; rq_query := ex_creds ++ [38;120;61;37;122;122]; rq_ctype := noct;
     rq_body := []; rq_headers := [(h_access_token, [65;84])] |} = err_resp 500.
Proof. vm_compute. reflexivity. Qed.
Example malformed_logged_served : serve ex_cfg ex_env true
  {| rq_path := p_validate; rq_method := m_get; rq_query := ex_creds ++ [38;120;61;37;122;122]; rq_ctype := noct;
     rq_body := []; rq_headers := [(h_access_token, [65;84])] |} = ran HValidate 200 [PValidate [65;84]] no_body.
Proof. vm_compute. reflexivity. Qed.
(* a session sealed under the cookie key is not a code *)
Example cookie_sealed_refused : serve ex_cfg ex_env false
  {| rq_path := p_redeem; rq_method := m_post; rq_query := []; rq_ctype := urlenc;
     rq_body := ex_creds ++ [38] ++ k_code ++ [61;67;49]; rq_headers := [] |} = ran HRedeem 401 [] no_body.
Proof. vm_compute. reflexivity. Qed.

(* the guard of the knowledge theorem is needed: with an empty configured secret (which
   ClientConfig.Validate rejects) a caller who sends no secret at all is served *)
Example empty_secret_would_open :
  let cfg := {| cfg_id := [105;100]; cfg_secret := []; cfg_code_key := 1; cfg_cookie_key := 2 |} in
  let r := {| rq_path := p_validate; rq_method := m_get; rq_query := k_client_id ++ [61;105;100]; rq_ctype := noct;
              rq_body := []; rq_headers := [(h_access_token, [65;84])] |} in
  rs_ran (serve cfg ex_env false r) = Some HValidate /\ secret_values r = [].
Proof. vm_compute. auto. Qed.

(* Validate accepts a client table WITHOUT a "proxy" entry (it only checks the entries that
   exist); NewAuthenticator then reads the zero value: both credentials empty. LoadConfig always
   starts from DefaultAuthConfig, whose table has the "proxy" key, so the entry exists there. *)
Example validate_without_proxy_entry :
  clients_validate [] = true /\ new_authenticator_creds [] = ([], []).
Proof. vm_compute. auto. Qed.
