(* The monitor of Corr_C02 judges the model's own prediction as follows, for EVERY table of genuine
   strings, key and presented string:
     - strict mode: always 0 (the property on observations holds of the model);
     - any mode: 0, or 101 (no CR/LF in the string, lax decoder) or 102 (CR/LF in the string, CR/LF not
       refused) — the two known-finding signatures, never an unattributed failure.
   This ties the boolean specification used on implementation observations to the theorems. *)
From V Require Import Base Base_proofs CorrBase B64 B64_proofs Aead Aead_proofs Corr_C02.
From Coq Require Import ZifyN ZifyNat ZifyBool.

Lemma option_eqb_N_refl (o : option N) : option_eqb N.eqb o o = true.
Proof. destruct o; cbn; [apply N.eqb_refl | reflexivity]. Qed.

Lemma option_eqb_str_eq (a b : option str) : option_eqb str_eqb a b = true <-> a = b.
Proof.
  destruct a, b; cbn; try (split; congruence).
  rewrite str_eqb_eq. split; congruence.
Qed.

Lemma find_ext_in {A} (f g : A -> bool) l : (forall x, In x l -> f x = g x) -> find f l = find g l.
Proof.
  induction l as [|x l IH]; intros H; [reflexivity|]. cbn [find].
  rewrite (H x (or_introl eq_refl)). rewrite IH; [reflexivity|]. intros y Hy. apply H. right; exact Hy.
Qed.

(* a genuine entry is the canonical encoding of more than 16 bytes *)
Lemma genuine_ok_inv gk gt gv : genuine_ok (gk, gt, gv) = true ->
  exists j, go_b64url_decode true gt = Some j /\ has_crlf gt = false /\ (16 < length j)%nat /\
            gt = b64url_encode j /\ bytes_ok j.
Proof.
  unfold genuine_ok. destruct (go_b64url_decode true gt) as [j|] eqn:E; [|discriminate]. intros H.
  apply andb_true_iff in H as [H H3]. apply andb_true_iff in H as [H1 H2].
  exists j. repeat split.
  - destruct (has_crlf gt); [discriminate | reflexivity].
  - lia.
  - apply str_eqb_eq; exact H3.
  - eapply b64_decode_bytes; exact E.
Qed.

Section J.
  Variable gs : list gen.
  Hypothesis Hok : forallb genuine_ok gs = true.

  Lemma entry_ok gk gt gv : In (gk, gt, gv) gs ->
    exists j, go_b64url_decode true gt = Some j /\ has_crlf gt = false /\ (16 < length j)%nat /\
              gt = b64url_encode j /\ bytes_ok j.
  Proof. intros H. apply genuine_ok_inv with (gk := gk) (gv := gv). exact (proj1 (forallb_forall _ _) Hok _ H). Qed.

  (* the table lookup on a decoded form j *)
  Definition by_bytes (pk : N) (j : str) (g : gen) : bool :=
    let '(gk, gt, _) := g in (gk =? pk) && option_eqb str_eqb (go_b64url_decode true gt) (Some j).
  Definition by_text (pk : N) (s : str) (g : gen) : bool :=
    let '(gk, gt, _) := g in (gk =? pk) && str_eqb gt s.

  Lemma model_as_find m pk s :
    model_unmarshal m gs pk s =
    match decode_value m s with
    | None => None
    | Some j => if N.of_nat (length j) <=? 16 then None
                else match find (by_bytes pk j) gs with Some (_, _, gv) => Some gv | None => None end
    end.
  Proof.
    unfold model_unmarshal, unmarshal. destruct (decode_value m s) as [j|]; [|reflexivity].
    unfold decrypt, nonce_size. destruct (N.of_nat (length j) <=? 16); [reflexivity|].
    set (pivot := (length j - N.to_nat 16)%nat).
    assert (E : tab_open gs pk (skipn pivot j) (firstn pivot j) =
                match find (by_bytes pk j) gs with Some (_, _, gv) => Some [gv] | None => None end).
    { unfold tab_open. rewrite firstn_skipn. reflexivity. }
    rewrite E. destruct (find (by_bytes pk j) gs) as [[[gk gt] gv]|]; reflexivity.
  Qed.

  (* round trip and functional correctness on genuine strings, in every mode *)
  Lemma model_on_genuine m pk s v : spec_lookup gs pk s = Some v -> model_unmarshal m gs pk s = Some v.
  Proof.
    unfold spec_lookup. change (find _ gs) with (find (by_text pk s) gs). destruct (find (by_text pk s) gs) as [[[gk gt] gv]|] eqn:Ef; [|discriminate].
    intros Hv; inversion Hv; subst gv; clear Hv.
    destruct (find_some _ _ Ef) as [Hin Hp]. cbn [by_text] in Hp. apply andb_true_iff in Hp as [Hk Ht].
    apply str_eqb_eq in Ht. subst gt. destruct (entry_ok _ _ _ Hin) as [j [Hd [Hc [Hl [He Hb]]]]].
    rewrite model_as_find. rewrite He at 1. rewrite (decode_value_encode m j Hb).
    replace (N.of_nat (length j) <=? 16) with false by lia.
    rewrite (find_ext_in (by_bytes pk j) (by_text pk s)); [rewrite Ef; reflexivity|].
    intros [[gk' gt'] gv'] Hin'. cbn [by_bytes by_text]. f_equal.
    destruct (entry_ok _ _ _ Hin') as [j' [Hd' [_ [_ [He' Hb']]]]]. rewrite Hd'.
    apply eq_true_iff_eq. rewrite option_eqb_str_eq, str_eqb_eq. split; intros H.
    - inversion H; subst. congruence.
    - f_equal. apply b64_encode_inj; congruence.
  Qed.

  (* whatever the model opens is, up to CR/LF and the ignored bits, a genuine string under that key *)
  Lemma model_accepts_inv m pk s v : model_unmarshal m gs pk s = Some v ->
    exists gt j, In (pk, gt, v) gs /\ gt = b64url_encode j /\ decode_value m s = Some j /\
                 normalize s = Some gt.
  Proof.
    rewrite model_as_find. destruct (decode_value m s) as [j|] eqn:Ed; [|discriminate].
    destruct (N.of_nat (length j) <=? 16); [discriminate|].
    destruct (find (by_bytes pk j) gs) as [[[gk gt] gv]|] eqn:Ef; [|discriminate].
    intros Hv; inversion Hv; subst gv; clear Hv.
    destruct (find_some _ _ Ef) as [Hin Hp]. cbn [by_bytes] in Hp. apply andb_true_iff in Hp as [Hk Ht].
    apply N.eqb_eq in Hk. subst gk. apply option_eqb_str_eq in Ht.
    destruct (entry_ok _ _ _ Hin) as [j' [Hd' [_ [_ [He' _]]]]]. assert (j' = j) by congruence. subst j'.
    exists gt, j. repeat split; auto. unfold decode_value in Ed.
    destruct (m_nocrlf m && has_crlf s); [discriminate|].
    rewrite (b64_canonical_partial _ _ _ Ed). congruence.
  Qed.

  Lemma spec_none_not_genuine pk s v : spec_lookup gs pk s = None -> ~ In (pk, s, v) gs.
  Proof.
    unfold spec_lookup. change (find _ gs) with (find (by_text pk s) gs). destruct (find (by_text pk s) gs) as [[[? ?] ?]|] eqn:Ef; [discriminate|].
    intros _ Hin. pose proof (find_none _ _ Ef _ Hin) as H. cbn [by_text] in H.
    rewrite N.eqb_refl, str_eqb_refl in H. discriminate.
  Qed.

  Theorem judge_model_ok m pk p store :
    nodup_texts gs = true ->
    let s := presented gs p in
    let mo := model_unmarshal m gs pk s in
    store_agrees store mo = true ->
    let r := judge_seal m gs pk p mo store in
    r = 0 \/ (r = 101 /\ has_crlf s = false /\ m_strict m = false)
          \/ (r = 102 /\ has_crlf s = true /\ m_nocrlf m = false).
  Proof.
    intros Hnd s mo Hst r. subst r. unfold judge_seal. fold s. fold mo.
    rewrite option_eqb_N_refl, Hok, Hst, Hnd. cbn [negb orb andb].
    destruct (spec_lookup gs pk s) as [v'|] eqn:Es.
    - (* the string is genuine under pk: the model opens it to its value *)
      pose proof (model_on_genuine m pk s v' Es) as Hm. fold mo in Hm. rewrite Hm in *.
      cbn [option_eqb]. rewrite N.eqb_refl, Hst. left. reflexivity.
    - destruct mo as [v|] eqn:Em.
      + (* not genuine, yet opened: only as a CR/LF / trailing-bit variant of a genuine string *)
        destruct (model_accepts_inv m pk s v Em) as [gt [j [Hin [He [Hd Hn]]]]].
        assert (Ha : attributable gs pk s v = true).
        { unfold attributable. apply existsb_exists. exists (pk, gt, v). split; [exact Hin|].
          rewrite !N.eqb_refl, Hn. cbn [andb option_eqb]. apply str_eqb_refl. }
        rewrite Ha. cbn [option_eqb andb]. unfold code.
        destruct (has_crlf s) eqn:Ec.
        * right; right. repeat split. unfold decode_value in Hd. rewrite Ec, andb_true_r in Hd.
          destruct (m_nocrlf m); [discriminate | reflexivity].
        * right; left. repeat split. destruct (m_strict m) eqn:Estrict; [|reflexivity]. exfalso.
          unfold decode_value in Hd. rewrite Ec, andb_false_r, Estrict in Hd.
          apply (b64_canonical_strict s j Ec) in Hd. apply (spec_none_not_genuine pk s v Es). congruence.
      + cbn [option_eqb]. unfold store_agrees in *. left. unfold code. rewrite Hst. reflexivity.
  Qed.

  (* with strict decoding the property on observations holds of the model outright *)
  Corollary judge_model_strict m pk p store :
    m_strict m = true -> m_nocrlf m = true -> nodup_texts gs = true ->
    store_agrees store (model_unmarshal m gs pk (presented gs p)) = true ->
    judge_seal m gs pk p (model_unmarshal m gs pk (presented gs p)) store = 0.
  Proof.
    intros H1 H2 Hnd Hst. destruct (judge_model_ok m pk p store Hnd Hst) as [H|[[_ [_ H]]|[_ [_ H]]]];
      [exact H | congruence | congruence].
  Qed.
End J.

(* the byte-level monitors accept the model: Go's own round trip is the model's *)
Lemma judge_enc_model b : bytes_ok b ->
  judge (CEnc b (b64url_encode b) (go_b64url_decode false (b64url_encode b))) = 0.
Proof.
  intros H. cbn [judge]. rewrite (b64_roundtrip false b H), str_eqb_refl. cbn [option_eqb].
  rewrite !str_eqb_refl. reflexivity.
Qed.

(* ---- the cookie path and the long runs ---------------------------------------------------------- *)
Lemma obs_of_store_of (mo : option N) : obs_of_store (store_of mo) = Some mo.
Proof.
  unfold obs_of_store, store_of. destruct mo as [v|]; [|reflexivity].
  replace (10 + v =? 1) with false by lia. replace (10 <=? 10 + v) with true by lia.
  do 2 f_equal. lia.
Qed.

(* what the model predicts LoadSession observes *)
Definition model_store (m : dec_mode) (gs : list gen) (pk : N) (lines : list str) : N :=
  match cookie_lookup cookie_name lines with
  | None => 3
  | Some cv => store_of (model_unmarshal m gs pk cv)
  end.

Theorem judge_cookie_model_ok gs m pk lines :
  forallb genuine_ok gs = true -> nodup_texts gs = true ->
  let r := judge_cookie m gs pk lines (model_store m gs pk lines) in
  r = 0 \/ (r = 101 /\ m_strict m = false) \/ (r = 102 /\ m_nocrlf m = false).
Proof.
  intros Hok Hnd. unfold judge_cookie, model_store.
  destruct (cookie_lookup cookie_name lines) as [cv|].
  - rewrite obs_of_store_of.
    assert (Hst : store_agrees (store_of (model_unmarshal m gs pk cv)) (model_unmarshal m gs pk (presented gs (PWhole cv))) = true).
    { unfold store_agrees. cbn [presented]. rewrite N.eqb_refl. apply orb_true_r. }
    destruct (judge_model_ok gs Hok m pk (PWhole cv) _ Hnd Hst) as [H|[[H [_ H']]|[H [_ H']]]]; cbn [presented] in H; auto.
  - cbn. rewrite Hok. left. reflexivity.
Qed.

Corollary judge_cookie_model_strict gs m pk lines :
  m_strict m = true -> m_nocrlf m = true -> forallb genuine_ok gs = true -> nodup_texts gs = true ->
  judge_cookie m gs pk lines (model_store m gs pk lines) = 0.
Proof.
  intros H1 H2 Hok Hnd. destruct (judge_cookie_model_ok gs m pk lines Hok Hnd) as [H|[[_ H]|[_ H]]];
    [exact H | congruence | congruence].
Qed.

(* long runs: on the model's prediction (strings distinct exactly as the (value, nonce) pairs are, all
   open) the monitor holds iff the nonces drawn were all different — the crypto/rand assumption *)
Lemma judge_fresh_model n d : judge_fresh n d d None true = if d =? n then 0 else 2.
Proof. unfold judge_fresh. rewrite N.eqb_refl. cbn. destruct (d =? n); reflexivity. Qed.

(* big values and open-mutate-reopen: the model predicts "round trip" whatever the size (roundtrip,
   load_session_roundtrip are unbounded) and, opening being a function of key and string, the same value on
   every opening; on exactly these predictions the monitors hold *)
Lemma judge_round_model st st2 :
  (st = 0 \/ st = 1) -> (st2 = 0 \/ st2 = 1) -> judge_round 1 st st2 = 0.
Proof. intros [->| ->] [->| ->]; reflexivity. Qed.

Lemma judge_reopen_model : judge_reopen 11 11 0 = 0.
Proof. reflexivity. Qed.

Lemma judge_reopen_sound first again bad :
  judge_reopen first again bad = 0 -> first = 11 /\ again = first /\ bad = 0.
Proof.
  unfold judge_reopen, code. destruct ((first =? 11) && (again =? 11) && (bad =? 0)) eqn:E; [|discriminate].
  intros _. apply andb_true_iff in E as [E E3]. apply andb_true_iff in E as [E1 E2].
  apply N.eqb_eq in E1, E2, E3. subst. auto.
Qed.
