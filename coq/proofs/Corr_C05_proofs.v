(* The C05 monitor accepts the model's own linear histories: for every browser state satisfying the
   invariant [binv] and every list of steps, [c05_walk] started from the state's trace-derived outage
   holds of the observations the model predicts. Hence the monitor demands no more than the theorems. *)
From V Require Import Base Base_proofs Validators ProxyCore ProxyCore_proofs ProxyComplete_proofs
                      ProxyWorld ProxyWorld_proofs CorrProxy Corr_C01 Corr_C01_proofs Corr_C05.
From Coq Require Import ZifyBool.
Open Scope Z_scope.

Section M.
Variable lower : str -> str.
Variable c : cfg.
Variable pol_of : str -> upolicy.
Variable host : str.

Notation u := (pol_of host).

Definition breq (st : bstate) : request :=
  {| r_host := host; r_is_options := false; r_skip_hit := false; r_xhr := false; r_endpoint := EProxy;
     r_cookie := match b_cookie st with Some s => Sealed s | None => NoCookie end |}.

(* the observations the model predicts along a linear history *)
Fixpoint bobs (st : bstate) (bs : list bstep) : list ostep :=
  match bs with
  | [] => []
  | b :: rest =>
      model_obs lower (b_now st + Z.max 0 (b_dt b)) c u (breq st) (b_ans b)
      :: bobs (bnext lower c pol_of host st b) rest
  end.

Lemma confirmed_outage_excl_refresh allowed a :
  refresh_confirmed_b allowed a = true -> refresh_outage_b allowed a = false.
Proof.
  unfold refresh_confirmed_b, refresh_outage_b, refresh_is_ok, groups_confirmed_b, groups_unavailable_b.
  destruct (redeem_refresh a); try discriminate; cbn; intros H.
  destruct (no_group_check allowed); cbn in *; [reflexivity|]. destruct (user_groups a); try discriminate; reflexivity.
Qed.

Lemma confirmed_outage_excl_validate allowed a :
  validate_confirmed_b allowed a = true -> validate_outage_b allowed a = false.
Proof.
  unfold validate_confirmed_b, validate_outage_b, validate_is_200, groups_confirmed_b, groups_unavailable_b, unavailable.
  destruct (a_validate a) as [code|]; [|discriminate]. intros H. apply andb_true_iff in H as [H1 H2].
  assert (code = 200) by lia. subst. cbn.
  destruct (no_group_check allowed); cbn in *; [reflexivity|]. destruct (user_groups a); try discriminate; reflexivity.
Qed.

(* one step of the model, seen through the monitor's eyes *)
Lemma step_view st b s :
  b_cookie st = Some s -> binv st ->
  let now := b_now st + Z.max 0 (b_dt b) in
  let a := b_ans b in
  let allowed := p_groups (u_rules u) in
  let rs := bresponse lower c pol_of host st b in
  let confirmed := if s_refresh_dl s <? now then refresh_confirmed_b allowed a else validate_confirmed_b allowed a in
  let outage_ans := if s_refresh_dl s <? now then refresh_outage_b allowed a else validate_outage_b allowed a in
  let g := match b_outage st with Some g => g | None => now end in
  (* the monitor's two flags coincide with the model's *)
  (served rs && due now s && negb confirmed = grace_served rs) /\
  (served rs && due now s && confirmed = full_success rs) /\
  (* served under grace => outage answer, inside the period counted from the trace-derived start, inside lifetime *)
  (grace_served rs = true -> outage_ans = true /\ now < g + c_G c /\ now <= s_lifetime_dl s) /\
  (* liveness: everything in order, outage answer, inside the period => served *)
  (due now s = true -> confirmed = false -> outage_ans = true ->
   s_slug s = c_slug c -> s_upstream s = host -> now <= s_lifetime_dl s ->
   request_gate lower (u_rules u) (s_email s) = true ->
   (s_refresh_dl s < now -> s_refresh_tok s <> []) -> now < g + c_G c -> served rs = true).
Proof.
  intros Hck HI now a allowed rs confirmed outage_ans g. subst allowed.
  assert (Hrs: rs = proxy_handle lower now c u (breq st) a) by reflexivity.
  assert (Hnw: whitelisted u (breq st) = false) by (unfold whitelisted; cbn; rewrite andb_false_r; reflexivity).
  assert (Hreq: r_cookie (breq st) = Sealed s) by (unfold breq; cbn; rewrite Hck; reflexivity).
  unfold binv in HI. rewrite Hck in HI.
  (* served <-> session_ok *)
  assert (Hsv: served rs = true <-> session_ok lower now c u host s a).
  { rewrite Hrs. unfold served, proxy_handle. rewrite Hnw. cbn [r_host breq]. rewrite Hreq.
    rewrite <- authenticate_iff. destruct (ao_err (authenticate lower now c u host (Sealed s) a)) as [e|]; [|tauto].
    split; [destruct e; discriminate | discriminate]. }
  assert (Hgr: outage_grace now c s <-> now < g + c_G c).
  { unfold outage_grace, g. rewrite HI. tauto. }
  (* cookie effect when served *)
  assert (Hcase: served rs = true ->
      (due now s = false /\ rs_cookie rs = CNone) \/
      (due now s = true /\ exists s', rs_cookie rs = CSaved s' /\
         ((confirmed = true /\ s_grace s' = None) \/
          (confirmed = false /\ outage_ans = true /\ outage_grace now c s /\ exists g', s_grace s' = Some g')))).
  { intros Hs. pose proof Hs as Hs0. rewrite Hrs in Hs. unfold served, proxy_handle in Hs. rewrite Hnw in Hs. cbn [r_host breq] in Hs. rewrite Hreq in Hs.
    destruct (ao_err (authenticate lower now c u host (Sealed s) a)) as [e|] eqn:Ee; [destruct e; discriminate|].
    assert (Hck2: rs_cookie rs = ao_cookie (authenticate lower now c u host (Sealed s) a)).
    { rewrite Hrs. unfold proxy_handle. rewrite Hnw. cbn [r_host breq]. rewrite Hreq, Ee. reflexivity. }
    rewrite Hck2. clear Hs.
    unfold authenticate, expired in *.
    destruct (negb (str_eqb (s_slug s) (c_slug c))); [discriminate|].
    destruct (negb (str_eqb host (s_upstream s))); [discriminate|].
    destruct (s_lifetime_dl s <? now); [discriminate|].
    unfold due, confirmed, outage_ans.
    destruct (s_refresh_dl s <? now) eqn:Er.
    - right. split; [reflexivity|].
      destruct (refresh_session now c (p_groups (u_rules u)) s a) as [[r s'] calls] eqn:Erf. destruct r; try discriminate.
      destruct (request_gate lower (u_rules u) (s_email s')); [|discriminate]. cbn. exists s'. split; [reflexivity|].
      pose proof (grace_stamp_refresh _ _ _ _ _ _ _ Erf) as [[Hc Hg]|[Ho [Hg [_ [_ Hog]]]]].
      + left. split; [apply refresh_confirmed_reflect; exact Hc | exact Hg].
      + right. apply refresh_outage_reflect in Ho. split; [|split; [exact Ho | split; [exact Hog | eauto]]].
        destruct (refresh_confirmed_b (p_groups (u_rules u)) a) eqn:Ec; [|reflexivity].
        apply confirmed_outage_excl_refresh in Ec. congruence.
    - destruct (s_valid_dl s <? now) eqn:Ev.
      + right. split; [reflexivity|].
        destruct (validate_session now c (p_groups (u_rules u)) s a) as [[ok s'] calls] eqn:Evs. destruct ok; [|discriminate].
        destruct (request_gate lower (u_rules u) (s_email s')); [|discriminate]. cbn. exists s'. split; [reflexivity|].
        pose proof (grace_stamp_validate _ _ _ _ _ _ _ Evs) as [[Hc Hg]|[Ho [Hg Hog]]].
        * left. split; [apply validate_confirmed_reflect; exact Hc | exact Hg].
        * right. apply validate_outage_reflect in Ho. split; [|split; [exact Ho | split; [exact Hog | eauto]]].
          destruct (validate_confirmed_b (p_groups (u_rules u)) a) eqn:Ec; [|reflexivity].
          apply confirmed_outage_excl_validate in Ec. congruence.
      + left. split; [reflexivity|]. destruct (request_gate lower (u_rules u) (s_email s)); [reflexivity | discriminate]. }
  unfold grace_served, full_success.
  destruct (served rs) eqn:Es.
  - destruct (Hcase eq_refl) as [[Hd Hc]|[Hd [s' [Hc [[Hcf Hg]|[Hcf [Ho [Hog [g' Hg]]]]]]]]]; rewrite Hd, Hc; cbn [andb negb].
    + repeat split; try reflexivity; try discriminate.
    + rewrite Hcf, Hg. cbn. repeat split; try reflexivity; try discriminate.
    + rewrite Hcf, Hg. cbn. repeat split; try reflexivity; try discriminate.
      * exact Ho.
      * apply Hgr; exact Hog.
      * destruct (proj1 Hsv eq_refl) as [_ [_ [Hl _]]]. exact Hl.
  - cbn [andb]. repeat split; try reflexivity; try discriminate.
    intros Hd Hcf Ho Hslug Hup Hl Hg Htok Hin.
    apply Hsv. unfold session_ok.
    split; [exact Hslug|]. split; [exact Hup|]. split; [exact Hl|]. split; [|split; [|exact Hg]].
    + intros Hr. split; [apply Htok; exact Hr|].
      assert (Er: (s_refresh_dl s <? now) = true) by lia. unfold outage_ans in Ho. rewrite Er in Ho.
      right. split; [apply refresh_outage_reflect; exact Ho | apply Hgr; exact Hin].
    + intros Hr Hv. assert (Er: (s_refresh_dl s <? now) = false) by lia. unfold outage_ans in Ho. rewrite Er in Ho.
      right. split; [apply validate_outage_reflect; exact Ho | apply Hgr; exact Hin].
Qed.

Theorem c05_monitor_accepts_model bs : forall st,
  binv st -> c05_walk lower c u (b_outage st) (bobs st bs) = true.
Proof.
  induction bs as [|b bs IH]; intros st HI; [reflexivity|].
  cbn [bobs c05_walk]. unfold presented, model_obs. cbn [o_req o_now o_ans o_served r_cookie breq is_sealed r_host].
  pose proof (binv_next lower c pol_of host st b HI) as HI'.
  destruct (b_cookie st) as [s|] eqn:Eck.
  - cbn [is_sealed].
    pose proof (step_view st b s Eck HI) as [Hgs [Hfs [Hbound Hlive]]]. cbv zeta in Hgs, Hfs, Hbound, Hlive.
    set (now := b_now st + Z.max 0 (b_dt b)) in *.
    change (handle lower now c u (breq st) (b_ans b)) with (bresponse lower c pol_of host st b) in *.
    assert (Hb: breq st = {| r_host := host; r_is_options := false; r_skip_hit := false; r_xhr := false;
                              r_endpoint := EProxy; r_cookie := Sealed s |}) by (unfold breq; rewrite Eck; reflexivity).
    set (rs := bresponse lower c pol_of host st b) in *.
    set (confirmed := if s_refresh_dl s <? now then refresh_confirmed_b (p_groups (u_rules u)) (b_ans b)
                      else validate_confirmed_b (p_groups (u_rules u)) (b_ans b)) in *.
    set (outage_ans := if s_refresh_dl s <? now then refresh_outage_b (p_groups (u_rules u)) (b_ans b)
                       else validate_outage_b (p_groups (u_rules u)) (b_ans b)) in *.
    rewrite Hgs, Hfs.
    apply andb_true_iff. split.
    + apply andb_true_iff. split; [|
        (* refused => cleared *)
        destruct (served rs) eqn:Es; [reflexivity|]; cbn [orb];
        assert (Hnw: whitelisted u (breq st) = false) by (unfold whitelisted; cbn; rewrite andb_false_r; reflexivity);
        assert (Hrs: rs = proxy_handle lower now c u (breq st) (b_ans b)) by reflexivity;
        rewrite Hrs in Es |- *; unfold served, proxy_handle in Es |- *; rewrite Hnw in Es |- *;
        cbn [r_host breq] in Es |- *; rewrite Hb in Es |- *; cbn [r_cookie r_host] in Es |- *;
        destruct (ao_err (authenticate lower now c u host (Sealed s) (b_ans b))) as [e|] eqn:Ee;
        [ pose proof (authenticate_error_clears lower _ _ _ _ _ _ _ Ee) as [Hc _]; cbn [rs_cookie]; rewrite Hc; reflexivity
        | cbn in Es; discriminate ] ].
      apply andb_true_iff. split.
      * destruct (grace_served rs) eqn:Eg; [|reflexivity]. cbn [negb orb].
        destruct (Hbound eq_refl) as [Ho [Hg Hl]]. rewrite Ho. cbn [andb]. lia.
      * destruct (served rs) eqn:Es; [apply orb_true_r|]. rewrite orb_false_r. apply negb_true_iff.
        destruct (due now s) eqn:Ed; [|reflexivity]. destruct confirmed eqn:Ec; [reflexivity|].
        destruct outage_ans eqn:Eo; [|reflexivity]. cbn [negb andb].
        destruct (str_eqb (s_slug s) (c_slug c)) eqn:E1; [|reflexivity]. destruct (str_eqb (s_upstream s) host) eqn:E2; [|reflexivity].
        destruct (now <=? s_lifetime_dl s - 1) eqn:E3; [|reflexivity].
        destruct (request_gate lower (u_rules u) (s_email s)) eqn:E4; [|reflexivity]. cbn [andb].
        destruct (negb (s_refresh_dl s <? now) || negb match s_refresh_tok s with [] => true | _ :: _ => false end) eqn:E5; [|reflexivity].
        cbn [andb]. destruct (now <? match b_outage st with Some g => g | None => now end + c_G c - 1) eqn:E6; [|reflexivity].
        exfalso. apply str_eqb_eq in E1. apply str_eqb_eq in E2.
        assert (Hf: false = true); [|discriminate].
        apply Hlive; auto; try lia.
        intros Hr. apply orb_true_iff in E5 as [E5|E5]; [lia|]. destruct (s_refresh_tok s); [discriminate | discriminate].
    + (* the threaded outage equals the model's next ghost state *)
      assert (Hout: (if grace_served rs then Some (match b_outage st with Some g => g | None => now end)
                     else if full_success rs then None else b_outage st) = b_outage (bnext lower c pol_of host st b)).
      { unfold bnext. cbn [b_outage]. unfold outage_after. reflexivity. }
      rewrite Hout. apply IH. exact HI'.
  - cbn [is_sealed].
    assert (Hout: b_outage (bnext lower c pol_of host st b) = b_outage st).
    { unfold bnext. cbn [b_outage]. unfold outage_after.
      pose proof (bresponse_cases lower c pol_of host st b) as Hc. cbv zeta in Hc. rewrite Eck in Hc. destruct Hc as [Hc Hs].
      unfold grace_served, full_success. rewrite Hs. reflexivity. }
    rewrite <- Hout. apply IH. exact HI'.
Qed.

End M.
