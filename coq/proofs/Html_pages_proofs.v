(* Html_pages_proofs.v — facts about the template AST regenerated from the Go source
   (gen/Gen_Templates.v), all by computation, and the page-level theorems they give with the
   general lemmas of Html_proofs.v (property C20). Re-checked whenever the templates change. *)
From V Require Import Base Base_proofs Html Html_proofs Gen_Templates.
Open Scope N_scope.

(* template and field names as they appear in the Go source *)
Definition n_error : str := [101;114;114;111;114;46;104;116;109;108].                 (* error.html *)
Definition n_sign_in : str := [115;105;103;110;95;105;110;46;104;116;109;108].        (* sign_in.html *)
Definition n_sign_out : str := [115;105;103;110;95;111;117;116;46;104;116;109;108].   (* sign_out.html *)
Definition f_Code : str := [67;111;100;101].
Definition f_Title : str := [84;105;116;108;101].
Definition f_Message : str := [77;101;115;115;97;103;101].
Definition f_Redirect : str := [82;101;100;105;114;101;99;116].
Definition f_Destination : str := [68;101;115;116;105;110;97;116;105;111;110].
Definition f_ProviderName : str := [80;114;111;118;105;100;101;114;78;97;109;101].
Definition f_EmailDomains : str := [69;109;97;105;108;68;111;109;97;105;110;115].
Definition f_Signature : str := [83;105;103;110;97;116;117;114;101].
Definition f_Timestamp : str := [84;105;109;101;115;116;97;109;112].
Definition f_Email : str := [69;109;97;105;108].

(* both template files build their templates with html/template *)
Lemma templates_use_html_template :
  proxy_template_import = s_html_template /\ auth_template_import = s_html_template.
Proof. split; reflexivity. Qed.

(* every template of both sets, entered in the data state: every placeholder (through every
   branch, loop body and {{template}} call) sits in a text node, a double-quoted value/title/alt/
   placeholder attribute or RCDATA, and the template ends in the data state *)
Definition all_pages_safe (tpls : templates) : bool := forallb (fun t => page_safe tpls (fst t)) tpls.

Lemma contexts_safe : all_pages_safe proxy_templates = true /\ all_pages_safe auth_templates = true.
Proof. split; vm_compute; reflexivity. Qed.

Lemma page_safe_of tpls name body :
  all_pages_safe tpls = true -> In (name, body) tpls -> page_safe tpls name = true.
Proof.
  unfold all_pages_safe. rewrite forallb_forall. intros H Hin. exact (H (name, body) Hin).
Qed.

(* the pages the handlers render exist *)
Lemma pages_exist :
  (exists b, lookup n_error proxy_templates = Some b) /\ (exists b, lookup n_error auth_templates = Some b) /\
  (exists b, lookup n_sign_in auth_templates = Some b) /\ (exists b, lookup n_sign_out auth_templates = Some b).
Proof. repeat split; eexists; vm_compute; reflexivity. Qed.

(* the request-controlled fields of each page are output-only: no condition, range, index or
   template argument looks at them.
     proxy error.html : Title, Message          (ErrorPage: message = ?error=..., err.Error())
     auth  error.html : Title, Message          (ErrorResponse)
     sign_in.html     : Redirect, Destination, ProviderName
     sign_out.html    : Redirect, Signature, Timestamp, Destination, Email
   (sign_out's Message is a constant of the handler and selects the message box: not in the set) *)
Definition F_error : list str := [f_Title; f_Message].
Definition F_sign_in : list str := [f_Redirect; f_Destination; f_ProviderName].
Definition F_sign_out : list str := [f_Redirect; f_Signature; f_Timestamp; f_Destination; f_Email].

Lemma request_fields_output_only :
  output_only proxy_templates n_error F_error = true /\
  output_only auth_templates n_error F_error = true /\
  output_only auth_templates n_sign_in F_sign_in = true /\
  output_only auth_templates n_sign_out F_sign_out = true.
Proof. repeat split; vm_compute; reflexivity. Qed.

Lemma pages_safe :
  page_safe proxy_templates n_error = true /\ page_safe auth_templates n_error = true /\
  page_safe auth_templates n_sign_in = true /\ page_safe auth_templates n_sign_out = true.
Proof. repeat split; vm_compute; reflexivity. Qed.

Definition inert_for (tpls : templates) (name : str) (F : list str) : Prop :=
  forall d1 d2, rec_agree F d1 d2 ->
    match render_page tpls name d1, render_page tpls name d2 with
    | Some r1, Some r2 => skeleton r1 = skeleton r2 /\ final_state r1 = SData /\ final_state r2 = SData
    | None, None => True
    | _, _ => False
    end.

Lemma served_pages_inert :
  inert_for proxy_templates n_error F_error /\ inert_for auth_templates n_error F_error /\
  inert_for auth_templates n_sign_in F_sign_in /\ inert_for auth_templates n_sign_out F_sign_out.
Proof.
  destruct pages_safe as [S1 [S2 [S3 S4]]]. destruct request_fields_output_only as [O1 [O2 [O3 O4]]].
  repeat split; unfold inert_for; apply request_fields_inert; assumption.
Qed.

(* ---- non-vacuity: the error page with the two classic payloads ---- *)
Definition xss1 : str := [60;115;99;114;105;112;116;62;97;108;101;114;116;40;49;41;60;47;115;99;114;105;112;116;62].
   (* <script>alert(1)</script> *)
Definition xss2 : str := [34;32;111;110;109;111;117;115;101;111;118;101;114;61;34].   (* " onmouseover=" *)
Definition err_data (code : N) (title msg : str) : list (str * value) :=
  [(f_Code, VInt code); (f_Title, VStr title); (f_Message, VStr msg)].

Lemma err_data_agree code t1 m1 t2 m2 : rec_agree F_error (err_data code t1 m1) (err_data code t2 m2).
Proof.
  intros f. unfold err_data. cbn [lookup].
  destruct (str_eqb f f_Code) eqn:E1.
  { apply str_eqb_eq in E1. subst f. vm_compute. reflexivity. }
  destruct (str_eqb f f_Title) eqn:E2.
  { apply str_eqb_eq in E2. subst f. vm_compute. exact I. }
  destruct (str_eqb f f_Message) eqn:E3.
  { apply str_eqb_eq in E3. subst f. vm_compute. exact I. }
  unfold val_agree. destruct (mem_str f F_error); [exact I | reflexivity].
Qed.

Example error_page_renders_xss_inert :
  match render_page proxy_templates n_error (err_data 403 xss1 xss2),
        render_page proxy_templates n_error (err_data 403 [120] [120]) with
  | Some r1, Some r2 => skeleton r1 = skeleton r2 /\ r1 <> r2 /\ final_state r1 = SData
  | _, _ => False
  end.
Proof. vm_compute. repeat split; [discriminate]. Qed.

(* the walker is not trivially true: a placeholder in an href, in a script, in an unquoted or
   single-quoted value, in a tag or in a comment is rejected *)
Definition tpl1 (pre post : str) : templates := [([112], [NText pre; NOut (EField [88]); NText post])].
Example unsafe_href : page_safe (tpl1 [60;97;32;104;114;101;102;61;34] [34;62;120;60;47;97;62]) [112] = false.
Proof. reflexivity. Qed.   (* <a href="{{.X}}">x</a> *)
Example unsafe_script : page_safe (tpl1 [60;115;99;114;105;112;116;62] [60;47;115;99;114;105;112;116;62]) [112] = false.
Proof. reflexivity. Qed.   (* <script>{{.X}}</script> *)
Example unsafe_unquoted : page_safe (tpl1 [60;105;110;112;117;116;32;118;97;108;117;101;61] [62]) [112] = false.
Proof. reflexivity. Qed.   (* <input value={{.X}}> *)
Example unsafe_single_quoted : page_safe (tpl1 [60;105;110;112;117;116;32;118;97;108;117;101;61;39] [39;62]) [112] = false.
Proof. reflexivity. Qed.   (* <input value='{{.X}}'> *)
Example unsafe_in_tag : page_safe (tpl1 [60;105;110;112;117;116;32] [62]) [112] = false.
Proof. reflexivity. Qed.   (* <input {{.X}}> *)
Example unsafe_comment : page_safe (tpl1 [60;33;45;45] [45;45;62]) [112] = false.
Proof. reflexivity. Qed.   (* <!--{{.X}}--> *)
Example unsafe_style : page_safe (tpl1 [60;115;116;121;108;101;62] [60;47;115;116;121;108;101;62]) [112] = false.
Proof. reflexivity. Qed.   (* <style>{{.X}}</style> *)
Example unsafe_onclick : page_safe (tpl1 [60;98;32;111;110;99;108;105;99;107;61;34] [34;62;60;47;98;62]) [112] = false.
Proof. reflexivity. Qed.   (* <b onclick="{{.X}}"></b> *)
Example safe_value : page_safe (tpl1 [60;105;110;112;117;116;32;118;97;108;117;101;61;34] [34;62]) [112] = true.
Proof. reflexivity. Qed.   (* <input value="{{.X}}"> *)
Example safe_title_rcdata : page_safe (tpl1 [60;116;105;116;108;101;62] [60;47;116;105;116;108;101;62]) [112] = true.
Proof. reflexivity. Qed.   (* <title>{{.X}}</title> *)
(* a field used in a condition is not output-only *)
Example message_controls_sign_out : output_only auth_templates n_sign_out [f_Message] = false.
Proof. vm_compute. reflexivity. Qed.
