(* Corr_IntAuth_proofs.v — the monitor of Corr_IntAuth accepts the integration model's own
   prediction: for every deployment, request, oracle table, provider answers and time, and every
   generator bookkeeping [ghost] that is consistent with the request ([sane]), the boolean
   specification [holds] is true of the observation one would make of the model's response.
   So a monitor alarm on an observation the model predicts would contradict the theorems of
   props/IntegrationAuth.v — the monitor demands no more than what is proved. *)
From V Require Import Base Base_proofs CorrBase AuthAll AuthAll_proofs Corr_IntAuth.
From V Require Url Url_proofs AuthGates_proofs AuthFlow_proofs Corr_C07 Corr_C07_proofs Corr_C09 Corr_C09_proofs
               Json Json_proofs RespHeaders_gen_proofs.
From Coq Require Import ZifyBool ZifyN.

Module C7 := V.Corr_C07_proofs.
Module C9 := V.Corr_C09_proofs.
Local Open Scope N_scope.

(* ---- the observation one makes of a model response ---- *)
Definition loc_obs (d : deployment) (st : str) (l : location) : oloc :=
  match l with
  | LNone => OLNone
  | LVerbatim src => OLText (Url.hex_escape_non_ascii src)
  | LClean p => OLText p
  | LCode src s =>
      OLCode (match G.location_prefix (gcfg d) (G.ORedirect src G.WithCode) with Some pre => pre | None => [] end) (Some s) st
  | LIdP st' => OLIdP (Some st')
  end.

Definition body_obs (b : body) : obody :=
  match b with
  | BEmpty => OBEmpty
  | BErrPage _ => OBErrPage [] 0 0 []
  | BErrJson _ => OBErrJson (Json.auth_error_json [])
  | BSignInPage => OBSignIn
  | BSignOutPage e u s t w => OBSignOut e u s t w
  | BJson b => OBJson b
  | BPlain => OBPlain
  | BRedirect => OBRedirect
  | BRobots => OBRobots
  | BStatic => OBStatic
  end.

Definition hdrs_obs (r : response) : list (str * list str) :=
  map (fun kv => (H.canon (fst kv), map hval_str (H.hget (H.canon (fst kv)) (headers_of r)))) AT.

Definition obs_of (d : deployment) (st : str) (r : response) : obs :=
  {| ob_status := r_status r; ob_loc := loc_obs d st (r_loc r); ob_sess := r_sess_ops r; ob_csrf := r_csrf_ops r;
     ob_calls := r_calls r; ob_body := body_obs (r_body r); ob_hdrs := hdrs_obs r |}.

(* ---- consistency of the generator's bookkeeping with the request it built ---- *)
Section Sane.
Variable lower : str -> str.
Variables (d : deployment) (q : request) (o : oracles) (an : answers) (now_ns : Z) (g : ghost).

Definition sane_gate_fields (slug : str) (r : B.request) : Prop :=
  g_uri g = redirect_value r /\ g_sig g = sigval_of o (sig_value r) /\ g_ts g = ts_value r /\
  g_cookie g = cookie_of d o (lookup slug (q_sess q)).

Definition sane : Prop :=
  g_method g = q_method q /\
  match g_route g with
  | RtOutside => ~ exists slug k rest, routed d q slug k rest
  | RtUnknownPath => exists slug k rest, routed d q slug k rest /\ ~ In rest (map rt_path all_routes)
  | RtSignIn =>
      exists slug, routed d q slug (g_kind g) p_sign_in /\
        let r := inner q p_sign_in in
        sane_gate_fields slug r /\ g_state g = B.form_get k_state (the_form r) /\
        (B.presented_id r = d_client_id d -> In (d_client_id d) (g_ids g)) /\
        (* guards of the clause about the Location text actually written *)
        forallb Url.byte_ok (g_uri g) = true /\ Url.scheme_ok (d_scheme d) /\
        forallb (fun c => c <? 128) (d_scheme d) = true
  | RtSignOut =>
      exists slug, routed d q slug (g_kind g) p_sign_out /\ sane_gate_fields slug (inner q p_sign_out) /\
        forallb (fun c => c <? 128) (g_uri g) = true       (* the Location is then the URI itself *)
  | RtStart =>
      exists slug, routed d q slug (g_kind g) p_start /\
        let raw := B.form_get k_redirect_uri (B.url_query (inner q p_start)) in
        forall a b nraw nsig nts,
          o_parse_string o raw = Some a -> o_nested o raw = (nraw, nsig, nts) -> o_parse_string o nraw = Some b ->
          g_outer g = a /\ g_uri g = b /\ g_sig g = sigval_of o nsig /\ g_ts g = nts /\
          an_nonce an <> []            (* the server's random nonce is never empty *)
  | RtCallback =>
      exists slug, routed d q slug (g_kind g) p_callback /\
        let r := inner q p_callback in
        g_csrf g = lookup slug (q_csrf q) /\
        g_cb_state g = S.b64_decode (B.form_get k_state (the_form r)) /\
        g_cb_code g = B.form_get B.k_code (the_form r) /\
        (forall ts, T.redeem true (tprov (g_kind g)) (an_payload an) (g_cb_code g) (an_tok an) (an_ui an) = T.Session ts ->
           g_vouched g = Some (T.s_email ts)) /\
        (forall nonce redirect, g_cb_state g = Some (nonce ++ F.colon :: redirect) ->
           forallb (fun c => c <? 128) redirect = true)
  | RtBack h =>
      exists slug, routed d q slug (g_kind g) (rt_path (rt_back h)) /\
        let r := inner q (rt_path (rt_back h)) in
        (B.presented_id r = d_client_id d -> In (d_client_id d) (g_ids g)) /\
        (B.presented_secret r = d_client_secret d -> In (d_client_secret d) (g_secrets g)) /\
        (h = B.HRedeem -> g_code g = o_open o (B.presented_code r))
  end.
End Sane.

(* ---- small facts ---- *)
Lemma le_plus2 x : (x <= x + 2)%Z. Proof. lia. Qed.
Lemma isnil_true {A} (l : list A) : isnil l = true <-> l = [].
Proof. destruct l; split; try reflexivity; discriminate. Qed.

Lemma flow_calls_map l : flow_calls (map CIdp l) = l.
Proof. induction l as [|x l IH]; [reflexivity|]. cbn. f_equal. exact IH. Qed.

Lemma revoked_idp l : (forall c, In c l -> exists x, c = CIdp x) -> revoked l = [].
Proof.
  induction l as [|c l IH]; intros H; [reflexivity|]. cbn.
  destruct (H c (or_introl eq_refl)) as [x ->]. cbn. apply IH. intros c' Hc. apply H. right. exact Hc.
Qed.

Lemma sets_nil ops : (forall s, ~ In (F.OpSet s) ops) -> sets ops = [].
Proof.
  induction ops as [|op ops IH]; intros H; [reflexivity|]. cbn. destruct op as [|s].
  - cbn. apply IH. intros s Hs. apply (H s). right. exact Hs.
  - exfalso. apply (H s). left. reflexivity.
Qed.

Lemma sets_in ops s : In s (sets ops) <-> In (F.OpSet s) ops.
Proof.
  unfold sets. rewrite in_flat_map. split.
  - intros [op [Hin Hs]]. destruct op; [destruct Hs | destruct Hs as [<-|[]]; exact Hin].
  - intros H. exists (F.OpSet s). split; [exact H | left; reflexivity].
Qed.

Lemma has_clear_iff ops : Corr_IntAuth.has_clear ops = true <-> AuthAll_proofs.has_clear ops.
Proof.
  unfold Corr_IntAuth.has_clear, AuthAll_proofs.has_clear. rewrite existsb_exists. split.
  - intros [op [Hin Hop]]. destruct op; [exact Hin | discriminate].
  - intros H. exists F.OpClear. split; [exact H | reflexivity].
Qed.

Lemma mem_str_true x l : In x l -> mem_str x l = true.
Proof. apply mem_str_In. Qed.

(* the body clause holds of every model body *)
Lemma body_holds_model d st r : body_holds (obs_of d st r) = true.
Proof.
  unfold body_holds, obs_of. cbn [ob_body]. destruct (r_body r); cbn [body_obs]; try reflexivity;
    apply Json_proofs.auth_error_json_ok.
Qed.

Lemma obody_field_iff b : obody_has_field (body_obs b) = true -> exists x, b = BJson x.
Proof. destruct b; cbn; try discriminate. intros _. eexists. reflexivity. Qed.

(* the header clause: a secured response shows exactly the table *)
Lemma table_self : forallb (fun kv => option_eqb str_eqb (H.tbl_lookup (H.canon (fst kv)) AT) (Some (snd kv))) AT = true.
Proof. vm_compute. reflexivity. Qed.

Lemma hdrs_obs_secured r : r_secured r = true ->
  hdrs_obs r = map (fun kv => (H.canon (fst kv), [snd kv])) AT.
Proof.
  intros Hs. unfold hdrs_obs. apply map_ext_in. intros kv Hin.
  pose proof table_self as T. rewrite forallb_forall in T. specialize (T kv Hin).
  destruct (H.tbl_lookup (H.canon (fst kv)) AT) as [v|] eqn:E; [|discriminate T]. cbn in T. apply str_eqb_eq in T. subst v.
  rewrite (security_headers_int r _ _ Hs E). reflexivity.
Qed.

Lemma hdrs_hold_model d st r gh : (inside gh = true -> r_secured r = true) -> hdrs_hold gh (obs_of d st r) = true.
Proof.
  intros H. unfold hdrs_hold. destruct (inside gh); [|reflexivity].
  unfold obs_of. cbn [ob_hdrs]. rewrite (hdrs_obs_secured r (H eq_refl)). vm_compute. reflexivity.
Qed.

(* ---- routing facts ---- *)
Lemma routed_functional d q s1 k1 r1 s2 k2 r2 :
  routed d q s1 k1 r1 -> routed d q s2 k2 r2 -> s1 = s2 /\ k1 = k2 /\ r1 = r2.
Proof. intros [_ [_ [_ H1]]] [_ [_ [_ H2]]]. rewrite H1 in H2. inversion H2. auto. Qed.

Section Model.
Variable lower : str -> str.
Variables (d : deployment) (q : request) (o : oracles) (an : answers) (now_ns : Z).
Let resp := serve lower d q o an now_ns.
Let now_s := (now_ns / ns)%Z.
Notation route_at slug k rt rest :=
  (serve_route lower d slug k q o an now_ns rt (inner q rest) (B.init_state (d_pre d) (inner q rest))).

Lemma resp_at slug k rest rt : routed d q slug k rest -> ReqUri.clean_path rest = rest ->
  find_route rest all_routes = Some rt -> resp = route_at slug k rt rest.
Proof.
  intros Hr Hc Hf. unfold resp. rewrite (serve_routed lower d q o an now_ns slug k rest Hr).
  apply serve_auth_at; assumption.
Qed.

Lemma shape_loc_not_clean sh r p : sh <> ShNone -> shape_ok sh r -> r_loc r <> LClean p.
Proof.
  intros Hn Hs Hl. destruct sh; try contradiction; cbn in Hs.
  - destruct Hs as [[X|[? X]] _]; rewrite Hl in X; discriminate.
  - destruct Hs as [[X|[? [? X]]] _]; rewrite Hl in X; discriminate.
  - destruct Hs as [[X|[? X]] _]; rewrite Hl in X; discriminate.
  - destruct Hs as [[X|[? X]] _]; rewrite Hl in X; discriminate.
  - destruct Hs as [X _]; rewrite Hl in X; discriminate.
Qed.

Lemma clean_301 p : r_loc resp = LClean p -> r_status resp = 301.
Proof.
  unfold resp, serve.
  destruct (str_eqb (q_path q) p_ping); [discriminate|].
  destruct (negb (str_eqb (q_host q) (d_host d))); [discriminate|].
  destruct (negb (str_eqb _ (q_path q))); [reflexivity|].
  destruct (find_slug (q_path q) (d_slugs d)) as [[[slug k] rest]|].
  2:{ destruct (has_prefix _ _); [discriminate|]. destruct (str_eqb _ _); discriminate. }
  intros Hl. pose proof (serve_auth_cases lower d slug k q rest o an now_ns) as Hc. cbv zeta in Hc.
  destruct Hc as [[_ [[X _]|[_ [_ X]]]]|Hc]; [exact X | rewrite Hl in X; discriminate X |].
  exfalso.
  destruct Hc as [[-> E]|[[-> E]|[[-> E]|[[-> E]|[h [-> E]]]]]]; rewrite E in Hl.
  - exact (shape_loc_not_clean ShStart _ p ltac:(discriminate) (start_shape lower d q o an now_ns slug k) Hl).
  - exact (shape_loc_not_clean ShSignIn _ p ltac:(discriminate) (sign_in_shape lower d q o an now_ns slug k) Hl).
  - exact (shape_loc_not_clean ShSignOut _ p ltac:(discriminate) (sign_out_shape lower d q o an now_ns slug k) Hl).
  - exact (shape_loc_not_clean ShCallback _ p ltac:(discriminate) (callback_shape lower d q o an now_ns slug k) Hl).
  - exact (shape_loc_not_clean (ShBack h) _ p ltac:(discriminate) (back_shape lower d q o an now_ns slug k h) Hl).
Qed.


Variable g : ghost.
Hypothesis Hguard : rule_guard lower d = true.
Hypothesis Hsane : sane d q o an g.

Let ob := obs_of d (g_state g) resp.

Lemma is_get_iff r : g_method g = B.rq_method r -> (is_get g = true <-> B.rq_method r = B.m_get).
Proof. intros E. unfold is_get. rewrite E. apply str_eqb_eq. Qed.
Lemma is_post_iff r : g_method g = B.rq_method r -> (is_post g = true <-> B.rq_method r = B.m_post).
Proof. intros E. unfold is_post. rewrite E. apply str_eqb_eq. Qed.

(* ---- responses without effect (outside every authenticator, or no such route) ---- *)
Lemma no_effect_holds : no_effect resp -> (inside g = true -> r_secured resp = true) ->
  match g_route g with RtOutside | RtUnknownPath => True | RtBack _ => False | _ => r_loc resp = LNone end ->
  holds lower d now_ns an g ob = true.
Proof.
  intros [Hran [Hso [Hco [Hca [Hloc Hb]]]]] Hin Hrt. unfold holds, ob.
  assert (Hl : loc_obs d (g_state g) (r_loc resp) = OLNone \/
               exists t, loc_obs d (g_state g) (r_loc resp) = OLText t /\ r_status resp = 301).
  { destruct Hloc as [X|[p X]]; rewrite X; cbn; [left; reflexivity|]. right. exists p. split; [reflexivity|].
    apply clean_301 with p. exact X. }
  assert (Hnf : obody_has_field (body_obs (r_body resp)) = false).
  { destruct (obody_has_field (body_obs (r_body resp))) eqn:E; [|reflexivity].
    destruct (obody_field_iff _ E) as [x Hx]. rewrite Hx in Hb. contradiction. }
  rewrite body_holds_model, hdrs_hold_model by exact Hin.
  unfold code_holds, login_holds, back_holds, signout_holds, redirect_holds, outside_holds, obs_of.
  cbn [ob_loc ob_sess ob_csrf ob_calls ob_status ob_body]. rewrite Hso, Hco, Hca, Hnf. cbn [sets revoked flat_map isnil negb andb].
  destruct Hl as [X|[t [X H301]]]; rewrite X.
  - destruct (g_route g); try contradiction; reflexivity.
  - rewrite H301. destruct (g_route g); try contradiction; try reflexivity;
      rewrite Hrt in X; discriminate X.
Qed.


Lemma gate_err_no_effect r c : no_effect (gate_err r c).
Proof.
  unfold no_effect, gate_err, err_with, mk. cbn. repeat split; auto. unfold err_body. destruct (accept_json r); exact I.
Qed.
Lemma gate_err_secured r c : r_secured (gate_err r c) = true. Proof. reflexivity. Qed.

(* ---- /sign_in ---- *)
Lemma sign_in_holds : g_route g = RtSignIn -> holds lower d now_ns an g ob = true.
Proof.
  intros Hrt. destruct Hsane as [Hmeth Hs]. rewrite Hrt in Hs.
  destruct Hs as [slug [Hr [[Huri [Hsig [Hts Hck]]] [Hst [Hid [Hbytes [Hsch Hsca]]]]]]]. cbv zeta in *.
  set (k := g_kind g) in *.
  assert (He : resp = route_at slug k rt_sign_in p_sign_in) by (apply resp_at; [exact Hr | reflexivity | reflexivity]).
  destruct (sign_in_ran_cases lower d o now_ns slug k q an) as [Hran|Hran].
  2:{ destruct (sign_in_refused lower d o now_ns slug k q an Hran) as [c [Hx _]].
      apply no_effect_holds; rewrite ?Hrt.
      - unfold resp. fold resp. rewrite He, Hx. apply gate_err_no_effect.
      - intros _. rewrite He, Hx. reflexivity.
      - rewrite He, Hx. reflexivity. }
  destruct (sign_in_entered lower d o now_ns slug k q an Hran) as [[Hm [Hi [Hpid [Hvu Hvs]]]] Hx].
  set (fr := F.sign_in lower (fcfg d) (fkind k) (now_ns / ns) (F.mkSI true true true true (B.form_get k_state (the_form (inner q p_sign_in))))
               (cookie_of d o (lookup slug (q_sess q))) (an_refresh an) (an_validate an)) in *.
  (* what C09's own monitor lemma says about AuthFlow's response *)
  pose proof (C9.si_holds_model lower (fcfg d) (fkind k) (now_ns / ns) (F.mkSI true true true true (B.form_get k_state (the_form (inner q p_sign_in))))
                (cookie_of d o (lookup slug (q_sess q))) (an_refresh an) (an_validate an) Hguard) as Hsi.
  change (F.sign_in_route lower (fcfg d) (fkind k) (now_ns / ns) (F.mkSI true true true true (B.form_get k_state (the_form (inner q p_sign_in))))
            (cookie_of d o (lookup slug (q_sess q))) (an_refresh an) (an_validate an)) with fr in Hsi.
  unfold Corr_C09.si_holds, Corr_C09.si_obs_of in Hsi.
  cbn [Corr_C09.so_has_code Corr_C09.so_status Corr_C09.so_code Corr_C09.so_ops Corr_C09.so_calls Corr_C09.so_leak Corr_C09.so_page] in Hsi.
  apply andb_true_iff in Hsi as [Hsi1 Hsi2].
  (* clauses common to every /sign_in answer of the handler *)
  assert (Hops : r_sess_ops resp = F.r_ops fr).
  { rewrite He, Hx. unfold of_flow_sign_in. destruct (F.r_code fr); [destruct (o_query_ok _ _)|destruct (F.r_body fr)]; reflexivity. }
  assert (Hcalls : r_calls resp = map CIdp (F.r_calls fr)).
  { rewrite He, Hx. unfold of_flow_sign_in. destruct (F.r_code fr); [destruct (o_query_ok _ _)|destruct (F.r_body fr)]; reflexivity. }
  assert (Hcsrf : r_csrf_ops resp = []).
  { rewrite He, Hx. unfold of_flow_sign_in. destruct (F.r_code fr); [destruct (o_query_ok _ _)|destruct (F.r_body fr)]; reflexivity. }
  assert (Hnf : obody_has_field (body_obs (r_body resp)) = false).
  { rewrite He, Hx. unfold of_flow_sign_in. destruct (F.r_code fr); [destruct (o_query_ok _ _)|destruct (F.r_body fr)]; cbn;
      try reflexivity; unfold err_body; destruct (accept_json _); reflexivity. }
  assert (Hlogin : login_holds lower d now_ns g ob = true).
  { unfold login_holds, ob, obs_of. cbn [ob_sess]. rewrite Hops, Hrt.
    destruct (sets (F.r_ops fr)) as [|s1 ss] eqn:Es; [reflexivity|]. rewrite <- Es.
    apply forallb_forall. intros s' Hin. apply sets_in in Hin. rewrite Hck.
    rewrite forallb_forall in Hsi2. specialize (Hsi2 (F.OpSet s') Hin). exact Hsi2. }
  assert (Hsign : signout_holds d now_ns an g ob = true).
  { unfold signout_holds, ob, obs_of. cbn [ob_calls]. rewrite Hrt, Hcalls. apply isnil_true.
    apply revoked_idp. intros c Hc. apply in_map_iff in Hc as [x [<- _]]. eexists. reflexivity. }
  assert (Hback : back_holds d now_ns g ob = true).
  { unfold back_holds, ob, obs_of. cbn [ob_body]. rewrite Hrt, Hnf. reflexivity. }
  assert (Hout : outside_holds g ob = true) by (unfold outside_holds; rewrite Hrt; reflexivity).
  assert (Hhd : hdrs_hold g ob = true).
  { apply hdrs_hold_model. intros _. rewrite He, Hx. unfold of_flow_sign_in.
    destruct (F.r_code fr); [destruct (o_query_ok _ _)|destruct (F.r_body fr)]; reflexivity. }
  unfold holds. rewrite Hlogin, Hback, Hhd, Hsign, Hout. fold ob. unfold ob at 2. rewrite body_holds_model.
  rewrite !andb_true_r.
  (* the two clauses that look at the Location *)
  destruct (r_loc resp) as [|src|src s|st|p] eqn:Eloc.
  - unfold code_holds, redirect_holds, ob, obs_of. cbn [ob_loc]. rewrite Eloc. reflexivity.
  - exfalso. rewrite He, Hx in Eloc. unfold of_flow_sign_in in Eloc.
    destruct (F.r_code fr); [destruct (o_query_ok _ _)|destruct (F.r_body fr)]; discriminate Eloc.
  - (* a code *)
    assert (Hl' : r_loc (serve lower d q o an now_ns) = LCode src s) by exact Eloc.
    destruct (code_end_to_end lower d q o an now_ns src s Hl') as [slug' [k' [Hr' [_ [Hsrc [Hstne [_ [Hlocdom _]]]]]]]].
    destruct (routed_functional _ _ _ _ _ _ _ _ Hr Hr') as [<- [<- _]].
    assert (Hcode : F.r_code fr = Some s).
    { rewrite He, Hx in Eloc. unfold of_flow_sign_in in Eloc.
      destruct (F.r_code fr); [destruct (o_query_ok _ _); [inversion Eloc; reflexivity | discriminate Eloc]|].
      destruct (F.r_body fr); discriminate Eloc. }
    rewrite Hcode in Hsi1. cbn [Corr_C09.is_some] in Hsi1.
    apply andb_true_iff in Hsi1 as [Hsi1 Hder]. apply andb_true_iff in Hsi1 as [Hall H302].
    assert (Hst302 : r_status resp = 302).
    { rewrite He, Hx. unfold of_flow_sign_in. rewrite Hcode.
      rewrite He, Hx in Eloc. unfold of_flow_sign_in in Eloc. rewrite Hcode in Eloc.
      destruct (o_query_ok _ _); [reflexivity | discriminate Eloc]. }
    unfold redirect_holds, code_holds, ob, obs_of. cbn [ob_loc ob_status ob_calls]. rewrite Eloc. cbn [loc_obs]. rewrite Hrt.
    rewrite Hcalls, flow_calls_map, Hst302, Hck. rewrite Hder. cbn [N.eqb Pos.eqb andb].
    (* the monitor's own gate verdicts are all true *)
    assert (Bget : is_get g = true) by (apply (is_get_iff (inner q p_sign_in)); [exact Hmeth | exact Hm]).
    assert (Bid : id_shown d g = true) by (apply mem_str_true, Hid, Hpid).
    assert (Bdom : in_domain_uri d (g_uri g) = true).
    { unfold in_domain_uri. rewrite Huri. apply C7.redir_monitor_ok. exact Hvu. }
    assert (Bsig : sig_ok d now_ns g = true).
    { unfold sig_ok. rewrite Huri, Hsig, Hts. apply C7.sig_monitor_ok. exact Hvs. }
    assert (Hallowed : Corr_C09.spec_code_allowed lower (fcfg d) (fkind k) (now_ns / ns)
              (F.mkSI (is_get g) (id_shown d g) (in_domain_uri d (g_uri g)) (sig_ok d now_ns g) (g_state g))
              (cookie_of d o (lookup slug (q_sess q))) (an_refresh an) (an_validate an) (F.r_calls fr) = true).
    { rewrite Bget, Bid, Bdom, Bsig. unfold Corr_C09.spec_code_allowed in Hall |- *.
      cbn [F.si_get F.si_client_ok F.si_redirect_ok F.si_sig_ok] in Hall |- *. exact Hall. }
    fold k. rewrite Hallowed. cbn [andb].
    assert (Bst : negb (isnil (g_state g)) = true).
    { rewrite Hst. destruct (B.form_get k_state (the_form (inner q p_sign_in))); [contradiction | reflexivity]. }
    rewrite Bst, str_eqb_refl. cbn [andb]. rewrite andb_true_r.
    (* the Location text written: every RFC reading names an in-domain host *)
    destruct (Hlocdom ltac:(rewrite Hsrc, <- Huri; exact Hbytes) (or_intror Hsch)) as [u [Hgp Hall']].
    assert (Hpre : G.location_prefix (gcfg d) (G.ORedirect src G.WithCode) = Some (Url.authority_string (d_scheme d) u)).
    { apply (AuthGates_proofs.code_location_prefix (gcfg d) src u Hgp); [rewrite Hsrc, <- Huri; exact Hbytes | exact Hsca]. }
    rewrite Hpre. unfold in_domain_uri, Corr_C07.rfc_in_domain.
    destruct (Url.rfc_read (Url.authority_string (d_scheme d) u)) as [pp|] eqn:Erd; [|reflexivity].
    rewrite !andb_true_r. apply C7.in_domain_b_true. apply Url_proofs.rfc_read_sound in Erd.
    apply (Hall' [] (Url.r_scheme pp) (Url.r_userinfo pp) (Url.r_host pp) (Url.r_port pp) (Url.r_rest pp) I).
    rewrite app_nil_r. exact Erd.
  - exfalso. rewrite He, Hx in Eloc. unfold of_flow_sign_in in Eloc.
    destruct (F.r_code fr); [destruct (o_query_ok _ _)|destruct (F.r_body fr)]; discriminate Eloc.
  - exfalso. rewrite He, Hx in Eloc. unfold of_flow_sign_in in Eloc.
    destruct (F.r_code fr); [destruct (o_query_ok _ _)|destruct (F.r_body fr)]; discriminate Eloc.
Qed.


(* a JSON document only from a back-channel route *)
Lemma not_back_no_json slug k rest : routed d q slug k rest -> (forall h, rest <> rt_path (rt_back h)) ->
  obody_has_field (body_obs (r_body resp)) = false.
Proof.
  intros Hr Hn. destruct (obody_has_field (body_obs (r_body resp))) eqn:E; [|reflexivity].
  destruct (obody_field_iff _ E) as [b Hb].
  destruct (json_only_back lower d q o an now_ns b Hb) as [slug' [k' [h [Hr' _]]]].
  destruct (routed_functional _ _ _ _ _ _ _ _ Hr Hr') as [_ [_ X]]. exfalso. exact (Hn h X).
Qed.

Lemma hex_ascii u : forallb (fun c => c <? 128) u = true -> Url.hex_escape_non_ascii u = u.
Proof. apply AuthGates_proofs.hex_escape_ascii. Qed.

(* ---- /sign_out ---- *)
Lemma sign_out_holds : g_route g = RtSignOut -> holds lower d now_ns an g ob = true.
Proof.
  intros Hrt. destruct Hsane as [Hmeth Hs]. rewrite Hrt in Hs.
  destruct Hs as [slug [Hr [[Huri [Hsig [Hts Hck]]] Hascii]]].
  set (k := g_kind g) in *.
  assert (He : resp = route_at slug k rt_sign_out p_sign_out) by (apply resp_at; [exact Hr | reflexivity | reflexivity]).
  destruct (sign_out_cases lower d o now_ns slug k q an) as [[c [Hx _]]|[[Hm [Hi [Hvu Hvs]]] Hx]].
  { apply no_effect_holds; rewrite ?Hrt.
    - rewrite He, Hx. apply gate_err_no_effect.
    - intros _. rewrite He, Hx. reflexivity.
    - rewrite He, Hx. reflexivity. }
  assert (Hnf : obody_has_field (body_obs (r_body resp)) = false).
  { apply (not_back_no_json slug k p_sign_out Hr). intros h. destruct h; discriminate. }
  assert (Bgates : signout_gates d now_ns g = true).
  { unfold signout_gates, in_domain_uri, sig_ok. rewrite Huri, Hsig, Hts.
    rewrite (C7.redir_monitor_ok _ _ Hvu), (C7.sig_monitor_ok _ _ _ _ _ Hvs). reflexivity. }
  assert (Bdom : in_domain_uri d (g_uri g) = true).
  { unfold in_domain_uri. rewrite Huri. apply C7.redir_monitor_ok. exact Hvu. }
  assert (Hsec : r_secured resp = true).
  { unfold resp. apply (secured_iff_routed lower). exists slug, k, p_sign_out. exact Hr. }
  unfold holds. fold ob. unfold ob at 5. rewrite body_holds_model. unfold ob at 4. rewrite (hdrs_hold_model d _ resp g (fun _ => Hsec)).
  assert (Hout : outside_holds g ob = true) by (unfold outside_holds; rewrite Hrt; reflexivity). rewrite Hout.
  assert (Hback : back_holds d now_ns g ob = true) by (unfold back_holds, ob, obs_of; cbn [ob_body]; rewrite Hrt, Hnf; reflexivity).
  rewrite Hback. rewrite !andb_true_r.
  (* the handler's six cases *)
  unfold code_holds, login_holds, signout_holds, redirect_holds, ob, obs_of.
  cbn [ob_loc ob_sess ob_calls ob_status ob_csrf]. rewrite Hrt, He, Hx. unfold h_sign_out.
  change (B.form_get k_redirect_uri (B.form_of (Some (the_form (inner q p_sign_out))))) with (redirect_value (inner q p_sign_out)).
  rewrite <- Huri, Hck. rewrite Bgates.
  assert (Hmg : B.rq_method (inner q p_sign_out) = q_method q) by reflexivity.
  destruct (str_eqb (B.rq_method (inner q p_sign_out)) B.m_get) eqn:Eg.
  - (* GET: passive *)
    destruct (cookie_of d o (lookup slug (q_sess q))) as [| |key s0]; [| |destruct key];
      cbn [acookie_of r_loc r_sess_ops r_calls r_status mk loc_obs sets revoked flat_map has_clear existsb isnil app];
      rewrite ?(hex_ascii _ Hascii), ?str_eqb_refl, ?Bdom; reflexivity.
  - assert (Bpost : is_post g = true).
    { apply (is_post_iff (inner q p_sign_out)); [rewrite Hmeth; reflexivity|].
      destruct Hm as [X|X]; [apply str_eqb_neq in Eg; contradiction | exact X]. }
    rewrite Bpost.
    destruct (cookie_of d o (lookup slug (q_sess q))) as [| |key s0]; [| |destruct key];
      cbn [acookie_of r_loc r_sess_ops r_calls r_status mk loc_obs sets revoked flat_map has_clear existsb isnil app];
      rewrite ?(hex_ascii _ Hascii), ?str_eqb_refl, ?Bdom; try reflexivity.
    fold k. destruct (S.revoke_ok (sprov k) (an_revoke an)) eqn:Erv;
      cbn [r_loc r_sess_ops r_calls r_status mk loc_obs sets revoked flat_map has_clear existsb isnil app orb andb negb N.eqb Pos.eqb];
      rewrite ?(hex_ascii _ Hascii), ?str_eqb_refl, ?Bdom; reflexivity.
Qed.


(* ---- /start ---- *)
Lemma start_holds : g_route g = RtStart -> holds lower d now_ns an g ob = true.
Proof.
  intros Hrt. destruct Hsane as [Hmeth Hs]. rewrite Hrt in Hs. destruct Hs as [slug [Hr Hfields]]. cbv zeta in Hfields.
  set (k := g_kind g) in *.
  assert (He : resp = route_at slug k rt_start p_start) by (apply resp_at; [exact Hr | reflexivity | reflexivity]).
  assert (Hnf : obody_has_field (body_obs (r_body resp)) = false).
  { apply (not_back_no_json slug k p_start Hr). intros h. destruct h; discriminate. }
  assert (Hsec : r_secured resp = true).
  { unfold resp. apply (secured_iff_routed lower). exists slug, k, p_start. exact Hr. }
  destruct (start_shape lower d q o an now_ns slug k) as [Hloc [Hso Hca]]. rewrite <- He in Hloc, Hso, Hca.
  unfold holds. fold ob. unfold ob at 5. rewrite body_holds_model. unfold ob at 4. rewrite (hdrs_hold_model d _ resp g (fun _ => Hsec)).
  assert (Hout : outside_holds g ob = true) by (unfold outside_holds; rewrite Hrt; reflexivity). rewrite Hout.
  assert (Hback : back_holds d now_ns g ob = true) by (unfold back_holds, ob, obs_of; cbn [ob_body]; rewrite Hrt, Hnf; reflexivity).
  assert (Hlogin : login_holds lower d now_ns g ob = true) by (unfold login_holds, ob, obs_of; cbn [ob_sess]; rewrite Hso; reflexivity).
  assert (Hsign : signout_holds d now_ns an g ob = true) by (unfold signout_holds, ob, obs_of; cbn [ob_calls]; rewrite Hrt, Hca; reflexivity).
  rewrite Hback, Hlogin, Hsign. rewrite !andb_true_r.
  destruct Hloc as [Hl|[st Hl]].
  - unfold code_holds, redirect_holds, ob, obs_of. cbn [ob_loc]. rewrite Hl. reflexivity.
  - assert (Hl' : r_loc (serve lower d q o an now_ns) = LIdP st) by exact Hl.
    destruct (start_end_to_end lower d q o an now_ns st Hl') as [slug' [k' [Hr' [Hm [a [b [nraw [nsig [nts [A1 [A2 [A3 [A4 [A5 [_ [_ [_ [A9 [A10 _]]]]]]]]]]]]]]]]]]].
    destruct (routed_functional _ _ _ _ _ _ _ _ Hr Hr') as [<- [<- _]].
    destruct (Hfields a b nraw nsig nts A1 A2 A3) as [G1 [G2 [G3 [G4 Hnn]]]].
    destruct (start_sound_int lower d o now_ns slug k q an st ltac:(rewrite <- He; exact Hl)) as [_ [a' [b' [nraw' [nsig' [nts' [B1 [B2 [B3 [_ [_ [B6 _]]]]]]]]]]]].
    rewrite A1 in B1. inversion B1; subst a'. rewrite A2 in B2. inversion B2; subst nraw' nsig' nts'. rewrite A3 in B3. inversion B3; subst b'.
    unfold code_holds, redirect_holds, ob, obs_of. cbn [ob_loc ob_csrf]. rewrite Hl. cbn [loc_obs]. rewrite Hrt.
    change (r_csrf_ops resp) with (r_csrf_ops (serve lower d q o an now_ns)). rewrite A10.
    assert (Bget : is_get g = true) by (apply (is_get_iff (inner q p_start)); [exact Hmeth | exact Hm]).
    unfold in_domain_uri, sig_ok. rewrite Bget, G1, G2, G3, G4.
    rewrite (C7.redir_monitor_ok _ _ A4), (C7.redir_monitor_ok _ _ A5), (C7.sig_monitor_ok _ _ _ _ _ B6).
    cbn [F.sc_expired F.sc_value negb andb]. rewrite A9, str_eqb_refl.
    destruct (an_nonce an); [contradiction | reflexivity].
Qed.

(* ---- /callback ---- *)
Lemma callback_holds : g_route g = RtCallback -> holds lower d now_ns an g ob = true.
Proof.
  intros Hrt. destruct Hsane as [Hmeth Hs]. rewrite Hrt in Hs.
  destruct Hs as [slug [Hr [Hcsrf [Hstate [Hcode [Hvouch Hascii]]]]]]. cbv zeta in *.
  set (k := g_kind g) in *.
  assert (He : resp = route_at slug k rt_callback p_callback) by (apply resp_at; [exact Hr | reflexivity | reflexivity]).
  assert (Hnf : obody_has_field (body_obs (r_body resp)) = false).
  { apply (not_back_no_json slug k p_callback Hr). intros h. destruct h; discriminate. }
  assert (Hsec : r_secured resp = true).
  { unfold resp. apply (secured_iff_routed lower). exists slug, k, p_callback. exact Hr. }
  destruct (callback_shape lower d q o an now_ns slug k) as [Hloc [Hca Hnc]]. rewrite <- He in Hloc, Hca, Hnc.
  unfold holds. fold ob. unfold ob at 5. rewrite body_holds_model. unfold ob at 4. rewrite (hdrs_hold_model d _ resp g (fun _ => Hsec)).
  assert (Hout : outside_holds g ob = true) by (unfold outside_holds; rewrite Hrt; reflexivity). rewrite Hout.
  assert (Hback : back_holds d now_ns g ob = true) by (unfold back_holds, ob, obs_of; cbn [ob_body]; rewrite Hrt, Hnf; reflexivity).
  assert (Hsign : signout_holds d now_ns an g ob = true).
  { unfold signout_holds, ob, obs_of. cbn [ob_calls]. rewrite Hrt. apply isnil_true. apply revoked_idp. exact Hca. }
  rewrite Hback, Hsign. rewrite !andb_true_r.
  assert (Hcode' : code_holds lower d now_ns an g ob = true).
  { unfold code_holds, ob, obs_of. cbn [ob_loc]. destruct Hloc as [X|[src X]]; rewrite X; reflexivity. }
  rewrite Hcode'. cbn [andb].
  destruct (sets (r_sess_ops resp)) as [|s ss] eqn:Es.
  - (* no session saved: no redirect either *)
    assert (Hno : r_sess_ops resp = []).
    { destruct (r_sess_ops resp) as [|op ops] eqn:Eo; [reflexivity|]. destruct op as [|s'].
      - exfalso. apply Hnc. left. reflexivity.
      - cbn in Es. discriminate Es. }
    destruct (callback_no_session_int lower d o now_ns slug k q an ltac:(rewrite <- He; exact Hno)) as [Hl _]. rewrite <- He in Hl.
    unfold login_holds, redirect_holds, ob, obs_of. cbn [ob_sess ob_loc]. rewrite Es, Hl. reflexivity.
  - assert (Hin : In (F.OpSet s) (r_sess_ops (serve lower d q o an now_ns))) by (apply sets_in; fold resp; rewrite Es; left; reflexivity).
    destruct (login_end_to_end lower d q o an now_ns s Hin) as [slug' [k' [[Hr' Hlog]|[Hr' _]]]].
    2:{ destruct (routed_functional _ _ _ _ _ _ _ _ Hr Hr') as [_ [_ X]]. discriminate X. }
    destruct (routed_functional _ _ _ _ _ _ _ _ Hr Hr') as [<- [<- _]]. cbv zeta in Hlog.
    destruct Hlog as [Hm [nonce [redirect [ts [L1 [L2 [L3 [L4 [_ [L6 [L7 [L8 [L9 [L10 [L11 [L12 [L13 [L14 L15]]]]]]]]]]]]]]]]]].
    fold resp in L11, L12, L13, L14, L15.
    assert (Hss : sets (r_sess_ops resp) = [s]) by (rewrite L13; reflexivity).
    rewrite Es in Hss. inversion Hss; subst ss.
    assert (Hasc : forallb (fun c => c <? 128) redirect = true) by (apply (Hascii nonce); rewrite Hstate; exact L1).
    unfold login_holds, redirect_holds, ob, obs_of. cbn [ob_sess ob_loc ob_calls ob_status ob_csrf]. rewrite Es, Hrt, L11, L12, L14, L15.
    cbn [loc_obs]. rewrite Hstate, L1, (C9.nonce_and_redirect_spec nonce redirect L2).
    assert (Bget : is_get g = true) by (apply (is_get_iff (inner q p_callback)); [exact Hmeth | exact Hm]).
    rewrite Bget, Hcsrf, L3. cbn [option_eqb]. rewrite str_eqb_refl.
    unfold in_domain_uri. rewrite (hex_ascii _ Hasc), (C7.redir_monitor_ok _ _ L4), str_eqb_refl.
    rewrite Hcode in Hvouch. rewrite (Hvouch ts L7).
    assert (Hem : F.s_email s = T.s_email ts) by (rewrite L10; reflexivity). rewrite Hem. cbn [option_eqb]. rewrite str_eqb_refl.
    destruct L8 as [_ [Hne _]]. assert (Bne : negb (isnil (T.s_email ts)) = true) by (destruct (T.s_email ts); [contradiction | reflexivity]).
    rewrite Bne. rewrite <- (C9.rule_passes_spec lower (fcfg d) _ Hguard), L9.
    cbn [flow_calls flat_map app existsb]. rewrite Hcode. cbn [F.idp_call_eqb]. rewrite str_eqb_refl.
    assert (Hlt : F.s_lifetime s = ((now_ns / ns) + d_lifetime d)%Z) by (rewrite L10; reflexivity).
    rewrite Hlt, C9.close_z_refl. reflexivity.
Qed.


(* ---- back channel ---- *)
Lemma back_handler_json h r fs e :
  let rs := B.run_handler (bcfg d) e h r fs in
  has_field (B.rs_body rs) = true ->
  match h with B.HRefresh => B.rs_status rs = 201 | _ => B.rs_status rs = 200 end.
Proof.
  cbv zeta. destruct h; cbn [B.run_handler].
  - unfold B.get_profile. destruct (B.is_nil _); [discriminate|]. destruct (B.e_groups _); cbn; [reflexivity | discriminate].
  - unfold B.validate_token. destruct (B.is_nil _); [discriminate|]. destruct (B.e_valid _); discriminate.
  - unfold B.redeem. destruct (B.parse_form _ _) as [f e0]. destruct e0; [discriminate|].
    destruct (B.unseal _ _ _); [|discriminate]. destruct (_ || _)%bool; [discriminate|]. reflexivity.
  - unfold B.refresh. destruct (B.parse_form _ _) as [f e0]. destruct e0; [discriminate|].
    destruct (B.is_nil _); [discriminate|]. destruct (B.e_refresh _); cbn; [reflexivity | discriminate].
Qed.

Lemma back_route_holds h : g_route g = RtBack h -> holds lower d now_ns an g ob = true.
Proof.
  intros Hrt. destruct Hsane as [Hmeth Hs]. rewrite Hrt in Hs.
  destruct Hs as [slug [Hr [Hkid [Hksec Hkcode]]]]. cbv zeta in *.
  set (k := g_kind g) in *.
  assert (Hcl : ReqUri.clean_path (rt_path (rt_back h)) = rt_path (rt_back h)) by (destruct h; vm_compute; reflexivity).
  assert (He : resp = route_at slug k (rt_back h) (rt_path (rt_back h))) by (apply resp_at; [exact Hr | exact Hcl | apply find_route_back]).
  assert (Hsec : r_secured resp = true).
  { unfold resp. apply (secured_iff_routed lower). exists slug, k, (rt_path (rt_back h)). exact Hr. }
  destruct (back_shape lower d q o an now_ns slug k h) as [Hloc [Hcs [Hns Hca]]]. rewrite <- He in Hloc, Hcs, Hns, Hca.
  unfold holds. fold ob. unfold ob at 5. rewrite body_holds_model. unfold ob at 4. rewrite (hdrs_hold_model d _ resp g (fun _ => Hsec)).
  assert (Hout : outside_holds g ob = true) by (unfold outside_holds; rewrite Hrt; reflexivity). rewrite Hout.
  assert (Hcode' : code_holds lower d now_ns an g ob = true) by (unfold code_holds, ob, obs_of; cbn [ob_loc]; rewrite Hloc; reflexivity).
  assert (Hlogin : login_holds lower d now_ns g ob = true) by (unfold login_holds, ob, obs_of; cbn [ob_sess]; rewrite (sets_nil _ Hns); reflexivity).
  assert (Hsign : signout_holds d now_ns an g ob = true).
  { unfold signout_holds, ob, obs_of. cbn [ob_calls]. rewrite Hrt. apply isnil_true. apply revoked_idp. exact Hca. }
  assert (Hred : redirect_holds d now_ns g ob = true) by (unfold redirect_holds, ob, obs_of; cbn [ob_loc]; rewrite Hloc; reflexivity).
  rewrite Hcode', Hlogin, Hsign, Hred. rewrite !andb_true_r. cbn [andb].
  (* the back-channel clause *)
  destruct (back_gate_sound_int lower d o now_ns slug k q an h) as [G1 G2]. rewrite <- He in G1, G2.
  unfold back_holds, ob, obs_of. cbn [ob_calls ob_body ob_status]. rewrite Hrt.
  destruct (r_ran resp) as [h'|] eqn:Eran.
  - (* the handler ran: the caller showed both credentials *)
    destruct (G1 h' eq_refl) as [-> [Hm [Hid Hsc]]].
    assert (Bid : id_shown d g = true) by (apply mem_str_true, Hkid, Hid).
    assert (Bsec : secret_shown d g = true) by (apply mem_str_true, Hksec, Hsc).
    rewrite Bid, Bsec. cbn [andb].
    (* the handler's answer *)
    assert (Hx : resp = h_back d k o an (now_ns / ns) h (inner q (rt_path (rt_back h))) (Some (the_form (inner q (rt_path (rt_back h)))))).
    { rewrite He, back_flat. unfold method_ok. rewrite Hm. cbn [negb].
      destruct (init_err d (inner q (rt_path (rt_back h)))) eqn:Ei.
      { exfalso. rewrite He, back_flat in Eran. unfold method_ok in Eran. rewrite Hm, Ei in Eran. discriminate Eran. }
      cbn [gate_passes_b]. rewrite Hid, Hsc, !str_eqb_refl. reflexivity. }
    set (rs := B.run_handler (bcfg d) (benv d k o an (now_ns / ns)) h (inner q (rt_path (rt_back h))) (Some (the_form (inner q (rt_path (rt_back h)))))) in *.
    assert (Hbody : r_body resp = back_body (inner q (rt_path (rt_back h))) h rs) by (rewrite Hx; reflexivity).
    assert (Hstat : r_status resp = B.rs_status rs) by (rewrite Hx; reflexivity).
    assert (Hfield : obody_has_field (body_obs (r_body resp)) = has_field (B.rs_body rs)).
    { rewrite Hbody. unfold back_body. destruct (has_field (B.rs_body rs)) eqn:Ehf; [cbn; exact Ehf|].
      destruct h; try reflexivity; destruct (B.rs_calls rs); try reflexivity; unfold err_body; destruct (accept_json _); reflexivity. }
    pose proof (back_handler_json h (inner q (rt_path (rt_back h))) (Some (the_form (inner q (rt_path (rt_back h))))) (benv d k o an (now_ns / ns))) as Hjs.
    cbv zeta in Hjs. fold rs in Hjs.
    destruct h.
    + rewrite Hfield, Hstat. destruct (has_field (B.rs_body rs)); [rewrite (Hjs eq_refl); reflexivity|]. cbn. destruct (_ && _); reflexivity.
    + rewrite Hfield, Hstat. destruct (has_field (B.rs_body rs)); [rewrite (Hjs eq_refl); reflexivity|]. cbn. destruct (_ && _); reflexivity.
    + (* /redeem *)
      assert (Hnocall : r_calls resp = []).
      { rewrite Hx. unfold h_back, of_back_handler. cbn [r_calls mk]. subst rs. cbn [B.run_handler]. unfold B.redeem.
        destruct (B.parse_form _ _) as [f e0]. destruct e0; [reflexivity|]. destruct (B.unseal _ _ _); [|reflexivity].
        destruct (_ || _)%bool; reflexivity. }
      rewrite Hnocall. cbn [isnil andb].
      destruct (N.eqb (r_status resp) 200) eqn:E200.
      * apply N.eqb_eq in E200.
        assert (H200 : r_status (route_at slug k (rt_back B.HRedeem) B.p_redeem) = 200) by (rewrite <- E200, He; reflexivity).
        destruct (redeem_genuine_int lower d o now_ns slug k q an H200) as [s [R1 [R2 [R3 [R4 [_ [_ [_ [_ R9]]]]]]]]].
        assert (R4' : r_body resp = BJson (session_json s (now_ns / ns))) by (rewrite He; exact R4).
        assert (Bpost : is_post g = true) by (apply (is_post_iff (inner q B.p_redeem)); [exact Hmeth | exact R9]).
        rewrite Bpost, (Hkcode eq_refl). change (rt_path (rt_back B.HRedeem)) with B.p_redeem. rewrite R1, R4'. cbn [body_obs].
        unfold session_json. cbn [B.b_access B.b_refresh B.b_email]. rewrite N.eqb_refl. cbn [option_eqb]. rewrite !str_eqb_refl. cbn [andb].
        apply andb_true_iff. split; apply Z.leb_le;
          [apply Z.le_trans with (B.s_refresh_dl s); [exact R2 | apply le_plus2]
          |apply Z.le_trans with (B.s_lifetime_dl s); [exact R3 | apply le_plus2]].
      * rewrite Hfield. destruct (has_field (B.rs_body rs)) eqn:Ehf; [|reflexivity].
        exfalso. rewrite Hstat, (Hjs eq_refl) in E200. discriminate E200.
    + rewrite Hfield, Hstat. destruct (has_field (B.rs_body rs)); [rewrite (Hjs eq_refl); reflexivity|]. cbn. destruct (_ && _); reflexivity.
  - (* refused by the route *)
    destruct (G2 eq_refl) as [Hc0 [_ [_ [_ [Hb Hst]]]]].
    assert (Hnf : obody_has_field (body_obs (r_body resp)) = false).
    { rewrite Hb. unfold err_body. destruct (accept_json _); reflexivity. }
    rewrite Hc0, Hnf. cbn [isnil negb andb].
    assert (Hstatus : (N.eqb (r_status resp) 401 || N.eqb (r_status resp) 405 || (N.eqb (r_status resp) 500 && negb (d_pre d)))%bool = true
                      /\ N.eqb (r_status resp) 200 = false /\ ((200 <=? r_status resp) && (r_status resp <? 300))%bool = false).
    { destruct Hst as [[X _]|[[X [Y _]]|[X _]]]; rewrite X; [| rewrite Y |]; repeat split; reflexivity. }
    destruct Hstatus as [S1 [S2 S3]]. rewrite S1, S2, S3.
    destruct (id_shown d g && secret_shown d g)%bool; destruct h; reflexivity.
Qed.

(* ---- outside every authenticator / no such route ---- *)
Lemma outside_route_holds : (g_route g = RtOutside \/ g_route g = RtUnknownPath) -> holds lower d now_ns an g ob = true.
Proof.
  intros Hrt. destruct Hsane as [_ Hs].
  destruct (routing_end_to_end lower d q o an now_ns) as [Hiff [Hno [_ Hunk]]]. cbv zeta in *. fold resp in Hiff, Hno, Hunk.
  destruct Hrt as [Hrt|Hrt]; rewrite Hrt in Hs.
  - assert (Hsecf : r_secured resp = false).
    { destruct (r_secured resp) eqn:E; [|reflexivity]. exfalso. apply Hs. apply Hiff. reflexivity. }
    apply no_effect_holds; [exact (Hno Hsecf) | unfold inside; rewrite Hrt; discriminate | rewrite Hrt; exact I].
  - destruct Hs as [slug [k [rest [Hr Hnin]]]]. destruct (Hunk slug k rest Hr Hnin) as [Hne _].
    apply no_effect_holds; [exact Hne | | rewrite Hrt; exact I].
    intros _. apply Hiff. exists slug, k, rest. exact Hr.
Qed.

(* ---- the monitor accepts the model, whatever the request ---- *)
Theorem holds_model : holds lower d now_ns an g ob = true.
Proof.
  destruct (g_route g) eqn:Hrt.
  - apply outside_route_holds. left. exact Hrt.
  - apply start_holds. exact Hrt.
  - apply sign_in_holds. exact Hrt.
  - apply sign_out_holds. exact Hrt.
  - apply callback_holds. exact Hrt.
  - apply (back_route_holds h). exact Hrt.
  - apply outside_route_holds. right. exact Hrt.
Qed.

End Model.

(* C07-integration: Corr_IntAuth.judge never reports a property violation (codes 2, 3) on an
   observation that is the model's own response, for any request and any consistent bookkeeping *)
Theorem monitor_accepts_model : forall (lower : str -> str) d q o an now_ns g,
  rule_guard lower d = true -> sane d q o an g ->
  holds lower d now_ns an g (obs_of d (g_state g) (serve lower d q o an now_ns)) = true.
Proof. intros. apply holds_model; assumption. Qed.

(* the hypothesis [sane] is satisfiable: the bookkeeping a generator keeps for the example request *)
Definition ex_ghost : ghost :=
  {| g_route := RtSignIn; g_kind := AGoogle; g_method := B.m_get; g_ids := [d_client_id Ex.d]; g_secrets := [];
     g_uri := Ex.uri; g_sig := G.SigTag (G.Mac (d_client_secret Ex.d) (Ex.uri ++ G.dec 1000)); g_ts := [49;48;48;48];
     g_outer := []; g_state := [120]; g_cookie := F.CkSealed F.KCookie (to_flow Ex.sess); g_csrf := None;
     g_cb_state := None; g_cb_code := []; g_vouched := None; g_code := None; g_from := None |}.

Example sane_nonvacuous :
  sane Ex.d Ex.q_sign_in Ex.o Ex.an ex_ghost /\
  rule_guard lower_ascii Ex.d = true /\
  holds lower_ascii Ex.d (1100 * ns)%Z Ex.an ex_ghost
        (obs_of Ex.d (g_state ex_ghost) (serve lower_ascii Ex.d Ex.q_sign_in Ex.o Ex.an (1100 * ns)%Z)) = true.
Proof.
  split; [|split; [vm_compute; reflexivity | vm_compute; reflexivity]].
  unfold sane. split; [reflexivity|]. cbn [g_route ex_ghost]. exists [103].
  split. { repeat split; try (vm_compute; reflexivity). vm_compute. discriminate. }
  cbv zeta. split. { repeat split; vm_compute; reflexivity. }
  split; [vm_compute; reflexivity|]. split; [intros _; left; reflexivity|].
  split; [vm_compute; reflexivity|]. split; [split; vm_compute; reflexivity | vm_compute; reflexivity].
Qed.
