(* The monitor of Corr_C11 accepts the model's own predictions: this ties the boolean
   specification used on implementation observations to the theorems of Validators_proofs. *)
From V Require Import Base Base_proofs CorrBase Validators Validators_proofs Corr_C11.

Lemma after_last_at_b_eq s : after_last_at_b s = after_last_at s.
Proof. induction s as [|c s IH]; simpl; [reflexivity|]. rewrite IH. reflexivity. Qed.

Section P.
Variable lower : str -> str.

Lemma spec_address_model rules email :
  address_validate lower (new_address_validator lower rules) email = spec_address lower rules email.
Proof.
  apply eq_true_iff_eq. rewrite address_exact. unfold spec_address.
  rewrite andb_true_iff, orb_true_iff, negb_true_iff, mem_str_In.
  split; intros [He Hr]; split.
  - destruct email; [congruence | reflexivity].
  - destruct Hr as [[x [-> Hx]]|H]; [left; apply str_eqb_eq; exact Hx | right; exact H].
  - destruct email; [discriminate | discriminate].
  - destruct Hr as [H|H]; [left | right; exact H].
    destruct rules as [|x [|y r]]; try discriminate. exists x; split; [reflexivity | apply str_eqb_eq; exact H].
Qed.

Lemma dom_guard_spec rules :
  dom_guard lower rules = true -> forall d, In d rules -> d <> star -> ~ In at_sign (lower d).
Proof.
  unfold dom_guard. rewrite forallb_forall. intros H d Hd Hne Hin.
  specialize (H d Hd). apply orb_true_iff in H as [H|H].
  - apply str_eqb_eq in H. contradiction.
  - apply negb_true_iff in H. assert (existsb (N.eqb at_sign) (lower d) = true); [|congruence].
    apply existsb_exists. exists at_sign. split; [exact Hin | apply N.eqb_refl].
Qed.

Lemma spec_domain_model rules email :
  dom_guard lower rules = true ->
  domain_validate lower (new_domain_validator lower rules) email = spec_domain lower rules email.
Proof.
  intros G. pose proof (dom_guard_spec rules G) as G'.
  apply eq_true_iff_eq. rewrite (domain_whole lower rules email G'). unfold spec_domain.
  rewrite andb_true_iff, orb_true_iff, negb_true_iff, existsb_exists.
  split; intros [He Hr]; split.
  - destruct email; [congruence | reflexivity].
  - destruct Hr as [->|[d [Hd Hm]]]; [left; reflexivity | right]. exists d; split; [exact Hd|].
    destruct Hm as [[-> Hs]|[Hne Ha]].
    + rewrite str_eqb_refl. exact Hs.
    + apply str_eqb_neq in Hne. rewrite Hne, after_last_at_b_eq, Ha. simpl. apply str_eqb_refl.
  - destruct email; discriminate.
  - destruct Hr as [H|[d [Hd Hm]]].
    + left. destruct rules as [|x [|y r]]; try discriminate. simpl in H. apply str_eqb_eq in H. congruence.
    + right. exists d; split; [exact Hd|]. destruct (str_eqb d star) eqn:E.
      * apply str_eqb_eq in E. left; auto.
      * apply str_eqb_neq in E. right; split; [exact E|]. rewrite after_last_at_b_eq in Hm.
        destruct (after_last_at (lower email)) as [r|]; [|discriminate]. simpl in Hm.
        apply str_eqb_eq in Hm. congruence.
Qed.

Lemma spec_group_model allowed ans : group_validate allowed ans = spec_group allowed ans.
Proof.
  unfold group_validate, spec_group, validate_group.
  assert (H: forall ug, negb match flat_map (fun u => filter (str_eqb u) allowed) ug with [] => true | _ => false end
                        = existsb (fun u => mem_str u allowed) ug).
  { induction ug as [|u ug IH]; [reflexivity|]. cbn [flat_map existsb].
    destruct (filter (str_eqb u) allowed) as [|z zs] eqn:Ef.
    - cbn [app]. rewrite IH. assert (mem_str u allowed = false) as ->; [|reflexivity].
      destruct (mem_str u allowed) eqn:Em; [|reflexivity]. apply mem_str_In in Em.
      assert (In u (filter (str_eqb u) allowed)) by (apply filter_In; split; [exact Em | apply str_eqb_refl]).
      rewrite Ef in H. destruct H.
    - cbn. assert (mem_str u allowed = true) as ->; [|reflexivity].
      apply mem_str_In. assert (Hz: In z (filter (str_eqb u) allowed)) by (rewrite Ef; left; reflexivity).
      apply filter_In in Hz as [Hz1 Hz2]. apply str_eqb_eq in Hz2. subst. exact Hz1. }
  destruct allowed as [|x [|y r]]; [reflexivity| |].
  - unfold lone_star. destruct (str_eqb x star) eqn:E; [reflexivity|].
    destruct ans as [ug|]; [|reflexivity]. cbn [gr_err gr_valid negb andb is_nil orb]. apply H.
  - destruct ans as [ug|]; [|reflexivity]. cbn [gr_err gr_valid negb andb is_nil orb lone_star]. apply H.
Qed.

(* any-of: the login verdict of the model is the documented disjunction *)
Lemma spec_admit_model p email ans :
  dom_guard lower (p_domains p) = true ->
  login_admit lower p email ans = spec_admit lower p email ans.
Proof.
  intros G. unfold login_admit, spec_admit. destruct email as [|c e]; [reflexivity|].
  cbn [is_nil negb andb]. apply eq_true_iff_eq. rewrite login_any_of.
  unfold validators_of. destruct p as [a d g]; cbn [p_addresses p_domains p_groups] in *.
  rewrite !orb_true_iff, !andb_true_iff. split.
  - intros [v [Hin Hv]]. apply in_app_or in Hin as [Hin|Hin]; [|apply in_app_or in Hin as [Hin|Hin]].
    + destruct a as [|x a]; [destruct Hin|]. destruct Hin as [<-|[]]. left; left. split; [reflexivity|].
      rewrite <- spec_address_model. exact Hv.
    + destruct d as [|x d]; [destruct Hin|]. destruct Hin as [<-|[]]. left; right. split; [reflexivity|].
      rewrite <- spec_domain_model by exact G. exact Hv.
    + destruct g as [|x g]; [destruct Hin|]. destruct Hin as [<-|[]]. right. split; [reflexivity|].
      rewrite <- spec_group_model. exact Hv.
  - intros [[[Hn Hs]|[Hn Hs]]|[Hn Hs]].
    + destruct a as [|x a]; [discriminate|]. exists (VAddress (new_address_validator lower (x :: a))).
      split; [apply in_or_app; left; left; reflexivity|]. cbn [run_validator]. rewrite spec_address_model. exact Hs.
    + destruct d as [|x d]; [discriminate|]. exists (VDomain (new_domain_validator lower (x :: d))).
      split; [apply in_or_app; right; apply in_or_app; left; left; reflexivity|].
      cbn [run_validator]. rewrite spec_domain_model by exact G. exact Hs.
    + destruct g as [|x g]; [discriminate|]. exists (VGroup (x :: g)).
      split; [apply in_or_app; right; apply in_or_app; right; left; reflexivity|].
      cbn [run_validator]. rewrite spec_group_model. exact Hs.
Qed.

End P.
