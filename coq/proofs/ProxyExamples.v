(* Non-vacuity: concrete states meeting the hypotheses of the C01/C04/C05 theorems, and the
   replay observation about grace (outside C05's quantifier). All by computation. *)
From V Require Import Base Validators ProxyCore ProxyCore_proofs ProxyWorld ProxyWorld_proofs.
Open Scope Z_scope.

Definition ex_host : str := [97;112;112]%N.                         (* "app" *)
Definition ex_mail : str := [97;64;101;46;99]%N.                    (* "a@e.c" *)
Definition ex_cfg : cfg := {| c_slug := [103]%N; c_L := 86400; c_V := 600; c_G := 3600 |}.
Definition ex_pol : upolicy :=
  {| u_rules := {| p_addresses := []; p_domains := [[101;46;99]%N]; p_groups := [[103;49]%N] |}; u_preflight := false |}.
Definition ex_polof (_ : str) := ex_pol.
Definition ok_ans : answers :=
  {| a_refresh := St 201; a_refresh_body := Some ([116]%N, 3600); a_validate := St 200;
     a_profile := St 200; a_profile_body := Some [[103;49]%N] |}.
Definition outage_ans : answers :=
  {| a_refresh := St 503; a_refresh_body := None; a_validate := St 503; a_profile := St 429; a_profile_body := None |}.
Definition revoked_ans : answers :=
  {| a_refresh := St 401; a_refresh_body := None; a_validate := St 401; a_profile := St 200; a_profile_body := Some [] |}.

Definition ex_login := Login ex_host ex_mail [116]%N [114]%N 1800 (GroupsOk [[103;49]%N]).
Definition req ck a := Req ex_host false false false EProxy ck a.

(* login, fresh request, revalidation (re-saved), refresh after token expiry, then revocation *)
Definition ex_trace : list event :=
  [ex_login; Tick 60; req (CkIssued 0) ok_ans; Tick 660; req (CkIssued 0) ok_ans;
   Tick 1800; req (CkIssued 1) ok_ans; Tick 700; req (CkIssued 2) revoked_ans].

Definition respond_at (evs : list event) ck a :=
  respond lower_ascii ex_cfg ex_polof (run lower_ascii ex_cfg ex_polof evs) ex_host false false false EProxy ck a.

Example nv_login_issues : length (w_issued (run lower_ascii ex_cfg ex_polof [ex_login])) = 1%nat.
Proof. vm_compute. reflexivity. Qed.

Example nv_fresh_served :
  served (respond_at [ex_login; Tick 60] (CkIssued 0) ok_ans) = true /\
  rs_calls (respond_at [ex_login; Tick 60] (CkIssued 0) ok_ans) = [].
Proof. vm_compute. split; reflexivity. Qed.

Example nv_revalidation_asks_and_resaves :
  served (respond_at [ex_login; Tick 720] (CkIssued 0) ok_ans) = true /\
  rs_calls (respond_at [ex_login; Tick 720] (CkIssued 0) ok_ans) = [EpValidate; EpProfile] /\
  length (w_issued (run lower_ascii ex_cfg ex_polof ex_trace)) = 3%nat.
Proof. vm_compute. repeat split; reflexivity. Qed.

Example nv_revocation_refuses :
  rs_out (respond_at (firstn 8 ex_trace) (CkIssued 2) revoked_ans) = Status 403 /\
  rs_cookie (respond_at (firstn 8 ex_trace) (CkIssued 2) revoked_ans) = CCleared.
Proof. vm_compute. split; reflexivity. Qed.

Example nv_lifetime_ends :
  rs_out (respond_at [ex_login; Tick 86401] (CkIssued 0) ok_ans) = SignIn.
Proof. vm_compute. reflexivity. Qed.

(* a session minted on one host is refused on another (sign-in, not served) *)
Example nv_other_host_refused :
  rs_out (respond lower_ascii ex_cfg ex_polof (run lower_ascii ex_cfg ex_polof [ex_login]) [98]%N false false false EProxy (CkIssued 0) ok_ans) = SignIn.
Proof. vm_compute. reflexivity. Qed.

(* ---- browser histories: an outage served under grace, then refused once G has elapsed ---- *)
Definition ex_b0 : bstate :=
  {| b_now := 0;
     b_cookie := Some (login_session ex_cfg ex_polof 0 ex_host ex_mail [116]%N [114]%N 7200 (GroupsOk [[103;49]%N]));
     b_outage := None |}.
Definition bs (dt : Z) (a : answers) := {| b_dt := dt; b_ans := a |}.

Example nv_binv0 : binv ex_b0.
Proof. reflexivity. Qed.

Example nv_grace_served_then_bounded :
  grace_served (bresponse lower_ascii ex_cfg ex_polof ex_host ex_b0 (bs 700 outage_ans)) = true /\
  b_outage (brun lower_ascii ex_cfg ex_polof ex_host ex_b0 [bs 700 outage_ans; bs 700 outage_ans]) = Some 700 /\
  (* still the FIRST failure's time after a second outage answer; and after G the session is refused *)
  served (bresponse lower_ascii ex_cfg ex_polof ex_host
            (brun lower_ascii ex_cfg ex_polof ex_host ex_b0 [bs 700 outage_ans; bs 700 outage_ans; bs 700 outage_ans; bs 700 outage_ans; bs 700 outage_ans; bs 700 outage_ans])
            (bs 700 outage_ans)) = false.
Proof. vm_compute. repeat split; reflexivity. Qed.

Example nv_success_resets :
  b_outage (brun lower_ascii ex_cfg ex_polof ex_host ex_b0 [bs 700 outage_ans; bs 700 ok_ans]) = None /\
  b_outage (brun lower_ascii ex_cfg ex_polof ex_host ex_b0 [bs 700 outage_ans; bs 700 ok_ans; bs 700 outage_ans]) = Some 2100.
Proof. vm_compute. split; reflexivity. Qed.

(* Outside C05's quantifier ("one browser, one request at a time"): a client that ignores
   Set-Cookie and replays the SAME pre-outage cookie is granted a fresh grace period every time —
   only the lifetime bounds it. Recorded for information (DESIGN.md §6 C05). *)
Lemma replay_restarts_grace :
  let evs := [ex_login; Tick 700; req (CkIssued 0) outage_ans; Tick 4000] in
  served (respond_at [ex_login; Tick 700] (CkIssued 0) outage_ans) = true /\
  served (respond_at evs (CkIssued 0) outage_ans) = true /\         (* 4000 s > G later, same old cookie *)
  served (respond_at evs (CkIssued 1) outage_ans) = false.          (* the browser's updated cookie is refused *)
Proof. vm_compute. repeat split; reflexivity. Qed.
