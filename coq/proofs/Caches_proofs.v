(* Caches_proofs.v — lemmas about theories/Caches.v (C17). *)
From Coq Require Import Permutation Sorted.
From V Require Import Base Base_proofs Caches.

(* ------------------------------------------------------------------------------------------ *)
(* association lists, multisets                                                                *)

Lemma str_eqb_sym a b : str_eqb a b = str_eqb b a.
Proof.
  destruct (str_eqb a b) eqn:E; symmetry.
  - apply str_eqb_eq in E. subst. apply str_eqb_refl.
  - apply str_eqb_neq in E. apply str_eqb_neq. congruence.
Qed.

Lemma lookup_remove_same {A} k (m : list (str * A)) : lookup k (remove_key k m) = None.
Proof.
  induction m as [|[k' v] m IH]; simpl; [reflexivity|].
  destruct (str_eqb k k') eqn:E; [exact IH|]. simpl. rewrite E. exact IH.
Qed.

Lemma lookup_remove_other {A} k k' (m : list (str * A)) :
  k <> k' -> lookup k (remove_key k' m) = lookup k m.
Proof.
  intros Hne. induction m as [|[k2 v] m IH]; simpl; [reflexivity|].
  destruct (str_eqb k' k2) eqn:E.
  - apply str_eqb_eq in E. subst k2.
    assert (str_eqb k k' = false) as -> by (apply str_eqb_neq; exact Hne). exact IH.
  - simpl. destruct (str_eqb k k2); [reflexivity | exact IH].
Qed.

Lemma lookup_store_same {A} k (v : A) m : lookup k (store k v m) = Some v.
Proof. unfold store. simpl. rewrite str_eqb_refl. reflexivity. Qed.

Lemma lookup_store_other {A} k k' (v : A) m : k <> k' -> lookup k (store k' v m) = lookup k m.
Proof.
  intros Hne. unfold store. simpl.
  assert (str_eqb k k' = false) as -> by (apply str_eqb_neq; exact Hne).
  apply lookup_remove_other. exact Hne.
Qed.

Lemma mem_remove_str_same x l : mem_str x (remove_str x l) = false.
Proof.
  induction l as [|y l IH]; simpl; [reflexivity|].
  destruct (str_eqb x y) eqn:E; [exact IH|]. simpl. rewrite E. exact IH.
Qed.

Lemma mem_remove_str_other x y l : x <> y -> mem_str x (remove_str y l) = mem_str x l.
Proof.
  intros Hne. induction l as [|z l IH]; simpl; [reflexivity|].
  destruct (str_eqb y z) eqn:E.
  - apply str_eqb_eq in E. subst z.
    assert (str_eqb x y = false) as -> by (apply str_eqb_neq; exact Hne). exact IH.
  - simpl. rewrite IH. reflexivity.
Qed.

Lemma count_remove_one_same x l :
  count_str x (remove_one x l) = Nat.pred (count_str x l).
Proof.
  induction l as [|y l IH]; simpl; [reflexivity|].
  destruct (str_eqb x y) eqn:E; [reflexivity|]. simpl. rewrite E. exact IH.
Qed.

Lemma count_remove_one_other x y l : x <> y -> count_str x (remove_one y l) = count_str x l.
Proof.
  intros Hne. induction l as [|z l IH]; simpl; [reflexivity|].
  destruct (str_eqb y z) eqn:E.
  - apply str_eqb_eq in E. subst z.
    assert (str_eqb x y = false) as -> by (apply str_eqb_neq; exact Hne). reflexivity.
  - simpl. rewrite IH. reflexivity.
Qed.

Lemma mem_count_pos x l : mem_str x l = true <-> (count_str x l > 0)%nat.
Proof.
  induction l as [|y l IH]; simpl; [split; [discriminate | lia]|].
  destruct (str_eqb x y); simpl; [split; [lia | reflexivity] | exact IH].
Qed.

(* keys *)
Lemma key_eqb_eq a b : key_eqb a b = true <-> a = b.
Proof.
  destruct a as [a1 a2], b as [b1 b2]. unfold key_eqb. simpl.
  rewrite andb_true_iff, !str_eqb_eq. split; [intros [-> ->]; reflexivity | intros H; inversion H; auto].
Qed.
Lemma key_eqb_refl a : key_eqb a a = true.
Proof. apply key_eqb_eq. reflexivity. Qed.
Lemma key_eqb_neq a b : key_eqb a b = false <-> a <> b.
Proof.
  split; intros H.
  - intros E. apply key_eqb_eq in E. congruence.
  - destruct (key_eqb a b) eqn:E; [apply key_eqb_eq in E; contradiction | reflexivity].
Qed.

Lemma klookup_kremove_same k m : klookup k (kremove k m) = None.
Proof.
  induction m as [|[k' v] m IH]; simpl; [reflexivity|].
  destruct (key_eqb k k') eqn:E; [exact IH|]. simpl. rewrite E. exact IH.
Qed.

Lemma klookup_kremove_other k k' m : k <> k' -> klookup k (kremove k' m) = klookup k m.
Proof.
  intros Hne. induction m as [|[k2 v] m IH]; simpl; [reflexivity|].
  destruct (key_eqb k' k2) eqn:E.
  - apply key_eqb_eq in E. subst k2.
    assert (key_eqb k k' = false) as -> by (apply key_eqb_neq; exact Hne). exact IH.
  - simpl. destruct (key_eqb k k2); [reflexivity | exact IH].
Qed.

Lemma klookup_kremove_some k k' m r : klookup k (kremove k' m) = Some r -> klookup k m = Some r.
Proof.
  intros H. destruct (key_eqb k k') eqn:E.
  - apply key_eqb_eq in E. subst. rewrite klookup_kremove_same in H. discriminate.
  - apply key_eqb_neq in E. rewrite klookup_kremove_other in H by exact E. exact H.
Qed.

(* ------------------------------------------------------------------------------------------ *)
(* sorting and the GroupCache key                                                              *)

Lemma insert_sorted_perm x l : Permutation (insert_sorted x l) (x :: l).
Proof.
  induction l as [|y l IH]; simpl; [apply Permutation_refl|].
  destruct (str_leb x y); [apply Permutation_refl|].
  eapply Permutation_trans; [apply perm_skip; exact IH | apply perm_swap].
Qed.

Lemma sort_strs_perm l : Permutation (sort_strs l) l.
Proof.
  induction l as [|x l IH]; simpl; [apply Permutation_refl|].
  eapply Permutation_trans; [apply insert_sorted_perm | apply perm_skip; exact IH].
Qed.

Lemma sort_strs_nil l : sort_strs l = [] -> l = [].
Proof.
  intros H. pose proof (sort_strs_perm l) as P. rewrite H in P.
  apply Permutation_nil in P. exact P.
Qed.

Lemma split_on_nocomma x : ~ In comma x -> split_on comma x = [x].
Proof.
  induction x as [|c x IH]; intros H; simpl; [reflexivity|].
  destruct (N.eqb c comma) eqn:E.
  - apply N.eqb_eq in E. exfalso. apply H. left. exact E.
  - rewrite IH; [reflexivity|]. intros Hin. apply H. right. exact Hin.
Qed.

Lemma split_on_app x rest : ~ In comma x ->
  split_on comma (x ++ comma :: rest) = x :: split_on comma rest.
Proof.
  induction x as [|c x IH]; intros H; simpl.
  - reflexivity.
  - destruct (N.eqb c comma) eqn:E.
    + apply N.eqb_eq in E. exfalso. apply H. left. exact E.
    + rewrite IH; [reflexivity|]. intros Hin. apply H. right. exact Hin.
Qed.

Lemma split_join l : l <> [] -> Forall (fun g => ~ In comma g) l ->
  split_on comma (join [comma] l) = l.
Proof.
  induction l as [|x l IH]; intros Hne Hf; [congruence|].
  inversion Hf as [|? ? Hx Hl]; subst.
  destruct l as [|y l].
  - simpl. apply split_on_nocomma. exact Hx.
  - change (join [comma] (x :: y :: l)) with (x ++ comma :: join [comma] (y :: l)).
    rewrite split_on_app by exact Hx. rewrite IH; [reflexivity | discriminate | exact Hl].
Qed.

(* the guard under which the joined key determines the list *)
Definition names_ok (gs : list str) : Prop := Forall (fun g => ~ In comma g) gs /\ gs <> [[]].

Lemma join_inj l1 l2 : names_ok l1 -> names_ok l2 ->
  join [comma] l1 = join [comma] l2 -> l1 = l2.
Proof.
  intros [F1 N1] [F2 N2] H.
  destruct l1 as [|x1 l1], l2 as [|x2 l2]; [reflexivity| | |].
  - assert (E: split_on comma (join [comma] (x2 :: l2)) = x2 :: l2) by (apply split_join; [discriminate | exact F2]).
    rewrite <- H in E. simpl in E. congruence.
  - assert (E: split_on comma (join [comma] (x1 :: l1)) = x1 :: l1) by (apply split_join; [discriminate | exact F1]).
    rewrite H in E. simpl in E. congruence.
  - rewrite <- (split_join (x1 :: l1)) by (try discriminate; exact F1).
    rewrite <- (split_join (x2 :: l2)) by (try discriminate; exact F2).
    rewrite H. reflexivity.
Qed.

Lemma names_ok_sort gs : names_ok gs -> names_ok (sort_strs gs).
Proof.
  intros [F N]. pose proof (sort_strs_perm gs) as P. split.
  - rewrite Forall_forall in *. intros g Hg. apply F. eapply Permutation_in; [exact P | exact Hg].
  - intros E. rewrite E in P. apply Permutation_length_1_inv in P. contradiction.
Qed.

Lemma gc_key_perm u gs gs' : names_ok gs -> names_ok gs' ->
  gc_key u gs' = gc_key u gs -> Permutation gs' gs.
Proof.
  intros H1 H2 E. unfold gc_key in E. inversion E as [E'].
  apply join_inj in E'; [| apply names_ok_sort; exact H2 | apply names_ok_sort; exact H1].
  eapply Permutation_trans; [apply Permutation_sym; apply sort_strs_perm|].
  rewrite E'. apply sort_strs_perm.
Qed.


(* ------------------------------------------------------------------------------------------ *)
(* FillCache: ghost bookkeeping                                                                *)

Lemma filter_notin_id t (fl : list (N * str)) :
  ~ In t (map fst fl) -> filter (fun p => negb (N.eqb (fst p) t)) fl = fl.
Proof.
  induction fl as [|[t0 g0] fl IH]; intros H; simpl; [reflexivity|].
  destruct (N.eqb_spec t0 t) as [E|E]; simpl.
  - exfalso. apply H. left. exact E.
  - rewrite IH; [reflexivity|]. intros Hin. apply H. right. exact Hin.
Qed.

Lemma filling_In t g fl : filling t g fl = true -> In t (map fst fl).
Proof.
  unfold filling. rewrite existsb_exists. intros [[t0 g0] [Hin Hp]]. simpl in Hp.
  apply andb_true_iff in Hp as [Ht _]. apply N.eqb_eq in Ht. subst t0.
  apply in_map_iff. exists (t, g0). split; [reflexivity | exact Hin].
Qed.

Lemma busy_In t fl : busy t fl = true <-> In t (map fst fl).
Proof.
  unfold busy. rewrite existsb_exists. split.
  - intros [[t0 g0] [Hin Hp]]. simpl in Hp. apply N.eqb_eq in Hp. subst t0.
    apply in_map_iff. exists (t, g0). split; [reflexivity | exact Hin].
  - intros Hin. apply in_map_iff in Hin as [[t0 g0] [E Hin]]. simpl in E. subst t0.
    exists (t, g0). split; [exact Hin | apply N.eqb_refl].
Qed.

Lemma fillers_remove t g fl :
  NoDup (map fst fl) -> filling t g fl = true ->
  forall g', length (fillers_of g' fl) =
             (length (fillers_of g' (filter (fun p => negb (N.eqb (fst p) t)) fl)) +
              (if str_eqb g g' then 1 else 0))%nat.
Proof.
  induction fl as [|[t0 g0] fl IH]; intros Hnd Hf g'; [discriminate|].
  simpl in Hnd. inversion Hnd as [|? ? Hnotin Hnd']; subst.
  unfold filling in Hf. simpl in Hf.
  destruct (N.eqb_spec t0 t) as [E|E].
  - subst t0. simpl in Hf.
    assert (Hg: str_eqb g0 g = true).
    { destruct (str_eqb g0 g) eqn:Eg; [reflexivity|]. simpl in Hf.
      exfalso. apply Hnotin. apply (filling_In t g). exact Hf. }
    apply str_eqb_eq in Hg. subst g0.
    simpl. rewrite N.eqb_refl. simpl. rewrite filter_notin_id by exact Hnotin.
    destruct (str_eqb g g'); simpl; lia.
  - simpl in Hf. specialize (IH Hnd' Hf g').
    simpl. destruct (N.eqb_spec t0 t) as [E'|_]; [contradiction|]. simpl.
    destruct (str_eqb g0 g'); simpl; lia.
Qed.

Definition fill_inv (s : fc) : Prop :=
  NoDup (map fst (fc_fillers s)) /\
  forall g, length (fillers_of g (fc_fillers s)) = if mem_str g (fc_inflight s) then 1%nat else 0%nat.

Definition loop_inv (s : fc) : Prop :=
  forall g, count_str g (fc_loopthreads s) = if mem_str g (fc_loops s) then 1%nat else 0%nat.

Lemma fill_inv_init : fill_inv fc_init.
Proof. split; [constructor | intros g; reflexivity]. Qed.
Lemma loop_inv_init : loop_inv fc_init.
Proof. intros g. reflexivity. Qed.

Lemma update_begin_fill_inv s t g s' o :
  fill_inv s -> update_begin s t g = (s', o) -> fill_inv s'.
Proof.
  intros [Hnd Hc] H. unfold update_begin in H.
  destruct (busy t (fc_fillers s)) eqn:Eb; [inversion H; subst; split; assumption|].
  destruct (mem_str g (fc_inflight s)) eqn:Em; [inversion H; subst; split; assumption|].
  inversion H; subst; clear H. split; simpl.
  - constructor; [|exact Hnd]. intros Hin. apply busy_In in Hin. congruence.
  - intros g'. specialize (Hc g'). rewrite (str_eqb_sym g' g).
    destruct (str_eqb g g') eqn:E; simpl.
    + apply str_eqb_eq in E. subst g'. rewrite Em in Hc. rewrite Hc. reflexivity.
    + exact Hc.
Qed.

Lemma update_end_fill_inv s t g a s' o :
  fill_inv s -> update_end s t g a = (s', o) -> fill_inv s'.
Proof.
  intros [Hnd Hc] H. unfold update_end in H.
  destruct (filling t g (fc_fillers s)) eqn:Ef; [|inversion H; subst; split; assumption].
  inversion H; subst; clear H. split; simpl.
  - clear -Hnd. induction (fc_fillers s) as [|[t0 g0] fl IH]; simpl; [constructor|].
    simpl in Hnd. inversion Hnd as [|? ? Hn Hnd']; subst.
    destruct (N.eqb t0 t); simpl; [apply IH; exact Hnd'|].
    constructor; [|apply IH; exact Hnd'].
    intros Hin. apply Hn. apply in_map_iff in Hin as [p [E Hp]]. apply filter_In in Hp as [Hp _].
    apply in_map_iff. exists p. split; assumption.
  - intros g'. pose proof (fillers_remove t g _ Hnd Ef g') as R. specialize (Hc g').
    destruct (str_eqb g g') eqn:E.
    + apply str_eqb_eq in E. subst g'. rewrite mem_remove_str_same.
      pose proof (Hc) as Hc'. destruct (mem_str g (fc_inflight s)); lia.
    + apply str_eqb_neq in E. rewrite mem_remove_str_other by congruence. lia.
Qed.

Lemma loop_start_loop_inv s g s' b : loop_inv s -> loop_start s g = (s', b) -> loop_inv s'.
Proof.
  intros Hl H. unfold loop_start in H.
  destruct (mem_str g (fc_loops s)) eqn:Em; inversion H; subst; clear H; [exact Hl|].
  intros g'. simpl. specialize (Hl g'). rewrite (str_eqb_sym g' g).
  destruct (str_eqb g g') eqn:E; simpl; [|exact Hl].
  apply str_eqb_eq in E. subst g'. rewrite Em in Hl. rewrite Hl. reflexivity.
Qed.

Lemma loop_exit_loop_inv s g s' o : loop_inv s -> loop_exit s g = (s', o) -> loop_inv s'.
Proof.
  intros Hl H. unfold loop_exit in H.
  destruct (fc_stopped s && mem_str g (fc_loopthreads s)) eqn:Ec; inversion H; subst; clear H; [|exact Hl].
  apply andb_true_iff in Ec as [_ Em]. apply mem_count_pos in Em.
  intros g'. simpl. destruct (str_eqb g' g) eqn:E.
  - apply str_eqb_eq in E. subst g'. rewrite mem_remove_str_same, count_remove_one_same.
    specialize (Hl g). destruct (mem_str g (fc_loops s)); lia.
  - apply str_eqb_neq in E. rewrite mem_remove_str_other, count_remove_one_other by exact E. apply Hl.
Qed.

(* what the transitions leave alone *)
Lemma loop_start_frame s g s' b : loop_start s g = (s', b) ->
  fc_cache s' = fc_cache s /\ fc_inflight s' = fc_inflight s /\ fc_fillers s' = fc_fillers s /\
  fc_stopped s' = fc_stopped s.
Proof.
  unfold loop_start. destruct (mem_str g (fc_loops s)); intros H; inversion H; subst; simpl; auto.
Qed.

Lemma scan_frame u gs : forall s s' m d st, scan u gs s = (s', m, d, st) ->
  fc_cache s' = fc_cache s /\ fc_inflight s' = fc_inflight s /\ fc_fillers s' = fc_fillers s /\
  fc_stopped s' = fc_stopped s.
Proof.
  induction gs as [|g gs IH]; intros s s' m d st H; simpl in H.
  - inversion H; subst; auto.
  - destruct (lookup g (fc_cache s)) as [ms|] eqn:El.
    + destruct (scan u gs s) as [[[s2 m2] d2] st2] eqn:Es. inversion H; subst. eapply IH; exact Es.
    + destruct (loop_start s g) as [s1 started] eqn:E1.
      destruct (scan u gs s1) as [[[s2 m2] d2] st2] eqn:Es. inversion H; subst.
      apply loop_start_frame in E1 as (A & B & C & D).
      apply IH in Es as (A' & B' & C' & D'). repeat split; congruence.
Qed.

Lemma scan_loop_inv u gs : forall s s' m d st, loop_inv s -> scan u gs s = (s', m, d, st) -> loop_inv s'.
Proof.
  induction gs as [|g gs IH]; intros s s' m d st Hl H; simpl in H.
  - inversion H; subst; exact Hl.
  - destruct (lookup g (fc_cache s)) as [ms|] eqn:El.
    + destruct (scan u gs s) as [[[s2 m2] d2] st2] eqn:Es. inversion H; subst. eapply IH; eassumption.
    + destruct (loop_start s g) as [s1 started] eqn:E1.
      destruct (scan u gs s1) as [[[s2 m2] d2] st2] eqn:Es. inversion H; subst.
      eapply IH; [|exact Es]. eapply loop_start_loop_inv; eassumption.
Qed.

(* the scan's verdicts in terms of the cache it started from *)
Lemma scan_spec u gs : forall s s' m d st, scan u gs s = (s', m, d, st) ->
  m = filter (fun g => match lookup g (fc_cache s) with Some ms => mem_str u ms | None => false end) gs /\
  d = existsb (fun g => match lookup g (fc_cache s) with Some _ => false | None => true end) gs.
Proof.
  induction gs as [|g gs IH]; intros s s' m d st H; simpl in H.
  - inversion H; subst; auto.
  - destruct (lookup g (fc_cache s)) as [ms|] eqn:El.
    + destruct (scan u gs s) as [[[s2 m2] d2] st2] eqn:Es. inversion H; subst.
      apply IH in Es as [-> ->]. simpl. rewrite El. split; [|reflexivity].
      destruct (mem_str u ms); reflexivity.
    + destruct (loop_start s g) as [s1 started] eqn:E1.
      destruct (scan u gs s1) as [[[s2 m2] d2] st2] eqn:Es. inversion H; subst.
      apply loop_start_frame in E1 as (A & _). apply IH in Es as [-> _]. rewrite A.
      simpl. rewrite El. split; reflexivity.
Qed.

(* ------------------------------------------------------------------------------------------ *)
(* histories                                                                                   *)

Definition hist := list (event * output * world).

Lemma run_app w evs1 evs2 :
  run w (evs1 ++ evs2) =
  let '(w1, l1) := run w evs1 in let '(w2, l2) := run w1 evs2 in (w2, l1 ++ l2).
Proof.
  revert w. induction evs1 as [|e evs1 IH]; intros w; simpl.
  - destruct (run w evs2); reflexivity.
  - destruct (step w e) as [w1 o]. rewrite IH.
    destruct (run w1 evs1) as [w2 l1]. destruct (run w2 evs2) as [w3 l2]. reflexivity.
Qed.

Lemma run_events w evs : map (fun x => fst (fst x)) (snd (run w evs)) = evs.
Proof.
  revert w. induction evs as [|e evs IH]; intros w; simpl; [reflexivity|].
  destruct (step w e) as [w1 o]. specialize (IH w1). destruct (run w1 evs) as [w2 l]. simpl in *.
  rewrite IH. reflexivity.
Qed.

(* any position of the log: the prefix is itself a run, and the entry is a step from its end *)
Lemma run_split w evs : forall w' log pre e o w1 post,
  run w evs = (w', log) -> log = pre ++ (e, o, w1) :: post ->
  exists evs1 evs2 w0, evs = evs1 ++ e :: evs2 /\ run w evs1 = (w0, pre) /\ step w0 e = (w1, o).
Proof.
  revert w. induction evs as [|e0 evs IH]; intros w w' log pre e o w1 post H E; subst log; simpl in H.
  - destruct pre; inversion H.
  - destruct (step w e0) as [wa oa] eqn:Es. destruct (run wa evs) as [wb l] eqn:Er.
    destruct pre as [|p pre]; simpl in H.
    + inversion H; subst. exists [], evs, w. split; [reflexivity|]. split; [reflexivity | exact Es].
    + inversion H; subst. destruct (IH wa w' _ pre e o w1 post Er eq_refl) as (evs1 & evs2 & w0 & A & B & C).
      exists (e0 :: evs1), evs2, w0. split; [simpl; congruence|]. split; [|exact C].
      simpl. rewrite Es, B. reflexivity.
Qed.

(* abstract specification of the member-set map: a function of the accepted UpdateEnd events *)
Definition upd (g : str) (acc : option (list str)) (x : event * output * world) : option (list str) :=
  match x with
  | (UpdateEnd _ g' a, OBool _, _) =>
      if str_eqb g g' then match a with FOk ms => Some ms | FNotFound => None | FErr => acc end else acc
  | _ => acc
  end.
Definition latest (g : str) (h : hist) : option (list str) := fold_left (upd g) h None.

Definition is_begin (g : str) (x : event * output * world) : bool :=
  match x with (UpdateBegin _ g', OBool true, _) => str_eqb g g' | _ => false end.
Definition is_end (g : str) (x : event * output * world) : bool :=
  match x with (UpdateEnd _ g' _, OBool _, _) => str_eqb g g' | _ => false end.
Definition count_begins g (h : hist) := length (filter (is_begin g) h).
Definition count_ends g (h : hist) := length (filter (is_end g) h).

Lemma latest_snoc g h x : latest g (h ++ [x]) = upd g (latest g h) x.
Proof. unfold latest. rewrite fold_left_app. reflexivity. Qed.
Lemma count_begins_snoc g h x :
  count_begins g (h ++ [x]) = (count_begins g h + if is_begin g x then 1 else 0)%nat.
Proof. unfold count_begins. rewrite filter_app, app_length. simpl. destruct (is_begin g x); reflexivity. Qed.
Lemma count_ends_snoc g h x :
  count_ends g (h ++ [x]) = (count_ends g h + if is_end g x then 1 else 0)%nat.
Proof. unfold count_ends. rewrite filter_app, app_length. simpl. destruct (is_end g x); reflexivity. Qed.

Definition prov_ok (cache : list (str * list str)) (dir : list dir_ev) : Prop :=
  forall g ms, lookup g cache = Some ms -> In (DFill g (FOk ms)) dir.
Definition latest_ok (h : hist) (cache : list (str * list str)) : Prop :=
  forall g, lookup g cache = latest g h.
Definition balance_ok (h : hist) (fl : list (N * str)) : Prop :=
  forall g, count_begins g h = (count_ends g h + length (fillers_of g fl))%nat.
Definition lc_ok (h : hist) (lc : list (key * list str)) (dir : list dir_ev) : Prop :=
  forall k r, klookup k lc = Some r ->
     exists tu gs w0, In (GCAsk (fst k) tu gs (DOk r), OAns (Some r) true [], w0) h /\
                      gc_key (fst k) gs = k /\ In (DDirect tu (sort_strs gs) (DOk r)) dir.

Record Inv (h : hist) (w : world) : Prop := {
  inv_prov : prov_ok (fc_cache (w_fc w)) (w_dir w);
  inv_fill : fill_inv (w_fc w);
  inv_loop : loop_inv (w_fc w);
  inv_latest : latest_ok h (fc_cache (w_fc w));
  inv_balance : balance_ok h (fc_fillers (w_fc w));
  inv_lc : lc_ok h (w_lc w) (w_dir w)
}.

Lemma inv_init : Inv [] w_init.
Proof.
  constructor; simpl.
  - intros g ms H. discriminate.
  - apply fill_inv_init.
  - apply loop_inv_init.
  - intros g. reflexivity.
  - intros g. reflexivity.
  - intros k r H. discriminate.
Qed.

Lemma step_update_end w t g a :
  step w (UpdateEnd t g a) =
  if filling t g (fc_fillers (w_fc w))
  then (with_fc_dir w (fst (update_end (w_fc w) t g a)) (DFill g a), OBool (is_ok a))
  else (w, ORefused).
Proof.
  unfold step, update_end. destruct (filling t g (fc_fillers (w_fc w))); reflexivity.
Qed.

Definition plain (x : event * output * world) : Prop :=
  (forall g acc, upd g acc x = acc) /\ (forall g, is_begin g x = false) /\ (forall g, is_end g x = false).

Lemma latest_ok_plain h c x : plain x -> latest_ok h c -> latest_ok (h ++ [x]) c.
Proof. intros (P & _) H g. rewrite latest_snoc, P. apply H. Qed.

Lemma balance_ok_plain h fl x : plain x -> balance_ok h fl -> balance_ok (h ++ [x]) fl.
Proof.
  intros (_ & B & E) H g. rewrite count_begins_snoc, count_ends_snoc, B, E. specialize (H g). lia.
Qed.

Lemma lc_ok_mono h x lc lc' dir dir' :
  (forall k r, klookup k lc' = Some r -> klookup k lc = Some r) ->
  (forall d, In d dir -> In d dir') ->
  lc_ok h lc dir -> lc_ok (h ++ [x]) lc' dir'.
Proof.
  intros Hl Hd H k r Hk. destruct (H k r (Hl k r Hk)) as (tu & gs & w0 & A & B & C).
  exists tu, gs, w0. split; [apply in_or_app; left; exact A|]. split; [exact B | apply Hd; exact C].
Qed.

Lemma prov_ok_mono c dir d : prov_ok c dir -> prov_ok c (d :: dir).
Proof. intros H g ms Hl. right. apply H. exact Hl. Qed.

(* an ask leaves everything but the loop registry (and possibly the trace) alone *)
Lemma inv_after_scan h w u gs s m d st x (dir' : list dir_ev) :
  Inv h w -> scan u gs (w_fc w) = (s, m, d, st) -> plain x ->
  (forall e, In e (w_dir w) -> In e dir') ->
  Inv (h ++ [x]) {| w_fc := s; w_lc := w_lc w; w_timers := w_timers w; w_dir := dir' |}.
Proof.
  intros I Hs Px Hd. pose proof (scan_frame _ _ _ _ _ _ _ Hs) as (A & B & C & D).
  destruct I as [I1 I2 I3 I4 I5 I6]. constructor; simpl.
  - rewrite A. intros g ms Hl. apply Hd. apply I1. exact Hl.
  - destruct I2 as [N1 N2]. split; [rewrite C; exact N1 | intros g; rewrite C, B; apply N2].
  - eapply scan_loop_inv; eassumption.
  - rewrite A. apply latest_ok_plain; assumption.
  - rewrite C. apply balance_ok_plain; assumption.
  - eapply lc_ok_mono; [intros k r H; exact H | exact Hd | exact I6].
Qed.

Lemma inv_same h w x : Inv h w -> plain x -> Inv (h ++ [x]) w.
Proof.
  intros [I1 I2 I3 I4 I5 I6] Px. constructor; try assumption.
  - apply latest_ok_plain; assumption.
  - apply balance_ok_plain; assumption.
  - eapply lc_ok_mono; [intros k r H; exact H | intros d H; exact H | exact I6].
Qed.

Ltac plain_tac := split; [intros ? ?; reflexivity | split; intros ?; reflexivity].

Lemma inv_step h w e w1 o : Inv h w -> step w e = (w1, o) -> Inv (h ++ [(e, o, w1)]) w1.
Proof.
  intros I H. destruct e as [t g|t g a|g|g| |g|u gs a|prof gs a|u tu gs a|k|k|k].
  - (* UpdateBegin *)
    simpl in H. destruct (update_begin (w_fc w) t g) as [s o'] eqn:Eu. inversion H; subst; clear H.
    pose proof Eu as Eu'. unfold update_begin in Eu.
    destruct I as [I1 I2 I3 I4 I5 I6].
    assert (Hc: fc_cache s = fc_cache (w_fc w) /\ fc_loops s = fc_loops (w_fc w) /\
                fc_loopthreads s = fc_loopthreads (w_fc w)).
    { destruct (busy t (fc_fillers (w_fc w))); [inversion Eu; subst; auto|].
      destruct (mem_str g (fc_inflight (w_fc w))); inversion Eu; subst; auto. }
    destruct Hc as (C1 & C2 & C3).
    constructor; simpl.
    + rewrite C1. exact I1.
    + eapply update_begin_fill_inv; eassumption.
    + intros g'. rewrite C2, C3. apply I3.
    + rewrite C1. intros g'. rewrite latest_snoc. simpl. destruct o; apply I4.
    + intros g'. rewrite count_begins_snoc, count_ends_snoc. specialize (I5 g').
      destruct (busy t (fc_fillers (w_fc w))); [inversion Eu; subst; simpl; lia|].
      destruct (mem_str g (fc_inflight (w_fc w))); inversion Eu; subst; simpl; [lia|].
      rewrite (str_eqb_sym g g'). destruct (str_eqb g' g); simpl; lia.
    + eapply lc_ok_mono; [intros k r Hk; exact Hk | intros d Hd; exact Hd | exact I6].
  - (* UpdateEnd *)
    rewrite step_update_end in H.
    destruct (filling t g (fc_fillers (w_fc w))) eqn:Ef.
    2:{ inversion H; subst. apply inv_same; [exact I | plain_tac]. }
    inversion H; subst; clear H.
    destruct I as [I1 I2 I3 I4 I5 I6].
    assert (Eu: update_end (w_fc w) t g a =
                (fst (update_end (w_fc w) t g a), OBool (is_ok a))).
    { unfold update_end. rewrite Ef. reflexivity. }
    constructor; simpl.
    + unfold update_end. rewrite Ef. simpl. intros g' ms Hl.
      destruct a as [ms0| |].
      * destruct (str_eqb g' g) eqn:E.
        -- apply str_eqb_eq in E. subst g'. rewrite lookup_store_same in Hl. inversion Hl; subst. left; reflexivity.
        -- apply str_eqb_neq in E. rewrite lookup_store_other in Hl by exact E. right. apply I1. exact Hl.
      * destruct (str_eqb g' g) eqn:E.
        -- apply str_eqb_eq in E. subst g'. rewrite lookup_remove_same in Hl. discriminate.
        -- apply str_eqb_neq in E. rewrite lookup_remove_other in Hl by exact E. right. apply I1. exact Hl.
      * right. apply I1. exact Hl.
    + eapply update_end_fill_inv; [exact I2 | exact Eu].
    + unfold update_end. rewrite Ef. simpl. exact I3.
    + intros g'. rewrite latest_snoc. simpl. unfold update_end. rewrite Ef. simpl.
      rewrite <- (I4 g'). destruct (str_eqb g' g) eqn:E.
      * apply str_eqb_eq in E. subst g'. destruct a; [apply lookup_store_same | apply lookup_remove_same | reflexivity].
      * apply str_eqb_neq in E. destruct a; [apply lookup_store_other; exact E | apply lookup_remove_other; exact E | reflexivity].
    + intros g'. rewrite count_begins_snoc, count_ends_snoc. simpl.
      unfold update_end. rewrite Ef. simpl. destruct I2 as [Hnd _].
      pose proof (fillers_remove t g _ Hnd Ef g') as R. specialize (I5 g').
      rewrite (str_eqb_sym g' g). destruct (str_eqb g g'); lia.
    + eapply lc_ok_mono; [intros k r Hk; exact Hk | intros d Hd; right; exact Hd | exact I6].
  - (* LoopStart *)
    simpl in H. destruct (loop_start (w_fc w) g) as [s b] eqn:El. inversion H; subst; clear H.
    pose proof (loop_start_frame _ _ _ _ El) as (A & B & C & D).
    destruct I as [I1 I2 I3 I4 I5 I6]. constructor; simpl.
    + rewrite A. exact I1.
    + destruct I2 as [N1 N2]. split; [rewrite C; exact N1 | intros g'; rewrite C, B; apply N2].
    + eapply loop_start_loop_inv; eassumption.
    + rewrite A. apply latest_ok_plain; [plain_tac | exact I4].
    + rewrite C. apply balance_ok_plain; [plain_tac | exact I5].
    + eapply lc_ok_mono; [intros k r Hk; exact Hk | intros d Hd; exact Hd | exact I6].
  - (* LoopExit *)
    simpl in H. destruct (loop_exit (w_fc w) g) as [s o'] eqn:El. inversion H; subst; clear H.
    destruct I as [I1 I2 I3 I4 I5 I6].
    assert (Hc: fc_cache s = fc_cache (w_fc w) /\ fc_inflight s = fc_inflight (w_fc w) /\
                fc_fillers s = fc_fillers (w_fc w)).
    { unfold loop_exit in El. destruct (fc_stopped (w_fc w) && mem_str g (fc_loopthreads (w_fc w)));
        inversion El; subst; auto. }
    destruct Hc as (A & B & C). constructor; simpl.
    + rewrite A. exact I1.
    + destruct I2 as [N1 N2]. split; [rewrite C; exact N1 | intros g'; rewrite C, B; apply N2].
    + eapply loop_exit_loop_inv; eassumption.
    + rewrite A. apply latest_ok_plain; [destruct o; plain_tac | exact I4].
    + rewrite C. apply balance_ok_plain; [destruct o; plain_tac | exact I5].
    + eapply lc_ok_mono; [intros k r Hk; exact Hk | intros d Hd; exact Hd | exact I6].
  - (* Stop *)
    simpl in H. unfold stop in H. destruct I as [I1 I2 I3 I4 I5 I6].
    destruct (fc_stopped (w_fc w)); inversion H; subst; clear H; constructor; simpl;
      try assumption;
      try (apply latest_ok_plain; [plain_tac | assumption]);
      try (apply balance_ok_plain; [plain_tac | assumption]);
      try (eapply lc_ok_mono; [intros k r Hk; exact Hk | intros d Hd; exact Hd | eassumption]).
  - (* Get *)
    simpl in H. inversion H; subst. apply inv_same; [exact I | plain_tac].
  - (* GoogleAsk *)
    simpl in H. destruct (is_nil gs); [inversion H; subst; apply inv_same; [exact I | plain_tac]|].
    destruct (scan u gs (w_fc w)) as [[[s m] d] st] eqn:Es.
    destruct d; inversion H; subst; clear H.
    + eapply inv_after_scan; [exact I | exact Es | plain_tac | intros e He; right; exact He].
    + eapply inv_after_scan; [exact I | exact Es | plain_tac | intros e He; exact He].
  - (* CognitoAsk *)
    simpl in H. destruct (is_nil gs); [inversion H; subst; apply inv_same; [exact I | plain_tac]|].
    destruct prof as [u|]; [|inversion H; subst; apply inv_same; [exact I | plain_tac]].
    destruct (is_nil u); [inversion H; subst; apply inv_same; [exact I | plain_tac]|].
    destruct (scan u gs (w_fc w)) as [[[s m] d] st] eqn:Es.
    destruct d; inversion H; subst; clear H.
    + eapply inv_after_scan; [exact I | exact Es | plain_tac | intros e He; right; exact He].
    + eapply inv_after_scan; [exact I | exact Es | plain_tac | intros e He; exact He].
  - (* GCAsk *)
    simpl in H. destruct (klookup (gc_key u gs) (w_lc w)) as [r|] eqn:Ek.
    { inversion H; subst. apply inv_same; [exact I | plain_tac]. }
    destruct I as [I1 I2 I3 I4 I5 I6].
    destruct a as [r|]; inversion H; subst; clear H; constructor; simpl;
      try assumption;
      try (apply prov_ok_mono; assumption);
      try (apply latest_ok_plain; [plain_tac | assumption]);
      try (apply balance_ok_plain; [plain_tac | assumption]).
    + intros k r' Hk. destruct (key_eqb k (gc_key u gs)) eqn:E.
      * apply key_eqb_eq in E. subst k. simpl in Hk. rewrite key_eqb_refl in Hk. inversion Hk; subst r'.
        exists tu, gs. eexists. split; [apply in_or_app; right; left; reflexivity|].
        split; [reflexivity | left; reflexivity].
      * simpl in Hk. rewrite E in Hk. apply key_eqb_neq in E.
        rewrite klookup_kremove_other in Hk by exact E.
        destruct (I6 k r' Hk) as (tu' & gs' & w0 & A & B & C).
        exists tu', gs', w0. split; [apply in_or_app; left; exact A|]. split; [exact B | right; exact C].
    + eapply lc_ok_mono; [intros k r Hk; exact Hk | intros d Hd; right; exact Hd | exact I6].
  - (* LCGet *)
    simpl in H. inversion H; subst. apply inv_same; [exact I | plain_tac].
  - (* LCPurge *)
    simpl in H. inversion H; subst; clear H. destruct I as [I1 I2 I3 I4 I5 I6]. constructor; simpl; try assumption.
    + apply latest_ok_plain; [plain_tac | assumption].
    + apply balance_ok_plain; [plain_tac | assumption].
    + eapply lc_ok_mono; [intros k' r Hk; eapply klookup_kremove_some; exact Hk | intros d Hd; exact Hd | exact I6].
  - (* LCTimer *)
    simpl in H. destruct (kmem k (w_timers w)); inversion H; subst; clear H.
    2:{ apply inv_same; [exact I | plain_tac]. }
    destruct I as [I1 I2 I3 I4 I5 I6]. constructor; simpl; try assumption.
    + apply latest_ok_plain; [plain_tac | assumption].
    + apply balance_ok_plain; [plain_tac | assumption].
    + eapply lc_ok_mono; [intros k' r Hk; eapply klookup_kremove_some; exact Hk | intros d Hd; exact Hd | exact I6].
Qed.

Lemma run_inv evs : forall w log, run w_init evs = (w, log) -> Inv log w.
Proof.
  induction evs as [|e evs IH] using rev_ind; intros w log H.
  - simpl in H. inversion H; subst. apply inv_init.
  - rewrite run_app in H. destruct (run w_init evs) as [w1 l1] eqn:E1. simpl in H.
    destruct (step w1 e) as [w2 o] eqn:Es. inversion H; subst; clear H.
    eapply inv_step; [apply IH; reflexivity | exact Es].
Qed.

(* invariant and pre-state at any position of a log *)
Lemma at_position evs w log pre e o w1 post :
  run w_init evs = (w, log) -> log = pre ++ (e, o, w1) :: post ->
  exists w0, Inv pre w0 /\ step w0 e = (w1, o) /\ In e evs.
Proof.
  intros H E. destruct (run_split _ _ _ _ _ _ _ _ _ H E) as (evs1 & evs2 & w0 & A & B & C).
  exists w0. split; [eapply run_inv; exact B|]. split; [exact C|].
  subst evs. apply in_or_app. right. left. reflexivity.
Qed.

(* ------------------------------------------------------------------------------------------ *)
(* Provenance                                                                                  *)

Definition justified (dir : list dir_ev) (u g : str) : Prop :=
  (exists ms, In (DFill g (FOk ms)) dir /\ In u ms) \/
  (exists asked r, In (DDirect u asked (DOk r)) dir /\ In g r).

(* the user an answer is about *)
Definition answer_about (e : event) : option str :=
  match e with
  | GoogleAsk u _ _ => Some u
  | CognitoAsk (Some u) _ _ => Some u
  | GCAsk u _ _ _ => Some u
  | _ => None
  end.

(* the /profile handler sends the session's own e-mail and access token: the token belongs to the user *)
Definition token_consistent (e : event) : Prop :=
  match e with GCAsk u tu _ _ => tu = u | _ => True end.

Lemma scan_matches_justified u gs s s' m d st dir :
  prov_ok (fc_cache s) dir -> scan u gs s = (s', m, d, st) ->
  forall g, In g m -> justified dir u g.
Proof.
  intros P Hs g Hg. apply scan_spec in Hs as [-> _]. apply filter_In in Hg as [_ Hg].
  destruct (lookup g (fc_cache s)) as [ms|] eqn:El; [|discriminate].
  left. exists ms. split; [apply P; exact El | apply mem_str_In; exact Hg].
Qed.

Lemma justified_mono dir d u g : justified dir u g -> justified (d :: dir) u g.
Proof.
  intros [(ms & A & B)|(asked & r & A & B)]; [left; exists ms | right; exists asked, r]; split; auto; right; exact A.
Qed.

Lemma step_provenance h w e w1 r d st u :
  Inv h w -> Forall token_consistent (map (fun x => fst (fst x)) h) -> token_consistent e ->
  step w e = (w1, OAns (Some r) d st) -> answer_about e = Some u ->
  forall g, In g r -> justified (w_dir w1) u g.
Proof.
  intros I Hh Hc H Ha g Hg. destruct e as [| | | | | |u' gs a|prof gs a|u' tu gs a| | |]; try discriminate.
  - (* Google *)
    simpl in Ha. inversion Ha; subst u'. simpl in H.
    destruct (is_nil gs); [inversion H; subst; destruct Hg|].
    destruct (scan u gs (w_fc w)) as [[[s m] d'] st'] eqn:Es.
    destruct d'.
    + destruct a as [r'|]; inversion H; subst. right. exists gs, r. split; [left; reflexivity | exact Hg].
    + inversion H; subst. simpl. eapply scan_matches_justified; [apply (inv_prov _ _ I) | exact Es | exact Hg].
  - (* Cognito *)
    destruct prof as [u''|]; [|discriminate]. simpl in Ha. inversion Ha; subst u''. simpl in H.
    destruct (is_nil gs); [inversion H; subst; destruct Hg|].
    destruct (is_nil u); [discriminate|].
    destruct (scan u gs (w_fc w)) as [[[s m] d'] st'] eqn:Es.
    destruct d'.
    + destruct a as [r'|]; inversion H; subst. simpl. apply in_app_or in Hg as [Hg|Hg].
      * apply justified_mono. eapply scan_matches_justified; [apply (inv_prov _ _ I) | exact Es | exact Hg].
      * apply filter_In in Hg as [_ Hg]. right. exists gs, r'. split; [left; reflexivity | apply mem_str_In; exact Hg].
    + inversion H; subst. simpl. eapply scan_matches_justified; [apply (inv_prov _ _ I) | exact Es | exact Hg].
  - (* GroupCache *)
    simpl in Ha. inversion Ha; subst u'. simpl in Hc. subst tu. simpl in H.
    destruct (klookup (gc_key u gs) (w_lc w)) as [r0|] eqn:Ek.
    + inversion H; subst. destruct (inv_lc _ _ I _ _ Ek) as (tu & gs' & w0 & A & B & C).
      simpl in A. rewrite Forall_forall in Hh.
      assert (T: token_consistent (GCAsk u tu gs' (DOk r))).
      { apply Hh. apply in_map_iff. eexists. split; [|exact A]. reflexivity. }
      simpl in T. subst tu. right. exists (sort_strs gs'), r. split; [exact C | exact Hg].
    + destruct a as [r'|]; inversion H; subst. simpl.
      right. exists (sort_strs gs), r. split; [left; reflexivity | exact Hg].
Qed.

Lemma provenance evs w log :
  Forall token_consistent evs -> run w_init evs = (w, log) ->
  forall e r d st w1 u, In (e, OAns (Some r) d st, w1) log -> answer_about e = Some u ->
  forall g, In g r -> justified (w_dir w1) u g.
Proof.
  intros Hc H e r d st w1 u Hin Ha g Hg.
  apply in_split in Hin as (pre & post & E).
  destruct (run_split _ _ _ _ _ _ _ _ _ H E) as (evs1 & evs2 & w0 & A & B & C).
  eapply step_provenance; [eapply run_inv; exact B | | | exact C | exact Ha | exact Hg].
  - pose proof (run_events w_init evs1) as Ev. rewrite B in Ev. simpl in Ev. rewrite Ev.
    subst evs. apply Forall_app in Hc as [Hc _]. exact Hc.
  - subst evs. apply Forall_app in Hc as [_ Hc]. inversion Hc; assumption.
Qed.

(* a member set handed out by Get is literally one the directory gave for that group *)
Lemma get_provenance evs w log g ms w1 :
  run w_init evs = (w, log) -> In (Get g, OGet (Some ms), w1) log -> In (DFill g (FOk ms)) (w_dir w1).
Proof.
  intros H Hin. apply in_split in Hin as (pre & post & E).
  destruct (at_position _ _ _ _ _ _ _ _ H E) as (w0 & I & S & _).
  simpl in S. inversion S; subst. apply (inv_prov _ _ I). assumption.
Qed.

(* without the token guard the statement is false: the key has the e-mail, the answer is the token's *)
Definition leak_u : str := [118].  (* "v" *)
Definition leak_a : str := [97].   (* "a" *)
Definition leak_g : str := [103].  (* "g" *)
Definition leak_evs : list event :=
  [GCAsk leak_u leak_a [leak_g] (DOk [leak_g]); GCAsk leak_u leak_u [leak_g] (DOk [])].

Lemma provenance_needs_token_guard :
  exists evs w log e r d st w1 u g,
    run w_init evs = (w, log) /\ In (e, OAns (Some r) d st, w1) log /\ answer_about e = Some u /\
    In g r /\ ~ justified (w_dir w1) u g.
Proof.
  exists leak_evs. eexists. eexists.
  exists (GCAsk leak_u leak_u [leak_g] (DOk [])), [leak_g], false, []. eexists. exists leak_u, leak_g.
  split; [vm_compute; reflexivity|]. split; [right; left; reflexivity|]. split; [reflexivity|].
  split; [left; reflexivity|].
  intros [(ms & A & B)|(asked & r & A & B)]; simpl in A.
  - destruct A as [A|[]]. discriminate.
  - destruct A as [A|[]]. inversion A.
Qed.

(* ------------------------------------------------------------------------------------------ *)
(* Key soundness                                                                               *)

Lemma key_sound evs w log pre u tu gs a r st w1 post :
  run w_init evs = (w, log) ->
  log = pre ++ (GCAsk u tu gs a, OAns (Some r) false st, w1) :: post ->
  exists tu' gs' w0, In (GCAsk u tu' gs' (DOk r), OAns (Some r) true [], w0) pre /\
                     gc_key u gs' = gc_key u gs.
Proof.
  intros H E. destruct (at_position _ _ _ _ _ _ _ _ H E) as (w0 & I & S & _).
  simpl in S. destruct (klookup (gc_key u gs) (w_lc w0)) as [r0|] eqn:Ek.
  - inversion S; subst. destruct (inv_lc _ _ I _ _ Ek) as (tu' & gs' & w0' & A & B & C).
    simpl in A, B. exists tu', gs', w0'. split; [exact A | exact B].
  - destruct a; inversion S.
Qed.

Definition asks_ok (e : event) : Prop :=
  match e with GCAsk _ _ gs _ => names_ok gs | _ => True end.

Lemma key_sound_perm evs w log pre u tu gs a r st w1 post :
  Forall asks_ok evs ->
  run w_init evs = (w, log) ->
  log = pre ++ (GCAsk u tu gs a, OAns (Some r) false st, w1) :: post ->
  exists tu' gs' w0, In (GCAsk u tu' gs' (DOk r), OAns (Some r) true [], w0) pre /\ Permutation gs' gs.
Proof.
  intros Hok H E. destruct (key_sound _ _ _ _ _ _ _ _ _ _ _ _ H E) as (tu' & gs' & w0 & A & B).
  exists tu', gs', w0. split; [exact A|]. rewrite Forall_forall in Hok.
  assert (Hev: map (fun x => fst (fst x)) log = evs).
  { pose proof (run_events w_init evs) as Ev. rewrite H in Ev. exact Ev. }
  apply (gc_key_perm u).
  - apply (Hok (GCAsk u tu gs a)). rewrite <- Hev. subst log. rewrite map_app. apply in_or_app. right. left. reflexivity.
  - apply (Hok (GCAsk u tu' gs' (DOk r))). rewrite <- Hev. subst log. rewrite map_app. apply in_or_app. left.
    apply in_map_iff. eexists. split; [|exact A]. reflexivity.
  - exact B.
Qed.

(* the guard is needed: a group name containing ',' collides with the two-group question, and the
   empty question collides with the question about the empty name *)
Definition kc_ab : str := [97; 44; 98].  (* "a,b" *)
Definition kc_a : str := [97].
Definition kc_b : str := [98].

Lemma key_collision_comma : gc_key leak_u [kc_ab] = gc_key leak_u [kc_a; kc_b] /\ ~ Permutation [kc_ab] [kc_a; kc_b].
Proof.
  split; [vm_compute; reflexivity|]. intros P. apply Permutation_length in P. discriminate.
Qed.

Lemma key_collision_empty : gc_key leak_u [] = gc_key leak_u [[]] /\ ~ Permutation (@nil str) [[]].
Proof.
  split; [vm_compute; reflexivity|]. intros P. apply Permutation_length in P. discriminate.
Qed.

Lemma key_sound_unguarded_refuted :
  exists evs w log pre u tu gs a r st w1 post,
    run w_init evs = (w, log) /\
    log = pre ++ (GCAsk u tu gs a, OAns (Some r) false st, w1) :: post /\
    forall tu' gs' w0, In (GCAsk u tu' gs' (DOk r), OAns (Some r) true [], w0) pre -> ~ Permutation gs' gs.
Proof.
  exists [GCAsk leak_u leak_u [kc_ab] (DOk [kc_ab]); GCAsk leak_u leak_u [kc_a; kc_b] (DOk [])].
  eexists. eexists. eexists. exists leak_u, leak_u, [kc_a; kc_b], (DOk []), [kc_ab], []. eexists. exists [].
  split; [vm_compute; reflexivity|]. split.
  - instantiate (2 := [(_, _, _)]). simpl. reflexivity.
  - intros tu' gs' w0 [Hin|[]] P. inversion Hin; subst. apply Permutation_length in P. discriminate.
Qed.

(* ------------------------------------------------------------------------------------------ *)
(* Update semantics (refinement to the abstract map [latest])                                  *)

Lemma update_semantics evs w log :
  run w_init evs = (w, log) -> forall g, lookup g (fc_cache (w_fc w)) = latest g log.
Proof. intros H. apply (inv_latest _ _ (run_inv _ _ _ H)). Qed.

(* an accepted UpdateEnd for g whose answer is Ok or NotFound *)
Definition effective (g : str) (x : event * output * world) : Prop :=
  exists t a b w, x = (UpdateEnd t g a, OBool b, w) /\ a <> FErr.

Lemma upd_not_effective g acc x : ~ effective g x -> upd g acc x = acc.
Proof.
  intros H. destruct x as [[e o] w]. destruct e; try reflexivity. destruct o; try reflexivity.
  simpl. destruct (str_eqb g g0) eqn:E; [|reflexivity]. apply str_eqb_eq in E. subst g0.
  destruct a; try reflexivity; exfalso; apply H; do 4 eexists; (split; [reflexivity | discriminate]).
Qed.

(* "cache g = the set of the most recent Ok end for g that no later Ok/NotFound end overrides" *)
Lemma latest_char g (h : hist) ms :
  latest g h = Some ms <->
  exists pre t b w post, h = pre ++ (UpdateEnd t g (FOk ms), OBool b, w) :: post /\
                         Forall (fun x => ~ effective g x) post.
Proof.
  induction h as [|x h IH] using rev_ind.
  - split; [discriminate | intros (pre & t & b & w & post & E & _); destruct pre; discriminate].
  - rewrite latest_snoc. split.
    + intros H.
      assert (D: effective g x \/ ~ effective g x).
      { destruct x as [[e o] w]. destruct e; try (right; intros (t' & a' & b' & w' & E & _); discriminate).
        destruct o; try (right; intros (t' & a' & b' & w' & E & _); discriminate).
        destruct (str_eqb g g0) eqn:Eg.
        - apply str_eqb_eq in Eg. subst g0. destruct a.
          + left. do 4 eexists. split; [reflexivity | discriminate].
          + left. do 4 eexists. split; [reflexivity | discriminate].
          + right. intros (t' & a' & b' & w' & E & Hn). inversion E; subst. congruence.
        - right. intros (t' & a' & b' & w' & E & Hn). inversion E; subst. rewrite str_eqb_refl in Eg. discriminate. }
      destruct D as [(t & a & b & w & -> & Hn)|Hn].
      * simpl in H. rewrite str_eqb_refl in H. destruct a; try congruence. inversion H; subst.
        exists h, t, b, w, []. split; [reflexivity | constructor].
      * rewrite upd_not_effective in H by exact Hn. apply IH in H as (pre & t & b & w & post & E & F).
        exists pre, t, b, w, (post ++ [x]). split; [subst h; rewrite <- app_assoc; reflexivity|].
        apply Forall_app. split; [exact F | constructor; [exact Hn | constructor]].
    + intros (pre & t & b & w & post & E & F).
      destruct post as [|y post] using rev_ind.
      * apply app_inj_tail in E as [-> ->]. simpl. rewrite str_eqb_refl. reflexivity.
      * clear IHpost. change (pre ++ (UpdateEnd t g (FOk ms), OBool b, w) :: post ++ [y])
          with (pre ++ ((UpdateEnd t g (FOk ms), OBool b, w) :: post) ++ [y]) in E.
        rewrite app_assoc in E. apply app_inj_tail in E as [-> ->].
        apply Forall_app in F as [F Fy]. inversion Fy; subst.
        rewrite upd_not_effective by assumption. apply IH.
        exists pre, t, b, w, post. split; [reflexivity | exact F].
Qed.

Lemma update_semantics_char evs w log g ms :
  run w_init evs = (w, log) ->
  (lookup g (fc_cache (w_fc w)) = Some ms <->
   exists pre t b w1 post, log = pre ++ (UpdateEnd t g (FOk ms), OBool b, w1) :: post /\
                           Forall (fun x => ~ effective g x) post).
Proof. intros H. rewrite (update_semantics _ _ _ H). apply latest_char. Qed.

(* one step: Ok stores, NotFound drops, Err keeps; other groups untouched; Update's result is Ok-ness *)
Lemma update_end_step w t g a w1 o :
  step w (UpdateEnd t g a) = (w1, o) -> o <> ORefused ->
  o = OBool (is_ok a) /\
  w_dir w1 = DFill g a :: w_dir w /\
  lookup g (fc_cache (w_fc w1)) =
    match a with FOk ms => Some ms | FNotFound => None | FErr => lookup g (fc_cache (w_fc w)) end /\
  forall g', g' <> g -> lookup g' (fc_cache (w_fc w1)) = lookup g' (fc_cache (w_fc w)).
Proof.
  rewrite step_update_end. destruct (filling t g (fc_fillers (w_fc w))) eqn:Ef; intros H Hn.
  2:{ inversion H; subst. congruence. }
  inversion H; subst; clear H. simpl. unfold update_end. rewrite Ef. simpl.
  split; [reflexivity|]. split; [reflexivity|]. split.
  - destruct a; [apply lookup_store_same | apply lookup_remove_same | reflexivity].
  - intros g' Hne. destruct a; [apply lookup_store_other; exact Hne | apply lookup_remove_other; exact Hne | reflexivity].
Qed.

(* ------------------------------------------------------------------------------------------ *)
(* Partly cached questions fall back to the directory (one step; holds in every state)          *)

Definition uncached (w : world) (g : str) : Prop := lookup g (fc_cache (w_fc w)) = None.

Lemma scan_dir_true u gs s s' m d st :
  scan u gs s = (s', m, d, st) -> (exists g, In g gs /\ lookup g (fc_cache s) = None) -> d = true.
Proof.
  intros Hs (g & Hin & Hl). apply scan_spec in Hs as [_ ->]. apply existsb_exists.
  exists g. split; [exact Hin | rewrite Hl; reflexivity].
Qed.

Lemma scan_dir_false u gs s s' m d st :
  scan u gs s = (s', m, d, st) -> (forall g, In g gs -> lookup g (fc_cache s) <> None) -> d = false.
Proof.
  intros Hs Hall. apply scan_spec in Hs as [_ ->].
  destruct (existsb _ gs) eqn:E; [|reflexivity]. apply existsb_exists in E as (g & Hin & Hg).
  specialize (Hall g Hin). destruct (lookup g (fc_cache s)); [discriminate | congruence].
Qed.

Lemma google_partial_falls_back w u gs a :
  (exists g, In g gs /\ uncached w g) ->
  exists w1 st, step w (GoogleAsk u gs a) =
                (w1, OAns (match a with DOk r => Some r | DErr => None end) true st) /\
                w_dir w1 = DDirect u gs a :: w_dir w.
Proof.
  intros Hex. simpl. destruct gs as [|g0 gs]; [destruct Hex as (g & [] & _)|]. simpl is_nil. cbv iota.
  destruct (scan u (g0 :: gs) (w_fc w)) as [[[s m] d] st] eqn:Es.
  rewrite (scan_dir_true _ _ _ _ _ _ _ Es Hex). eexists. eexists. split; reflexivity.
Qed.

Lemma cognito_partial_falls_back w u gs a :
  u <> [] -> (exists g, In g gs /\ uncached w g) ->
  exists w1 st r, step w (CognitoAsk (Some u) gs a) = (w1, OAns r true st) /\
                  w_dir w1 = DDirect u gs a :: w_dir w /\
                  (a = DErr -> r = None) /\
                  (forall gr, a = DOk gr -> exists m, r = Some (m ++ filter (fun g => mem_str g gr) gs)).
Proof.
  intros Hu Hex. simpl. destruct gs as [|g0 gs]; [destruct Hex as (g & [] & _)|]. simpl is_nil. cbv iota.
  destruct u as [|c u]; [congruence|]. simpl is_nil. cbv iota.
  destruct (scan (c :: u) (g0 :: gs) (w_fc w)) as [[[s m] d] st] eqn:Es.
  rewrite (scan_dir_true _ _ _ _ _ _ _ Es Hex). do 3 eexists. split; [reflexivity|]. split; [reflexivity|].
  split; [intros ->; reflexivity | intros gr ->; exists m; reflexivity].
Qed.

(* and a fully cached question is answered from the member sets without asking *)
Lemma google_cached_no_directory w u gs a :
  gs <> [] -> (forall g, In g gs -> ~ uncached w g) ->
  exists w1 st, step w (GoogleAsk u gs a) =
     (w1, OAns (Some (filter (fun g => match lookup g (fc_cache (w_fc w)) with
                                        | Some ms => mem_str u ms | None => false end) gs)) false st) /\
     w_dir w1 = w_dir w.
Proof.
  intros Hne Hall. simpl. destruct gs as [|g0 gs]; [congruence|]. simpl is_nil. cbv iota.
  destruct (scan u (g0 :: gs) (w_fc w)) as [[[s m] d] st] eqn:Es.
  rewrite (scan_dir_false _ _ _ _ _ _ _ Es Hall). apply scan_spec in Es as [-> _].
  eexists. eexists. split; reflexivity.
Qed.

(* ------------------------------------------------------------------------------------------ *)
(* Single fill, single loop                                                                    *)

Lemma single_fill evs w log g :
  run w_init evs = (w, log) ->
  (length (fillers_of g (fc_fillers (w_fc w))) <= 1)%nat /\
  (count_begins g log = count_ends g log + length (fillers_of g (fc_fillers (w_fc w))))%nat.
Proof.
  intros H. pose proof (run_inv _ _ _ H) as I. split; [|apply (inv_balance _ _ I)].
  destruct (inv_fill _ _ I) as [_ Hc]. rewrite (Hc g). destruct (mem_str g (fc_inflight (w_fc w))); lia.
Qed.

(* trace form: in every prefix of every log, fills of g begun minus fills of g ended is 0 or 1 *)
Lemma single_fill_trace evs w log pre post g :
  run w_init evs = (w, log) -> log = pre ++ post ->
  (count_ends g pre <= count_begins g pre <= count_ends g pre + 1)%nat.
Proof.
  intros H E.
  assert (exists evs1 w0, run w_init evs1 = (w0, pre)) as (evs1 & w0 & H1).
  { destruct post as [|[[e o] w1] post].
    - rewrite app_nil_r in E. subst. eauto.
    - destruct (run_split _ _ _ _ _ _ _ _ _ H E) as (evs1 & _ & w0 & _ & B & _). eauto. }
  destruct (single_fill _ _ _ g H1) as [A B]. lia.
Qed.

(* two threads are never inside the fill function of the same group *)
Lemma single_fill_threads evs w log g t1 t2 :
  run w_init evs = (w, log) ->
  In (t1, g) (fc_fillers (w_fc w)) -> In (t2, g) (fc_fillers (w_fc w)) -> t1 = t2.
Proof.
  intros H H1 H2. destruct (single_fill _ _ _ g H) as [A _].
  assert (F1: In (t1, g) (fillers_of g (fc_fillers (w_fc w)))) by (apply filter_In; split; [exact H1 | apply str_eqb_refl]).
  assert (F2: In (t2, g) (fillers_of g (fc_fillers (w_fc w)))) by (apply filter_In; split; [exact H2 | apply str_eqb_refl]).
  destruct (fillers_of g (fc_fillers (w_fc w))) as [|p [|q l]].
  - destruct F1.
  - destruct F1 as [F1|[]], F2 as [F2|[]]. congruence.
  - simpl in A. lia.
Qed.

Lemma single_loop evs w log g :
  run w_init evs = (w, log) ->
  (count_str g (fc_loopthreads (w_fc w)) <= 1)%nat /\
  (count_str g (fc_loopthreads (w_fc w)) = 1%nat <-> mem_str g (fc_loops (w_fc w)) = true).
Proof.
  intros H. pose proof (inv_loop _ _ (run_inv _ _ _ H) g) as L. rewrite L.
  destruct (mem_str g (fc_loops (w_fc w))); split; try lia; split; intros; congruence.
Qed.

(* RefreshLoop says "started" only when no loop goroutine for the group is alive *)
Lemma loop_start_fresh evs w log pre g w1 post :
  run w_init evs = (w, log) -> log = pre ++ (LoopStart g, OBool true, w1) :: post ->
  exists w0, run w_init (map (fun x => fst (fst x)) pre) = (w0, pre) /\
             count_str g (fc_loopthreads (w_fc w0)) = 0%nat /\
             count_str g (fc_loopthreads (w_fc w1)) = 1%nat.
Proof.
  intros H E. destruct (run_split _ _ _ _ _ _ _ _ _ H E) as (evs1 & evs2 & w0 & A & B & C).
  exists w0. pose proof (run_events w_init evs1) as Ev. rewrite B in Ev. simpl in Ev. rewrite Ev.
  split; [exact B|]. pose proof (inv_loop _ _ (run_inv _ _ _ B) g) as L.
  simpl in C. unfold loop_start in C. destruct (mem_str g (fc_loops (w_fc w0))) eqn:Em; inversion C; subst.
  split; [exact L|]. simpl. rewrite str_eqb_refl, L. reflexivity.
Qed.

(* a loop goroutine only goes away after Stop *)
Lemma loop_exit_needs_stop w g w1 :
  step w (LoopExit g) = (w1, OUnit) -> fc_stopped (w_fc w) = true.
Proof.
  simpl. unfold loop_exit. destruct (fc_stopped (w_fc w)); [reflexivity|]. simpl. intros H. inversion H.
Qed.

(* a second concurrent Update of the same group returns false at once and calls nothing *)
Lemma concurrent_update_refused w t g :
  busy t (fc_fillers (w_fc w)) = false -> mem_str g (fc_inflight (w_fc w)) = true ->
  step w (UpdateBegin t g) = (w, OBool false).
Proof.
  intros Hb Hm. simpl. unfold update_begin. rewrite Hb, Hm. destruct w; reflexivity.
Qed.

(* ------------------------------------------------------------------------------------------ *)
(* Non-vacuity: one schedule with two users, permuted group lists, a failed refresh, a not-found,
   a refused concurrent Update, a refused second loop, a partly cached question               *)

Definition nv_alice : str := [97].  Definition nv_bob : str := [98].
Definition nv_g1 : str := [103; 49].  Definition nv_g2 : str := [103; 50].

Definition nv_evs : list event :=
  [ GoogleAsk nv_alice [nv_g1] (DOk [nv_g1]);           (* nothing cached: loop for g1 starts, directory asked *)
    UpdateBegin 1 nv_g1;                                (* the loop's first fill *)
    UpdateBegin 2 nv_g1;                                (* concurrent Update: refused *)
    LoopStart nv_g1;                                    (* second loop: refused *)
    UpdateEnd 1 nv_g1 (FOk [nv_alice]);
    GoogleAsk nv_alice [nv_g1] DErr;                    (* served from the cache, directory not asked *)
    GoogleAsk nv_bob [nv_g1] DErr;                      (* bob is not in alice's set *)
    GoogleAsk nv_alice [nv_g1; nv_g2] (DOk [nv_g1]);    (* partly cached: falls back *)
    UpdateBegin 3 nv_g1; UpdateEnd 3 nv_g1 FErr;        (* failed refresh keeps *)
    Get nv_g1;
    UpdateBegin 4 nv_g1; UpdateEnd 4 nv_g1 FNotFound;   (* not found drops *)
    Get nv_g1;
    GCAsk nv_alice nv_alice [nv_g2; nv_g1] (DOk [nv_g1]);
    GCAsk nv_alice nv_alice [nv_g1; nv_g2] DErr;        (* permuted question: hit *)
    GCAsk nv_bob nv_bob [nv_g1; nv_g2] (DOk []);        (* other user: miss *)
    Stop; LoopExit nv_g1 ].

Definition outputs (evs : list event) : list output := map (fun x => snd (fst x)) (snd (run w_init evs)).

Example nv_outputs :
  outputs nv_evs =
  [ OAns (Some [nv_g1]) true [nv_g1]; OBool true; OBool false; OBool false; OBool true;
    OAns (Some [nv_g1]) false []; OAns (Some []) false []; OAns (Some [nv_g1]) true [nv_g2];
    OBool true; OBool false; OGet (Some [nv_alice]);
    OBool true; OBool false; OGet None;
    OAns (Some [nv_g1]) true []; OAns (Some [nv_g1]) false []; OAns (Some []) true [];
    OUnit; OUnit ].
Proof. vm_compute. reflexivity. Qed.

Example nv_guards : Forall token_consistent nv_evs /\ Forall asks_ok nv_evs.
Proof.
  split; repeat constructor; simpl; try exact I; try reflexivity;
    try (intros [H|[H|[]]]; discriminate); try discriminate.
Qed.

(* ------------------------------------------------------------------------------------------ *)
(* the key does not depend on the order of the question (no guard)                             *)

Lemma str_leb_refl a : str_leb a a = true.
Proof. induction a as [|x a IH]; simpl; [reflexivity|]. rewrite N.ltb_irrefl, N.eqb_refl. exact IH. Qed.

Lemma str_leb_total a : forall b, str_leb a b = true \/ str_leb b a = true.
Proof.
  induction a as [|x a IH]; intros [|y b]; simpl; auto.
  destruct (N.ltb_spec x y); [left; reflexivity|].
  destruct (N.ltb_spec y x); [right; reflexivity|].
  assert (x = y) by lia. subst y. rewrite N.eqb_refl. apply IH.
Qed.

Lemma str_leb_antisym a : forall b, str_leb a b = true -> str_leb b a = true -> a = b.
Proof.
  induction a as [|x a IH]; intros [|y b]; simpl; try discriminate; [reflexivity|].
  destruct (N.ltb_spec x y), (N.ltb_spec y x); try lia.
  - destruct (N.eqb_spec y x); [lia | discriminate].
  - destruct (N.eqb_spec x y); [lia | discriminate].
  - destruct (N.eqb_spec x y); [|discriminate]. subst y. rewrite N.eqb_refl.
    intros H1 H2. f_equal. apply IH; assumption.
Qed.

Lemma str_leb_trans a : forall b c, str_leb a b = true -> str_leb b c = true -> str_leb a c = true.
Proof.
  induction a as [|x a IH]; intros [|y b] [|z c]; simpl; try discriminate; try reflexivity.
  destruct (N.ltb_spec x y).
  - intros _. destruct (N.ltb_spec y z).
    + intros _. destruct (N.ltb_spec x z); [reflexivity | lia].
    + destruct (N.eqb_spec y z); [|discriminate]. subst z. intros _.
      destruct (N.ltb_spec x y); [reflexivity | lia].
  - destruct (N.eqb_spec x y); [|discriminate]. subst y. intros H1.
    destruct (N.ltb_spec x z); [reflexivity|].
    destruct (N.eqb_spec x z); [|discriminate]. intros H2. eapply IH; eassumption.
Qed.

Definition leb_rel (a b : str) : Prop := str_leb a b = true.

Lemma insert_sorted_In x y l : In y (insert_sorted x l) -> y = x \/ In y l.
Proof.
  intros H. apply (Permutation_in _ (insert_sorted_perm x l)) in H. destruct H; auto.
Qed.

Lemma insert_sorted_sorted x l : StronglySorted leb_rel l -> StronglySorted leb_rel (insert_sorted x l).
Proof.
  induction 1 as [|y l Hs IH Hall]; simpl.
  - constructor; constructor.
  - destruct (str_leb x y) eqn:E.
    + constructor; [constructor; assumption|]. constructor; [exact E|].
      rewrite Forall_forall in *. intros z Hz. eapply str_leb_trans; [exact E | apply Hall; exact Hz].
    + constructor; [exact IH|]. rewrite Forall_forall in *. intros z Hz.
      apply insert_sorted_In in Hz as [->|Hz]; [|apply Hall; exact Hz].
      destruct (str_leb_total x y) as [H|H]; [congruence | exact H].
Qed.

Lemma sort_strs_sorted l : StronglySorted leb_rel (sort_strs l).
Proof. induction l as [|x l IH]; simpl; [constructor | apply insert_sorted_sorted; exact IH]. Qed.

Lemma sorted_perm_eq l1 : forall l2,
  StronglySorted leb_rel l1 -> StronglySorted leb_rel l2 -> Permutation l1 l2 -> l1 = l2.
Proof.
  induction l1 as [|x l1 IH]; intros l2 S1 S2 P.
  - apply Permutation_nil in P. congruence.
  - destruct l2 as [|y l2]; [apply Permutation_sym, Permutation_nil in P; discriminate|].
    inversion S1 as [|? ? S1' A1]; subst. inversion S2 as [|? ? S2' A2]; subst.
    assert (x = y).
    { rewrite Forall_forall in A1, A2.
      assert (Hy: In y (x :: l1)) by (eapply Permutation_in; [apply Permutation_sym; exact P | left; reflexivity]).
      assert (Hx: In x (y :: l2)) by (eapply Permutation_in; [exact P | left; reflexivity]).
      destruct Hy as [Hy|Hy]; [exact Hy|]. destruct Hx as [Hx|Hx]; [congruence|].
      apply str_leb_antisym; [apply A1; exact Hy | apply A2; exact Hx]. }
    subst y. f_equal. apply IH; [exact S1' | exact S2' | eapply Permutation_cons_inv; exact P].
Qed.

Lemma sort_strs_perm_eq l1 l2 : Permutation l1 l2 -> sort_strs l1 = sort_strs l2.
Proof.
  intros P. apply sorted_perm_eq; try apply sort_strs_sorted.
  eapply Permutation_trans; [apply sort_strs_perm|].
  eapply Permutation_trans; [exact P | apply Permutation_sym, sort_strs_perm].
Qed.

Lemma gc_key_order_insensitive u gs gs' : Permutation gs gs' -> gc_key u gs = gc_key u gs'.
Proof. intros P. unfold gc_key. rewrite (sort_strs_perm_eq _ _ P). reflexivity. Qed.

(* hence: after a miss that obtained an answer, the same user's question in any order hits and
   repeats exactly that answer without consulting the directory (until the entry is purged) *)
Lemma permuted_question_hits w u tu gs r w1 tu' gs' a' :
  step w (GCAsk u tu gs (DOk r)) = (w1, OAns (Some r) true []) -> Permutation gs gs' ->
  step w1 (GCAsk u tu' gs' a') = (w1, OAns (Some r) false []).
Proof.
  intros Hs P. simpl in Hs. simpl. rewrite <- (gc_key_order_insensitive u gs gs' P).
  destruct (klookup (gc_key u gs) (w_lc w)) as [r0|] eqn:Ek; [inversion Hs|].
  inversion Hs; subst; clear Hs. simpl. rewrite key_eqb_refl. reflexivity.
Qed.

(* Limits (DESIGN.md §6 C17): the purge goroutine of an EARLIER Set deletes a LATER entry for the
   same key early.  It only shortens caching; provenance and key soundness are unaffected. *)
Definition ep_k : key := gc_key nv_alice [nv_g1].
Definition ep_evs : list event :=
  [ GCAsk nv_alice nv_alice [nv_g1] (DOk [nv_g1]);   (* miss: stored, timer 1 scheduled *)
    LCPurge ep_k;
    GCAsk nv_alice nv_alice [nv_g1] (DOk []);        (* miss: stored again, timer 2 scheduled *)
    LCTimer ep_k;                                    (* timer 1 fires: deletes the second entry *)
    GCAsk nv_alice nv_alice [nv_g1] DErr;            (* miss although timer 2 is still pending *)
    LCTimer ep_k; LCTimer ep_k ].                    (* timer 2 fires; there is no third *)

Example early_purge :
  outputs ep_evs =
  [ OAns (Some [nv_g1]) true []; OUnit; OAns (Some []) true []; OUnit; OAns None true []; OUnit; ORefused ].
Proof. vm_compute. reflexivity. Qed.

(* ------------------------------------------------------------------------------------------ *)
(* Single loop, trace form: loops started minus loops exited, per group, is the number of live
   loop goroutines, hence 0 or 1 in every prefix of every log - however many callers race.      *)

Definition starts_of (g : str) (x : event * output * world) : nat :=
  match x with
  | (LoopStart g', OBool true, _) => if str_eqb g g' then 1%nat else 0%nat
  | (GoogleAsk _ _ _, OAns _ _ st, _) => count_str g st
  | (CognitoAsk _ _ _, OAns _ _ st, _) => count_str g st
  | _ => 0%nat
  end.
Definition exits_of (g : str) (x : event * output * world) : nat :=
  match x with
  | (LoopExit g', OUnit, _) => if str_eqb g g' then 1%nat else 0%nat
  | _ => 0%nat
  end.
Definition count_starts g (h : hist) : nat := fold_right (fun x n => (starts_of g x + n)%nat) 0%nat h.
Definition count_exits g (h : hist) : nat := fold_right (fun x n => (exits_of g x + n)%nat) 0%nat h.

Lemma count_starts_app g h1 h2 : count_starts g (h1 ++ h2) = (count_starts g h1 + count_starts g h2)%nat.
Proof. induction h1 as [|x h1 IH]; simpl; [reflexivity|]. rewrite IH. lia. Qed.
Lemma count_exits_app g h1 h2 : count_exits g (h1 ++ h2) = (count_exits g h1 + count_exits g h2)%nat.
Proof. induction h1 as [|x h1 IH]; simpl; [reflexivity|]. rewrite IH. lia. Qed.

Lemma scan_loopthreads u gs : forall s s' m d st, scan u gs s = (s', m, d, st) ->
  forall g, count_str g (fc_loopthreads s') = (count_str g st + count_str g (fc_loopthreads s))%nat.
Proof.
  induction gs as [|g0 gs IH]; intros s s' m d st H g; simpl in H.
  - inversion H; subst. reflexivity.
  - destruct (lookup g0 (fc_cache s)) as [ms|].
    + destruct (scan u gs s) as [[[s2 m2] d2] st2] eqn:Es. inversion H; subst. eapply IH; exact Es.
    + unfold loop_start in H. destruct (mem_str g0 (fc_loops s)) eqn:Em.
      * destruct (scan u gs s) as [[[s2 m2] d2] st2] eqn:Es. inversion H; subst. eapply IH; exact Es.
      * match type of H with context [scan u gs ?s1] => destruct (scan u gs s1) as [[[s2 m2] d2] st2] eqn:Es end.
        inversion H; subst. rewrite (IH _ _ _ _ _ Es g). simpl. destruct (str_eqb g g0); lia.
Qed.

Lemma loop_balance_step w e w1 o g :
  step w e = (w1, o) ->
  (count_str g (fc_loopthreads (w_fc w1)) + exits_of g (e, o, w1) =
   count_str g (fc_loopthreads (w_fc w)) + starts_of g (e, o, w1))%nat.
Proof.
  intros H. destruct e as [t g0|t g0 a|g0|g0| |g0|u gs a|prof gs a|u tu gs a|k|k|k].
  - simpl in H. unfold update_begin in H.
    destruct (busy t (fc_fillers (w_fc w))); [inversion H; subst; simpl; lia|].
    destruct (mem_str g0 (fc_inflight (w_fc w))); inversion H; subst; simpl; lia.
  - rewrite step_update_end in H. destruct (filling t g0 (fc_fillers (w_fc w))) eqn:Ef; inversion H; subst; simpl; [|lia].
    unfold update_end. rewrite Ef. simpl. lia.
  - simpl in H. unfold loop_start in H. destruct (mem_str g0 (fc_loops (w_fc w))); inversion H; subst; simpl; [lia|].
    destruct (str_eqb g g0); lia.
  - simpl in H. unfold loop_exit in H.
    destruct (fc_stopped (w_fc w) && mem_str g0 (fc_loopthreads (w_fc w))) eqn:Ec; inversion H; subst; simpl; [|lia].
    apply andb_true_iff in Ec as [_ Em]. apply mem_count_pos in Em.
    destruct (str_eqb g g0) eqn:E.
    + apply str_eqb_eq in E. subst g0. rewrite count_remove_one_same. lia.
    + apply str_eqb_neq in E. rewrite count_remove_one_other by exact E. lia.
  - simpl in H. unfold stop in H. destruct (fc_stopped (w_fc w)); inversion H; subst; simpl; lia.
  - simpl in H. inversion H; subst. simpl. lia.
  - simpl in H. destruct (is_nil gs); [inversion H; subst; simpl; lia|].
    destruct (scan u gs (w_fc w)) as [[[s m] d] st] eqn:Es.
    pose proof (scan_loopthreads _ _ _ _ _ _ _ Es g) as L.
    destruct d; inversion H; subst; simpl; lia.
  - simpl in H. destruct (is_nil gs); [inversion H; subst; simpl; lia|].
    destruct prof as [u|]; [|inversion H; subst; simpl; lia].
    destruct (is_nil u); [inversion H; subst; simpl; lia|].
    destruct (scan u gs (w_fc w)) as [[[s m] d] st] eqn:Es.
    pose proof (scan_loopthreads _ _ _ _ _ _ _ Es g) as L.
    destruct d; inversion H; subst; simpl; lia.
  - simpl in H. destruct (klookup (gc_key u gs) (w_lc w)); [inversion H; subst; simpl; lia|].
    destruct a; inversion H; subst; simpl; lia.
  - simpl in H. inversion H; subst. simpl. lia.
  - simpl in H. inversion H; subst. simpl. lia.
  - simpl in H. destruct (kmem k (w_timers w)); inversion H; subst; simpl; lia.
Qed.

Lemma loop_balance evs : forall w log g,
  run w_init evs = (w, log) ->
  count_starts g log = (count_exits g log + count_str g (fc_loopthreads (w_fc w)))%nat.
Proof.
  induction evs as [|e evs IH] using rev_ind; intros w log g H.
  - simpl in H. inversion H; subst. reflexivity.
  - rewrite run_app in H. destruct (run w_init evs) as [w1 l1] eqn:E1. simpl in H.
    destruct (step w1 e) as [w2 o] eqn:Es. inversion H; subst; clear H.
    rewrite count_starts_app, count_exits_app. unfold count_starts at 2, count_exits at 2. cbn [fold_right].
    pose proof (IH _ _ g eq_refl) as B. pose proof (loop_balance_step _ _ _ _ g Es) as S. lia.
Qed.

(* in every prefix of every log: 0 <= loops started - loops exited <= 1, per group *)
Lemma single_loop_trace evs w log pre post g :
  run w_init evs = (w, log) -> log = pre ++ post ->
  (count_exits g pre <= count_starts g pre <= count_exits g pre + 1)%nat.
Proof.
  intros H E.
  assert (exists evs1 w0, run w_init evs1 = (w0, pre)) as (evs1 & w0 & H1).
  { destruct post as [|[[e o] w1] post].
    - rewrite app_nil_r in E. subst. eauto.
    - destruct (run_split _ _ _ _ _ _ _ _ _ H E) as (evs1 & _ & w0 & _ & B & _). eauto. }
  pose proof (loop_balance _ _ _ g H1) as B. destruct (single_loop _ _ _ g H1) as [A _]. lia.
Qed.

(* in particular, before any loop has exited (no Stop yet), at most one RefreshLoop call - direct or
   from inside a membership question - ever answers "started" for a group *)
Lemma one_start_before_exit evs w log g :
  run w_init evs = (w, log) -> count_exits g log = 0%nat -> (count_starts g log <= 1)%nat.
Proof.
  intros H E. pose proof (single_loop_trace _ _ _ log [] g H) as T.
  rewrite app_nil_r in T. specialize (T eq_refl). lia.
Qed.
