(* Corr_C12_proofs.v — the monitor used by Corr_C12_defs.judge accepts the model's own prediction for
   every input that satisfies the guards of C12_signed_is_received, and attributes the two known
   refutation witnesses to their findings. *)
From V Require Import Base Base_proofs CorrBase Signer Signer_proofs Gen_Signer Corr_C12_defs.

Lemma gen_lists_documented :
  signedHeaders = documented_covered /\ SignatureHeaders = documented_covered /\
  gen_cov = documented_covered /\ gen_covh = documented_covered.
Proof. repeat split; reflexivity. Qed.

(* what an upstream observes of a model request: the symbolic signature headers become headers *)
Definition obs_headers (r : request) : headers :=
  let h := r_headers r in
  let h := match r_sso_sig r with Some _ => hset sso_signature [[83;73;71]] h | None => h end in
  let h := match r_kid r with Some _ => hset kid_h [[75;73;68]] h | None => h end in
  match r_gap_sig r with Some _ => hset gap_signature [[77;65;67]] h | None => h end.
Definition to_obs (r : request) : obs_req :=
  {| o_method := r_method r; o_headers := obs_headers r; o_path := r_path r;
     o_rawquery := r_rawquery r; o_body := body_bytes r |}.

(* the case the model itself predicts for an input *)
Definition model_case (c : cfg) (ident : option identity) (r0 : request) (parsed : list (str * str)) : case :=
  let p := received gen_cov gen_covh c parsed ident loopback r0 in
  let recv := to_obs p in
  CFwd c ident r0 parsed (body_bytes r0) recv
       (canon_rsa gen_cov (of_obs recv)) (canon_hmac gen_covh (of_obs recv))
       (verify_rsa gen_cov (published_certs c) p) (kid_published (published_certs c) p)
       (match c_hmac c with Some k => verify_hmac gen_covh k p | None => 0 end).

Lemma sub_dc1 : forall k, In k dc -> In k all_protected.
Proof. intros k H. unfold all_protected. apply in_or_app. left; exact H. Qed.
Lemma sub_dc2 : forall k, In k sig_headers -> In k all_protected.
Proof. intros k H. unfold all_protected. apply in_or_app. right. apply in_or_app. right; exact H. Qed.

Theorem monitor_accepts_model c parsed ident r0 b :
  bare_target c = true -> has_prefix (r_path r0) [47] = true -> r_fragment r0 = [] -> r_body r0 = Some b ->
  conn_safe all_protected (r_headers (at_sign_time c parsed ident r0)) = true ->
  cl_canonical (at_sign_time c parsed ident r0) = true ->
  let p := received gen_cov gen_covh c parsed ident loopback r0 in
  let recv := to_obs p in
  holds_rsa c recv (canon_rsa gen_cov (of_obs recv)) (verify_rsa gen_cov (published_certs c) p)
            (kid_published (published_certs c) p) = true /\
  holds_hmac c recv (canon_hmac gen_covh (of_obs recv))
             (match c_hmac c with Some k => verify_hmac gen_covh k p | None => 0 end) = true /\
  holds_body (body_bytes r0) recv = true.
Proof.
  intros Hb Hp Hf Hbody Hconn Hcl p recv.
  destruct gen_lists_documented as (_&_&E1&E2).
  destruct documented_facts as (Hok&_&_&_).
  split; [|split].
  - unfold holds_rsa. destruct (c_signer c) as [sk|] eqn:Hs; [|reflexivity].
    unfold signing_on. destruct (c_skip c) eqn:Hk; [reflexivity|]. simpl.
    destruct (rsa_signature_verifies dc dc all_protected Hok Hok sub_dc1 sub_dc1 sub_dc2
                c parsed ident loopback r0 b Hb Hp Hf Hbody Hconn Hcl sk Hk Hs) as (V1&V2&V3).
    unfold p. rewrite E1, E2. fold dc. rewrite V1. unfold kid_published. rewrite V2, V3.
    simpl. apply str_eqb_refl.
  - unfold holds_hmac. destruct (c_hmac c) as [k|] eqn:Hs; [|reflexivity].
    unfold signing_on. destruct (c_skip c) eqn:Hk; [reflexivity|]. simpl.
    pose proof (hmac_signature_verifies dc dc all_protected Hok sub_dc1 sub_dc2
                c parsed ident loopback r0 b Hb Hp Hf Hbody Hconn Hcl k Hk Hs) as V.
    unfold p. rewrite E1, E2. fold dc. rewrite V. simpl. apply str_eqb_refl.
  - unfold holds_body, recv, to_obs, p. cbn [o_body]. unfold body_bytes at 2.
    rewrite body_intact. apply str_eqb_refl.
Qed.

(* the guards are satisfiable, and the judge returns 0 on the model's prediction there;
   on the two refutation witnesses it attributes the falsified clause to K1 resp. K2 *)
Example judge_model_post : judge (model_case ex_cfg ex_ident ex_post ex_parsed) = 0.
Proof. vm_compute. reflexivity. Qed.
Example judge_model_hop : judge (model_case ex_cfg ex_ident ex_hop []) = 101.
Proof. vm_compute. reflexivity. Qed.
Example judge_model_hop_sig : judge (model_case ex_cfg ex_ident ex_hop_sig []) = 101.
Proof. vm_compute. reflexivity. Qed.
Example judge_model_cl0 : judge (model_case ex_cfg ex_ident ex_cl0 []) = 102.
Proof. vm_compute. reflexivity. Qed.
