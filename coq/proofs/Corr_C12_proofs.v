(* Corr_C12_proofs.v — the documented rule for the HMAC key and the code's rule coincide for every
   world; the monitor used by Corr_C12_defs.judge accepts the model's own prediction for every input
   that satisfies the guards of C12_signed_is_received, and attributes the refutation witnesses to
   their findings. *)
From V Require Import Base Base_proofs CorrBase Signer Signer_proofs Gen_Signer Corr_C12_defs.

Lemma gen_lists_documented :
  signedHeaders = documented_covered /\ SignatureHeaders = documented_covered /\
  gen_cov = documented_covered /\ gen_covh = documented_covered.
Proof. repeat split; reflexivity. Qed.

(* ---- the documented reading of `algorithm:secret` is the code's (generateHmacAuth) ---- *)
Lemma split_cut spec :
  split_on 58 spec = match cut_colon spec with None => [spec] | Some (a, rest) => a :: split_on 58 rest end.
Proof.
  induction spec as [|c s IH]; [reflexivity|].
  simpl. destruct (N.eqb c 58); [reflexivity|].
  rewrite IH. destruct (cut_colon s) as [[a rest]|]; reflexivity.
Qed.

Lemma split_has_colon s : existsb (N.eqb 58) s = true -> exists x y l, split_on 58 s = x :: y :: l.
Proof.
  induction s as [|c s IH]; cbn [existsb split_on]; [discriminate|].
  rewrite (N.eqb_sym 58 c). destruct (N.eqb c 58) eqn:E.
  - intros _. destruct (split_on 58 s) as [|y l] eqn:S; [exfalso; exact (split_on_nonnil 58 s S)|].
    exists [], y, l. reflexivity.
  - rewrite orb_false_l. intros H. destruct (IH H) as (x & y & l & ->). exists (c :: x), y, l. reflexivity.
Qed.

Lemma split_no_colon s : existsb (N.eqb 58) s = false -> split_on 58 s = [s].
Proof.
  intros H. apply split_on_none. intros Hin.
  assert (X : existsb (N.eqb 58) s = true) by (apply existsb_exists; exists 58; split; [exact Hin | apply N.eqb_refl]).
  congruence.
Qed.

Definition doc_parse (algs : list str) (spec : str) : hmac_config :=
  match cut_colon spec with
  | Some (a, secret) => if existsb (N.eqb 58) secret then HmacConfigError
                        else if mem_str a algs then HmacOn secret else HmacConfigError
  | None => HmacConfigError
  end.

Lemma doc_parse_is_generate algs spec : doc_parse algs spec = generate_hmac algs spec.
Proof.
  unfold doc_parse, generate_hmac. rewrite split_cut.
  destruct (cut_colon spec) as [[a rest]|]; [|reflexivity].
  destruct (existsb (N.eqb 58) rest) eqn:E.
  - destruct (split_has_colon rest E) as (x & y & l & ->). reflexivity.
  - rewrite (split_no_colon rest E). reflexivity.
Qed.

(* ---- and the documented variable is the one the code looks up, for every service name
        (only for lower-case names before /repo c723740) ---- *)
Theorem doc_hmac_agrees (w : world) :
  doc_hmac w = hmac_of_config (w_algs w) (w_service w) (w_environ w).
Proof.
  unfold doc_hmac, hmac_of_config.
  rewrite lower_ascii_app. change (lower_ascii signing_key_suffix) with signing_key_suffix.
  generalize (lower_ascii (clean_ws (w_service w)) ++ signing_key_suffix). intros name.
  induction (w_environ w) as [|[k v] t IH]; [reflexivity|].
  simpl. destruct (str_eqb (lower_ascii k) name); [|exact IH].
  exact (doc_parse_is_generate (w_algs w) v).
Qed.

(* the former witness of C12-K3: a service name with upper-case letters and the documented variable *)
Definition ex_world_k3 : world :=
  {| w_signer := Some 1; w_algs := [s_sha256]; w_service := s_mysvc;
     w_environ := [(upper_ascii (clean_ws s_mysvc ++ signing_key_suffix), s_sha256 ++ 58 :: s_x)];
     w_skip := false; w_inject := []; w_cookie_name := s_cookie_name; w_thost := s_backend |}.
Lemma doc_hmac_case_witness :
  doc_hmac ex_world_k3 = HmacOn s_x /\
  hmac_of_config (w_algs ex_world_k3) (w_service ex_world_k3) (w_environ ex_world_k3) = HmacOn s_x.
Proof. split; vm_compute; reflexivity. Qed.

(* ---- what an upstream observes of a model request: the symbolic signature headers become headers ---- *)
Definition obs_headers (r : request) : headers :=
  let h := r_headers r in
  let h := match r_sso_sig r with Some _ => hset sso_signature [[83;73;71]] h | None => h end in
  let h := match r_kid r with Some _ => hset kid_h [[75;73;68]] h | None => h end in
  match r_gap_sig r with Some _ => hset gap_signature [[77;65;67]] h | None => h end.
Definition to_obs (r : request) : obs_req :=
  {| o_proto := upstream_proto; o_method := r_method r; o_headers := obs_headers r; o_path := r_path r;
     o_rawquery := r_rawquery r; o_body := body_bytes r |}.

(* the verdict the model predicts for an upstream that verifies with the documented secret *)
Definition model_v_hmac (w : world) (p : request) : N :=
  match doc_hmac w with HmacOn s => verify_hmac gen_covh s p | _ => verify_hmac gen_covh [] p end.
Definition doc_key (w : world) : str := match doc_hmac w with HmacOn s => s | _ => [] end.

(* the case the model itself predicts for an input *)
Definition model_case (w : world) (ident : option identity) (r0 : request) (parsed : list (str * str)) : case :=
  let c := cfg_of_world w in
  let p := received gen_cov gen_covh c parsed ident loopback r0 in
  let recv := to_obs p in
  CFwd w (doc_key w) ident r0 parsed (body_bytes r0) recv
       (canon_rsa gen_cov (of_obs recv)) (canon_hmac gen_covh (of_obs recv))
       (verify_rsa gen_cov (published_certs c) p) (kid_published (published_certs c) p)
       (model_v_hmac w p).

Lemma sub_dc1 : forall k, In k dc -> In k all_protected.
Proof. intros k H. unfold all_protected. apply in_or_app. left; exact H. Qed.
Lemma sub_dc2 : forall k, In k sig_headers -> In k all_protected.
Proof. intros k H. unfold all_protected. apply in_or_app. right. apply in_or_app. right; exact H. Qed.

Theorem monitor_accepts_model w parsed ident r0 b :
  let c := cfg_of_world w in
  has_prefix (r_path r0) [47] = true -> r_fragment r0 = [] -> r_body r0 = Some b ->
  conn_safe all_protected (r_headers (at_sign_time c parsed ident r0)) = true ->
  cl_canonical (at_sign_time c parsed ident r0) = true ->
  let p := received gen_cov gen_covh c parsed ident loopback r0 in
  let recv := to_obs p in
  holds_rsa c recv (canon_rsa gen_cov (of_obs recv)) (verify_rsa gen_cov (published_certs c) p)
            (kid_published (published_certs c) p) = true /\
  holds_hmac w recv (canon_hmac gen_covh (of_obs recv)) (model_v_hmac w p) = true /\
  holds_body (body_bytes r0) recv = true.
Proof.
  intros c Hp Hf Hbody Hconn Hcl p recv.
  assert (Hb : bare_target c = true) by reflexivity.
  destruct gen_lists_documented as (_&_&E1&E2).
  destruct documented_facts as (Hok&_&_&_).
  split; [|split].
  - unfold holds_rsa. destruct (c_signer c) as [sk|] eqn:Hs; [|reflexivity].
    unfold signing_on. destruct (c_skip c) eqn:Hk; [reflexivity|]. simpl.
    destruct (rsa_signature_verifies dc dc all_protected Hok Hok sub_dc1 sub_dc1 sub_dc2
                c parsed ident loopback r0 b Hb Hp Hf Hbody Hconn Hcl sk Hk Hs) as (V1&V2&V3).
    unfold p. rewrite E1, E2. fold dc. rewrite V1. unfold kid_published. rewrite V2, V3.
    simpl. apply str_eqb_refl.
  - unfold holds_hmac, model_v_hmac. pose proof (doc_hmac_agrees w) as Hd.
    destruct (doc_hmac w) as [|k|] eqn:Hdoc; try reflexivity.
    destruct (w_skip w) eqn:Hk; [reflexivity|]. simpl.
    assert (Hh : c_hmac c = Some k) by (unfold c, cfg_of_world; cbn [c_hmac]; rewrite <- Hd; reflexivity).
    pose proof (hmac_signature_verifies dc dc all_protected Hok sub_dc1 sub_dc2
                c parsed ident loopback r0 b Hb Hp Hf Hbody Hconn Hcl k Hk Hh) as V.
    unfold p. rewrite E1, E2. fold dc. rewrite V. simpl. apply str_eqb_refl.
  - unfold holds_body, recv, to_obs, p. cbn [o_body]. unfold body_bytes at 2.
    rewrite body_intact. apply str_eqb_refl.
Qed.

(* the guards are satisfiable, and the judge returns 0 on the model's prediction there (also with
   inject_request_headers naming covered headers); on the refutation witnesses it attributes the
   falsified clause to K1, K2; the former K3 witness is judged 0 since /repo c723740 *)
Definition s_svc : str := [115;118;99]. (* "svc" *)
Definition ex_world : world :=
  {| w_signer := Some 1; w_algs := [s_sha256]; w_service := s_svc;
     w_environ := [(upper_ascii (s_svc ++ signing_key_suffix), s_sha256 ++ 58 :: [107;101;121])];
     w_skip := false; w_inject := []; w_cookie_name := s_cookie_name; w_thost := s_backend |}.
Definition ex_world_inject : world :=
  {| w_signer := Some 1; w_algs := [s_sha256]; w_service := s_svc;
     w_environ := [(upper_ascii (s_svc ++ signing_key_suffix), s_sha256 ++ 58 :: [75;101;89])];
     w_skip := false;
     w_inject := [(lower_ascii authorization, s_bearer); (x_forwarded_user, s_x); (cookie_h, [105;61;49])];
     w_cookie_name := s_cookie_name; w_thost := s_backend |}.

Example ex_world_cfg : cfg_of_world ex_world = ex_cfg.
Proof. vm_compute. reflexivity. Qed.
Example judge_model_post : judge (model_case ex_world ex_ident ex_post ex_parsed) = 0.
Proof. vm_compute. reflexivity. Qed.
Example judge_model_inject :
  judge (model_case ex_world_inject ex_ident ex_post [([105], [105;61;49])]) = 0 /\
  hvals authorization (r_headers (at_sign_time (cfg_of_world ex_world_inject) [([105], [105;61;49])] ex_ident ex_post)) = [s_bearer] /\
  hvals x_forwarded_user (r_headers (at_sign_time (cfg_of_world ex_world_inject) [([105], [105;61;49])] ex_ident ex_post)) = [s_bob].
Proof. vm_compute. repeat split; reflexivity. Qed.
Example judge_model_hop : judge (model_case ex_world ex_ident ex_hop []) = 101.
Proof. vm_compute. reflexivity. Qed.
Example judge_model_hop_sig : judge (model_case ex_world ex_ident ex_hop_sig []) = 101.
Proof. vm_compute. reflexivity. Qed.
Example judge_model_cl0 : judge (model_case ex_world ex_ident ex_cl0 []) = 102.
Proof. vm_compute. reflexivity. Qed.
(* two signatures at once are attributed to the smallest explaining finding; a harmless K1 shape does not
   steal the attribution from K2; a harmless K1 shape alone is no finding at all *)
Example judge_model_both : judge (model_case ex_world ex_ident ex_both []) = 101.
Proof. vm_compute. reflexivity. Qed.
Example judge_model_harmless_k1_k2 : judge (model_case ex_world ex_ident ex_harmless_k1_k2 []) = 102.
Proof. vm_compute. reflexivity. Qed.
Example judge_model_harmless_k1 :
  judge (model_case ex_world ex_ident (mk_req s_get [(connection, [content_md5])] s_k1 [] (Some [])) []) = 0.
Proof. vm_compute. reflexivity. Qed.
Example judge_model_k3 : judge (model_case ex_world_k3 ex_ident ex_post ex_parsed) = 0.
Proof. vm_compute. reflexivity. Qed.
Example judge_cfg : judge (CCfg ex_world false) = 0 /\ judge (CCfg ex_world_k3 false) = 0.
Proof. vm_compute. split; reflexivity. Qed.
