(* IdToken_b64_proofs.v — what the model's base64 decoder (theories/IdToken.v: b64_go, after Go's
   Encoding.Decode for base64.URLEncoding) accepts is what an identity provider produces: decoding
   the RFC 4648 §5 encoding of any byte string, padded or (as JWTs are) unpadded and then
   '='-padded by jwtDecodeSegment, gives the byte string back. *)
From V Require Import Base Base_proofs IdToken IdToken_proofs.
From Coq Require Import ZifyN ZifyNat ZifyBool.

Ltac Zify.zify_post_hook ::= Z.div_mod_to_equations.

(* RFC 4648 §5 "URL and filename safe" alphabet *)
Definition b64char (v : N) : N :=
  if v <? 26 then v + 65 else if v <? 52 then v + 71 else if v <? 62 then v - 4
  else if v =? 62 then 45 else 95.

(* the encoder an IdP runs: three bytes to four characters; [pad] = whether '=' is appended *)
Fixpoint b64url_encode (pad : bool) (b : str) : str :=
  match b with
  | x :: y :: z :: r =>
      b64char (x / 4) :: b64char ((x mod 4) * 16 + y / 16) ::
      b64char ((y mod 16) * 4 + z / 64) :: b64char (z mod 64) :: b64url_encode pad r
  | [x; y] =>
      [b64char (x / 4); b64char ((x mod 4) * 16 + y / 16); b64char ((y mod 16) * 4)] ++
      (if pad then [eq_sign] else [])
  | [x] => [b64char (x / 4); b64char ((x mod 4) * 16)] ++ (if pad then [eq_sign; eq_sign] else [])
  | [] => []
  end.

Definition is_bytes (b : str) : Prop := Forall (fun c => c < 256) b.

Lemma sextet_b64char_table :
  forallb (fun n => match sextet (b64char (N.of_nat n)) with
                    | Some w => w =? N.of_nat n
                    | None => false
                    end) (seq 0 64) = true.
Proof. vm_compute. reflexivity. Qed.

Lemma sextet_b64char v : v < 64 -> sextet (b64char v) = Some v.
Proof.
  intros H. pose proof sextet_b64char_table as T. rewrite forallb_forall in T.
  specialize (T (N.to_nat v)). rewrite N2Nat.id in T.
  assert (I : In (N.to_nat v) (seq 0 64)) by (apply in_seq; lia).
  specialize (T I). destruct (sextet (b64char v)) as [w|]; [|discriminate].
  apply N.eqb_eq in T. congruence.
Qed.

Lemma triple_ind (P : str -> Prop) :
  P [] -> (forall x, P [x]) -> (forall x y, P [x; y]) ->
  (forall x y z r, P r -> P (x :: y :: z :: r)) -> forall l, P l.
Proof.
  intros H0 H1 H2 H3.
  assert (A : forall l, P l /\ (forall x, P (x :: l)) /\ (forall x y, P (x :: y :: l))).
  { induction l as [|a l (IH0 & IH1 & IH2)]; [auto|].
    split; [apply IH1|]. split; [intros x; apply IH2|]. intros x y. apply H3. exact IH0. }
  intros l. apply A.
Qed.

Lemma quantum4 c1 c2 c3 c4 v1 v2 v3 v4 rest :
  sextet c1 = Some v1 -> sextet c2 = Some v2 -> sextet c3 = Some v3 -> sextet c4 = Some v4 ->
  b64_go (c1 :: c2 :: c3 :: c4 :: rest) [] = option_map (app (emit [v1; v2; v3; v4])) (b64_go rest []).
Proof. intros H1 H2 H3 H4. cbn [b64_go app]. rewrite H1. cbn [app]. rewrite H2. cbn [app]. rewrite H3. cbn [app]. rewrite H4. reflexivity. Qed.

Lemma step0 c s v : sextet c = Some v -> b64_go (c :: s) [] = b64_go s [v].
Proof. intros H. cbn [b64_go]. rewrite H. reflexivity. Qed.
Lemma step1 c s v a : sextet c = Some v -> b64_go (c :: s) [a] = b64_go s [a; v].
Proof. intros H. cbn [b64_go]. rewrite H. reflexivity. Qed.
Lemma step2 c s v a b : sextet c = Some v -> b64_go (c :: s) [a; b] = b64_go s [a; b; v].
Proof. intros H. cbn [b64_go]. rewrite H. reflexivity. Qed.
Lemma pad_two a b : b64_go [eq_sign; eq_sign] [a; b] = Some (emit [a; b]).
Proof. reflexivity. Qed.
Lemma pad_one a b c : b64_go [eq_sign] [a; b; c] = Some (emit [a; b; c]).
Proof. reflexivity. Qed.

Lemma emit3 x y z : x < 256 -> y < 256 -> z < 256 ->
  emit [x / 4; (x mod 4) * 16 + y / 16; (y mod 16) * 4 + z / 64; z mod 64] = [x; y; z].
Proof. intros Hx Hy Hz. unfold emit. f_equal; [|f_equal; [|f_equal]]; lia. Qed.

Lemma emit2 x y : x < 256 -> y < 256 ->
  emit [x / 4; (x mod 4) * 16 + y / 16; (y mod 16) * 4] = [x; y].
Proof. intros Hx Hy. unfold emit. f_equal; [|f_equal]; lia. Qed.

Lemma emit1 x : x < 256 -> emit [x / 4; (x mod 4) * 16] = [x].
Proof. intros Hx. unfold emit. f_equal. lia. Qed.

(* decoding the padded encoding gives the bytes back *)
Theorem b64url_decode_encode b : is_bytes b -> b64url_decode (b64url_encode true b) = Some b.
Proof.
  unfold b64url_decode, is_bytes. induction b as [| x | x y | x y z r IH] using triple_ind; intros H.
  - reflexivity.
  - inversion H as [|? ? Hx _]; subst.
    assert (S1 : sextet (b64char (x / 4)) = Some (x / 4)) by (apply sextet_b64char; lia).
    assert (S2 : sextet (b64char ((x mod 4) * 16)) = Some ((x mod 4) * 16)) by (apply sextet_b64char; lia).
    cbn [b64url_encode app]. rewrite (step0 _ _ _ S1), (step1 _ _ _ _ S2), pad_two, (emit1 x Hx). reflexivity.
  - inversion H as [|? ? Hx H']; subst. inversion H' as [|? ? Hy _]; subst.
    assert (S1 : sextet (b64char (x / 4)) = Some (x / 4)) by (apply sextet_b64char; lia).
    assert (S2 : sextet (b64char ((x mod 4) * 16 + y / 16)) = Some ((x mod 4) * 16 + y / 16)) by (apply sextet_b64char; lia).
    assert (S3 : sextet (b64char ((y mod 16) * 4)) = Some ((y mod 16) * 4)) by (apply sextet_b64char; lia).
    cbn [b64url_encode app]. rewrite (step0 _ _ _ S1), (step1 _ _ _ _ S2), (step2 _ _ _ _ _ S3), pad_one, (emit2 x y Hx Hy). reflexivity.
  - inversion H as [|? ? Hx H1]; subst. inversion H1 as [|? ? Hy H2]; subst. inversion H2 as [|? ? Hz H3]; subst.
    cbn [b64url_encode].
    rewrite (quantum4 _ _ _ _ (x / 4) ((x mod 4) * 16 + y / 16) ((y mod 16) * 4 + z / 64) (z mod 64));
      try (apply sextet_b64char; lia).
    rewrite (IH H3), (emit3 x y z Hx Hy Hz). reflexivity.
Qed.

Lemma mod4_SSSS n : Nat.modulo (S (S (S (S n)))) 4 = Nat.modulo n 4.
Proof. replace (S (S (S (S n)))) with (n + 1 * 4)%nat by lia. apply Nat.mod_add. discriminate. Qed.

Lemma pad4_quantum a b c d s : pad4 (a :: b :: c :: d :: s) = a :: b :: c :: d :: pad4 s.
Proof.
  unfold pad4. cbn [length]. rewrite mod4_SSSS.
  destruct (Nat.modulo (length s) 4); reflexivity.
Qed.

(* jwtDecodeSegment's '='-padding turns the unpadded encoding into the padded one, and leaves the
   padded one alone *)
Lemma pad4_encode_raw b : pad4 (b64url_encode false b) = b64url_encode true b.
Proof.
  induction b as [| x | x y | x y z r IH] using triple_ind; try reflexivity.
  cbn [b64url_encode]. rewrite pad4_quantum, IH. reflexivity.
Qed.

Lemma pad4_encode_padded b : pad4 (b64url_encode true b) = b64url_encode true b.
Proof.
  induction b as [| x | x y | x y z r IH] using triple_ind; try reflexivity.
  cbn [b64url_encode]. rewrite pad4_quantum, IH. reflexivity.
Qed.

(* so a payload segment, as any IdP writes it, decodes to the payload *)
Theorem jwt_decode_segment_encode pad b :
  is_bytes b -> jwt_decode_segment (b64url_encode pad b) = Some b.
Proof.
  intros H. unfold jwt_decode_segment. destruct pad.
  - rewrite pad4_encode_padded. apply b64url_decode_encode. exact H.
  - rewrite pad4_encode_raw. apply b64url_decode_encode. exact H.
Qed.

(* consequence for the Google path: a three-part token whose middle part is the encoding of a
   payload the decoder classifies as {email: e (non-empty), email_verified: true} is accepted with
   exactly that e-mail, whatever the other two parts are (no '.' inside the encoding) *)
Lemma b64char_not_dot v : v < 64 -> b64char v <> dot.
Proof.
  intros H E. pose proof (sextet_b64char v H) as S. rewrite E in S. discriminate.
Qed.

Lemma encode_no_dot pad b : is_bytes b -> ~ In dot (b64url_encode pad b).
Proof.
  unfold is_bytes. induction b as [| x | x y | x y z r IH] using triple_ind; intros H Hin.
  - exact Hin.
  - inversion H as [|? ? Hx _]; subst. cbn [b64url_encode app] in Hin.
    destruct Hin as [E|[E|Hin]]; [eapply b64char_not_dot; [|exact E]; lia | eapply b64char_not_dot; [|exact E]; lia |].
    destruct pad; simpl in Hin; intuition discriminate.
  - inversion H as [|? ? Hx H']; subst. inversion H' as [|? ? Hy _]; subst. cbn [b64url_encode app] in Hin.
    destruct Hin as [E|[E|[E|Hin]]]; try (eapply b64char_not_dot; [|exact E]; lia).
    destruct pad; simpl in Hin; intuition discriminate.
  - inversion H as [|? ? Hx H1]; subst. inversion H1 as [|? ? Hy H2]; subst. inversion H2 as [|? ? Hz H3]; subst.
    cbn [b64url_encode] in Hin.
    destruct Hin as [E|[E|[E|[E|Hin]]]]; try (eapply b64char_not_dot; [|exact E]; lia).
    exact (IH H3 Hin).
Qed.

Lemma split_on_app_sep sep a b : ~ In sep a -> split_on sep (a ++ sep :: b) = a :: split_on sep b.
Proof.
  induction a as [|c a IH]; intros H; cbn [app split_on].
  - rewrite N.eqb_refl. reflexivity.
  - destruct (N.eqb c sep) eqn:E; [apply N.eqb_eq in E; exfalso; apply H; left; congruence|].
    rewrite IH; [reflexivity | intros Hin; apply H; right; exact Hin].
Qed.

Theorem google_accepts_wellformed lc oracle pad header payload sig email uf :
  ~ In dot header -> is_bytes payload ->
  oracle payload = Json uf -> f_email uf = JStr email -> email <> [] -> f_verified uf = JBool true ->
  email_from_id_token lc oracle (header ++ dot :: b64url_encode pad payload ++ dot :: sig) = EOk email.
Proof.
  intros Hh Hp Ho He Hne Hv. apply email_from_id_token_ok.
  exists (b64url_encode pad payload), payload, uf.
  split.
  - rewrite (split_on_app_sep dot header _ Hh).
    rewrite (split_on_app_sep dot _ sig (encode_no_dot pad payload Hp)). reflexivity.
  - split; [exact (jwt_decode_segment_encode pad payload Hp)|]. auto.
Qed.
