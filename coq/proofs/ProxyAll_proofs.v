(* ProxyAll_proofs.v — end-to-end theorems about the integration model (theories/ProxyAll.v), obtained by
   COMPOSING the per-property theorems through the adapters of ProxyAll.v:

     routing            Hostmux_proofs.route_of_spec                      (C13)
     mediation          ProxyCore_proofs.proxy_forward_sound, authenticate_sound, authenticate_saved_preserves  (C01)
     identity, cookie   ReqHeaders_proofs.auth_user/auth_email/auth_groups, scrub_get, delete_cookie_lines, kept_names (C03)
     signatures         Signer_proofs.sign_same, director_same, rp_edits_same, wire_same, sig_not_gone ...        (C12)
     hardening          RespHeaders_gen_proofs.three_headers_repaired, hsts_repaired                              (C18)
     callback           Callback.oauth_callback (decision), Validators.login_gate                                 (C06/C11)
     clean paths        ReqUri_proofs.clean_path_head                                                             (C06)

   Part 1: adapters are faithful.  Part 2: structure of [serve].  Part 3: composite theorems.
   Part 4: histories (isolation end to end).  Part 5: a concrete deployment (non-vacuity). *)
From V Require Import Base Base_proofs Validators ProxyAll.
From V Require ProxyCore ProxyCore_proofs ProxyWorld Hostmux Hostmux_proofs ReqHeaders ReqHeaders_proofs
  Signer Signer_proofs Signer_gen_proofs Gen_Signer Gen_Headers RespHeaders RespHeaders_proofs RespHeaders_gen_proofs
  Callback Callback_proofs ReqUri ReqUri_proofs.
From Coq Require Import ZifyBool.

(* ================================================================================================ *)
(* Part 1 — the adapters are faithful *)

Lemma find_map {A B} (f : B -> bool) (g : A -> B) (l : list A) :
  find f (map g l) = option_map g (find (fun x => f (g x)) l).
Proof. induction l as [|x l IH]; simpl; [reflexivity|]. destruct (f (g x)); [reflexivity | exact IH]. Qed.

Lemma find_some_in {A} (f : A -> bool) l x : find f l = Some x -> In x l /\ f x = true.
Proof.
  induction l as [|y l IH]; simpl; [discriminate|]. destruct (f y) eqn:E.
  - intros H; inversion H; subst. auto.
  - intros H. destruct (IH H). auto.
Qed.

Section Adapters.
Variable re_match : str -> str -> bool.
Variable re_replace : str -> str -> str -> str.

(* routing over the extended records IS Hostmux's routing of the underlying upstream list *)
Theorem route_ext_faithful ups h :
  Hostmux.route_of re_match (map up_hm ups) h =
  match route_ext re_match ups h with Some u => Hostmux.RUp (up_hm u) | None => Hostmux.RDefault end.
Proof.
  rewrite Hostmux_proofs.route_of_spec. rewrite <- map_rev, !find_map. unfold route_ext, simple_for, rw_match.
  destruct (find (fun x => Hostmux.is_simple_for h (up_hm x)) (rev ups)); [reflexivity|]. cbn.
  destruct (find (fun x => Hostmux.is_rw_match re_match h (up_hm x)) ups); reflexivity.
Qed.

Lemma route_ext_in ups h u : route_ext re_match ups h = Some u -> In u ups.
Proof.
  unfold route_ext. destruct (find (simple_for h) (rev ups)) as [u0|] eqn:E.
  - intros H; inversion H; subst. apply find_some_in in E as [E _]. apply in_rev. exact E.
  - intros H. apply find_some_in in H as [H _]. exact H.
Qed.

(* the characterisation of C13_route_sound carried over to the extended records *)
Lemma route_ext_sound ups h u : route_ext re_match ups h = Some u ->
  simple_for h u = true \/ ((forall u', In u' ups -> simple_for h u' = false) /\ rw_match re_match h u = true).
Proof.
  unfold route_ext. destruct (find (simple_for h) (rev ups)) as [u0|] eqn:E.
  - intros H; inversion H; subst. left. apply find_some_in in E. tauto.
  - intros H. right. split.
    + intros u' Hin. apply (proj1 (Hostmux_proofs.find_none_iff _ _) E). apply in_rev in Hin. exact Hin.
    + apply find_some_in in H. tauto.
Qed.
End Adapters.

(* ---- ReqHeaders' header map seen as Signer's ---- *)
Lemma hfind_map_keys (f : str -> list str) ks k :
  Signer.hfind k (map (fun k' => (k', f k')) ks) = if mem_str k ks then Some (f k) else None.
Proof.
  induction ks as [|k0 ks IH]; simpl; [reflexivity|].
  destruct (str_eqb k0 k) eqn:E.
  - apply str_eqb_eq in E. subst k0. rewrite str_eqb_refl. reflexivity.
  - assert (E' : str_eqb k k0 = false). { apply str_eqb_neq. apply str_eqb_neq in E. congruence. }
    rewrite E'. exact IH.
Qed.

Lemma mem_filter_ne k k0 l : k <> k0 -> mem_str k (filter (fun k' => negb (str_eqb k' k0)) l) = mem_str k l.
Proof.
  intros Hne. induction l as [|x l IH]; simpl; [reflexivity|].
  destruct (str_eqb x k0) eqn:E; simpl.
  - apply str_eqb_eq in E. subst x. assert (E' : str_eqb k k0 = false) by (apply str_eqb_neq; exact Hne).
    rewrite E'. exact IH.
  - rewrite IH. reflexivity.
Qed.

Lemma mem_dedup k l : mem_str k (dedup l) = mem_str k l.
Proof.
  induction l as [|x l IH]; simpl; [reflexivity|].
  destruct (str_eqb k x) eqn:E; [reflexivity|]. simpl.
  rewrite mem_filter_ne by (apply str_eqb_neq; exact E). exact IH.
Qed.

Lemma h_get_absent k h : mem_str k (map fst h) = false -> ReqHeaders.h_get k h = [].
Proof.
  unfold ReqHeaders.h_get. induction h as [|[k0 v] h IH]; simpl; [reflexivity|].
  intros H. apply orb_false_iff in H as [H1 H2].
  assert (E : str_eqb k0 k = false). { apply str_eqb_neq. apply str_eqb_neq in H1. congruence. }
  rewrite E. apply IH. exact H2.
Qed.

(* h[k] is the same in both representations, for every key *)
Theorem to_signer_hvals k h : Signer.hvals k (to_signer_headers h) = ReqHeaders.h_get k h.
Proof.
  unfold Signer.hvals, to_signer_headers. rewrite hfind_map_keys, mem_dedup.
  destruct (mem_str k (map fst h)) eqn:E; [reflexivity|]. symmetry. apply h_get_absent. exact E.
Qed.

(* ... and so is presence of the key *)
Theorem to_signer_hfind k h :
  Signer.hfind k (to_signer_headers h) = if mem_str k (map fst h) then Some (ReqHeaders.h_get k h) else None.
Proof. unfold to_signer_headers. rewrite hfind_map_keys, mem_dedup. reflexivity. Qed.

(* the two spellings of header names / hop-by-hop tokens agree *)
Lemma keys_agree :
  Signer.x_forwarded_user = ReqHeaders.k_xfu /\ Signer.x_forwarded_email = ReqHeaders.k_xfe /\
  Signer.x_forwarded_groups = ReqHeaders.k_xfg /\ Signer.x_forwarded_access_token = ReqHeaders.k_xfat /\
  Signer.cookie_h = ReqHeaders.k_cookie /\ Signer.connection = ReqHeaders.k_connection /\
  Signer.identity_headers = ReqHeaders.identity_keys /\ Signer.hop_headers = ReqHeaders.hop_headers.
Proof. repeat split; reflexivity. Qed.

(* ================================================================================================ *)
(* Part 2 — what the backend receives, header by header *)

Lemma hvals_hdel_all_in k ks h : In k ks -> Signer.hvals k (Signer.hdel_all ks h) = [].
Proof.
  unfold Signer.hdel_all. revert h. induction ks as [|k0 ks IH]; intros h Hin; [destruct Hin|].
  simpl. destruct (str_eqb k k0) eqn:E.
  - apply str_eqb_eq in E. subst k0.
    destruct (in_dec (list_eq_dec N.eq_dec) k ks) as [Hi|Hn].
    + apply IH. exact Hi.
    + fold (Signer.hdel_all ks (Signer.hdel k h)). rewrite Signer_proofs.hvals_hdel_all by exact Hn.
      apply Signer_proofs.hvals_hdel_eq.
  - destruct Hin as [->|Hin]; [rewrite str_eqb_refl in E; discriminate|]. apply IH. exact Hin.
Qed.

(* keys the chain behind the signing handler writes on its own *)
Definition chain_written : list str :=
  [Signer.user_agent; Signer.x_forwarded_host; Signer.x_forwarded_for; Signer.te_h; Signer.upgrade_h;
   Signer.connection; Signer.content_length; Signer.sso_signature; Signer.kid_h; Signer.gap_signature].

Lemma sign_hvals cv cvh c r k :
  k <> Signer.sso_signature -> k <> Signer.kid_h -> k <> Signer.gap_signature ->
  Signer.hvals k (Signer.r_headers (Signer.sign cv cvh c r)) = Signer.hvals k (Signer.r_headers r).
Proof.
  intros N1 N2 N3. unfold Signer.sign, Signer.hmac_sign, Signer.rsa_sign.
  destruct (Signer.c_skip c), (Signer.c_hmac c), (Signer.c_signer c); cbn [Signer.r_headers];
    rewrite ?Signer_proofs.hvals_hdel_ne by assumption; reflexivity.
Qed.

Lemma director_hvals c r k : k <> Signer.user_agent -> k <> Signer.x_forwarded_host ->
  Signer.hvals k (Signer.r_headers (Signer.director c r)) = Signer.hvals k (Signer.r_headers r).
Proof.
  intros N1 N2. unfold Signer.director; cbn [Signer.r_headers]. rewrite Signer_proofs.hvals_hadd_ne by exact N2.
  destruct (Signer.hfind Signer.user_agent (Signer.r_headers r)); [reflexivity | apply Signer_proofs.hvals_hset_ne; exact N1].
Qed.

(* ReverseProxy's own edits: a header it does not write itself is kept or — named hop-by-hop — dropped *)
Lemma rp_headers_hop ip req_h h0 k :
  k <> Signer.user_agent -> k <> Signer.x_forwarded_for -> k <> Signer.te_h -> k <> Signer.upgrade_h -> k <> Signer.connection ->
  Signer.hvals k (Signer.rp_headers ip req_h h0) =
  if mem_str k (Signer.hop_keys h0) then [] else Signer.hvals k h0.
Proof.
  intros Nua Nxf Nte Nup Nco. unfold Signer.rp_headers.
  assert (Eua : forall h, Signer.hvals k (Signer.step_ua h) = Signer.hvals k h).
  { intros h. unfold Signer.step_ua. destruct (Signer.hfind Signer.user_agent h); [reflexivity | apply Signer_proofs.hvals_hset_ne; exact Nua]. }
  rewrite Eua. unfold Signer.rp_step_xff. rewrite Signer_proofs.hvals_hset_ne by exact Nxf.
  assert (Ehop : Signer.hvals k (Signer.rp_step_hop h0) = if mem_str k (Signer.hop_keys h0) then [] else Signer.hvals k h0).
  { unfold Signer.rp_step_hop. destruct (mem_str k (Signer.hop_keys h0)) eqn:E.
    - apply hvals_hdel_all_in. apply mem_str_In. exact E.
    - apply Signer_proofs.hvals_hdel_all. intros Hin. apply mem_str_In in Hin. congruence. }
  assert (Ete : Signer.hvals k (Signer.rp_step_te req_h (Signer.rp_step_hop h0)) =
                if mem_str k (Signer.hop_keys h0) then [] else Signer.hvals k h0).
  { unfold Signer.rp_step_te. destruct (Signer.contains_token _ _); [rewrite Signer_proofs.hvals_hset_ne by exact Nte|]; exact Ehop. }
  unfold Signer.rp_step_upgrade. destruct (Signer.is_empty (Signer.upgrade_type h0)); [exact Ete|].
  rewrite !Signer_proofs.hvals_hset_ne by assumption. exact Ete.
Qed.

Lemma wire_hvals r k : k <> Signer.content_length -> k <> Signer.user_agent ->
  Signer.hvals k (Signer.wire_headers r) = Signer.hvals k (Signer.r_headers r).
Proof.
  intros Ncl Nua. unfold Signer.wire_headers.
  set (h1 := match Signer.wire_content_length r with
             | Some v => Signer.hset Signer.content_length [v] (Signer.hdel Signer.content_length (Signer.r_headers r))
             | None => Signer.hdel Signer.content_length (Signer.r_headers r) end).
  assert (E1 : Signer.hvals k h1 = Signer.hvals k (Signer.r_headers r)).
  { unfold h1. destruct (Signer.wire_content_length r).
    - rewrite Signer_proofs.hvals_hset_ne by exact Ncl. apply Signer_proofs.hvals_hdel_ne; exact Ncl.
    - apply Signer_proofs.hvals_hdel_ne; exact Ncl. }
  destruct (Signer.hvals Signer.user_agent h1) as [|v t].
  - rewrite Signer_proofs.hvals_hdel_ne by exact Nua. exact E1.
  - destruct (Signer.is_empty v); [rewrite Signer_proofs.hvals_hdel_ne by exact Nua | rewrite Signer_proofs.hvals_hset_ne by exact Nua]; exact E1.
Qed.

Section Received.
Variable re_replace : str -> str -> str -> str.

(* for EVERY deployment, request and handler-time header map: a header the chain does not write itself
   arrives at the backend exactly as OAuthProxy.Proxy + deleteCookie left it, unless a Connection token
   (or the hop-by-hop list) names it, in which case it does not arrive at all *)
Theorem received_header d u q h k :
  ~ In k chain_written ->
  Signer.hvals k (Signer.r_headers (received_request re_replace d u q h)) =
  if mem_str k (Signer.hop_keys (to_signer_headers h)) then [] else ReqHeaders.h_get k h.
Proof.
  intros Hk. unfold chain_written in Hk. cbn [In] in Hk.
  assert (Nua : k <> Signer.user_agent) by (intros ->; tauto).
  assert (Nxh : k <> Signer.x_forwarded_host) by (intros ->; tauto).
  assert (Nxf : k <> Signer.x_forwarded_for) by (intros ->; tauto).
  assert (Nte : k <> Signer.te_h) by (intros ->; tauto).
  assert (Nup : k <> Signer.upgrade_h) by (intros ->; tauto).
  assert (Nco : k <> Signer.connection) by (intros ->; tauto).
  assert (Ncl : k <> Signer.content_length) by (intros ->; tauto).
  assert (Ns1 : k <> Signer.sso_signature) by (intros ->; tauto).
  assert (Ns2 : k <> Signer.kid_h) by (intros ->; tauto).
  assert (Ns3 : k <> Signer.gap_signature) by (intros ->; tauto).
  unfold received_request. cbn [Signer.wire Signer.r_headers].
  rewrite wire_hvals by assumption. cbn [Signer.rp_edits Signer.r_headers].
  rewrite rp_headers_hop by assumption.
  rewrite (Signer_proofs.hop_keys_ext _ (to_signer_headers h)).
  2:{ rewrite Signer_proofs.director_conn, Signer_proofs.sign_conn. reflexivity. }
  rewrite director_hvals, sign_hvals by assumption. cbn [signer_request Signer.r_headers].
  rewrite to_signer_hvals. reflexivity.
Qed.

Lemma identity_not_written k : In k ReqHeaders.identity_keys -> ~ In k chain_written.
Proof.
  intros Hk Hw. unfold ReqHeaders.identity_keys in Hk. cbn [In] in Hk.
  destruct Hk as [<-|[<-|[<-|[<-|[]]]]]; unfold chain_written in Hw; cbn [In] in Hw;
    repeat (destruct Hw as [Hw|Hw]; [discriminate Hw|]); exact Hw.
Qed.

Lemma cookie_not_written : ~ In ReqHeaders.k_cookie chain_written.
Proof. intros Hw. unfold chain_written in Hw; cbn [In] in Hw. repeat (destruct Hw as [Hw|Hw]; [discriminate Hw|]); exact Hw. Qed.

End Received.

(* ================================================================================================ *)
(* Part 2b — the signatures verify over what was received.
   Signer_proofs.signed_is_received is stated for Signer's own sign-time request [at_sign_time]; here the
   sign-time request is the one OAuthProxy.Proxy really hands over (ReqHeaders' header map through the
   adapter), so the statement is re-derived for an ARBITRARY sign-time request from the same step lemmas
   (sign_same, director_same, rp_edits_same, wire_same, cl_canonical_transfer, sig_not_gone). *)
Section SignedGen.
  Import Signer Signer_proofs.
  Variables cv cvh protected : list str.
  Hypothesis Hcv : cov_ok cv = true.
  Hypothesis Hcvh : cov_ok cvh = true.
  Hypothesis Hsub1 : forall k, In k cv -> In k protected.
  Hypothesis Hsub2 : forall k, In k cvh -> In k protected.
  Hypothesis Hsub3 : forall k, In k sig_headers -> In k protected.

  Variables (c : cfg) (ip : str) (rs : request) (b : str).
  Hypothesis Hbare : bare_target c = true.
  Hypothesis Hpath : has_prefix (r_path rs) [47] = true.
  Hypothesis Hfrag : r_fragment rs = [].
  Hypothesis Hbody : r_body rs = Some b.
  Hypothesis Hconn : conn_safe protected (r_headers rs) = true.
  Hypothesis Hcl : cl_canonical rs = true.
  Let rr := wire (rp_edits ip (r_headers rs) (director c (sign cv cvh c rs))).

  Lemma gen_received_same cov0 :
    cov_ok cov0 = true -> (forall k, In k cov0 -> In k protected) -> same_signed cov0 rr rs.
  Proof.
    intros Hcov Hsub.
    set (r1 := sign cv cvh c rs). set (r2 := director c r1). set (r3 := rp_edits ip (r_headers rs) r2).
    assert (S1 : same_signed cov0 r1 rs) by (apply sign_same; exact Hcov).
    assert (S2 : same_signed cov0 r2 r1).
    { apply director_same; [exact Hcov | exact Hbare |]. destruct S1 as (_&P&_). rewrite P. exact Hpath. }
    assert (C2 : hvals connection (r_headers r2) = hvals connection (r_headers rs)).
    { unfold r2, r1. rewrite director_conn, sign_conn. reflexivity. }
    assert (S3 : same_signed cov0 r3 r2).
    { eapply rp_edits_same; [exact Hcov | exact Hsub |]. rewrite (conn_safe_ext protected _ _ C2). exact Hconn. }
    assert (S30 : same_signed cov0 r3 rs).
    { eapply same_signed_trans; [exact S3|]. eapply same_signed_trans; [exact S2 | exact S1]. }
    assert (S4 : same_signed cov0 (wire r3) r3).
    { pose proof S30 as (_&_&_&Q4&Q5&_).
      apply (wire_same cov0 Hcov r3 b).
      - rewrite Q5. exact Hbody.
      - rewrite Q4. exact Hfrag.
      - intros Hin. eapply (cl_canonical_transfer cov0 r3 rs).
        + exact S30.
        + unfold r3, r2, r1. cbn [r_chunked rp_edits director]. apply sign_chunked.
        + unfold r3, r2, r1. cbn [r_clen rp_edits director]. apply sign_clen.
        + exact Hin.
        + exact Hcl. }
    eapply same_signed_trans; [exact S4 | exact S30].
  Qed.

  Lemma gen_not_gone k : In k sig_headers -> mem_str k (hop_keys (r_headers (director c (sign cv cvh c rs)))) = false.
  Proof.
    intros Hk. rewrite (hop_keys_ext _ (r_headers rs)) by (rewrite director_conn, sign_conn; reflexivity).
    eapply sig_not_gone; [exact Hconn | apply Hsub3; exact Hk | exact Hk].
  Qed.

  Theorem gen_signed_is_received :
    canon_rsa cv rr = canon_rsa cv rs /\ canon_hmac cvh rr = canon_hmac cvh rs /\ r_body rr = r_body rs /\
    (forall k, In k cv -> hvals k (r_headers rr) = hvals k (r_headers rs)).
  Proof.
    pose proof (gen_received_same cv Hcv Hsub1) as S1.
    pose proof (gen_received_same cvh Hcvh Hsub2) as S2.
    split; [apply canon_rsa_ext; exact S1|]. split; [apply canon_hmac_ext; exact S2|].
    destruct S1 as (_&_&_&_&A5&A6). split; [exact A5 | exact A6].
  Qed.

  Theorem gen_rsa_verifies sk :
    c_skip c = false -> c_signer c = Some sk ->
    verify_rsa cv (published_certs c) rr = Some true /\ r_kid rr = Some (KeyId (pub sk)).
  Proof.
    intros Hskip Hsigner.
    assert (Esig : r_sso_sig rr = Some (RsaSig sk (Hash (canon_rsa cv (hmac_part cvh c rs))))).
    { unfold rr. cbn [r_sso_sig wire].
      destruct (rp_edits_sig ip (r_headers rs) (director c (sign cv cvh c rs))) as (E&_&_). rewrite E.
      rewrite gen_not_gone by (unfold sig_headers; simpl; tauto).
      cbn [r_sso_sig director]. rewrite sign_unfold, Hskip, Hsigner. reflexivity. }
    assert (Ekid : r_kid rr = Some (KeyId (pub sk))).
    { unfold rr. cbn [r_kid wire].
      destruct (rp_edits_sig ip (r_headers rs) (director c (sign cv cvh c rs))) as (_&E&_). rewrite E.
      rewrite gen_not_gone by (unfold sig_headers; simpl; tauto).
      cbn [r_kid director]. rewrite sign_unfold, Hskip, Hsigner. reflexivity. }
    assert (Ecert : cert_lookup (KeyId (pub sk)) (published_certs c) = Some (pub sk)).
    { unfold published_certs. rewrite Hsigner. simpl. rewrite N.eqb_refl. reflexivity. }
    split; [|exact Ekid].
    unfold verify_rsa. rewrite Esig, Ekid, Ecert. unfold rsa_verify, digest_eqb.
    rewrite N.eqb_refl. simpl. f_equal. apply str_eqb_eq.
    destruct gen_signed_is_received as (E&_&_). fold rr. rewrite E.
    symmetry. apply canon_rsa_ext. apply hmac_part_same. exact Hcv.
  Qed.

  Theorem gen_hmac_verifies key :
    c_skip c = false -> c_hmac c = Some key -> verify_hmac cvh key rr = 3.
  Proof.
    intros Hskip Hh.
    assert (Egap : r_gap_sig rr = Some (Mac key (mac_input cvh rs))).
    { unfold rr. cbn [r_gap_sig wire].
      destruct (rp_edits_sig ip (r_headers rs) (director c (sign cv cvh c rs))) as (_&_&E). rewrite E.
      rewrite gen_not_gone by (unfold sig_headers; simpl; tauto).
      cbn [r_gap_sig director]. rewrite sign_unfold, Hskip. unfold hmac_part. rewrite Hh.
      destruct (c_signer c); reflexivity. }
    unfold verify_hmac. rewrite Egap. unfold mac_eqb.
    rewrite str_eqb_refl. simpl.
    assert (E : mac_input cvh rs = mac_input cvh rr).
    { symmetry. apply mac_input_ext. apply gen_received_same; assumption. }
    rewrite E, str_eqb_refl. reflexivity.
  Qed.
End SignedGen.

(* Signer's own top-level theorem is the instance rs := at_sign_time c parsed ident r0 of the above *)
Lemma signer_theorem_is_an_instance cv cvh protected c parsed ident ip r0 b :
  Signer.cov_ok cv = true -> Signer.cov_ok cvh = true ->
  (forall k, In k cv -> In k protected) -> (forall k, In k cvh -> In k protected) ->
  (forall k, In k Signer.sig_headers -> In k protected) ->
  Signer.bare_target c = true -> has_prefix (Signer.r_path r0) [47] = true -> Signer.r_fragment r0 = [] ->
  Signer.r_body r0 = Some b ->
  Signer.conn_safe protected (Signer.r_headers (Signer.at_sign_time c parsed ident r0)) = true ->
  Signer.cl_canonical (Signer.at_sign_time c parsed ident r0) = true ->
  Signer.canon_rsa cv (Signer.received cv cvh c parsed ident ip r0) = Signer.canon_rsa cv (Signer.at_sign_time c parsed ident r0).
Proof.
  intros H1 H2 H3 H4 H5 Hb Hp Hf Hbd Hc Hcl.
  destruct (Signer_proofs.at_sign_time_fields c parsed ident r0) as (F1&F2&F3&F4&F5&F6&F7).
  unfold Signer.received.
  apply (gen_signed_is_received cv cvh protected H1 H2 H3 H4 c ip (Signer.at_sign_time c parsed ident r0) b); try assumption.
  - rewrite F2. exact Hp.
  - rewrite F4. exact Hf.
  - rewrite F5. exact Hbd.
Qed.

(* ================================================================================================ *)
(* Part 3 — structure of [serve] and the composite theorems *)

(* C03's cookie theorem for an arbitrary header map (the favicon route hands Proxy a map Authenticate
   has already written to): ReqHeaders_proofs.delete_cookie_roundtrip + kept_names *)
Lemma delete_cookie_stripped cn h c :
  In c (ReqHeaders.read_cookies (ReqHeaders.h_get ReqHeaders.k_cookie (ReqHeaders.delete_cookie cn h))) ->
  ReqHeaders.c_name c <> cn.
Proof.
  intros Hin. pose proof (ReqHeaders_proofs.delete_cookie_roundtrip cn h) as R.
  assert (Hn: In (ReqHeaders.name_value c)
                 (map ReqHeaders.name_value (ReqHeaders_proofs.kept cn (ReqHeaders.h_get ReqHeaders.k_cookie h)))).
  { rewrite <- R. apply in_map. exact Hin. }
  apply in_map_iff in Hn as [c' [Heq Hc']]. pose proof (ReqHeaders_proofs.kept_names _ _ _ Hc') as Hne.
  unfold ReqHeaders.name_value in Heq. assert (E1: ReqHeaders.c_name c' = ReqHeaders.c_name c) by congruence. congruence.
Qed.

Section Composite.
Variable re_match : str -> str -> bool.
Variable re_replace : str -> str -> str -> str.
Variable lower : str -> str.
Variable opens : str -> option ProxyCore.session.

Notation serve := (serve re_match re_replace lower opens).
Notation router := (router re_match re_replace lower opens).
Notation handle_up := (handle_up re_match re_replace lower opens).
Notation session_cookie := (session_cookie opens).
Notation pc_request := (pc_request re_match opens).
Notation backend_of := (backend_of re_replace).
Notation handler_headers := (handler_headers).
Notation proxy_out := (proxy_out re_replace).

(* ---- structure ---- *)
Lemma serve_cases d q a now :
  (rq_path q = Hostmux.ping_path /\ serve d q a now = health) \/
  (rq_path q <> Hostmux.ping_path /\ route_ext re_match (dp_ups d) (rq_host q) = None /\ serve d q a now = misdirected) \/
  (rq_path q <> Hostmux.ping_path /\ exists u, route_ext re_match (dp_ups d) (rq_host q) = Some u /\
     serve d q a now = handle_up d u q a now).
Proof.
  unfold ProxyAll.serve. destruct (str_eqb (rq_path q) Hostmux.ping_path) eqn:E.
  - left. apply str_eqb_eq in E. auto.
  - right. apply str_eqb_neq in E. destruct (route_ext re_match (dp_ups d) (rq_host q)) as [u|]; [right | left]; eauto.
Qed.

Lemma whitelisted_is_skip_hit d u q ep :
  ProxyCore.whitelisted (pc_pol u) (pc_request d u q ep) = skip_hit re_match u q.
Proof. reflexivity. Qed.

Lemma proxy_out_backend d u q a pr pre ops sess calls bv :
  ro_backend (proxy_out d u q a pr pre ops sess calls) = Some bv ->
  exists id, ProxyCore.rs_out pr = ProxyCore.Forward id /\ bv = backend_of d u q pre id.
Proof.
  unfold ProxyAll.proxy_out. destruct (ProxyCore.rs_out pr) as [id| |n]; cbn [ro_backend].
  - intros H; inversion H. eauto.
  - destruct (is_xhr q); discriminate.
  - discriminate.
Qed.

(* the only two routes that reach a backend *)
Lemma router_backend d u q a now bv :
  ro_backend (router d u q a now) = Some bv ->
  ReqUri.clean_path (rq_path q) = rq_path q /\
  ((route_of_path (rq_path q) = RtProxy /\
    exists id, ProxyCore.rs_out (ProxyCore.proxy_handle lower now (pc_cfg d u) (pc_pol u) (pc_request d u q ProxyCore.EProxy) (an_auth a))
               = ProxyCore.Forward id /\ bv = backend_of d u q None id) \/
   (route_of_path (rq_path q) = RtFavicon /\
    ProxyCore.ao_err (ProxyCore.authenticate lower now (pc_cfg d u) (pc_pol u) (rq_host q) (session_cookie d q) (an_auth a)) = None /\
    exists id, ProxyCore.rs_out (ProxyCore.proxy_handle lower now (pc_cfg d u) (pc_pol u) (pc_request d u q ProxyCore.EFavicon) (an_auth a))
               = ProxyCore.Forward id /\
               bv = backend_of d u q (ProxyCore.ao_session (ProxyCore.authenticate lower now (pc_cfg d u) (pc_pol u) (rq_host q)
                                                             (session_cookie d q) (an_auth a))) id)).
Proof.
  unfold ProxyAll.router.
  destruct (str_eqb (ReqUri.clean_path (rq_path q)) (rq_path q)) eqn:Ecl; cbn [negb]; [|discriminate].
  apply str_eqb_eq in Ecl. intros H. split; [exact Ecl|].
  destruct (route_of_path (rq_path q)) eqn:Er; cbn [local ro_backend] in H; try discriminate.
  - (* favicon *)
    right. split; [reflexivity|].
    destruct (ProxyCore.ao_err (ProxyCore.authenticate lower now (pc_cfg d u) (pc_pol u) (rq_host q) (session_cookie d q) (an_auth a))) eqn:Ee;
      [discriminate|]. split; [reflexivity|].
    apply proxy_out_backend in H. exact H.
  - (* callback *)
    destruct (Callback.oauth_callback _ _ _ _); discriminate.
  - (* auth *)
    destruct (ProxyCore.ao_err _); discriminate.
  - (* proxy *)
    left. split; [reflexivity|]. apply proxy_out_backend in H. exact H.
Qed.

Lemma handle_up_backend d u q a now bv :
  oc_backend (handle_up d u q a now) = Some bv ->
  redirected d q = false /\ ro_backend (router d u q a now) = Some bv.
Proof. unfold ProxyAll.handle_up. destruct (redirected d q); cbn [oc_backend]; [discriminate | auto]. Qed.

(* ---- identity headers and cookies at handler time (C03) ---- *)
Lemma handler_identity_some d u q pre s' :
  let h := handler_headers d u q pre (Some s') in
  ReqHeaders.h_get ReqHeaders.k_xfu h = [ProxyCore.s_user s'] /\
  ReqHeaders.h_get ReqHeaders.k_xfe h = [ProxyCore.s_email s'] /\
  ReqHeaders.h_get ReqHeaders.k_xfg h = [join [44] (ProxyCore.s_groups s')] /\
  ReqHeaders.h_get ReqHeaders.k_xfat h = ReqHeaders.allowed_token (rh_cfg d u) (rh_session s').
Proof.
  cbn zeta. unfold ProxyAll.handler_headers. rewrite !ReqHeaders_proofs.delete_cookie_other by discriminate.
  unfold ReqHeaders.proxy_headers. cbn [rh_mode].
  rewrite ReqHeaders_proofs.auth_user, ReqHeaders_proofs.auth_email, ReqHeaders_proofs.auth_groups.
  repeat split.
  rewrite ReqHeaders_proofs.auth_token. unfold ReqHeaders.allowed_token, ReqHeaders.token_enabled. cbn [rh_cfg ReqHeaders.pass_access_token andb].
  destruct (ReqHeaders.last_injected ReqHeaders.k_xfat (ReqHeaders.inject (rh_cfg d u))); [reflexivity|].
  rewrite ReqHeaders_proofs.scrub_get. reflexivity.
Qed.

Lemma handler_identity_none d u q pre k :
  In k ReqHeaders.identity_keys -> ReqHeaders.h_get k (handler_headers d u q pre None) = [].
Proof.
  intros Hk. unfold ProxyAll.handler_headers.
  rewrite ReqHeaders_proofs.delete_cookie_other by (apply ReqHeaders_proofs.identity_not_cookie; exact Hk).
  cbn [rh_mode]. rewrite ReqHeaders_proofs.proxy_get_skip by exact Hk. reflexivity.
Qed.

Lemma handler_cookie_stripped d u q pre id c :
  In c (ReqHeaders.read_cookies (ReqHeaders.h_get ReqHeaders.k_cookie (handler_headers d u q pre id))) ->
  ReqHeaders.c_name c <> dp_cookie_name d.
Proof. unfold ProxyAll.handler_headers. apply delete_cookie_stripped. Qed.

(* no guard at all: whatever the client, the deployment and the Connection tricks, the Cookie header the
   backend receives contains no cookie with the session cookie's name *)
Lemma backend_cookie_stripped d u q pre id c :
  In c (ReqHeaders.read_cookies (Signer.hvals Signer.cookie_h (Signer.r_headers (bk_req (backend_of d u q pre id))))) ->
  ReqHeaders.c_name c <> dp_cookie_name d.
Proof.
  cbn [ProxyAll.backend_of bk_req].
  change Signer.cookie_h with ReqHeaders.k_cookie.
  rewrite (received_header re_replace d u q _ ReqHeaders.k_cookie cookie_not_written).
  destruct (mem_str ReqHeaders.k_cookie _); [intros [] | apply handler_cookie_stripped].
Qed.


(* ---- INT_backend_reached_only_if ---- *)
Definition identity_absent (h : ReqHeaders.headers) : Prop :=
  forall k, In k ReqHeaders.identity_keys -> ReqHeaders.h_get k h = [].
Definition identity_is (d : deployment) (u : iupstream) (h : ReqHeaders.headers) (s' : ProxyCore.session) : Prop :=
  ReqHeaders.h_get ReqHeaders.k_xfu h = [ProxyCore.s_user s'] /\
  ReqHeaders.h_get ReqHeaders.k_xfe h = [ProxyCore.s_email s'] /\
  ReqHeaders.h_get ReqHeaders.k_xfg h = [join [44] (ProxyCore.s_groups s')] /\
  ReqHeaders.h_get ReqHeaders.k_xfat h = ReqHeaders.allowed_token (rh_cfg d u) (rh_session s').

Lemma backend_of_fields d u q pre id :
  bk_target (backend_of d u q pre id) = Hostmux.target re_replace (rq_host q) (up_hm u) /\
  bk_host (backend_of d u q pre id) =
    (if Hostmux.u_preserve (up_hm u) then Hostmux.preserved_host (rq_host q) (Hostmux.target re_replace (rq_host q) (up_hm u))
     else Hostmux.target re_replace (rq_host q) (up_hm u)) /\
  bk_handler (backend_of d u q pre id) = handler_headers d u q pre id.
Proof. repeat split; reflexivity. Qed.

Theorem backend_reached_only_if d q a now bv :
  oc_backend (serve d q a now) = Some bv ->
  exists u,
    (* C13: the upstream the Host routes to, and its backend *)
    route_ext re_match (dp_ups d) (rq_host q) = Some u /\ In u (dp_ups d) /\
    oc_upstream (serve d q a now) = Some u /\
    Hostmux.route_of re_match (map up_hm (dp_ups d)) (rq_host q) = Hostmux.RUp (up_hm u) /\
    bk_target bv = Hostmux.target re_replace (rq_host q) (up_hm u) /\
    bk_host bv = (if Hostmux.u_preserve (up_hm u) then Hostmux.preserved_host (rq_host q) (bk_target bv) else bk_target bv) /\
    bk_req bv = received_request re_replace d u q (bk_handler bv) /\
    (* not the health check, not a plain-http request under secure cookies, a clean path, one of two routes *)
    rq_path q <> Hostmux.ping_path /\ redirected d q = false /\ ReqUri.clean_path (rq_path q) = rq_path q /\
    (route_of_path (rq_path q) = RtProxy \/ route_of_path (rq_path q) = RtFavicon) /\
    (* C01 under THAT upstream's skip list, policy and provider slug; C03 at handler time *)
    ((route_of_path (rq_path q) = RtProxy /\ skip_hit re_match u q = true /\ identity_absent (bk_handler bv)) \/
     (exists s s', session_cookie d q = ProxyCore.Sealed s /\
        ProxyCore_proofs.session_ok lower now (pc_cfg d u) (pc_pol u) (rq_host q) s (an_auth a) /\
        ProxyCore.s_email s' = ProxyCore.s_email s /\
        (skip_hit re_match u q = false -> identity_is d u (bk_handler bv) s') /\
        (skip_hit re_match u q = true -> identity_absent (bk_handler bv)))) /\
    (* C03 at the backend: each identity header is the handler-time value, or nothing when named hop-by-hop *)
    (forall k, In k ReqHeaders.identity_keys ->
       Signer.hvals k (Signer.r_headers (bk_req bv)) =
       if mem_str k (Signer.hop_keys (to_signer_headers (bk_handler bv))) then [] else ReqHeaders.h_get k (bk_handler bv)) /\
    (* C03: never the session cookie *)
    (forall c, In c (ReqHeaders.read_cookies (Signer.hvals Signer.cookie_h (Signer.r_headers (bk_req bv)))) ->
       ReqHeaders.c_name c <> dp_cookie_name d).
Proof.
  intros Hb.
  destruct (serve_cases d q a now) as [[_ E]|[[_ [_ E]]|[Hp [u [Hr E]]]]]; rewrite E in Hb; try discriminate.
  exists u. rewrite E.
  apply handle_up_backend in Hb as [Hred Hb]. apply router_backend in Hb as [Hcl Hb].
  split; [exact Hr|]. split; [eapply route_ext_in; exact Hr|].
  split; [unfold ProxyAll.handle_up; destruct (redirected d q); reflexivity|].
  split; [rewrite route_ext_faithful, Hr; reflexivity|].
  assert (Hfields : forall pre id, bv = backend_of d u q pre id ->
     bk_target bv = Hostmux.target re_replace (rq_host q) (up_hm u) /\
     bk_host bv = (if Hostmux.u_preserve (up_hm u) then Hostmux.preserved_host (rq_host q) (bk_target bv) else bk_target bv) /\
     bk_req bv = received_request re_replace d u q (bk_handler bv) /\
     (forall k, In k ReqHeaders.identity_keys ->
       Signer.hvals k (Signer.r_headers (bk_req bv)) =
       if mem_str k (Signer.hop_keys (to_signer_headers (bk_handler bv))) then [] else ReqHeaders.h_get k (bk_handler bv)) /\
     (forall c, In c (ReqHeaders.read_cookies (Signer.hvals Signer.cookie_h (Signer.r_headers (bk_req bv)))) ->
       ReqHeaders.c_name c <> dp_cookie_name d)).
  { intros pre id ->. split; [reflexivity|]. split; [reflexivity|]. split; [reflexivity|]. split.
    - intros k Hk. cbn [ProxyAll.backend_of bk_req bk_handler].
      apply (received_header re_replace d u q _ k (identity_not_written k Hk)).
    - apply backend_cookie_stripped. }
  destruct Hb as [[Hrt [id [Hout ->]]] | [Hrt [Hauth [id [Hout ->]]]]].
  - (* Proxy route *)
    destruct (Hfields None id eq_refl) as [F1 [F2 [F5 [F3 F4]]]].
    split; [exact F1|]. split; [exact F2|]. split; [exact F5|].
    split; [exact Hp|]. split; [exact Hred|]. split; [exact Hcl|]. split; [left; exact Hrt|].
    split; [|split; [exact F3 | exact F4]].
    apply ProxyCore_proofs.proxy_forward_sound in Hout. rewrite whitelisted_is_skip_hit in Hout.
    destruct Hout as [[Hw ->] | [Hw [s [Hck [Hok [s' [-> Hem]]]]]]].
    + left. split; [exact Hrt|]. split; [exact Hw|]. intros k Hk. apply handler_identity_none. exact Hk.
    + right. exists s, s'. split; [exact Hck|]. split; [exact Hok|]. split; [exact Hem|].
      split; [intros _; apply handler_identity_some | intros Hw'; congruence].
  - (* Favicon route: Authenticate, then Proxy *)
    set (o := ProxyCore.authenticate lower now (pc_cfg d u) (pc_pol u) (rq_host q) (session_cookie d q) (an_auth a)) in *.
    destruct (Hfields (ProxyCore.ao_session o) id eq_refl) as [F1 [F2 [F5 [F3 F4]]]].
    split; [exact F1|]. split; [exact F2|]. split; [exact F5|].
    split; [exact Hp|]. split; [exact Hred|]. split; [exact Hcl|]. split; [right; exact Hrt|].
    split; [|split; [exact F3 | exact F4]].
    right. destruct (ProxyCore_proofs.authenticate_sound lower _ _ _ _ _ _ Hauth) as [s [Hck Hok]].
    apply ProxyCore_proofs.proxy_forward_sound in Hout. rewrite whitelisted_is_skip_hit in Hout.
    destruct Hout as [[Hw ->] | [Hw [s0 [Hck0 [_ [s' [-> Hem]]]]]]].
    + exists s, s. split; [exact Hck|]. split; [exact Hok|]. split; [reflexivity|].
      split; [intros Hw'; congruence | intros _ k Hk; apply handler_identity_none; exact Hk].
    + cbn [ProxyCore.r_cookie ProxyAll.pc_request] in Hck0. rewrite Hck in Hck0. inversion Hck0; subst s0.
      exists s, s'. split; [exact Hck|]. split; [exact Hok|]. split; [exact Hem|].
      split; [intros _; apply handler_identity_some | intros Hw'; congruence].
Qed.


(* ---- the signatures over the received request verify (C12, under its two guards) ---- *)
Theorem backend_signature_verifies d q a now bv u :
  oc_backend (serve d q a now) = Some bv -> oc_upstream (serve d q a now) = Some u ->
  let rs := signer_request q (bk_handler bv) in
  let c := sg_cfg re_replace d u (rq_host q) in
  Signer.conn_safe Signer_gen_proofs.g_protected (Signer.r_headers rs) = true ->   (* guard 1: C03-K3 / C12-K1 *)
  Signer.cl_canonical rs = true ->                                                (* guard 2: C12-K2 *)
  Signer.canon_rsa Signer_gen_proofs.g_cov (bk_req bv) = Signer.canon_rsa Signer_gen_proofs.g_cov rs /\
  Signer.canon_hmac Signer_gen_proofs.g_covh (bk_req bv) = Signer.canon_hmac Signer_gen_proofs.g_covh rs /\
  Signer.r_body (bk_req bv) = Some (rq_body q) /\
  (forall k, In k Signer_gen_proofs.g_cov ->
     Signer.hvals k (Signer.r_headers (bk_req bv)) = ReqHeaders.h_get k (bk_handler bv)) /\
  (up_skip_sign u = false -> forall sk, dp_signer d = Some sk ->
     Signer.verify_rsa Signer_gen_proofs.g_cov (Signer.published_certs c) (bk_req bv) = Some true /\
     Signer.r_kid (bk_req bv) = Some (Signer.KeyId (Signer.pub sk))) /\
  (up_skip_sign u = false -> forall key, up_hmac u = Some key ->
     Signer.verify_hmac Signer_gen_proofs.g_covh key (bk_req bv) = 3).
Proof.
  intros Hb Hu rs c Hconn Hclc.
  destruct (backend_reached_only_if d q a now bv Hb) as [u' [_ [_ [Hu' [_ [_ [_ [Hreq [_ [_ [Hclean _]]]]]]]]]]].
  rewrite Hu in Hu'. inversion Hu'; subst u'. clear Hu'.
  assert (Hpre : has_prefix (rq_path q) [47] = true).
  { destruct (ReqUri_proofs.clean_path_head (rq_path q)) as [H|[x [r [H _]]]]; rewrite Hclean in H; rewrite H; reflexivity. }
  rewrite Hreq. unfold received_request. fold rs. fold c.
  assert (Hbare : Signer.bare_target c = true) by reflexivity.
  pose proof (gen_signed_is_received Signer_gen_proofs.g_cov Signer_gen_proofs.g_covh Signer_gen_proofs.g_protected
                Signer_gen_proofs.g_cov_ok Signer_gen_proofs.g_covh_ok Signer_gen_proofs.g_sub1 Signer_gen_proofs.g_sub2
                c (rq_ip q) rs (rq_body q) Hbare Hpre eq_refl eq_refl Hconn Hclc) as (E1&E2&E3&E4).
  split; [exact E1|]. split; [exact E2|]. split; [exact E3|].
  split; [intros k Hk; etransitivity; [exact (E4 k Hk) | apply to_signer_hvals]|].
  split.
  - intros Hskip sk Hsk.
    apply (gen_rsa_verifies Signer_gen_proofs.g_cov Signer_gen_proofs.g_covh Signer_gen_proofs.g_protected
             Signer_gen_proofs.g_cov_ok Signer_gen_proofs.g_covh_ok Signer_gen_proofs.g_sub1 Signer_gen_proofs.g_sub2
             Signer_gen_proofs.g_sub3 c (rq_ip q) rs (rq_body q) Hbare Hpre eq_refl eq_refl Hconn Hclc sk); assumption.
  - intros Hskip key Hkey.
    apply (gen_hmac_verifies Signer_gen_proofs.g_cov Signer_gen_proofs.g_covh Signer_gen_proofs.g_protected
             Signer_gen_proofs.g_covh_ok Signer_gen_proofs.g_sub2
             Signer_gen_proofs.g_sub3 c (rq_ip q) rs (rq_body q) Hbare Hpre eq_refl eq_refl Hconn Hclc key); assumption.
Qed.


(* ---- INT_every_response_hardened (C18) ---- *)
Lemma handle_up_client d u q a now :
  oc_client (handle_up d u q a now) =
  logging_strip (RespHeaders.proxy_handle RespHeaders_gen_proofs.T RespHeaders_gen_proofs.H RespHeaders_gen_proofs.D
                   RespHeaders_gen_proofs.TD (rs_cfg d u) (rs_request q) (ro_out (router d u q a now))).
Proof. unfold ProxyAll.handle_up. destruct (redirected d q); reflexivity. Qed.

Lemma logging_strip_keeps r k : k <> RespHeaders.k_user ->
  match r, logging_strip r with
  | RespHeaders.Resp st h, RespHeaders.Resp st' h' => st' = st /\ RespHeaders.hget k h' = RespHeaders.hget k h
  | RespHeaders.NoResponse, RespHeaders.NoResponse => True
  | _, _ => False
  end.
Proof.
  intros Hk. destruct r as [st h|]; cbn [logging_strip]; [|exact I]. split; [reflexivity|].
  destruct (RespHeaders.hget RespHeaders.k_user h) as [|v vs]; [reflexivity|].
  destruct (RespHeaders.hval_str v); [reflexivity|].
  unfold RespHeaders.hdel. rewrite RespHeaders_proofs.canon_k_user, RespHeaders_proofs.hget_hdel_raw.
  assert (E : str_eqb k RespHeaders.k_user = false) by (apply str_eqb_neq; exact Hk). rewrite E. reflexivity.
Qed.

Lemma proxy_out_forward d u q a pr pre ops sess calls cs us u0 :
  ro_out (proxy_out d u q a pr pre ops sess calls) = RespHeaders.OForward cs us u0 -> u0 = an_backend a.
Proof.
  unfold ProxyAll.proxy_out. destruct (ProxyCore.rs_out pr); [|destruct (is_xhr q)|]; cbn [ro_out]; intros H; inversion H; reflexivity.
Qed.

Lemma router_forward d u q a now cs us u0 :
  ro_out (router d u q a now) = RespHeaders.OForward cs us u0 -> u0 = an_backend a.
Proof.
  unfold ProxyAll.router.
  destruct (negb (str_eqb (ReqUri.clean_path (rq_path q)) (rq_path q))); [cbn; discriminate|].
  destruct (route_of_path (rq_path q)); cbn [local ro_out]; try discriminate.
  - destruct (ProxyCore.ao_err _); [cbn; discriminate | apply proxy_out_forward].
  - destruct (Callback.oauth_callback _ _ _ _); cbn; discriminate.
  - destruct (ProxyCore.ao_err _); cbn; discriminate.
  - apply proxy_out_forward.
Qed.

Theorem every_response_hardened d q a now u :
  rq_path q <> Hostmux.ping_path -> route_ext re_match (dp_ups d) (rq_host q) = Some u ->
  (up_replace u = false -> RespHeaders.u_n1xx (an_backend a) = 0%nat) ->      (* guard: C18-K3 *)
  match oc_client (serve d q a now) with
  | RespHeaders.NoResponse => True
  | RespHeaders.Resp st h =>
      (forall k, In k RespHeaders_gen_proofs.three ->
         RespHeaders.hget k h = match RespHeaders_proofs.effective RespHeaders_gen_proofs.T (rs_cfg d u) k with
                                | Some v => [RespHeaders.VStr v] | None => [] end \/
         (k = RespHeaders.k_xcto /\ RespHeaders.hget k h = [RespHeaders.VStr RespHeaders.v_nosniff] /\ st = 401)) /\
      (dp_secure d = true -> RespHeaders.hget RespHeaders_gen_proofs.hsts_k h = [RespHeaders.VStr (snd RespHeaders_gen_proofs.H)])
  end.
Proof.
  intros Hp Hr Hg.
  destruct (serve_cases d q a now) as [[E _]|[[_ [E _]]|[_ [u' [Hr' E]]]]]; try congruence.
  rewrite Hr in Hr'. inversion Hr'; subst u'. rewrite E, handle_up_client.
  set (o := ro_out (router d u q a now)).
  assert (Hn : forall cs us u0, o = RespHeaders.OForward cs us u0 -> RespHeaders.c_replace (rs_cfg d u) = false ->
               RespHeaders.u_n1xx u0 = 0%nat).
  { intros cs us u0 Ho Hrep. apply router_forward in Ho. subst u0. apply Hg. exact Hrep. }
  set (r := RespHeaders.proxy_handle _ _ _ _ _ _ o).
  assert (H3 : forall k, In k RespHeaders_gen_proofs.three ->
     match r with
     | RespHeaders.Resp s h =>
         RespHeaders.hget k h = match RespHeaders_proofs.effective RespHeaders_gen_proofs.T (rs_cfg d u) k with
                                | Some v => [RespHeaders.VStr v] | None => [] end \/
         RespHeaders_proofs.outcome_is_auth401 o = true /\ k = RespHeaders.k_xcto /\
         RespHeaders.hget k h = [RespHeaders.VStr RespHeaders.v_nosniff] /\ s = 401
     | RespHeaders.NoResponse => True end).
  { intros k Hk. apply RespHeaders_gen_proofs.three_headers_repaired; [exact Hk | | | exact Hn];
      unfold RespHeaders_gen_proofs.three in Hk; cbn [In] in Hk; destruct Hk as [<-|[<-|[<-|[]]]]; reflexivity. }
  assert (Hh : RespHeaders.c_secure (rs_cfg d u) = true ->
     match r with
     | RespHeaders.Resp _ h => RespHeaders.hget RespHeaders_gen_proofs.hsts_k h = [RespHeaders.VStr (snd RespHeaders_gen_proofs.H)]
     | RespHeaders.NoResponse => True end).
  { intros Hs. apply RespHeaders_gen_proofs.hsts_repaired; [reflexivity | reflexivity | exact Hs | exact Hn]. }
  destruct r as [st h|] eqn:Er; cbn [logging_strip]; [|exact I].
  assert (K : forall k, k <> RespHeaders.k_user ->
     RespHeaders.hget k match RespHeaders.hget RespHeaders.k_user h with
                        | [] => h
                        | v :: _ => match RespHeaders.hval_str v with [] => h | _ :: _ => RespHeaders.hdel RespHeaders.k_user h end
                        end = RespHeaders.hget k h).
  { intros k Hk. pose proof (logging_strip_keeps (RespHeaders.Resp st h) k Hk) as L. cbn [logging_strip] in L. tauto. }
  split.
  - intros k Hk. rewrite K.
    + destruct (H3 k Hk) as [H|[_ [H1 [H2 H4]]]]; [left; exact H | right; auto].
    + unfold RespHeaders_gen_proofs.three in Hk; cbn [In] in Hk. destruct Hk as [<-|[<-|[<-|[]]]]; discriminate.
  - intros Hs. rewrite K by discriminate. apply Hh. exact Hs.
Qed.

(* ---- INT_unrouted_host ---- *)
Theorem unrouted_host d q a now :
  rq_path q <> Hostmux.ping_path -> route_ext re_match (dp_ups d) (rq_host q) = None ->
  Hostmux.route_of re_match (map up_hm (dp_ups d)) (rq_host q) = Hostmux.RDefault /\
  serve d q a now = misdirected /\
  oc_backend (serve d q a now) = None /\ oc_upstream (serve d q a now) = None /\
  oc_session (serve d q a now) = ProxyCore.CNone /\ oc_calls (serve d q a now) = [] /\
  exists h, oc_client (serve d q a now) = RespHeaders.Resp 421 h /\ RespHeaders.hget RespHeaders.k_set_cookie h = [].
Proof.
  intros Hp Hr. split; [rewrite route_ext_faithful, Hr; reflexivity|].
  destruct (serve_cases d q a now) as [[E _]|[[_ [_ E]]|[_ [u [Hr' _]]]]]; try congruence.
  rewrite E. repeat split. eexists. split; reflexivity.
Qed.

(* ... and conversely every Host the router knows is served by exactly its upstream's chain *)
Theorem routed_host d q a now u :
  rq_path q <> Hostmux.ping_path -> route_ext re_match (dp_ups d) (rq_host q) = Some u ->
  oc_upstream (serve d q a now) = Some u /\
  (redirected d q = true -> oc_backend (serve d q a now) = None /\ oc_calls (serve d q a now) = [] /\
     oc_session (serve d q a now) = ProxyCore.CNone /\ oc_loc (serve d q a now) = LkHttps).
Proof.
  intros Hp Hr. destruct (serve_cases d q a now) as [[E _]|[[_ [E _]]|[_ [u' [Hr' E]]]]]; try congruence.
  rewrite Hr in Hr'. inversion Hr'; subst u'. rewrite E. unfold ProxyAll.handle_up.
  destruct (redirected d q); split; try reflexivity; try discriminate. intros _. repeat split.
Qed.


(* ================================================================================================ *)
(* Part 4 — what the proxy issues, and isolation over histories *)

(* anything Authenticate re-saves is bound to the Host it was presented on and to the provider slug of
   the upstream that authenticated it (C01: authenticate_saved_preserves + authenticate_sound) *)
Lemma authenticate_saved_bound now c pol host ck a s' :
  ProxyCore.ao_cookie (ProxyCore.authenticate lower now c pol host ck a) = ProxyCore.CSaved s' ->
  ProxyCore.s_upstream s' = host /\ ProxyCore.s_slug s' = ProxyCore.c_slug c.
Proof.
  destruct ck as [| |s]; [cbn; discriminate | cbn; discriminate |]. intros H.
  destruct (ProxyCore_proofs.authenticate_saved_preserves lower _ _ _ _ _ _ _ H) as [_ [H2 [H3 [_ [_ [He _]]]]]].
  destruct (ProxyCore_proofs.authenticate_sound lower _ _ _ _ _ _ He) as [s0 [E [O1 [O2 _]]]]. inversion E; subst s0.
  split; congruence.
Qed.

Lemma proxy_handle_saved_bound now c pol r a s' :
  ProxyCore.rs_cookie (ProxyCore.proxy_handle lower now c pol r a) = ProxyCore.CSaved s' ->
  ProxyCore.s_upstream s' = ProxyCore.r_host r /\ ProxyCore.s_slug s' = ProxyCore.c_slug c.
Proof.
  unfold ProxyCore.proxy_handle. destruct (ProxyCore.whitelisted pol r); [cbn; discriminate|].
  destruct (ProxyCore.ao_err (ProxyCore.authenticate lower now c pol (ProxyCore.r_host r) (ProxyCore.r_cookie r) a)); cbn;
    apply authenticate_saved_bound.
Qed.

Lemma handle_saved_bound now c pol r a s' :
  ProxyCore.rs_cookie (ProxyCore.handle lower now c pol r a) = ProxyCore.CSaved s' ->
  ProxyCore.s_upstream s' = ProxyCore.r_host r /\ ProxyCore.s_slug s' = ProxyCore.c_slug c.
Proof.
  unfold ProxyCore.handle. destruct (ProxyCore.r_endpoint r).
  - apply proxy_handle_saved_bound.
  - cbn. apply authenticate_saved_bound.
  - destruct (ProxyCore.ao_err (ProxyCore.authenticate lower now c pol (ProxyCore.r_host r) (ProxyCore.r_cookie r) a)) eqn:Ee.
    + cbn. apply authenticate_saved_bound.
    + cbn. destruct (ProxyCore.rs_cookie (ProxyCore.proxy_handle lower now c pol r a)) eqn:Ep.
      * apply authenticate_saved_bound.
      * discriminate.
      * intros H; inversion H; subst. eapply proxy_handle_saved_bound. exact Ep.
Qed.

Lemma redeem_of_ok a e : redeem_of a = Callback.RedeemOk e ->
  exists acc rt ex, an_redeem_body a = Some (e, acc, rt, ex).
Proof.
  unfold redeem_of. destruct (an_redeem a) as [c|]; [|discriminate]. destruct (c =? 200)%Z; [|discriminate].
  destruct (an_redeem_body a) as [[[[e0 acc] rt] ex]|]; [|discriminate]. intros H; inversion H; subst. eauto.
Qed.

(* the session a successful callback mints: stamped with THIS Host and the routed upstream's provider slug,
   for the redeemed e-mail, only after the routed upstream's login gate admitted it (C13_login_of_upstream,
   C06_callback_decision, C11) *)
Lemma router_saved_bound d u q a now s :
  ro_session (router d u q a now) = ProxyCore.CSaved s ->
  ProxyCore.s_upstream s = rq_host q /\ ProxyCore.s_slug s = slug_of d u.
Proof.
  unfold ProxyAll.router.
  destruct (negb (str_eqb (ReqUri.clean_path (rq_path q)) (rq_path q))); [cbn; discriminate|].
  destruct (route_of_path (rq_path q)); cbn [local ro_session]; try discriminate.
  - (* favicon *)
    destruct (ProxyCore.ao_err _).
    + cbn [local ro_session]. intros H. apply handle_saved_bound in H. exact H.
    + unfold ProxyAll.proxy_out. destruct (ProxyCore.rs_out _); [|destruct (is_xhr q)|]; cbn [ro_session];
        intros H; apply handle_saved_bound in H; exact H.
  - (* callback *)
    destruct (Callback.oauth_callback true true 1 _) as [st|cs loc] eqn:Ecb; cbn [local ro_session]; [discriminate|].
    apply Callback_proofs.callback_ok_iff in Ecb.
    destruct Ecb as (v1 & n1 & p1 & v2 & n2 & p2 & email & _ & _ & _ & _ & _ & _ & _ & _ & _ & Hr & _).
    cbn [Callback.cb_redeem cb_request] in Hr. apply redeem_of_ok in Hr as [acc [rt [ex Hb]]].
    intros H; inversion H; subst s. unfold ProxyAll.mint_session. rewrite Hb. split; reflexivity.
  - (* auth *)
    destruct (ProxyCore.ao_err _); cbn [local ro_session]; intros H; apply handle_saved_bound in H; exact H.
  - (* proxy *)
    unfold ProxyAll.proxy_out. destruct (ProxyCore.rs_out _); [|destruct (is_xhr q)|]; cbn [ro_session];
      intros H; apply handle_saved_bound in H; exact H.
Qed.

Theorem issued_session_bound d q a now s u :
  oc_session (serve d q a now) = ProxyCore.CSaved s -> oc_upstream (serve d q a now) = Some u ->
  route_ext re_match (dp_ups d) (rq_host q) = Some u /\
  ProxyCore.s_upstream s = rq_host q /\ ProxyCore.s_slug s = slug_of d u.
Proof.
  intros Hs Hu.
  destruct (serve_cases d q a now) as [[_ E]|[[_ [_ E]]|[_ [u' [Hr E]]]]]; rewrite E in Hs, Hu; try discriminate.
  unfold ProxyAll.handle_up in Hs, Hu. destruct (redirected d q); cbn [oc_session oc_upstream] in Hs, Hu; [discriminate|].
  inversion Hu; subst u'. split; [exact Hr|]. apply router_saved_bound in Hs. exact Hs.
Qed.

(* the invariant of the history machine *)
Definition bound (d : deployment) (st : hstate) : Prop :=
  forall m, In m (hs_minted st) ->
    ProxyCore.s_upstream (mi_session m) = mi_host m /\
    route_ext re_match (dp_ups d) (mi_host m) = Some (mi_upstream m) /\
    ProxyCore.s_slug (mi_session m) = slug_of d (mi_upstream m).

Notation hstep := (hstep re_match re_replace lower opens).
Notation hrun := (hrun re_match re_replace lower opens).

Lemma hstep_bound d st e : bound d st -> bound d (fst (hstep d st e)).
Proof.
  intros Hb. unfold ProxyAll.hstep. cbn [fst hs_minted].
  set (o := serve d (ev_req e) (ev_ans e) (hs_now st + Z.max 0 (ev_dt e))%Z).
  destruct (oc_session o) as [| |s] eqn:Es; try exact Hb.
  destruct (oc_upstream o) as [u|] eqn:Eu; [|exact Hb].
  intros m Hin. cbn [hs_minted] in Hin. apply in_app_or in Hin as [Hin|[<-|[]]]; [apply Hb; exact Hin|].
  cbn [mi_session mi_host mi_upstream].
  destruct (issued_session_bound d (ev_req e) (ev_ans e) _ s u Es Eu) as [H1 [H2 H3]]. auto.
Qed.

Lemma hstep_mono d st e m : In m (hs_minted st) -> In m (hs_minted (fst (hstep d st e))).
Proof.
  intros Hin. unfold ProxyAll.hstep. cbn [fst hs_minted].
  destruct (oc_session _); try exact Hin. destruct (oc_upstream _); [apply in_or_app; left|]; exact Hin.
Qed.

Lemma hrun_bound d : forall evs st st' tr, hrun d st evs = (st', tr) -> bound d st -> bound d st'.
Proof.
  induction evs as [|e evs IH]; intros st st' tr H Hb; cbn [ProxyAll.hrun] in H.
  - inversion H; subst. exact Hb.
  - destruct (hstep d st e) as [st1 o] eqn:E1. destruct (hrun d st1 evs) as [st2 tr2] eqn:E2.
    inversion H; subst. eapply IH; [exact E2|]. pose proof (hstep_bound d st e Hb) as Hb1. rewrite E1 in Hb1. exact Hb1.
Qed.

Lemma hrun_trace d : forall evs st st' tr e o, hrun d st evs = (st', tr) -> In (e, o) tr ->
  exists now, o = serve d (ev_req e) (ev_ans e) now.
Proof.
  induction evs as [|e0 evs IH]; intros st st' tr e o H Hin; cbn [ProxyAll.hrun] in H.
  - inversion H; subst. destruct Hin.
  - destruct (hstep d st e0) as [st1 o0] eqn:E1. destruct (hrun d st1 evs) as [st2 tr2] eqn:E2.
    inversion H; subst. destruct Hin as [Heq|Hin].
    + inversion Heq; subst. unfold ProxyAll.hstep in E1. inversion E1. eauto.
    + eapply IH; eauto.
Qed.

Definition hinit : hstate := {| hs_now := 0%Z; hs_minted := [] |}.

(* INT_isolation_end_to_end: over ALL histories of requests (logins among them) on any hosts with any
   cookies, answers and time steps: if a backend receives an IDENTIFIED request (identity headers asserted
   at handler time) and the presented cookie opens to a session the proxy issued at some point of the history on
   host h1 under upstream u1, then this request's Host is h1 and the backend is u1's. *)
Theorem isolation_end_to_end d evs st' tr :
  hrun d hinit evs = (st', tr) ->
  forall e o bv, In (e, o) tr -> oc_backend o = Some bv ->
  ReqHeaders.h_get ReqHeaders.k_xfe (bk_handler bv) <> [] ->
  forall m, In m (hs_minted st') -> session_cookie d (ev_req e) = ProxyCore.Sealed (mi_session m) ->
  rq_host (ev_req e) = mi_host m /\ oc_upstream o = Some (mi_upstream m) /\
  bk_target bv = Hostmux.target re_replace (mi_host m) (up_hm (mi_upstream m)).
Proof.
  intros Hrun e o bv Hin Hb Hid m Hm Hck.
  assert (Hbd : bound d st') by (eapply hrun_bound; [exact Hrun | intros m0 []]).
  destruct (hrun_trace d _ _ _ _ _ _ Hrun Hin) as [now ->].
  destruct (backend_reached_only_if d (ev_req e) (ev_ans e) now bv Hb)
    as [u [Hr [_ [Hu [_ [Ht [_ [_ [_ [_ [_ [_ [Hmed _]]]]]]]]]]]]].
  destruct (Hbd m Hm) as [B1 [B2 B3]].
  assert (Hhost : rq_host (ev_req e) = mi_host m).
  { destruct Hmed as [[_ [_ Habs]] | [s [s' [Hs [Hok [_ [_ Hwl]]]]]]].
    - exfalso. apply Hid. apply Habs. unfold ReqHeaders.identity_keys. cbn. tauto.
    - rewrite Hck in Hs. inversion Hs; subst s. destruct Hok as [_ [Hup _]]. congruence. }
  split; [exact Hhost|]. rewrite Hhost in Hr. rewrite B2 in Hr. inversion Hr; subst u.
  split; [exact Hu|]. rewrite Ht, Hhost. reflexivity.
Qed.


(* ---- two more adapters: the outgoing Host (Hostmux.forward vs Signer.director) and the minted session
        (ProxyAll.mint_session vs ProxyWorld.login_session) ---- *)
Lemma sign_host cv cvh c r : Signer.r_host (Signer.sign cv cvh c r) = Signer.r_host r.
Proof. unfold Signer.sign. destruct (Signer.c_skip c), (Signer.c_hmac c), (Signer.c_signer c); reflexivity. Qed.

Theorem host_views_agree d u q pre id :
  rq_host q <> [] ->
  bk_host (backend_of d u q pre id) = Signer.r_host (bk_req (backend_of d u q pre id)).
Proof.
  intros Hh. cbn [ProxyAll.backend_of bk_host bk_req Hostmux.forward Hostmux.r_fwd_host hm_request Hostmux.q_host].
  unfold received_request. cbn [Signer.wire Signer.r_host Signer.rp_edits Signer.director].
  rewrite sign_host. cbn [signer_request Signer.r_host sg_cfg Signer.c_preserve_host Signer.c_thost].
  destruct (Hostmux.u_preserve (up_hm u)); [|reflexivity].
  unfold Hostmux.preserved_host. destruct (rq_host q); [congruence | reflexivity].
Qed.

Theorem mint_is_login_session d u q a now e acc rt ex :
  an_redeem_body a = Some (e, acc, rt, ex) ->
  let s := mint_session lower d u q a now in
  let s0 := ProxyWorld.login_session (pc_cfg d u) (fun _ => pc_pol u) now (rq_host q) e acc rt ex (groups_answer_of a) in
  ProxyCore.s_user s = user_of_email lower e /\
  ProxyCore.s_slug s = ProxyCore.s_slug s0 /\ ProxyCore.s_email s = ProxyCore.s_email s0 /\
  ProxyCore.s_access s = ProxyCore.s_access s0 /\ ProxyCore.s_refresh_tok s = ProxyCore.s_refresh_tok s0 /\
  ProxyCore.s_refresh_dl s = ProxyCore.s_refresh_dl s0 /\ ProxyCore.s_lifetime_dl s = ProxyCore.s_lifetime_dl s0 /\
  ProxyCore.s_valid_dl s = ProxyCore.s_valid_dl s0 /\ ProxyCore.s_grace s = ProxyCore.s_grace s0 /\
  ProxyCore.s_groups s = ProxyCore.s_groups s0 /\ ProxyCore.s_upstream s = ProxyCore.s_upstream s0.
Proof. intros Hb. cbn zeta. unfold ProxyAll.mint_session. rewrite Hb. repeat split. Qed.

End Composite.

(* ================================================================================================ *)
(* Part 5 — a concrete deployment: the hypotheses of the theorems are satisfiable and the conclusions
   are not vacuous *)
Module Ex.
Import Coq.Strings.String.StringSyntax.
Definition bs := RespHeaders.bs.
Arguments bs s%string_scope.

Definition h_app : str := bs "app.example.test".
Definition h_rw : str := bs "x.rw.test".
Definition b_app : str := bs "127.0.0.1:9001".
Definition b_rw : str := bs "127.0.0.1:9002".
Definition ex_match (p s : str) : bool := has_suffix s p || has_prefix s p.   (* stands for regexp *)
Definition ex_replace (p s tmpl : str) : str := tmpl.

Definition up_app : iupstream :=
  {| up_hm := {| Hostmux.u_route := Hostmux.Simple h_app b_app;
                 Hostmux.u_policy := {| p_addresses := []; p_domains := [bs "example.com"]; p_groups := [] |};
                 Hostmux.u_slug := []; Hostmux.u_skip := [bs "/open/"]; Hostmux.u_preserve := false |};
     up_overrides := [(bs "X-Frame-Options", bs "DENY")]; up_inject := [(bs "X-Custom", bs "op")];
     up_replace := true; up_hmac := Some (bs "k"); up_skip_sign := false |}.
Definition up_rw : iupstream :=
  {| up_hm := {| Hostmux.u_route := Hostmux.Rewrite (bs ".rw.test") b_rw;
                 Hostmux.u_policy := {| p_addresses := []; p_domains := [bs "*"]; p_groups := [] |};
                 Hostmux.u_slug := bs "okta"; Hostmux.u_skip := []; Hostmux.u_preserve := true |};
     up_overrides := []; up_inject := []; up_replace := false; up_hmac := None; up_skip_sign := false |}.
Definition dep : deployment :=
  {| dp_ups := [up_app; up_rw]; dp_slug := bs "google"; dp_L := 86400%Z; dp_V := 600%Z; dp_G := 0%Z;
     dp_secure := true; dp_httponly := true; dp_cookie_name := bs "_sso_proxy"; dp_cookie_domain := [];
     dp_signer := Some 1; dp_auth_base := bs "https://auth.example" |}.

Definition sess (host slug : str) : ProxyCore.session :=
  {| ProxyCore.s_slug := slug; ProxyCore.s_email := bs "bob@example.com"; ProxyCore.s_user := bs "bob";
     ProxyCore.s_access := bs "at"; ProxyCore.s_refresh_tok := bs "rt"; ProxyCore.s_refresh_dl := 5000%Z;
     ProxyCore.s_lifetime_dl := 90000%Z; ProxyCore.s_valid_dl := 2000%Z; ProxyCore.s_grace := None;
     ProxyCore.s_groups := [bs "eng"]; ProxyCore.s_upstream := host |}.
Definition ex_opens (v : str) : option ProxyCore.session :=
  if str_eqb v (bs "SEALED-APP") then Some (sess h_app (bs "google"))
  else if str_eqb v (bs "SEALED-RW") then Some (sess h_rw (bs "okta")) else None.

Definition mkreq (host path : str) (client : list (str * str)) : request :=
  {| rq_host := host; rq_method := bs "GET"; rq_path := path; rq_rawquery := bs "a=1"; rq_client := client; rq_body := [];
     rq_chunked := false; rq_ip := bs "10.0.0.7"; cb_form_ok := true; cb_error := []; cb_code := [];
     cb_state := Callback.WJunk 0; cb_csrf := None |}.
Definition quiet : answers :=
  {| an_auth := {| ProxyCore.a_refresh := ProxyCore.Transport; ProxyCore.a_refresh_body := None;
                   ProxyCore.a_validate := ProxyCore.Transport; ProxyCore.a_profile := ProxyCore.Transport;
                   ProxyCore.a_profile_body := None |};
     an_redeem := ProxyCore.Transport; an_redeem_body := None;
     an_backend := {| RespHeaders.u_n1xx := 0; RespHeaders.u_status := 200;
                      RespHeaders.u_lines := [(bs "X-Frame-Options", bs "ALLOWALL"); (bs "Strict-Transport-Security", bs "max-age=0")];
                      RespHeaders.u_announced := []; RespHeaders.u_trailers := [] |} |}.
Definition https_hdr : str * str := (bs "X-Forwarded-Proto", bs "https").
Definition q_app : request :=
  mkreq h_app (bs "/x/page")
    [https_hdr; (bs "Cookie", bs "theme=dark; _sso_proxy=SEALED-APP"); (bs "x-forwarded-email", bs "mallory@evil");
     (bs "Authorization", bs "Bearer abc")].
Definition q_replay : request := mkreq h_rw (bs "/x/page") [https_hdr; (bs "Cookie", bs "_sso_proxy=SEALED-APP")].
Definition q_rw : request := mkreq h_rw (bs "/x/page") [https_hdr; (bs "Cookie", bs "_sso_proxy=SEALED-RW")].
Definition q_none : request := mkreq (bs "nowhere.example") (bs "/x/page") [https_hdr; (bs "Cookie", bs "_sso_proxy=SEALED-APP")].
Definition q_plain : request := mkreq h_app (bs "/x/page") [(bs "Cookie", bs "_sso_proxy=SEALED-APP")].

Definition run (q : request) : outcome := serve ex_match ex_replace lower_ascii ex_opens dep q quiet 1000%Z.

(* the request with its own session is forwarded to ITS backend, carries exactly the session's identity
   (the client's X-Forwarded-Email is gone), the other cookie but not the session cookie, the operator's
   header, and both signatures verify over what is received; the response is hardened although the backend
   tried to weaken it *)
Example served_on_own_upstream :
  match oc_backend (run q_app) with
  | Some bv =>
      bk_target bv = b_app /\ bk_host bv = b_app /\
      Signer.hvals Signer.x_forwarded_email (Signer.r_headers (bk_req bv)) = [bs "bob@example.com"] /\
      Signer.hvals Signer.x_forwarded_user (Signer.r_headers (bk_req bv)) = [bs "bob"] /\
      Signer.hvals Signer.x_forwarded_groups (Signer.r_headers (bk_req bv)) = [bs "eng"] /\
      Signer.hvals Signer.cookie_h (Signer.r_headers (bk_req bv)) = [bs "theme=dark"] /\
      Signer.hvals (bs "X-Custom") (Signer.r_headers (bk_req bv)) = [bs "op"] /\
      Signer.verify_rsa Signer_gen_proofs.g_cov (Signer.published_certs (sg_cfg ex_replace dep up_app h_app)) (bk_req bv) = Some true /\
      Signer.verify_hmac Signer_gen_proofs.g_covh (bs "k") (bk_req bv) = 3 /\
      Signer.conn_safe Signer_gen_proofs.g_protected (Signer.r_headers (signer_request q_app (bk_handler bv))) = true /\
      Signer.cl_canonical (signer_request q_app (bk_handler bv)) = true
  | None => False
  end /\
  match oc_client (run q_app) with
  | RespHeaders.Resp st h =>
      st = 200 /\ RespHeaders.hget RespHeaders.k_xfo h = [RespHeaders.VStr (bs "DENY")] /\
      RespHeaders.hget RespHeaders.k_xcto h = [RespHeaders.VStr (bs "nosniff")] /\
      RespHeaders.hget RespHeaders_gen_proofs.hsts_k h = [RespHeaders.VStr (bs "max-age=31536000")]
  | RespHeaders.NoResponse => False
  end.
Proof. vm_compute. repeat split. Qed.

(* the same cookie on the other upstream's host: no backend, sign-in at THAT upstream's provider, cookie cleared;
   an unrouted host: 421; plain http under secure cookies: 301, nothing else happens *)
Example refused_elsewhere :
  oc_backend (run q_replay) = None /\ oc_loc (run q_replay) = LkSignIn (bs "okta") /\ oc_session (run q_replay) = ProxyCore.CCleared /\
  (match oc_backend (run q_rw) with Some bv => bk_target bv = b_rw /\ bk_host bv = h_rw | None => False end) /\
  run q_none = misdirected /\
  oc_backend (run q_plain) = None /\ oc_loc (run q_plain) = LkHttps /\
  match oc_client (run q_plain) with RespHeaders.Resp st _ => st = 301 | _ => False end.
Proof. vm_compute. repeat split. Qed.
End Ex.
