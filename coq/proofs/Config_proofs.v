(* Config_proofs.v — lemmas about the configuration model (Config.v) used by props/C14.v. *)
From V Require Import Base Base_proofs Config.
From Coq Require Import ZifyN ZifyBool Permutation.

(* ------------------------------------------------------------------------------------------ *)
(* small facts *)
Lemma is_nil_true {A} (l : list A) : is_nil l = true <-> l = [].
Proof. destruct l; simpl; split; congruence. Qed.
Lemma is_nil_false {A} (l : list A) : is_nil l = false <-> l <> [].
Proof. destruct l; simpl; split; congruence. Qed.

Lemma mapM_ok {A B} (f : A -> result B) l ys :
  mapM f l = Ok ys -> Forall2 (fun x y => f x = Ok y) l ys.
Proof.
  revert ys; induction l as [|x l IH]; intros ys H; simpl in H.
  - inversion H; constructor.
  - destruct (f x) as [y|e] eqn:Fx; simpl in H; [|discriminate].
    destruct (mapM f l) as [ys'|e] eqn:M; simpl in H; [|discriminate].
    inversion H; subst. constructor; auto.
Qed.

Lemma mapM_ok_inv {A B} (f : A -> result B) l ys :
  Forall2 (fun x y => f x = Ok y) l ys -> mapM f l = Ok ys.
Proof. induction 1 as [|x y l ys Hxy _ IH]; simpl; [reflexivity|]. rewrite Hxy; simpl. rewrite IH; reflexivity. Qed.

Lemma Forall2_comp {A B C} (R1 : A -> B -> Prop) (R2 : B -> C -> Prop) a b c :
  Forall2 R1 a b -> Forall2 R2 b c -> Forall2 (fun x z => exists y, R1 x y /\ R2 y z) a c.
Proof.
  intros H; revert c; induction H as [|x y a b Hxy _ IH]; intros c H2; inversion H2; subst; constructor.
  - exists y; auto.
  - apply IH; assumption.
Qed.

Lemma Forall2_imp {A B} (R R' : A -> B -> Prop) a b :
  (forall x y, R x y -> R' x y) -> Forall2 R a b -> Forall2 R' a b.
Proof. intros HR; induction 1; constructor; auto. Qed.

Lemma Forall2_right {A B} (R : A -> B -> Prop) (P : B -> Prop) a b :
  (forall x y, R x y -> P y) -> Forall2 R a b -> Forall P b.
Proof. intros HR; induction 1; constructor; eauto. Qed.

(* ------------------------------------------------------------------------------------------ *)
(* what one resolved upstream looks like, and when an element passes every pass *)
Definition tuple_of (O : oracle) (D : opts) (u : upstream0) (k : N) : upstream :=
  let o := effective_opts D (u0_route u) in
  MU (u0_service u) (rc_from (u0_route u)) (rc_to (u0_route u)) (rc_type (u0_route u)) k
     (o_groups o) (o_domains o) (o_addresses o) (o_skip_auth_regex o)
     (o_timeout o) (o_reset_deadline o) (o_flush_interval o)
     (o_header_overrides o) (o_inject_headers o)
     (o_tls_skip o) (o_preserve_host o) (o_skip_signing o) false false
     (o_provider_slug o) (o_cookie_name o) false (route_parts O (u0_route u) k).

Definition has_key (tv : smap) (svc : str) : bool :=
  match map_get (svc ++ lit_signing_key) tv with Some _ => true | None => false end.

Definition elem_ok (O : oracle) (E : env) (u : upstream0) (k : N) : Prop :=
  u0_service u <> [] /\ rc_from (u0_route u) <> [] /\ rc_to (u0_route u) <> [] /\
  route_kind O (u0_route u) = Ok k /\
  forallb (re_ok O) (o_skip_auth_regex (effective_opts (e_defaults E) (u0_route u))) = true /\
  (forall spec, map_get (u0_service u ++ lit_signing_key) (e_tvars E) = Some spec -> hmac_spec_ok O spec = true).

Definition resolved_as (O : oracle) (E : env) (u0 : upstream0) (u : upstream) : Prop :=
  exists k, elem_ok O E u0 k /\
            u = set_hmac (tuple_of O (e_defaults E) u0 k) (has_key (e_tvars E) (u0_service u0)).

Lemma validate_ok u y : validate u = Ok y ->
  y = u /\ u0_service u <> [] /\ rc_from (u0_route u) <> [] /\ rc_to (u0_route u) <> [].
Proof.
  unfold validate. destruct (is_nil (u0_service u)) eqn:E1; [discriminate|].
  destruct (is_nil (rc_from (u0_route u))) eqn:E2; [discriminate|].
  destruct (is_nil (rc_to (u0_route u))) eqn:E3; [discriminate|].
  intros H; inversion H; subst. repeat split; apply is_nil_false; assumption.
Qed.

Lemma parse_options_ok O D u k x : parse_options O D (u, k) = Ok x ->
  x = tuple_of O D u k /\ forallb (re_ok O) (o_skip_auth_regex (effective_opts D (u0_route u))) = true.
Proof.
  unfold parse_options; simpl.
  destruct (forallb (re_ok O) (o_skip_auth_regex (effective_opts D (u0_route u)))) eqn:F; [|discriminate].
  intros H; inversion H; subst. split; reflexivity.
Qed.

Lemma add_hmac_ok O tv D u k y : add_hmac O tv (tuple_of O D u k) = Ok y ->
  y = set_hmac (tuple_of O D u k) (has_key tv (u0_service u)) /\
  (forall spec, map_get (u0_service u ++ lit_signing_key) tv = Some spec -> hmac_spec_ok O spec = true).
Proof.
  unfold add_hmac, has_key; simpl.
  destruct (map_get (u0_service u ++ lit_signing_key) tv) as [spec|] eqn:G.
  - destruct (hmac_spec_ok O spec) eqn:Hs; [|discriminate].
    intros H; inversion H; subst. split; [reflexivity|]. intros s Hs'. inversion Hs'; subst; assumption.
  - intros H; inversion H; subst. split; [reflexivity | discriminate].
Qed.

Lemma load_resolved_elems O E d ups :
  load_resolved O E d = Ok ups ->
  Forall2 (resolved_as O E) (routes (e_cluster E) d) ups.
Proof.
  unfold load_resolved.
  destruct (mapM validate (routes (e_cluster E) d)) as [c1|] eqn:M1; simpl; [|discriminate].
  destruct (mapM (fun u => bind (route_kind O (u0_route u)) (fun k => Ok (u, k))) c1) as [c2|] eqn:M2; simpl; [|discriminate].
  destruct (mapM (parse_options O (e_defaults E)) c2) as [c3|] eqn:M3; simpl; [|discriminate].
  intros M4.
  apply mapM_ok in M1, M2, M3, M4.
  pose proof (Forall2_comp _ _ _ _ _ (Forall2_comp _ _ _ _ _ (Forall2_comp _ _ _ _ _ M1 M2) M3) M4) as H.
  revert H. apply Forall2_imp. intros u0 u [y3 [[y2 [[y1 [V R]] P]] Hm]].
  apply validate_ok in V as [-> [Hs [Hf Ht]]].
  destruct (route_kind O (u0_route u0)) as [k|] eqn:RK; simpl in R; [|discriminate].
  inversion R; subst y2.
  apply parse_options_ok in P as [-> Hre].
  apply add_hmac_ok in Hm as [-> Hh].
  exists k. split; [|reflexivity]. repeat split; assumption.
Qed.

Lemma load_resolved_elems_inv O E d ups :
  Forall2 (resolved_as O E) (routes (e_cluster E) d) ups -> load_resolved O E d = Ok ups.
Proof.
  intros H. unfold load_resolved.
  set (cs := routes (e_cluster E) d) in *.
  assert (K : exists ks, Forall2 (fun u k => elem_ok O E u k) cs ks /\
                         ups = map (fun uk => set_hmac (tuple_of O (e_defaults E) (fst uk) (snd uk)) (has_key (e_tvars E) (u0_service (fst uk)))) (combine cs ks)).
  { clear -H. induction H as [|u0 u cs ups [k [Hk ->]] _ [ks [F ->]]].
    - exists []; split; [constructor | reflexivity].
    - exists (k :: ks); split; [constructor; assumption | reflexivity]. }
  destruct K as [ks [F ->]].
  assert (M1 : mapM validate cs = Ok cs).
  { apply mapM_ok_inv. clear -F. induction F as [|u k cs ks [Hs [Hf [Ht _]]] _ IH]; constructor; [|assumption].
    unfold validate. apply is_nil_false in Hs, Hf, Ht. rewrite Hs, Hf, Ht. reflexivity. }
  rewrite M1; simpl.
  assert (M2 : mapM (fun u => bind (route_kind O (u0_route u)) (fun k => Ok (u, k))) cs = Ok (combine cs ks)).
  { apply mapM_ok_inv. clear -F. induction F as [|u k cs ks [_ [_ [_ [Hr _]]]] _ IH]; simpl; constructor; [|assumption].
    rewrite Hr; reflexivity. }
  rewrite M2; simpl.
  assert (M3 : mapM (parse_options O (e_defaults E)) (combine cs ks) =
               Ok (map (fun uk => tuple_of O (e_defaults E) (fst uk) (snd uk)) (combine cs ks))).
  { apply mapM_ok_inv. clear -F. induction F as [|u k cs ks [_ [_ [_ [_ [Hre _]]]]] _ IH]; simpl; constructor; [|assumption].
    unfold parse_options; simpl. rewrite Hre. reflexivity. }
  rewrite M3; simpl.
  apply mapM_ok_inv. clear -F. induction F as [|u k cs ks [_ [_ [_ [_ [_ Hh]]]]] _ IH]; simpl; constructor; [|assumption].
  unfold add_hmac, has_key; simpl.
  destruct (map_get (u0_service u ++ lit_signing_key) (e_tvars E)) as [spec|] eqn:G; [|reflexivity].
  rewrite (Hh spec eq_refl). reflexivity.
Qed.

(* the loader accepts exactly when every resolved route passes every check *)
Lemma load_resolved_iff O E d ups :
  load_resolved O E d = Ok ups <-> Forall2 (resolved_as O E) (routes (e_cluster E) d) ups.
Proof. split; [apply load_resolved_elems | apply load_resolved_elems_inv]. Qed.

Lemma route_kind_ok O r k : route_kind O r = Ok k ->
  (k = 0 /\ (rc_type r = [] \/ rc_type r = lit_simple) /\ url_ok O (rc_from r) = true /\ url_ok O (rc_to r) = true) \/
  (k = 1 /\ rc_type r = lit_rewrite /\ re_ok O (rc_from r) = true).
Proof.
  unfold route_kind.
  destruct (str_eqb (rc_type r) lit_simple || is_nil (rc_type r)) eqn:T1.
  - destruct (url_ok O (rc_from r)) eqn:U1; [|discriminate]. destruct (url_ok O (rc_to r)) eqn:U2; [|discriminate].
    intros H; inversion H; subst. left. repeat split.
    apply orb_true_iff in T1 as [T|T]; [right; apply str_eqb_eq; assumption | left; apply is_nil_true; assumption].
  - destruct (str_eqb (rc_type r) lit_rewrite) eqn:T2; [|discriminate].
    destruct (re_ok O (rc_from r)) eqn:R; [|discriminate].
    intros H; inversion H; subst. right. repeat split. apply str_eqb_eq; assumption.
Qed.

(* ------------------------------------------------------------------------------------------ *)
(* C14_fail_closed *)
Definition good (O : oracle) (u : upstream) : Prop :=
  u_service u <> [] /\ u_from u <> [] /\ u_to u <> [] /\
  ((u_kind u = 0 /\ (u_type u = [] \/ u_type u = lit_simple) /\
    url_ok O (u_from u) = true /\ url_ok O (u_to u) = true) \/
   (u_kind u = 1 /\ u_type u = lit_rewrite /\ re_ok O (u_from u) = true)) /\
  Forall (fun p => re_ok O p = true) (u_skip u) /\
  u_groups u ++ u_domains u ++ u_addresses u <> [].

Lemma has_allow_rule_spec u : has_allow_rule u = true <-> u_groups u ++ u_domains u ++ u_addresses u <> [].
Proof.
  unfold has_allow_rule. destruct (u_groups u), (u_domains u), (u_addresses u); simpl; split; congruence.
Qed.

Lemma set_upstream_configs_ok O E d ups :
  set_upstream_configs O E d = Ok ups <->
  load_configs O E d = Ok ups /\ forallb has_allow_rule ups = true.
Proof.
  unfold set_upstream_configs, check_rules. destruct (load_configs O E d) as [x|e]; simpl.
  - destruct (forallb has_allow_rule x) eqn:F; split.
    + intros H; inversion H; subst; auto.
    + intros [H _]; assumption.
    + discriminate.
    + intros [H F']; inversion H; subst; congruence.
  - split; [discriminate | intros [H _]; discriminate].
Qed.

(* every upstream of an accepted configuration: non-empty service/from/to, a route of a known
   type that the URL parser / regexp compiler accepted, every listed skip-auth pattern compiled
   (the list is exactly the effective options' list: nothing is dropped), at least one allow
   rule; and it is the resolution of one route the document states for the selected cluster *)
Lemma fail_closed O E d ups :
  set_upstream_configs O E d = Ok ups ->
  Forall (good O) ups /\
  Forall2 (fun u0 u => u_skip u = o_skip_auth_regex (effective_opts (e_defaults E) (u0_route u0)) /\
                       u_service u = u0_service u0 /\ u_from u = rc_from (u0_route u0) /\
                       u_to u = rc_to (u0_route u0) /\ u_type u = rc_type (u0_route u0) /\
                       u_route u = route_parts O (u0_route u0) (u_kind u))
          (routes (e_cluster E) (subst_doc (e_tvars E) d)) ups.
Proof.
  intros H. apply set_upstream_configs_ok in H as [L R]. unfold load_configs in L.
  apply load_resolved_elems in L. split.
  - rewrite forallb_forall in R. rewrite Forall_forall. intros u Hu.
    assert (G : Forall (fun u => has_allow_rule u = true -> good O u) ups).
    { revert L. apply Forall2_right. intros u0 u' [k [[Hs [Hf [Ht [Hr [Hre _]]]]] ->]] Hal.
      unfold good; simpl. repeat split; try assumption.
      - apply route_kind_ok in Hr. exact Hr.
      - rewrite forallb_forall in Hre. apply Forall_forall. exact Hre.
      - apply has_allow_rule_spec in Hal. exact Hal. }
    rewrite Forall_forall in G. apply G; [assumption | apply R; assumption].
  - revert L. apply Forall2_imp. intros u0 u [k [_ ->]]. simpl. repeat split; reflexivity.
Qed.

(* malformed variants are refused: if any route the document states for the selected cluster
   (after template substitution) is malformed, SetUpstreamConfigs returns an error *)
Definition malformed (O : oracle) (E : env) (u : upstream0) : Prop :=
  u0_service u = [] \/ rc_from (u0_route u) = [] \/ rc_to (u0_route u) = [] \/
  (rc_type (u0_route u) <> [] /\ rc_type (u0_route u) <> lit_simple /\ rc_type (u0_route u) <> lit_rewrite) \/
  ((rc_type (u0_route u) = [] \/ rc_type (u0_route u) = lit_simple) /\
   (url_ok O (rc_from (u0_route u)) = false \/ url_ok O (rc_to (u0_route u)) = false)) \/
  (rc_type (u0_route u) = lit_rewrite /\ re_ok O (rc_from (u0_route u)) = false) \/
  (exists p, In p (o_skip_auth_regex (effective_opts (e_defaults E) (u0_route u))) /\ re_ok O p = false) \/
  (exists spec, map_get (u0_service u ++ lit_signing_key) (e_tvars E) = Some spec /\ hmac_spec_ok O spec = false) \/
  (let o := effective_opts (e_defaults E) (u0_route u) in
   o_groups o = [] /\ o_domains o = [] /\ o_addresses o = []).

Lemma Forall2_in_left {A B} (R : A -> B -> Prop) a b x :
  Forall2 R a b -> In x a -> exists y, In y b /\ R x y.
Proof.
  induction 1 as [|x' y' a b Hxy _ IH]; intros Hin; [contradiction|].
  destruct Hin as [->|Hin]; [exists y'; split; [left; reflexivity | assumption]|].
  destruct (IH Hin) as [y [Hy Hr]]. exists y; split; [right; assumption | assumption].
Qed.

Lemma accepted_not_malformed O E u k :
  elem_ok O E u k ->
  has_allow_rule (set_hmac (tuple_of O (e_defaults E) u k) (has_key (e_tvars E) (u0_service u))) = true ->
  ~ malformed O E u.
Proof.
  intros [Hs [Hf [Ht [Hr [Hre Hh]]]]] Hal Hbad.
  apply route_kind_ok in Hr. unfold malformed in Hbad.
  destruct Hbad as [B|[B|[B|[B|[B|[B|[B|[B|B]]]]]]]]; try contradiction.
  - destruct B as [B1 [B2 B3]]. destruct Hr as [[_ [[T|T] _]]|[_ [T _]]]; contradiction.
  - destruct B as [B1 B2]. destruct Hr as [[_ [_ [U1 U2]]]|[_ [T _]]].
    + destruct B2; congruence.
    + rewrite T in B1. destruct B1; discriminate.
  - destruct B as [B1 B2]. destruct Hr as [[_ [[T|T] _]]|[_ [_ R]]].
    + rewrite T in B1; discriminate.
    + rewrite T in B1; discriminate.
    + congruence.
  - destruct B as [p [Hp Hb]]. rewrite forallb_forall in Hre. rewrite (Hre p Hp) in Hb. discriminate.
  - destruct B as [spec [G Hb]]. rewrite (Hh spec G) in Hb. discriminate.
  - apply has_allow_rule_spec in Hal. simpl in Hal, B. destruct B as [B1 [B2 B3]].
    rewrite B1, B2, B3 in Hal. apply Hal; reflexivity.
Qed.

Lemma malformed_rejected O E d u0 :
  In u0 (routes (e_cluster E) (subst_doc (e_tvars E) d)) -> malformed O E u0 ->
  exists e, set_upstream_configs O E d = Err e.
Proof.
  intros Hin Hbad.
  destruct (set_upstream_configs O E d) as [ups|e] eqn:S; [|exists e; reflexivity].
  exfalso. apply set_upstream_configs_ok in S as [L R]. unfold load_configs in L.
  apply load_resolved_elems in L.
  destruct (Forall2_in_left _ _ _ _ L Hin) as [u [Hu [k [Hok Heq]]]].
  rewrite forallb_forall in R. specialize (R u Hu). subst u.
  exact (accepted_not_malformed O E u0 k Hok R Hbad).
Qed.

(* ------------------------------------------------------------------------------------------ *)
(* merge algebra *)
Definition keys (m : smap) : list str := map fst m.

Lemma map_get_set k k' v m :
  map_get k (map_set k' v m) = if str_eqb k k' then Some v else map_get k m.
Proof.
  induction m as [|[a b] m IH]; simpl.
  - destruct (str_eqb k k'); reflexivity.
  - destruct (str_eqb k' a) eqn:E; simpl.
    + apply str_eqb_eq in E; subst a. destruct (str_eqb k k'); reflexivity.
    + destruct (str_eqb k a) eqn:E2.
      * destruct (str_eqb k k') eqn:E3; [|reflexivity].
        apply str_eqb_eq in E2, E3; subst. rewrite str_eqb_refl in E; discriminate.
      * exact IH.
Qed.

Lemma map_get_notin k m : ~ In k (keys m) -> map_get k m = None.
Proof.
  induction m as [|[a b] m IH]; simpl; intros H; [reflexivity|].
  destruct (str_eqb k a) eqn:E; [apply str_eqb_eq in E; subst; exfalso; apply H; left; reflexivity|].
  apply IH. intros Hin; apply H; right; assumption.
Qed.

Lemma map_get_in k v m : map_get k m = Some v -> In k (keys m).
Proof.
  induction m as [|[a b] m IH]; simpl; [discriminate|].
  destruct (str_eqb k a) eqn:E; [apply str_eqb_eq in E; subst; left; reflexivity | right; auto].
Qed.

(* the result of mergo's map merge, key by key (keys of a Go map are distinct) *)
Lemma map_get_merge ow k src : NoDup (keys src) -> forall dst,
  map_get k (merge_map ow dst src) =
  match map_get k src with
  | Some sv => match map_get k dst with
               | Some dv => if ow || is_nil dv then Some sv else Some dv
               | None => Some sv
               end
  | None => map_get k dst
  end.
Proof.
  unfold merge_map. induction src as [|[k1 v1] src IH]; intros ND dst; simpl; [reflexivity|].
  inversion ND as [|? ? Hnot ND']; subst. rewrite (IH ND'). clear IH.
  unfold merge_map_step; simpl.
  destruct (str_eqb k k1) eqn:E.
  - apply str_eqb_eq in E; subst k1. rewrite (map_get_notin k src Hnot).
    destruct (map_get k dst) as [dv|] eqn:G.
    + destruct (ow || is_nil dv) eqn:C; [rewrite map_get_set, str_eqb_refl; reflexivity | exact G].
    + rewrite map_get_set, str_eqb_refl; reflexivity.
  - assert (G : map_get k (match map_get k1 dst with
                           | Some dv => if ow || is_nil dv then map_set k1 v1 dst else dst
                           | None => map_set k1 v1 dst end) = map_get k dst).
    { destruct (map_get k1 dst) as [dv|]; [destruct (ow || is_nil dv)|]; try reflexivity;
        rewrite map_get_set, E; reflexivity. }
    rewrite G. reflexivity.
Qed.

Lemma map_get_merge_empty k m : NoDup (keys m) -> map_get k (merge_map true [] m) = map_get k m.
Proof. intros ND. rewrite (map_get_merge true k m ND []). simpl. destruct (map_get k m); reflexivity. Qed.

(* "child states it, else the parent's": the shape of every field-by-field statement *)
Definition inherits {A} (emp : A -> bool) (child parent result : A) : Prop :=
  result = if emp child then parent else child.

(* header maps, key by key: the child's non-empty value, else the parent's binding, else the
   child's (empty) binding, else nothing *)
Definition inherits_map (child parent result : smap) : Prop :=
  forall k, map_get k result =
            match map_get k child with
            | Some (c :: v) => Some (c :: v)
            | other => match map_get k parent with Some pv => Some pv | None => other end
            end.

Definition ofield {A} (p : opts -> A) (o : option opts) : A :=
  match o with Some x => p x | None => p empty_opts end.

Ltac solve_field :=
  unfold inherits, mg, emp_list, emp_bool, emp_Z; simpl;
  repeat match goal with
         | |- context [is_nil ?l] => is_var l; destruct l; simpl
         | |- context [negb ?b] => is_var b; destruct b; simpl
         | |- context [Z.eqb ?z 0] => is_var z; destruct (Z.eqb_spec z 0); subst; simpl
         end; try reflexivity; try congruence.

(* the non-overriding deep merge of an extra route's options with its parent's, field by field *)
Lemma extra_opts_inherit (e p : option opts) :
  let r := merge_optptr false e p in
  inherits emp_list (ofield o_skip_auth_regex e) (ofield o_skip_auth_regex p) (ofield o_skip_auth_regex r) /\
  inherits emp_list (ofield o_groups e) (ofield o_groups p) (ofield o_groups r) /\
  inherits emp_list (ofield o_domains e) (ofield o_domains p) (ofield o_domains r) /\
  inherits emp_list (ofield o_addresses e) (ofield o_addresses p) (ofield o_addresses r) /\
  inherits emp_bool (ofield o_tls_skip e) (ofield o_tls_skip p) (ofield o_tls_skip r) /\
  inherits emp_bool (ofield o_skip_preflight e) (ofield o_skip_preflight p) (ofield o_skip_preflight r) /\
  inherits emp_bool (ofield o_pass_token e) (ofield o_pass_token p) (ofield o_pass_token r) /\
  inherits emp_bool (ofield o_preserve_host e) (ofield o_preserve_host p) (ofield o_preserve_host r) /\
  inherits emp_Z (ofield o_timeout e) (ofield o_timeout p) (ofield o_timeout r) /\
  inherits emp_Z (ofield o_reset_deadline e) (ofield o_reset_deadline p) (ofield o_reset_deadline r) /\
  inherits emp_Z (ofield o_flush_interval e) (ofield o_flush_interval p) (ofield o_flush_interval r) /\
  inherits emp_bool (ofield o_skip_signing e) (ofield o_skip_signing p) (ofield o_skip_signing r) /\
  inherits emp_list (ofield o_provider_slug e) (ofield o_provider_slug p) (ofield o_provider_slug r) /\
  inherits emp_list (ofield o_cookie_name e) (ofield o_cookie_name p) (ofield o_cookie_name r) /\
  (NoDup (keys (ofield o_header_overrides p)) ->
   inherits_map (ofield o_header_overrides e) (ofield o_header_overrides p) (ofield o_header_overrides r)) /\
  (NoDup (keys (ofield o_inject_headers p)) ->
   inherits_map (ofield o_inject_headers e) (ofield o_inject_headers p) (ofield o_inject_headers r)).
Proof.
  assert (M : forall a b : smap, NoDup (keys b) -> inherits_map a b (merge_map false a b)).
  { intros a b ND k. rewrite (map_get_merge false k b ND a). simpl.
    destruct (map_get k b) as [pv|], (map_get k a) as [[|c v]|]; reflexivity. }
  assert (M0 : forall a : smap, inherits_map a [] a).
  { intros a k. simpl. destruct (map_get k a) as [[|c v]|]; reflexivity. }
  assert (M1 : forall b : smap, inherits_map [] b b).
  { intros b k. simpl. destruct (map_get k b); reflexivity. }
  destruct e as [e|], p as [p|]; simpl.
  - destruct e, p; simpl. repeat split; try solve_field; intros ND; apply M; assumption.
  - destruct e; simpl. repeat split; try solve_field; intros _; apply M0.
  - destruct p; simpl. repeat split; try solve_field; intros _; apply M1.
  - repeat split; try solve_field; intros _; apply M0.
Qed.

(* ---- generic option fields: everything mergo does to a scalar/slice field of OptionsConfig ---- *)
Definition is_field {A} (emp : A -> bool) (f : opts -> A) : Prop :=
  (forall ow d s, f (merge_opts ow d s) = mg emp ow (f d) (f s)) /\
  emp (f empty_opts) = true /\
  (forall x, emp x = true -> x = f empty_opts).

Definition is_mfield (f : opts -> smap) : Prop :=
  (forall ow d s, f (merge_opts ow d s) = merge_map ow (f d) (f s)) /\ f empty_opts = [].

Lemma emp_list_nil {A} (x : list A) : emp_list x = true -> x = [].
Proof. apply is_nil_true. Qed.
Lemma emp_bool_false x : emp_bool x = true -> x = false.
Proof. destruct x; simpl; congruence. Qed.
Lemma emp_Z_zero x : emp_Z x = true -> x = 0%Z.
Proof. unfold emp_Z. intros H. apply Z.eqb_eq in H. exact H. Qed.

Ltac field_tac := split; [intros ow [] []; reflexivity | split; [reflexivity | first [apply @emp_list_nil | apply emp_bool_false | apply emp_Z_zero]]].

Lemma fld_skip : is_field emp_list o_skip_auth_regex. Proof. field_tac. Qed.
Lemma fld_groups : is_field emp_list o_groups. Proof. field_tac. Qed.
Lemma fld_domains : is_field emp_list o_domains. Proof. field_tac. Qed.
Lemma fld_addresses : is_field emp_list o_addresses. Proof. field_tac. Qed.
Lemma fld_tls : is_field emp_bool o_tls_skip. Proof. field_tac. Qed.
Lemma fld_preflight : is_field emp_bool o_skip_preflight. Proof. field_tac. Qed.
Lemma fld_pass_token : is_field emp_bool o_pass_token. Proof. field_tac. Qed.
Lemma fld_preserve : is_field emp_bool o_preserve_host. Proof. field_tac. Qed.
Lemma fld_timeout : is_field emp_Z o_timeout. Proof. field_tac. Qed.
Lemma fld_reset : is_field emp_Z o_reset_deadline. Proof. field_tac. Qed.
Lemma fld_flush : is_field emp_Z o_flush_interval. Proof. field_tac. Qed.
Lemma fld_signing : is_field emp_bool o_skip_signing. Proof. field_tac. Qed.
Lemma fld_slug : is_field emp_list o_provider_slug. Proof. field_tac. Qed.
Lemma fld_cookie : is_field emp_list o_cookie_name. Proof. field_tac. Qed.
Lemma mfld_ho : is_mfield o_header_overrides. Proof. split; [intros ow [] []; reflexivity | reflexivity]. Qed.
Lemma mfld_inj : is_mfield o_inject_headers. Proof. split; [intros ow [] []; reflexivity | reflexivity]. Qed.

Lemma inherits_chain {A} (emp : A -> bool) e p r D Er Ep :
  inherits emp e p r -> inherits emp r D Er -> inherits emp p D Ep -> inherits emp e Ep Er.
Proof.
  unfold inherits. intros -> -> ->. destruct (emp e) eqn:E; [reflexivity | rewrite E; reflexivity].
Qed.

Section Field.
Context {A : Type} (emp : A -> bool) (f : opts -> A).
Hypothesis F : is_field emp f.

Lemma f_optptr e p : inherits emp (ofield f e) (ofield f p) (ofield f (merge_optptr false e p)).
Proof.
  destruct F as [F1 [F2 F3]]. unfold inherits.
  destruct e as [e|], p as [p|]; simpl.
  - rewrite F1. unfold mg; simpl. destruct (emp (f e)) eqn:Ee, (emp (f p)) eqn:Ep; simpl; try reflexivity.
    rewrite (F3 _ Ee), (F3 _ Ep). reflexivity.
  - destruct (emp (f e)) eqn:Ee; [apply F3; assumption | reflexivity].
  - rewrite F2. reflexivity.
  - rewrite F2. reflexivity.
Qed.

(* parseOptionsConfig: the route's own value if stated, else the deployment default *)
Lemma f_effective D r : inherits emp (ofield f (rc_options r)) (f D) (f (effective_opts D r)).
Proof.
  destruct F as [F1 [F2 F3]]. unfold inherits, effective_opts.
  destruct (rc_options r) as [o|]; simpl.
  - rewrite !F1. unfold mg; simpl. rewrite !andb_true_r.
    destruct (emp (f o)) eqn:Eo; simpl; [|reflexivity].
    destruct (emp (f D)) eqn:Ed; simpl; [symmetry; apply F3; assumption | reflexivity].
  - rewrite F1, F2. unfold mg; simpl. rewrite andb_true_r.
    destruct (emp (f D)) eqn:Ed; simpl; [symmetry; apply F3; assumption | reflexivity].
Qed.

(* an extra route: its own value if it states one, else whatever its parent resolves to *)
Lemma f_extra D parent e :
  inherits emp (ofield f (rc_options e)) (f (effective_opts D (u0_route parent)))
           (f (effective_opts D (u0_route (resolve_extra parent e)))).
Proof.
  eapply inherits_chain; [| apply f_effective | apply f_effective].
  simpl. apply f_optptr.
Qed.

(* a cluster block WITHOUT an `options:` key leaves every default-block option in force *)
Lemma f_cluster_no_options d c : rc_options c = None ->
  ofield f (rc_options (merge_route true d c)) = ofield f (rc_options d).
Proof. intros H. simpl. rewrite H. reflexivity. Qed.

(* a cluster block WITH an `options:` key: what it restates takes effect ... *)
Lemma f_cluster_restated d c co : rc_options c = Some co ->
  ofield f (rc_options (merge_route true d c)) = f co.
Proof. intros H. simpl. rewrite H. destruct (rc_options d); reflexivity. Qed.
End Field.

Lemma keys_map_set k v m :
  keys (map_set k v m) = if mem_str k (keys m) then keys m else keys m ++ [k].
Proof.
  induction m as [|[a b] m IH]; simpl; [reflexivity|].
  destruct (str_eqb k a) eqn:E; simpl.
  - apply str_eqb_eq in E; subst; reflexivity.
  - unfold keys in *. rewrite IH. destruct (mem_str k (map fst m)); reflexivity.
Qed.

Lemma nodup_map_set k v m : NoDup (keys m) -> NoDup (keys (map_set k v m)).
Proof.
  intros ND. rewrite keys_map_set. destruct (mem_str k (keys m)) eqn:E; [assumption|].
  assert (~ In k (keys m)) by (intros Hin; apply mem_str_In in Hin; congruence).
  clear E. induction (keys m) as [|a l IH]; simpl.
  - constructor; [intros [] | constructor].
  - inversion ND; subst. constructor.
    + rewrite in_app_iff. intros [Hin|[->|[]]]; [contradiction | apply H; left; reflexivity].
    + apply IH; [assumption | intros Hin; apply H; right; assumption].
Qed.

Lemma nodup_merge_map ow src : forall dst, NoDup (keys dst) -> NoDup (keys (merge_map ow dst src)).
Proof.
  unfold merge_map. induction src as [|[k v] src IH]; intros dst ND; simpl; [assumption|].
  apply IH. unfold merge_map_step; simpl.
  destruct (map_get k dst) as [dv|]; [destruct (ow || is_nil dv)|]; try assumption; apply nodup_map_set; assumption.
Qed.

Section MField.
Context (f : opts -> smap).
Hypothesis F : is_mfield f.

Lemma m_optptr e p : NoDup (keys (ofield f p)) ->
  inherits_map (ofield f e) (ofield f p) (ofield f (merge_optptr false e p)).
Proof.
  destruct F as [F1 F2]. intros ND k.
  destruct e as [e|], p as [p|]; simpl in *.
  - rewrite F1, (map_get_merge false k (f p) ND (f e)). simpl.
    destruct (map_get k (f p)) as [pv|], (map_get k (f e)) as [[|c v]|]; reflexivity.
  - rewrite F2. simpl. destruct (map_get k (f e)) as [[|c v]|]; reflexivity.
  - rewrite F2. simpl. destruct (map_get k (f p)); reflexivity.
  - rewrite F2. reflexivity.
Qed.

Lemma nodup_optptr e p : NoDup (keys (ofield f e)) -> NoDup (keys (ofield f p)) ->
  NoDup (keys (ofield f (merge_optptr false e p))).
Proof.
  destruct F as [F1 F2]. destruct e as [e|], p as [p|]; simpl; intros He Hp; try assumption.
  rewrite F1. apply nodup_merge_map; assumption.
Qed.

(* the deployment defaults carry no header maps (options.go:125-133) *)
Lemma m_effective D r : f D = [] -> NoDup (keys (ofield f (rc_options r))) ->
  forall k, map_get k (f (effective_opts D r)) = map_get k (ofield f (rc_options r)).
Proof.
  destruct F as [F1 F2]. intros HD ND k. unfold effective_opts.
  destruct (rc_options r) as [o|]; simpl in *.
  - rewrite !F1, F2, HD. simpl. apply map_get_merge_empty; assumption.
  - rewrite F1, F2, HD. reflexivity.
Qed.

Lemma m_extra D parent e : f D = [] ->
  NoDup (keys (ofield f (rc_options e))) -> NoDup (keys (ofield f (rc_options (u0_route parent)))) ->
  inherits_map (ofield f (rc_options e)) (f (effective_opts D (u0_route parent)))
               (f (effective_opts D (u0_route (resolve_extra parent e)))).
Proof.
  intros HD He Hp k.
  rewrite (m_effective D _ HD Hp k).
  rewrite (m_effective D (u0_route (resolve_extra parent e)) HD); [|simpl; apply nodup_optptr; assumption].
  simpl. apply m_optptr; assumption.
Qed.
End MField.

(* route-level fields of an extra route and of a cluster override *)
Lemma extra_route_scalars parent e :
  let r := resolve_extra parent e in
  u0_service r = u0_service parent /\ u0_extra r = [] /\
  inherits emp_list (rc_from e) (rc_from (u0_route parent)) (rc_from (u0_route r)) /\
  inherits emp_list (rc_to e) (rc_to (u0_route parent)) (rc_to (u0_route r)) /\
  inherits emp_list (rc_type e) (rc_type (u0_route parent)) (rc_type (u0_route r)).
Proof.
  simpl. repeat split; unfold inherits, mg, emp_list; simpl.
  - destruct (u0_service parent); reflexivity.
  - destruct (rc_from e), (rc_from (u0_route parent)); reflexivity.
  - destruct (rc_to e), (rc_to (u0_route parent)); reflexivity.
  - destruct (rc_type e), (rc_type (u0_route parent)); reflexivity.
Qed.

Lemma cluster_scalars d c :
  let r := merge_route true d c in
  inherits emp_list (rc_from c) (rc_from d) (rc_from r) /\
  inherits emp_list (rc_to c) (rc_to d) (rc_to r) /\
  inherits emp_list (rc_type c) (rc_type d) (rc_type r).
Proof.
  simpl. repeat split; unfold inherits, mg, emp_list; simpl.
  - destruct (rc_from c); reflexivity.
  - destruct (rc_to c); reflexivity.
  - destruct (rc_type c); reflexivity.
Qed.

Lemma cluster_options d c :
  rc_options (merge_route true d c) = match rc_options c with Some co => Some co | None => rc_options d end.
Proof. simpl. destruct (rc_options c), (rc_options d); reflexivity. Qed.

(* ------------------------------------------------------------------------------------------ *)
(* templates: strings.Replace on the raw text vs. substitution on tokens *)
Definition suffix (b x : str) : Prop := exists a, x = a ++ b.
Definition bfree (s : str) : Prop := Forall (fun c => c <> lbrace /\ c <> rbrace) s.
Definition tok_ok (t : token) : Prop := match t with TLit s => bfree s | TVar n => bfree n end.
Definition occurs (pat s : str) : Prop := exists a b, s = a ++ pat ++ b.

Lemma repl_skip pat rep x y : repl pat rep (length x) (x ++ y) = repl pat rep 0 y.
Proof. induction x as [|c x IH]; simpl; [reflexivity | exact IH]. Qed.

Lemma suffix_cons b c x : suffix b (c :: x) -> b = c :: x \/ suffix b x.
Proof.
  intros [a H]. destruct a as [|d a]; simpl in H.
  - left; symmetry; exact H.
  - right. inversion H; subst. exists a; reflexivity.
Qed.

Lemma suffix_refl x : suffix x x. Proof. exists []; reflexivity. Qed.
Lemma suffix_tail b c x : suffix b x -> suffix b (c :: x).
Proof. intros [a ->]. exists (c :: a); reflexivity. Qed.

(* scanning over a piece in which the pattern matches nowhere *)
Lemma repl_nomatch pat rep x y :
  (forall b, b <> [] -> suffix b x -> has_prefix (b ++ y) pat = false) ->
  repl pat rep 0 (x ++ y) = x ++ repl pat rep 0 y.
Proof.
  induction x as [|c x IH]; intros H; simpl; [reflexivity|].
  assert (H0 : has_prefix (c :: x ++ y) pat = false).
  { apply (H (c :: x)); [discriminate | apply suffix_refl]. }
  rewrite H0. f_equal. apply IH. intros b Hb Hs. apply H; [assumption | apply suffix_tail; assumption].
Qed.

Lemma has_prefix_cons c s d p : has_prefix (c :: s) (d :: p) = N.eqb d c && has_prefix s p.
Proof. reflexivity. Qed.

Lemma has_prefix_head_ne c s d p : c <> d -> has_prefix (c :: s) (d :: p) = false.
Proof. intros H. simpl. destruct (N.eqb_spec d c); [congruence | reflexivity]. Qed.

Lemma bfree_app_rbrace n k t1 t2 :
  bfree n -> bfree k -> n ++ rbrace :: t1 = k ++ rbrace :: t2 -> n = k.
Proof.
  revert k; induction n as [|c n IH]; intros k Hn Hk H.
  - destruct k as [|d k]; [reflexivity|]. simpl in H. inversion H; subst.
    inversion Hk as [|? ? [_ Hd] _]; subst. congruence.
  - destruct k as [|d k]; simpl in H.
    + inversion H; subst. inversion Hn as [|? ? [_ Hc] _]; subst. congruence.
    + inversion H; subst. f_equal. inversion Hn; inversion Hk; subst. eapply IH; eassumption.
Qed.

Lemma placeholder_prefix n k y :
  bfree n -> bfree k -> has_prefix (placeholder n ++ y) (placeholder k) = true -> n = k.
Proof.
  intros Hn Hk H. apply has_prefix_spec in H as [r H]. unfold placeholder in H. simpl in H.
  inversion H as [H']. rewrite <- !app_assoc in H'. simpl in H'.
  eapply bfree_app_rbrace; eassumption.
Qed.

Lemma bfree_head_ne c s t : bfree s -> suffix (c :: t) s -> c <> lbrace /\ c <> rbrace.
Proof.
  intros H [a ->]. unfold bfree in H. rewrite Forall_forall in H. apply H.
  rewrite in_app_iff. right; left; reflexivity.
Qed.

(* inside a well-formed token other than {{k}} the pattern {{k}} matches nowhere *)
Lemma tok_nomatch t k y b :
  tok_ok t -> bfree k -> t <> TVar k -> b <> [] -> suffix b (render_tok t) ->
  has_prefix (b ++ y) (placeholder k) = false.
Proof.
  intros Ht Hk Hne Hb Hs. destruct t as [s|n]; cbn [render_tok tok_ok] in *.
  - destruct b as [|c b]; [congruence|]. destruct (bfree_head_ne c s b Ht Hs) as [Hc _].
    unfold placeholder. rewrite <- app_comm_cons. apply has_prefix_head_ne. exact Hc.
  - unfold placeholder in Hs. apply suffix_cons in Hs as [->|Hs].
    + destruct (has_prefix ((lbrace :: lbrace :: n ++ [rbrace; rbrace]) ++ y) (placeholder k)) eqn:E; [|reflexivity].
      exfalso. apply Hne. f_equal. eapply placeholder_prefix; eassumption.
    + apply suffix_cons in Hs as [->|Hs].
      * (* "{" n "}}" y against "{{"... : the second character is not "{" *)
        unfold placeholder. rewrite <- app_comm_cons. rewrite has_prefix_cons.
        assert (X : has_prefix ((n ++ [rbrace; rbrace]) ++ y) (lbrace :: k ++ [rbrace; rbrace]) = false).
        { destruct n as [|c n].
          - apply has_prefix_head_ne. discriminate.
          - inversion Ht as [|? ? [Hc _] _]; subst. rewrite <- !app_comm_cons. apply has_prefix_head_ne. exact Hc. }
        rewrite X. apply andb_false_r.
      * destruct b as [|c b]; [congruence|].
        assert (Hc : c <> lbrace).
        { destruct Hs as [a Ha].
          assert (Hin : In c (n ++ [rbrace; rbrace])) by (rewrite Ha, in_app_iff; right; left; reflexivity).
          rewrite in_app_iff in Hin. destruct Hin as [Hin|[<-|[<-|[]]]]; try discriminate.
          unfold bfree in Ht. rewrite Forall_forall in Ht. apply (Ht c Hin). }
        unfold placeholder. rewrite <- app_comm_cons. apply has_prefix_head_ne. exact Hc.
Qed.

Definition tsubst1 (k v : str) (ts : list token) : list token :=
  map (fun t => match t with TVar n => if str_eqb n k then TLit v else TVar n | TLit s => TLit s end) ts.

Lemma render_cons t ts : render (t :: ts) = render_tok t ++ render ts.
Proof. reflexivity. Qed.

(* one strings.Replace pass over a well-formed text = one token-level pass *)
Lemma replace_tokens k v ts :
  Forall tok_ok ts -> bfree k ->
  replace_all (placeholder k) v (render ts) = render (tsubst1 k v ts).
Proof.
  intros Hts Hk. unfold replace_all. induction Hts as [|t ts Ht _ IH]; [reflexivity|].
  rewrite render_cons. simpl tsubst1. rewrite render_cons.
  destruct t as [s|n].
  - simpl render_tok. rewrite repl_nomatch; [rewrite IH; reflexivity|].
    intros b Hb Hs. eapply (tok_nomatch (TLit s)); try eassumption. discriminate.
  - destruct (str_eqb n k) eqn:E.
    + apply str_eqb_eq in E; subst n. simpl render_tok.
      change (placeholder k ++ render ts) with (lbrace :: (lbrace :: k ++ [rbrace; rbrace]) ++ render ts).
      cbn [repl].
      assert (P : has_prefix (lbrace :: (lbrace :: k ++ [rbrace; rbrace]) ++ render ts) (placeholder k) = true).
      { apply has_prefix_spec. exists (render ts). reflexivity. }
      rewrite P.
      replace (length (placeholder k) - 1)%nat with (length (lbrace :: k ++ [rbrace; rbrace])) by (unfold placeholder; simpl; lia).
      rewrite repl_skip, IH. reflexivity.
    + rewrite repl_nomatch; [rewrite IH; reflexivity|].
      intros b Hb Hs. eapply (tok_nomatch (TVar n)); try eassumption.
      intros Heq; inversion Heq; subst. rewrite str_eqb_refl in E; discriminate.
Qed.

Lemma tsubst1_ok k v ts : bfree v -> Forall tok_ok ts -> Forall tok_ok (tsubst1 k v ts).
Proof.
  intros Hv H. unfold tsubst1. induction H as [|t ts Ht _ IH]; simpl; constructor; [|assumption].
  destruct t as [s|n]; [assumption|]. destruct (str_eqb n k); assumption.
Qed.

Lemma tsubst_cons k v tv ts : tsubst tv (tsubst1 k v ts) = tsubst ((k, v) :: tv) ts.
Proof.
  unfold tsubst, tsubst1. rewrite map_map. apply map_ext. intros [s|n]; simpl; [reflexivity|].
  destruct (str_eqb n k); reflexivity.
Qed.

Definition tv_ok (tv : smap) : Prop := Forall (fun kv => bfree (fst kv) /\ bfree (snd kv)) tv.

(* resolveTemplates on a well-formed text, in ANY iteration order of the variable map *)
Lemma subst_tokens tv : tv_ok tv -> forall ts, Forall tok_ok ts ->
  subst_all tv (render ts) = render (tsubst tv ts).
Proof.
  induction 1 as [|[k v] tv [Hk Hv] _ IH]; intros ts Hts; simpl in *.
  - unfold tsubst. f_equal. rewrite <- (map_id ts) at 1. apply map_ext. intros [s|n]; reflexivity.
  - unfold subst1; simpl. rewrite (replace_tokens k v ts Hts Hk).
    rewrite IH; [|apply tsubst1_ok; assumption]. rewrite tsubst_cons. reflexivity.
Qed.

Lemma map_get_perm n (tv tv' : smap) :
  Permutation tv tv' -> NoDup (keys tv) -> map_get n tv = map_get n tv'.
Proof.
  induction 1 as [| [k v] l l' _ IH | [k1 v1] [k2 v2] l | l l' l'' P1 IH1 P2 IH2]; intros ND.
  - reflexivity.
  - simpl. inversion ND; subst. rewrite IH; [reflexivity | assumption].
  - simpl. destruct (str_eqb n k1) eqn:E1, (str_eqb n k2) eqn:E2; try reflexivity.
    apply str_eqb_eq in E1, E2; subst. simpl in ND. inversion ND as [|? ? Hn _]; subst.
    exfalso; apply Hn; left; reflexivity.
  - rewrite IH1; [|assumption]. apply IH2.
    unfold keys in *. eapply Permutation_NoDup; [apply Permutation_map; exact P1 | assumption].
Qed.

Lemma tsubst_perm tv tv' ts : Permutation tv tv' -> NoDup (keys tv) -> tsubst tv ts = tsubst tv' ts.
Proof.
  intros P ND. unfold tsubst. apply map_ext. intros [s|n]; simpl; [reflexivity|].
  rewrite (map_get_perm n tv tv' P ND). reflexivity.
Qed.

(* nothing of the form {{k}} with k a defined variable is left *)
Lemma render_no_occurrence k ts :
  Forall tok_ok ts -> bfree k -> ~ In (TVar k) ts ->
  forall b, b <> [] -> suffix b (render ts) -> has_prefix b (placeholder k) = false.
Proof.
  intros Hts Hk. induction Hts as [|t ts Ht _ IH]; intros Hnot b Hb Hs.
  - destruct Hs as [a Ha]. simpl in Ha. symmetry in Ha. apply app_eq_nil in Ha as [_ ->]. congruence.
  - rewrite render_cons in Hs.
    assert (Hsplit : (exists b', b' <> [] /\ suffix b' (render_tok t) /\ b = b' ++ render ts) \/ suffix b (render ts)).
    { clear -Hs. revert Hs. generalize (render_tok t) as x. induction x as [|c x IHx]; intros Hs; simpl in Hs.
      - right; assumption.
      - apply suffix_cons in Hs as [->|Hs].
        + left. exists (c :: x). split; [discriminate | split; [apply suffix_refl | reflexivity]].
        + destruct (IHx Hs) as [[b' [H1 [H2 H3]]]|H]; [left | right; assumption].
          exists b'. split; [assumption | split; [apply suffix_tail; assumption | assumption]]. }
    destruct Hsplit as [[b' [Hb' [Hs' ->]]]|Hs'].
    + eapply tok_nomatch; try eassumption. intros ->. apply Hnot; left; reflexivity.
    + apply IH; try assumption. intros Hin; apply Hnot; right; assumption.
Qed.

Lemma no_occurrence k ts :
  Forall tok_ok ts -> bfree k -> ~ In (TVar k) ts -> ~ occurs (placeholder k) (render ts).
Proof.
  intros Hts Hk Hnot [a [b H]].
  assert (F : has_prefix (placeholder k ++ b) (placeholder k) = false).
  { eapply render_no_occurrence; try eassumption; [discriminate | exists a; assumption]. }
  assert (T : has_prefix (placeholder k ++ b) (placeholder k) = true) by (apply has_prefix_spec; exists b; reflexivity).
  congruence.
Qed.

Lemma tsubst_ok tv ts : tv_ok tv -> Forall tok_ok ts -> Forall tok_ok (tsubst tv ts).
Proof.
  intros Htv H. unfold tsubst. induction H as [|t ts Ht _ IH]; simpl; constructor; [|assumption].
  destruct t as [s|n]; simpl; [assumption|]. destruct (map_get n tv) as [v|] eqn:G; [|assumption].
  simpl. clear -Htv G. induction Htv as [|[k' v'] tv [_ Hv] _ IH]; simpl in G; [discriminate|].
  destruct (str_eqb n k'); [inversion G; subst; assumption | auto].
Qed.

Lemma tsubst_no_var tv ts k : In k (keys tv) -> ~ In (TVar k) (tsubst tv ts).
Proof.
  intros Hk Hin. unfold tsubst in Hin. apply in_map_iff in Hin as [t [Ht _]].
  destruct t as [s|n]; simpl in Ht; [discriminate|].
  destruct (map_get n tv) as [v|] eqn:G; [discriminate|]. inversion Ht; subst.
  clear -Hk G. induction tv as [|[a b] tv IH]; simpl in *; [contradiction|].
  destruct (str_eqb k a) eqn:E; [discriminate|].
  destruct Hk as [->|Hk]; [rewrite str_eqb_refl in E; discriminate | auto].
Qed.

(* C14_templates *)
Lemma templates tv tv' ts :
  tv_ok tv -> NoDup (keys tv) -> Permutation tv tv' -> Forall tok_ok ts ->
  subst_all tv' (render ts) = subst_all tv (render ts) /\
  subst_all tv (render ts) = render (tsubst tv ts) /\
  forall k, In k (keys tv) -> ~ occurs (placeholder k) (subst_all tv (render ts)).
Proof.
  intros Htv ND P Hts.
  assert (Htv' : tv_ok tv') by (unfold tv_ok in *; eapply Permutation_Forall; eassumption).
  repeat split.
  - rewrite (subst_tokens tv Htv ts Hts), (subst_tokens tv' Htv' ts Hts), (tsubst_perm tv tv' ts P ND). reflexivity.
  - apply subst_tokens; assumption.
  - intros k Hk. rewrite (subst_tokens tv Htv ts Hts).
    apply no_occurrence; [apply tsubst_ok; assumption | | apply tsubst_no_var; assumption].
    unfold tv_ok in Htv. rewrite Forall_forall in Htv. unfold keys in Hk. apply in_map_iff in Hk as [[a b] [<- Hin]].
    apply (Htv (a, b) Hin).
Qed.

(* ------------------------------------------------------------------------------------------ *)
(* every scalar / list field of OptionsConfig is an [is_field]; the two header maps are [is_mfield] *)
Lemma option_fields_all :
  is_field emp_list o_skip_auth_regex /\ is_field emp_list o_groups /\ is_field emp_list o_domains /\
  is_field emp_list o_addresses /\ is_field emp_bool o_tls_skip /\ is_field emp_bool o_skip_preflight /\
  is_field emp_bool o_pass_token /\ is_field emp_bool o_preserve_host /\ is_field emp_Z o_timeout /\
  is_field emp_Z o_reset_deadline /\ is_field emp_Z o_flush_interval /\ is_field emp_bool o_skip_signing /\
  is_field emp_list o_provider_slug /\ is_field emp_list o_cookie_name /\
  is_mfield o_header_overrides /\ is_mfield o_inject_headers.
Proof.
  repeat split; first [apply fld_skip | apply fld_groups | apply fld_domains | apply fld_addresses | apply fld_tls
    | apply fld_preflight | apply fld_pass_token | apply fld_preserve | apply fld_timeout | apply fld_reset
    | apply fld_flush | apply fld_signing | apply fld_slug | apply fld_cookie | apply mfld_ho | apply mfld_inj].
Qed.

Lemma Forall2_in_right {A B} (R : A -> B -> Prop) a b y :
  Forall2 R a b -> In y b -> exists x, In x a /\ R x y.
Proof.
  induction 1 as [|x' y' a b Hxy _ IH]; intros Hin; [contradiction|].
  destruct Hin as [->|Hin]; [exists x'; split; [left; reflexivity | assumption]|].
  destruct (IH Hin) as [x [Hx Hr]]. exists x; split; [right; assumption | assumption].
Qed.

(* no upstream open to everyone by omission: an accepted upstream has at least one allow rule,
   and each of its three rule lists is the route's own stated list or else the deployment default *)
Lemma no_open_by_omission O E d ups u :
  set_upstream_configs O E d = Ok ups -> In u ups ->
  (u_groups u <> [] \/ u_domains u <> [] \/ u_addresses u <> []) /\
  exists u0, In u0 (routes (e_cluster E) (subst_doc (e_tvars E) d)) /\
    let own := rc_options (u0_route u0) in let D := e_defaults E in
    inherits emp_list (ofield o_groups own) (o_groups D) (u_groups u) /\
    inherits emp_list (ofield o_domains own) (o_domains D) (u_domains u) /\
    inherits emp_list (ofield o_addresses own) (o_addresses D) (u_addresses u).
Proof.
  intros S Hin. pose proof S as S'. apply fail_closed in S as [G _].
  rewrite Forall_forall in G. destruct (G u Hin) as [_ [_ [_ [_ [_ Hal]]]]].
  split.
  - destruct (u_groups u); [|left; discriminate]. destruct (u_domains u); [|right; left; discriminate].
    destruct (u_addresses u); [exfalso; apply Hal; reflexivity | right; right; discriminate].
  - apply set_upstream_configs_ok in S' as [L _]. unfold load_configs in L. apply load_resolved_elems in L.
    destruct (Forall2_in_right _ _ _ _ L Hin) as [u0 [H0 [k [_ ->]]]].
    exists u0. split; [assumption|]. cbn -[effective_opts].
    repeat split; [apply (f_effective _ _ fld_groups) | apply (f_effective _ _ fld_domains) | apply (f_effective _ _ fld_addresses)].
Qed.

Lemma cluster_partial (A : Type) (emp : A -> bool) (f : opts -> A) : is_field emp f ->
  forall d c : routecfg,
  (rc_options c = None -> ofield f (rc_options (merge_route true d c)) = ofield f (rc_options d)) /\
  (forall co, rc_options c = Some co -> ofield f (rc_options (merge_route true d c)) = f co) /\
  inherits emp_list (rc_from c) (rc_from d) (rc_from (merge_route true d c)) /\
  inherits emp_list (rc_to c) (rc_to d) (rc_to (merge_route true d c)) /\
  inherits emp_list (rc_type c) (rc_type d) (rc_type (merge_route true d c)).
Proof.
  intros F d c. split; [exact (f_cluster_no_options f d c)|].
  split; [exact (f_cluster_restated f d c) | exact (cluster_scalars d c)].
Qed.
