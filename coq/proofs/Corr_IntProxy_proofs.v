(* Corr_IntProxy_proofs.v — the composite monitor of corr/Corr_IntProxy.v demands no more than what is
   proved: it accepts the observation the integration model itself predicts, for every deployment, request,
   answers and time that satisfy the guards of the composed theorems (so a falsifying observation is either a
   difference between model and implementation, or one of the attributed known findings). *)
From V Require Import Base Base_proofs Validators ProxyAll ProxyAll_proofs CorrBase Corr_IntProxy.
From V Require ProxyCore ProxyCore_proofs Hostmux Hostmux_proofs ReqHeaders ReqHeaders_proofs Signer Signer_proofs
  Signer_gen_proofs RespHeaders RespHeaders_proofs RespHeaders_gen_proofs Gen_Headers CorrProxy Corr_C01_proofs Corr_C18 Corr_C18_proofs
  Callback ReqUri.
From Coq Require Import ZifyBool.

Ltac dm :=
  match goal with
  | |- context [match ?x with _ => _ end] => destruct x eqn:?
  | H : context [match ?x with _ => _ end] |- _ => destruct x eqn:?
  end.

(* ---- adapter: the session Authenticate asserts (ProxyCore) is C03's asserted_session for the due kind read
        off the deadlines and the authenticator's answers ---- *)
Lemma asserted_agrees lower now c pol host s a s'' :
  ProxyCore.ao_session (ProxyCore.authenticate lower now c pol host (ProxyCore.Sealed s) a) = Some s'' ->
  rh_session s'' =
  ReqHeaders.asserted_session (p_groups (ProxyCore.u_rules pol)) (rh_session s)
                              (due_of now (p_groups (ProxyCore.u_rules pol)) s a).
Proof.
  unfold ProxyCore.authenticate, ProxyCore.expired, due_of.
  destruct (negb (str_eqb (ProxyCore.s_slug s) (ProxyCore.c_slug c))); [cbn; discriminate|].
  destruct (negb (str_eqb host (ProxyCore.s_upstream s))); [cbn; discriminate|].
  destruct (ProxyCore.s_lifetime_dl s <? now)%Z; [cbn; discriminate|].
  set (allowed := p_groups (ProxyCore.u_rules pol)).
  change (ReqHeaders.no_group_check allowed) with (ProxyCore.no_group_check allowed).
  unfold ProxyCore.refresh_session, ProxyCore.validate_session, ProxyCore.validate_group_p, ProxyCore.within_grace.
  assert (MG : forall ug, ProxyCore.no_group_check allowed = false ->
             ReqHeaders.matched_groups allowed ug = flat_map (fun u : str => filter (str_eqb u) allowed) ug).
  { intros ug E. unfold ReqHeaders.matched_groups. change (ReqHeaders.no_group_check allowed) with (ProxyCore.no_group_check allowed).
    rewrite E. reflexivity. }
  assert (MG0 : forall ug, ProxyCore.no_group_check allowed = true -> ReqHeaders.matched_groups allowed ug = []).
  { intros ug E. unfold ReqHeaders.matched_groups. change (ReqHeaders.no_group_check allowed) with (ProxyCore.no_group_check allowed).
    rewrite E. reflexivity. }
  Ltac fin MG MG0 :=
    cbn; repeat (dm; cbn in * ); try discriminate;
    repeat match goal with H : (_, _) = (_, _) |- _ => inversion H; subst; clear H end;
    try discriminate;
    try (let H := fresh in intros H; inversion H; subst; clear H;
         unfold rh_session, ReqHeaders.set_token, ReqHeaders.set_groups; cbn;
         rewrite ?MG, ?MG0 by (first [assumption | reflexivity]);
         repeat match goal with H : flat_map _ _ = _ |- _ => rewrite H end;
         reflexivity).
  destruct (ProxyCore.s_refresh_dl s <? now)%Z eqn:Er.
  - destruct (ProxyCore.s_refresh_tok s) eqn:Et; [cbn; discriminate|].
    destruct (ProxyCore.redeem_refresh a) as [tok dur| | |] eqn:Err; cbn [ReqHeaders.asserted_session].
    + destruct (ProxyCore.no_group_check allowed) eqn:Eng.
      * fin MG MG0.
      * destruct (ProxyCore.user_groups a) as [ug| |] eqn:Eug; fin MG MG0.
    + fin MG MG0.
    + fin MG MG0.
    + fin MG MG0.
  - destruct (ProxyCore.s_valid_dl s <? now)%Z eqn:Ev.
    + destruct (ProxyCore.a_validate a) as [code|] eqn:Eva; [|fin MG MG0].
      destruct (code =? 200)%Z eqn:E200.
      * destruct (ProxyCore.no_group_check allowed) eqn:Eng.
        -- fin MG MG0.
        -- destruct (ProxyCore.user_groups a) as [ug| |] eqn:Eug; fin MG MG0.
      * fin MG MG0.
    + fin MG MG0.
Qed.

(* what Authenticate re-saves is what it asserts *)
Lemma auth_saved_is_asserted lower now c pol host ck a s' :
  ProxyCore.ao_cookie (ProxyCore.authenticate lower now c pol host ck a) = ProxyCore.CSaved s' ->
  ProxyCore.ao_session (ProxyCore.authenticate lower now c pol host ck a) = Some s'.
Proof.
  unfold ProxyCore.authenticate. repeat (dm; cbn in * ); try discriminate; intros H; inversion H; reflexivity.
Qed.

Lemma proxy_forward_id lower now c pol r a id :
  ProxyCore.rs_out (ProxyCore.proxy_handle lower now c pol r a) = ProxyCore.Forward id ->
  id = (if ProxyCore.whitelisted pol r then None
        else ProxyCore.ao_session (ProxyCore.authenticate lower now c pol (ProxyCore.r_host r) (ProxyCore.r_cookie r) a)) /\
  (ProxyCore.whitelisted pol r = false ->
     ProxyCore.ao_err (ProxyCore.authenticate lower now c pol (ProxyCore.r_host r) (ProxyCore.r_cookie r) a) = None).
Proof.
  unfold ProxyCore.proxy_handle. destruct (ProxyCore.whitelisted pol r).
  - cbn. intros H; inversion H. split; [reflexivity | discriminate].
  - destruct (ProxyCore.ao_err _) as [e|] eqn:Ee; [destruct e; cbn; discriminate|].
    cbn. intros H; inversion H. split; [reflexivity | reflexivity].
Qed.

(* ---- routing: the monitor's list search (filter + last / head) is the model's ---- *)
Lemma find_filter_hd {A} (f : A -> bool) l : find f l = match filter f l with x :: _ => Some x | [] => None end.
Proof. induction l as [|x l IH]; simpl; [reflexivity|]. destruct (f x); [reflexivity | exact IH]. Qed.

Lemma filter_rev' {A} (f : A -> bool) l : filter f (rev l) = rev (filter f l).
Proof.
  induction l as [|x l IH]; simpl; [reflexivity|]. rewrite filter_app, IH. simpl.
  destruct (f x); simpl; [reflexivity | rewrite app_nil_r; reflexivity].
Qed.

Lemma exp_route_is_route_ext re_match ups h : exp_route re_match ups h = route_ext re_match ups h.
Proof.
  unfold exp_route, route_ext. rewrite !find_filter_hd, filter_rev'.
  destruct (rev (filter (simple_for h) ups)); reflexivity.
Qed.

Section Accept.
Variable re_match : str -> str -> bool.
Variable re_replace : str -> str -> str -> str.
Variable lower : str -> str.
Variable opens : str -> option ProxyCore.session.

Notation serve' := (serve re_match re_replace lower opens).
Notation router' := (router re_match re_replace lower opens).
Notation handle_up' := (handle_up re_match re_replace lower opens).
Notation scookie := (session_cookie opens).

(* ---- the observation the model predicts ---- *)
Definition presented_value (d : deployment) (q : request) : option str :=
  match find (fun c => str_eqb (ReqHeaders.c_name c) (dp_cookie_name d))
             (ReqHeaders.read_cookies (ReqHeaders.h_get ReqHeaders.k_cookie (in_headers q))) with
  | Some c => Some (ReqHeaders.c_value c)
  | None => None
  end.

Lemma session_cookie_presented d q :
  scookie d q = match presented_value d q with
                | None => ProxyCore.NoCookie
                | Some v => match opens v with Some s => ProxyCore.Sealed s | None => ProxyCore.Junk end
                end.
Proof. unfold ProxyAll.session_cookie, presented_value. destruct (find _ _); reflexivity. Qed.

Definition bobs_of (d : deployment) (u : iupstream) (host : str) (bv : backend_view) : obs_backend :=
  let p := bk_req bv in
  let certs := Signer.published_certs (sg_cfg re_replace d u host) in
  {| ob_target := bk_target bv; ob_host := bk_host bv; ob_method := Signer.r_method p; ob_path := Signer.r_path p;
     ob_rawquery := Signer.r_rawquery p; ob_body := Signer.body_bytes p; ob_headers := Signer.r_headers p;
     ob_cookies := cookie_pairs (Signer.hvals Signer.cookie_h (Signer.r_headers p));
     ob_rsa := Signer.verify_rsa cov certs p; ob_kid := Signer.kid_published certs p;
     ob_hmac := match up_hmac u with Some k => Signer.verify_hmac covh k p | None => 0 end |}.

Definition model_obs (d : deployment) (q : request) (a : answers) (now : Z) : obs :=
  let o := serve' d q a now in
  {| ob_seen := match oc_backend o, oc_upstream o with Some bv, Some u => [bobs_of d u (rq_host q) bv] | _, _ => [] end;
     ob_presented := presented_value d q;
     ob_responded := match oc_client o with RespHeaders.Resp _ _ => true | RespHeaders.NoResponse => false end;
     ob_status := match oc_client o with RespHeaders.Resp st _ => st | RespHeaders.NoResponse => 0 end;
     ob_hdr := match oc_client o with RespHeaders.Resp _ h => Corr_C18_proofs.proj_hdr h | RespHeaders.NoResponse => [] end;
     ob_set := match oc_client o with RespHeaders.Resp _ h => RespHeaders.hget RespHeaders.k_set_cookie h | RespHeaders.NoResponse => [] end;
     ob_session := visible_session (dp_cookie_name d) (oc_client o) (oc_session o);
     ob_calls := oc_calls o |}.

(* ---- the sharper form of "whose identity": the asserted session is Authenticate's ---- *)
Lemma ro_session_proxy_out d u q a pr pre ops sess calls :
  ro_session (proxy_out re_replace d u q a pr pre ops sess calls) = sess.
Proof. unfold proxy_out. destruct (ProxyCore.rs_out pr); [|destruct (is_xhr q)|]; reflexivity. Qed.

Lemma backend_identity_sharp d q a now bv u :
  oc_backend (serve' d q a now) = Some bv -> oc_upstream (serve' d q a now) = Some u ->
  let o := ProxyCore.authenticate lower now (pc_cfg d u) (pc_pol u) (rq_host q) (scookie d q) (an_auth a) in
  (exists pre, bk_handler bv = handler_headers d u q pre (if skip_hit re_match u q then None else ProxyCore.ao_session o)) /\
  (skip_hit re_match u q = false -> ProxyCore.ao_err o = None /\ oc_session (serve' d q a now) = ProxyCore.ao_cookie o).
Proof.
  intros Hb Hu.
  destruct (serve_cases re_match re_replace lower opens d q a now) as [[_ E]|[[_ [_ E]]|[_ [u' [Hr E]]]]];
    rewrite E in Hb, Hu |- *; try discriminate.
  assert (u' = u) as ->.
  { unfold ProxyAll.handle_up in Hu. destruct (redirected d q); cbn in Hu; inversion Hu; reflexivity. }
  apply handle_up_backend in Hb as [Hred Hb]. pose proof Hb as Hb0. apply router_backend in Hb as [Hcl Hb].
  assert (Esess : oc_session (handle_up' d u q a now) = ro_session (router' d u q a now)).
  { unfold ProxyAll.handle_up. rewrite Hred. reflexivity. }
  cbn zeta. rewrite Esess.
  destruct Hb as [[Hrt [id [Hout ->]]] | [Hrt [Hauth [id [Hout ->]]]]].
  - apply proxy_forward_id in Hout as [Hid Herr]. rewrite whitelisted_is_skip_hit in Hid, Herr.
    cbn [ProxyCore.r_host ProxyCore.r_cookie ProxyAll.pc_request] in Hid, Herr.
    split; [exists None; cbn [ProxyAll.backend_of bk_handler]; rewrite Hid; reflexivity|].
    intros Hw. split; [apply Herr; exact Hw|].
    unfold ProxyAll.router. rewrite Hcl, str_eqb_refl. cbn [negb]. rewrite Hrt, ro_session_proxy_out.
    cbn [ProxyCore.handle ProxyCore.r_endpoint ProxyAll.pc_request]. unfold ProxyCore.proxy_handle.
    rewrite whitelisted_is_skip_hit, Hw. cbn [ProxyCore.r_host ProxyCore.r_cookie ProxyAll.pc_request].
    rewrite (Herr Hw). reflexivity.
  - apply proxy_forward_id in Hout as [Hid Herr]. rewrite whitelisted_is_skip_hit in Hid, Herr.
    cbn [ProxyCore.r_host ProxyCore.r_cookie ProxyAll.pc_request] in Hid, Herr.
    split; [eexists; cbn [ProxyAll.backend_of bk_handler]; rewrite Hid; reflexivity|].
    intros Hw. split; [exact Hauth|].
    unfold ProxyAll.router. rewrite Hcl, str_eqb_refl. cbn [negb]. rewrite Hrt, Hauth, ro_session_proxy_out.
    cbn [ProxyCore.handle ProxyCore.r_endpoint ProxyAll.pc_request ProxyCore.r_host ProxyCore.r_cookie].
    rewrite Hauth. cbn [ProxyCore.rs_cookie]. unfold ProxyCore.proxy_handle.
    rewrite whitelisted_is_skip_hit, Hw. cbn [ProxyCore.r_host ProxyCore.r_cookie ProxyAll.pc_request].
    rewrite Hauth. cbn [ProxyCore.rs_cookie]. destruct (ProxyCore.ao_cookie _); reflexivity.
Qed.


Lemma auth_ok_has_session now c pol host ck a :
  ProxyCore.ao_err (ProxyCore.authenticate lower now c pol host ck a) = None ->
  exists s'', ProxyCore.ao_session (ProxyCore.authenticate lower now c pol host ck a) = Some s''.
Proof. unfold ProxyCore.authenticate. repeat (dm; cbn in * ); try discriminate; eauto. Qed.

Lemma visible_saved cn r eff s : visible_session cn r eff = ProxyCore.CSaved s -> eff = ProxyCore.CSaved s.
Proof.
  unfold visible_session. destruct r as [st h|]; [|discriminate].
  destruct (rev _) as [|v l]; [discriminate|]. destruct v as [x|c]; [discriminate|].
  destruct (RespHeaders.ck_empty c); [discriminate | auto].
Qed.

Lemma route_not_fixed p : route_of_path p = RtProxy \/ route_of_path p = RtFavicon -> mem_str p fixed_paths = false.
Proof.
  unfold route_of_path, fixed_paths. cbn [mem_str].
  destruct (str_eqb p p_favicon) eqn:E0.
  - apply str_eqb_eq in E0. subst p. intros _. reflexivity.
  - destruct (str_eqb p p_robots); [intros [H|H]; discriminate|].
    destruct (str_eqb p p_certs); [intros [H|H]; discriminate|].
    destruct (str_eqb p p_sign_out); [intros [H|H]; discriminate|].
    destruct (str_eqb p p_callback); [intros [H|H]; discriminate|].
    destruct (str_eqb p p_auth); [intros [H|H]; discriminate|]. reflexivity.
Qed.

Lemma route_proxy_not_favicon p : route_of_path p = RtProxy -> str_eqb p p_favicon = false.
Proof. unfold route_of_path. destruct (str_eqb p p_favicon); [discriminate | reflexivity]. Qed.

Lemma in_g_cov_identity k : In k ReqHeaders.identity_keys -> In k Signer_gen_proofs.g_cov.
Proof.
  unfold ReqHeaders.identity_keys. cbn [In]. intros [<-|[<-|[<-|[<-|[]]]]]; unfold Signer_gen_proofs.g_cov; cbn; tauto.
Qed.

Lemma backend_ok_model d q a now bv u :
  oc_backend (serve' d q a now) = Some bv -> oc_upstream (serve' d q a now) = Some u ->
  backend_ok re_match re_replace lower opens (applic_of q (serve' d q a now)) d u q a now (model_obs d q a now)
             (bobs_of d u (rq_host q) bv) = true.
Proof.
  intros Hb Hu.
  destruct (backend_reached_only_if re_match re_replace lower opens d q a now bv Hb)
    as [u' [Hr [_ [Hu' [_ [Ht [Hh [_ [_ [_ [_ [Hroute [Hmed [F3 F4]]]]]]]]]]]]]].
  rewrite Hu in Hu'. inversion Hu'; subst u'. clear Hu'.
  destruct (backend_identity_sharp d q a now bv u Hb Hu) as [[pre Hhand] Hsharp].
  unfold applic_of. rewrite Hb.
  set (rs := signer_request q (bk_handler bv)).
  set (gsig := Signer.conn_safe protected_names (Signer.r_headers rs) && Signer.cl_canonical rs).
  assert (Esig : gsig = true ->
     (up_skip_sign u = false -> forall sk, dp_signer d = Some sk ->
        Signer.verify_rsa Signer_gen_proofs.g_cov (Signer.published_certs (sg_cfg re_replace d u (rq_host q))) (bk_req bv) = Some true /\
        Signer.r_kid (bk_req bv) = Some (Signer.KeyId (Signer.pub sk))) /\
     (up_skip_sign u = false -> forall key, up_hmac u = Some key ->
        Signer.verify_hmac Signer_gen_proofs.g_covh key (bk_req bv) = 3)).
  { intros Hg. unfold gsig in Hg. apply andb_true_iff in Hg as [Hconn Hcl].
    destruct (backend_signature_verifies re_match re_replace lower opens d q a now bv u Hb Hu Hconn Hcl)
      as (_ & _ & _ & _ & Ersa & Ehmac). split; assumption. }
  set (o := ProxyCore.authenticate lower now (pc_cfg d u) (pc_pol u) (rq_host q) (scookie d q) (an_auth a)) in *.
  unfold backend_ok.
  cbn [bobs_of ob_target ob_host ob_headers ob_cookies ob_rsa ob_kid ob_hmac ap_sig ap_hop].
  change (existsb (fun p => re_match p (rq_path q)) (Hostmux.u_skip (up_hm u))) with (skip_hit re_match u q).
  assert (Etarget : bk_target bv = exp_target re_replace (rq_host q) u) by (rewrite Ht; reflexivity).
  rewrite <- Etarget, str_eqb_refl.
  assert (E2 : str_eqb (bk_host bv) (if Hostmux.u_preserve (up_hm u) then Hostmux.preserved_host (rq_host q) (bk_target bv) else bk_target bv) = true)
    by (rewrite Hh; apply str_eqb_refl).
  rewrite E2, (route_not_fixed _ Hroute). cbn [andb negb].
  (* C01 *)
  assert (Emed : (skip_hit re_match u q && negb (str_eqb (rq_path q) p_favicon)) ||
                 match match ob_presented (model_obs d q a now) with Some v => opens v | None => None end with
                 | Some s => CorrProxy.session_ok_b lower now (pc_cfg d u) (pc_pol u) (rq_host q) s (an_auth a)
                 | None => false end = true).
  { destruct Hmed as [[Hrt [Hw _]] | [s [s' [Hs [Hok _]]]]].
    - rewrite Hw, (route_proxy_not_favicon _ Hrt). reflexivity.
    - cbn [model_obs ob_presented]. rewrite session_cookie_presented in Hs.
      destruct (presented_value d q) as [v|]; [|discriminate]. destruct (opens v) as [s0|]; [|discriminate].
      inversion Hs; subst s0. apply (Corr_C01_proofs.session_ok_reflect lower) in Hok. rewrite Hok. apply orb_true_r. }
  rewrite Emed. cbn [andb].
  (* C03 cookies, C12 *)
  assert (Eck : forallb (fun nv => negb (str_eqb (fst nv) (dp_cookie_name d)))
                        (cookie_pairs (Signer.hvals Signer.cookie_h (Signer.r_headers (bk_req bv)))) = true).
  { apply forallb_forall. intros nv Hin. unfold cookie_pairs in Hin. apply in_map_iff in Hin as [c [<- Hc]].
    apply negb_true_iff, str_eqb_neq. exact (F4 c Hc). }
  assert (Ersa' : negb gsig || negb (rsa_on d u) ||
                  (option_eqb bool_eqb (Signer.verify_rsa cov (Signer.published_certs (sg_cfg re_replace d u (rq_host q))) (bk_req bv)) (Some true) &&
                   Signer.kid_published (Signer.published_certs (sg_cfg re_replace d u (rq_host q))) (bk_req bv)) = true).
  { destruct gsig eqn:Eg; [|reflexivity]. destruct (Esig eq_refl) as [Ersa _]. cbn [negb orb].
    unfold rsa_on. destruct (up_skip_sign u) eqn:Esk; [reflexivity|]. destruct (dp_signer d) as [sk|] eqn:Esg; [|reflexivity].
    cbn [negb andb orb]. destruct (Ersa eq_refl sk eq_refl) as [V K].
    change cov with Signer_gen_proofs.g_cov. rewrite V. cbn [option_eqb bool_eqb Bool.eqb andb].
    unfold Signer.kid_published. rewrite K. unfold Signer.published_certs. cbn [sg_cfg Signer.c_signer]. rewrite Esg.
    cbn. rewrite N.eqb_refl. reflexivity. }
  assert (Ehmac' : negb gsig || negb (hmac_on u) ||
                   N.eqb (match up_hmac u with Some k => Signer.verify_hmac covh k (bk_req bv) | None => 0 end) 3 = true).
  { destruct gsig eqn:Eg; [|reflexivity]. destruct (Esig eq_refl) as [_ Ehmac]. cbn [negb orb].
    unfold hmac_on. destruct (up_skip_sign u) eqn:Esk; [reflexivity|]. destruct (up_hmac u) as [key|] eqn:Ek; [|reflexivity].
    cbn [negb andb orb]. change covh with Signer_gen_proofs.g_covh. rewrite (Ehmac eq_refl key eq_refl). reflexivity. }
  rewrite Eck, Ersa', Ehmac'. rewrite !andb_true_r.
  (* C03 identity *)
  assert (Hv : forall k, In k ReqHeaders.identity_keys ->
               Signer.hvals k (Signer.r_headers (bk_req bv)) =
               if mem_str k (Signer.hop_keys (Signer.r_headers rs)) then [] else ReqHeaders.h_get k (bk_handler bv)).
  { intros k Hk. exact (F3 k Hk). }
  assert (K1 : In ReqHeaders.k_xfu ReqHeaders.identity_keys) by (cbn; tauto).
  assert (K2 : In ReqHeaders.k_xfe ReqHeaders.identity_keys) by (cbn; tauto).
  assert (K3 : In ReqHeaders.k_xfg ReqHeaders.identity_keys) by (cbn; tauto).
  assert (K4 : In ReqHeaders.k_xfat ReqHeaders.identity_keys) by (cbn; tauto).
  change Signer.x_forwarded_user with ReqHeaders.k_xfu. change Signer.x_forwarded_email with ReqHeaders.k_xfe.
  change Signer.x_forwarded_groups with ReqHeaders.k_xfg. change Signer.x_forwarded_access_token with ReqHeaders.k_xfat.
  rewrite (Hv _ K1), (Hv _ K2), (Hv _ K3), (Hv _ K4).
  unfold identity_expected.
  destruct (skip_hit re_match u q) eqn:Ew.
  - (* whitelisted: no identity *)
    rewrite Hhand. rewrite !handler_identity_none by assumption.
    repeat match goal with |- context [if ?b then [] else []] => destruct b end; reflexivity.
  - destruct (Hsharp eq_refl) as [Herr Hsess].
    destruct (auth_ok_has_session _ _ _ _ _ _ Herr) as [s'' Hs'']. fold o in Hs''.
    rewrite Hs'' in Hhand. rewrite Hhand.
    destruct (handler_identity_some d u q pre s'') as [I1 [I2 [I3 I4]]].
    rewrite I1, I2, I3, I4.
    assert (Hpres : exists s, match ob_presented (model_obs d q a now) with Some v => opens v | None => None end = Some s /\
                              scookie d q = ProxyCore.Sealed s).
    { destruct (ProxyCore_proofs.authenticate_sound lower _ _ _ _ _ _ Herr) as [s [Hs _]]. exists s. split; [|exact Hs].
      cbn [model_obs ob_presented]. rewrite session_cookie_presented in Hs.
      destruct (presented_value d q) as [v|]; [|discriminate]. destruct (opens v) as [s0|]; [|discriminate]. inversion Hs; reflexivity. }
    destruct Hpres as [s [Hp Hs]]. rewrite Hp.
    assert (Eexp : match ob_session (model_obs d q a now) with
                   | ProxyCore.CSaved s' => Some (rh_session s')
                   | _ => Some (ReqHeaders.asserted_session (p_groups (Hostmux.u_policy (up_hm u))) (rh_session s)
                                  (due_of now (p_groups (Hostmux.u_policy (up_hm u))) s (an_auth a)))
                   end = Some (rh_session s'')).
    { assert (Eag : ReqHeaders.asserted_session (p_groups (Hostmux.u_policy (up_hm u))) (rh_session s)
                      (due_of now (p_groups (Hostmux.u_policy (up_hm u))) s (an_auth a)) = rh_session s'').
      { symmetry. unfold o in Hs''. rewrite Hs in Hs''. exact (asserted_agrees lower now _ (pc_pol u) _ s _ s'' Hs''). }
      cbn [model_obs ob_session]. destruct (visible_session _ _ _) as [| |s'] eqn:Ev; try (rewrite Eag; reflexivity).
      apply visible_saved in Ev. rewrite Hsess in Ev. apply auth_saved_is_asserted in Ev. fold o in Ev. rewrite Hs'' in Ev.
      inversion Ev; reflexivity. }
    rewrite Eexp. cbn [rh_session ReqHeaders.s_user ReqHeaders.s_email ReqHeaders.s_groups].
    change (ReqHeaders.allowed_token (rh_cfg d u) (rh_session s'')) with (injected u ReqHeaders.k_xfat).
    rewrite !(proj2 (strs_eqb_eq _ _) eq_refl). reflexivity.
Qed.


(* ---- the hardening clauses survive the logging wrapper (it only removes SSO-Authenticated-User) ---- *)
Lemma one_protected_ext cfg st o1 o2 k :
  RespHeaders.hget k o1 = RespHeaders.hget k o2 -> Corr_C18.one_protected cfg st o1 k = Corr_C18.one_protected cfg st o2 k.
Proof. intros E. unfold Corr_C18.one_protected. rewrite E. reflexivity. Qed.

Lemma three_ok_ext cfg st o1 o2 :
  (forall k, In k Corr_C18.three_keys -> RespHeaders.hget k o1 = RespHeaders.hget k o2) ->
  Corr_C18.three_ok cfg st o1 = Corr_C18.three_ok cfg st o2.
Proof.
  intros E. unfold Corr_C18.three_ok, Corr_C18.three_keys in *. cbn [forallb].
  rewrite (one_protected_ext cfg st o1 o2 RespHeaders.k_xcto), (one_protected_ext cfg st o1 o2 RespHeaders.k_xfo),
          (one_protected_ext cfg st o1 o2 RespHeaders.k_xxp); try reflexivity; apply E; cbn; tauto.
Qed.

Lemma hsts_ok_ext cfg o1 o2 :
  RespHeaders.hget Corr_C18.hsts_key o1 = RespHeaders.hget Corr_C18.hsts_key o2 -> Corr_C18.hsts_ok cfg o1 = Corr_C18.hsts_ok cfg o2.
Proof. intros E. unfold Corr_C18.hsts_ok. rewrite E. reflexivity. Qed.

Definition stripped (h : RespHeaders.hdr RespHeaders.hval) : RespHeaders.hdr RespHeaders.hval :=
  match RespHeaders.hget RespHeaders.k_user h with
  | v :: _ => match RespHeaders.hval_str v with [] => h | _ => RespHeaders.hdel RespHeaders.k_user h end
  | [] => h
  end.

Lemma stripped_hget h k : k <> RespHeaders.k_user -> RespHeaders.hget k (stripped h) = RespHeaders.hget k h.
Proof.
  intros Hk. pose proof (logging_strip_keeps (RespHeaders.Resp 0 h) k Hk) as L. cbn [logging_strip] in L.
  unfold stripped. tauto.
Qed.

Lemma logging_strip_resp st h : logging_strip (RespHeaders.Resp st h) = RespHeaders.Resp st (stripped h).
Proof. reflexivity. Qed.

(* ---- what is left as a hypothesis: C18's residual guard, wherever the hardening clause applies.
        (The guards of INT_signature_verifies and INT_every_response_hardened are part of the monitor itself:
        outside them the clause is not applied; the hop-by-hop exception is the monitor's own identity clause.) ---- *)
Definition guards (d : deployment) (q : request) (a : answers) (now : Z) : Prop :=
  forall u, route_ext re_match (dp_ups d) (rq_host q) = Some u -> hardening_applies u a = true ->
    Corr_C18_proofs.monitor_guard (rs_cfg d u) (rs_request q) (ro_out (router' d u q a now)) = true.

Theorem monitor_accepts_model d q a now :
  guards d q a now ->
  holds re_match re_replace lower opens (applic_of q (serve' d q a now)) d q a now (model_obs d q a now) = true.
Proof.
  intros G1. unfold holds.
  destruct (serve_cases re_match re_replace lower opens d q a now) as [[Ep E]|[[Ep [Hr E]]|[Ep [u [Hr E]]]]].
  - rewrite Ep, str_eqb_refl. unfold model_obs. rewrite E. reflexivity.
  - apply str_eqb_neq in Ep. rewrite Ep, exp_route_is_route_ext, Hr. unfold model_obs. rewrite E. reflexivity.
  - assert (Ep' : str_eqb (rq_path q) Hostmux.ping_path = false) by (apply str_eqb_neq; exact Ep).
    rewrite Ep', exp_route_is_route_ext, Hr.
    assert (Eup : oc_upstream (serve' d q a now) = Some u).
    { rewrite E. unfold ProxyAll.handle_up. destruct (redirected d q); reflexivity. }
    (* the backend clause *)
    assert (Cb : Nat.leb (length (ob_seen (model_obs d q a now))) 1 &&
                 forallb (backend_ok re_match re_replace lower opens (applic_of q (serve' d q a now)) d u q a now (model_obs d q a now))
                         (ob_seen (model_obs d q a now)) = true).
    { cbn [model_obs ob_seen]. rewrite Eup. destruct (oc_backend (serve' d q a now)) as [bv|] eqn:Eb; [|reflexivity].
      cbn [length Nat.leb forallb andb].
      rewrite (backend_ok_model d q a now bv u Eb Eup). reflexivity. }
    (* the client's response *)
    assert (Ecl : oc_client (serve' d q a now) =
                  logging_strip (Corr_C18.model (rs_cfg d u) (rs_request q) (ro_out (router' d u q a now)))).
    { rewrite E. apply handle_up_client. }
    pose proof (fun Hg => Corr_C18_proofs.monitor_accepts_model (rs_cfg d u) (rs_request q) (ro_out (router' d u q a now)) (G1 u Hr Hg)) as M.
    (* hardening + redirect *)
    assert (Ch : (negb (ob_responded (model_obs d q a now)) || negb (hardening_applies u a) ||
                  (Corr_C18.three_ok (rs_cfg d u) (ob_status (model_obs d q a now)) (ob_hdr (model_obs d q a now)) &&
                   Corr_C18.hsts_ok (rs_cfg d u) (ob_hdr (model_obs d q a now)) &&
                   Corr_C18.cookies_ok (rs_cfg d u) (rs_request q) (ob_set (model_obs d q a now)))) &&
                 (negb (redirected d q) ||
                  (nilb (ob_seen (model_obs d q a now)) &&
                   (negb (ob_responded (model_obs d q a now)) || N.eqb (ob_status (model_obs d q a now)) 301))) = true).
    { assert (Eseen : redirected d q = true -> ob_seen (model_obs d q a now) = []).
      { intros Hred. cbn [model_obs ob_seen]. rewrite E. unfold ProxyAll.handle_up. rewrite Hred. reflexivity. }
      cbn [model_obs ob_responded ob_status ob_hdr ob_set]. rewrite Ecl.
      destruct (Corr_C18.model (rs_cfg d u) (rs_request q) (ro_out (router' d u q a now))) as [st h|] eqn:Em.
      - rewrite logging_strip_resp. cbn [negb orb].
        assert (Hard : negb (hardening_applies u a) ||
                  (Corr_C18.three_ok (rs_cfg d u) st (Corr_C18_proofs.proj_hdr (stripped h)) &&
                   Corr_C18.hsts_ok (rs_cfg d u) (Corr_C18_proofs.proj_hdr (stripped h)) &&
                   Corr_C18.cookies_ok (rs_cfg d u) (rs_request q) (RespHeaders.hget RespHeaders.k_set_cookie (stripped h))) = true).
        { destruct (hardening_applies u a) eqn:Eha; [|reflexivity]. cbn [negb orb]. specialize (M eq_refl).
          unfold Corr_C18.holds_proxy in M. cbn [negb orb] in M.
          apply andb_true_iff in M as [M Mck]. apply andb_true_iff in M as [M Mred]. apply andb_true_iff in M as [M3 Mh].
          rewrite (three_ok_ext (rs_cfg d u) st (Corr_C18_proofs.proj_hdr (stripped h)) (Corr_C18_proofs.proj_hdr h)).
          2:{ intros k Hk. rewrite !Corr_C18_proofs.hget_proj, stripped_hget; [reflexivity|].
              unfold Corr_C18.three_keys in Hk. cbn [In] in Hk. destruct Hk as [<-|[<-|[<-|[]]]]; discriminate. }
          rewrite (hsts_ok_ext (rs_cfg d u) (Corr_C18_proofs.proj_hdr (stripped h)) (Corr_C18_proofs.proj_hdr h))
            by (rewrite !Corr_C18_proofs.hget_proj, stripped_hget; [reflexivity | discriminate]).
          rewrite stripped_hget by discriminate. rewrite M3, Mh, Mck. reflexivity. }
        rewrite Hard. cbn [andb].
        destruct (redirected d q) eqn:Hred; [|reflexivity]. cbn [negb orb]. rewrite (Eseen eq_refl). cbn [nilb andb].
        (* the redirect: status 301 *)
        unfold Corr_C18.model, RespHeaders.proxy_handle in Em. unfold redirected in Hred.
        change (RespHeaders.c_secure (rs_cfg d u)) with (dp_secure d) in Em. rewrite Hred in Em. inversion Em. reflexivity.
      - cbn [logging_strip negb orb]. destruct (redirected d q) eqn:Hred; [|reflexivity]. cbn [negb orb]. rewrite (Eseen eq_refl). reflexivity. }
    (* minted / re-saved sessions are bound *)
    assert (Cm : minted_ok d u q (model_obs d q a now) = true).
    { unfold minted_ok. cbn [model_obs ob_session]. destruct (visible_session _ _ _) as [| |s] eqn:Ev; try reflexivity.
      apply visible_saved in Ev.
      destruct (issued_session_bound re_match re_replace lower opens d q a now s u Ev Eup) as [_ [B1 B2]].
      rewrite B1, B2, !str_eqb_refl. reflexivity. }
    apply andb_true_iff in Cb as [Cb1 Cb2]. apply andb_true_iff in Ch as [Ch1 Ch2].
    rewrite Cb1, Cb2, Ch1, Ch2, Cm. reflexivity.
Qed.

End Accept.

(* the guards are satisfiable: the concrete request of ProxyAll_proofs.Ex that is served on its own upstream *)
Example guards_satisfiable :
  guards Ex.ex_match Ex.ex_replace lower_ascii Ex.ex_opens Ex.dep Ex.q_app Ex.quiet 1000%Z.
Proof.
  intros u Hr _. vm_compute in Hr. inversion Hr; subst u. vm_compute. reflexivity.
Qed.

(* ... and on that request every guarded clause of the monitor does apply (nothing is skipped) *)
Example clauses_apply_nonvacuous :
  ap_sig (applic_of Ex.q_app (Ex.run Ex.q_app)) = true /\
  (forall k, In k ReqHeaders.identity_keys -> ap_hop (applic_of Ex.q_app (Ex.run Ex.q_app)) k = false) /\
  hardening_applies Ex.up_app Ex.quiet = true.
Proof.
  split; [vm_compute; reflexivity|]. split; [|reflexivity].
  intros k Hk. unfold ReqHeaders.identity_keys in Hk. cbn [In] in Hk. destruct Hk as [<-|[<-|[<-|[<-|[]]]]]; vm_compute; reflexivity.
Qed.
