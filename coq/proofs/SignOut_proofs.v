(* Proofs about SignOut.v (property C19). *)
From V Require Import Base Base_proofs SignOut.
From Coq Require Import ZifyN ZifyNat ZifyBool.

Ltac nlia := zify; Z.div_mod_to_equations; lia.
Ltac split_ifs :=
  repeat match goal with
         | |- context [if ?b then _ else _] => destruct b eqn:?
         | H : context [if ?b then _ else _] |- _ => destruct b eqn:?
         end.

(* ------------------------------------------------------------------------------------------ *)
(* 1. decimal: ParseInt (Sprint t) = t                                                          *)

Lemma parse_digits_app l1 : forall a l2,
  parse_digits a (l1 ++ l2) = match parse_digits a l1 with Some v => parse_digits v l2 | None => None end.
Proof.
  induction l1 as [|c l1 IH]; intros a l2; cbn [parse_digits app]; [reflexivity|].
  destruct (digit_val c); [apply IH | reflexivity].
Qed.

Lemma digit_val_digit d : d < 10 -> digit_val (48 + d) = Some d.
Proof. intros H. unfold digit_val. replace ((48 <=? 48 + d) && (48 + d <=? 57)) with true by lia. f_equal. lia. Qed.

Definition is_digit (c : N) : Prop := 48 <= c <= 57.

Lemma dec_fuel_S f n :
  dec_fuel (S f) n = if n <? 10 then [48 + n] else dec_fuel f (n / 10) ++ [48 + n mod 10].
Proof. reflexivity. Qed.

Lemma dec_fuel_spec f : forall n, n < 2 ^ N.of_nat f ->
  parse_digits 0 (dec_fuel (S f) n) = Some n /\ Forall is_digit (dec_fuel (S f) n) /\ dec_fuel (S f) n <> [].
Proof.
  induction f as [|f IH]; intros n Hn; rewrite dec_fuel_S.
  - assert (n = 0) by (change (N.of_nat 0) with 0 in Hn; rewrite N.pow_0_r in Hn; lia). subst. cbn.
    split; [reflexivity|]. split; [|discriminate]. constructor; [unfold is_digit; lia | constructor].
  - destruct (n <? 10) eqn:E.
    + cbn [parse_digits]. rewrite (digit_val_digit n) by lia.
      split; [f_equal; lia|]. split; [|discriminate]. constructor; [unfold is_digit; lia | constructor].
    + assert (Hq : n / 10 < 2 ^ N.of_nat f).
      { rewrite Nat2N.inj_succ, N.pow_succ_r' in Hn. clear IH. nlia. }
      destruct (IH _ Hq) as [Hp [Hd Hne]].
      split; [|split].
      * rewrite parse_digits_app, Hp. cbn [parse_digits]. rewrite digit_val_digit by (clear; nlia). f_equal. clear. nlia.
      * apply Forall_app; split; [exact Hd | constructor; [unfold is_digit; clear; nlia | constructor]].
      * intros H. apply app_eq_nil in H as [_ H]. discriminate.
Qed.

Lemma dec_N_spec n :
  parse_digits 0 (dec_N n) = Some n /\ Forall is_digit (dec_N n) /\ dec_N n <> [].
Proof.
  unfold dec_N. apply dec_fuel_spec. rewrite N2Nat.id. apply N.size_gt.
Qed.

Lemma parse_uint_dec_N n : parse_uint (dec_N n) = Some n.
Proof.
  destruct (dec_N_spec n) as [Hp [_ Hne]]. unfold parse_uint. destruct (dec_N n); [congruence | exact Hp].
Qed.

(* strconv.ParseInt(fmt.Sprint(t), 10, 64) = t for every int64 t *)
Theorem parse_int_dec t : (- 9223372036854775808 <= t < 9223372036854775808)%Z -> parse_int (dec t) = Some t.
Proof.
  intros Ht. destruct t as [|p|p]; [reflexivity | |].
  - cbn [dec]. destruct (dec_N_spec (Npos p)) as [Hp [Hd Hne]].
    pose proof (parse_uint_dec_N (Npos p)) as Hu.
    destruct (dec_N (Npos p)) as [|c r] eqn:E; [congruence|].
    inversion Hd as [|? ? Hc _]; subst. unfold is_digit in Hc. unfold parse_int.
    replace (c =? 45) with false by lia. replace (c =? 43) with false by lia. cbn [orb].
    rewrite Hu. unfold two63. replace (N.pos p <? 9223372036854775808) with true by lia. reflexivity.
  - cbn [dec]. unfold parse_int. cbn [N.eqb Pos.eqb orb]. rewrite parse_uint_dec_N.
    unfold two63. replace (N.pos p <=? 9223372036854775808) with true by lia. reflexivity.
Qed.

Lemma dec_nonempty t : dec t <> [].
Proof.
  destruct t as [|p|p]; cbn [dec]; try discriminate.
  destruct (dec_N_spec (Npos p)) as [_ [_ H]]. exact H.
Qed.

(* ------------------------------------------------------------------------------------------ *)
(* 2. padded base64url: DecodeString (EncodeToString b) = b                                     *)

Lemma list_ind3 {A} (P : list A -> Prop) :
  P [] -> (forall x, P [x]) -> (forall x y, P [x; y]) ->
  (forall x y z r, P r -> P (x :: y :: z :: r)) -> forall l, P l.
Proof.
  intros H0 H1 H2 H3. fix IH 1.
  intros [|x [|y [|z r]]]; [exact H0 | exact (H1 x) | exact (H2 x y) | exact (H3 x y z r (IH r))].
Qed.

Lemma dec_enc_char v : v < 64 -> dec_char (enc_char v) = Some v.
Proof. intros H. unfold dec_char, enc_char. split_ifs; try (f_equal; lia); lia. Qed.

Lemma scan_enc v s : v < 64 ->
  scan (enc_char v :: s) = match scan s with Some (q, r) => Some (v :: q, r) | None => None end.
Proof. intros H. cbn [scan]. rewrite (dec_enc_char v H). reflexivity. Qed.

Lemma scan_pad s : scan (pad :: s) = Some ([], Some s).
Proof. reflexivity. Qed.

Lemma b64_scan b : bytes_ok b ->
  exists q rest, scan (b64_encode b) = Some (q, rest) /\ unquanta q rest = Some b.
Proof.
  unfold bytes_ok. induction b as [| x | x y | x y z r IH] using list_ind3; intros H; cbn [b64_encode].
  - exists [], None. split; reflexivity.
  - inversion H; subst.
    rewrite scan_enc by nlia. rewrite scan_enc by nlia. rewrite scan_pad.
    eexists _, _. split; [reflexivity|]. cbn. do 2 f_equal. nlia.
  - inversion H as [|? ? Hx H']; subst. inversion H'; subst.
    rewrite scan_enc by nlia. rewrite scan_enc by nlia. rewrite scan_enc by nlia. rewrite scan_pad.
    eexists _, _. split; [reflexivity|]. cbn. f_equal. f_equal; [nlia|]. f_equal. nlia.
  - inversion H as [|? ? Hx H1]; subst. inversion H1 as [|? ? Hy H2]; subst. inversion H2 as [|? ? Hz H3]; subst.
    destruct (IH H3) as [q [rest [Hs Hu]]].
    rewrite scan_enc by nlia. rewrite scan_enc by nlia. rewrite scan_enc by nlia. rewrite scan_enc by nlia.
    rewrite Hs. eexists _, _. split; [reflexivity|]. cbn [unquanta]. rewrite Hu.
    f_equal. f_equal; [nlia|]. f_equal; [nlia|]. f_equal. nlia.
Qed.

Theorem b64_roundtrip b : bytes_ok b -> b64_decode (b64_encode b) = Some b.
Proof.
  intros H. destruct (b64_scan b H) as [q [rest [Hs Hu]]]. unfold b64_decode. rewrite Hs. exact Hu.
Qed.

Lemma b64_encode_nonempty b : b <> [] -> b64_encode b <> [].
Proof. destruct b as [|x [|y [|z r]]]; intros H; cbn [b64_encode]; congruence. Qed.

(* ------------------------------------------------------------------------------------------ *)
(* 3. URL.String of the return address                                                          *)

Lemma escape_host_plain h : host_plain h = true -> escape_host h = h.
Proof.
  unfold host_plain, escape_host. induction h as [|c h IH]; intros H; [reflexivity|].
  cbn [forallb] in H. apply andb_true_iff in H as [Hc Hh]. cbn [flat_map]. rewrite Hc, (IH Hh). reflexivity.
Qed.

Lemma url_string_nonempty scheme host : url_string scheme host <> [].
Proof.
  unfold url_string. intros H. apply app_eq_nil in H as [_ H]. apply app_eq_nil in H as [_ H].
  apply app_eq_nil in H as [_ H]. discriminate.
Qed.

(* with a scheme: scheme://host/ ; without: //host/ *)
Lemma url_string_plain scheme host : host_plain host = true -> host <> [] ->
  url_string scheme host = (match scheme with [] => [] | _ => scheme ++ [58] end) ++ [47; 47] ++ host ++ [47].
Proof.
  intros Hp Hne. unfold url_string. rewrite (escape_host_plain _ Hp).
  destruct scheme; destruct host; try congruence; reflexivity.
Qed.

(* in general: the escaped host between "//" and "/" *)
Lemma url_string_escaped scheme host : scheme <> [] \/ host <> [] ->
  url_string scheme host = (match scheme with [] => [] | _ => scheme ++ [58] end) ++ [47; 47] ++ escape_host host ++ [47].
Proof.
  intros H. unfold url_string. destruct scheme; destruct host; try reflexivity. destruct H; congruence.
Qed.

Definition colon_slash_slash : str := [58; 47; 47].

Lemma url_string_origin_form secure host : host_plain host = true ->
  url_string (proxy_scheme secure true) host =
  (if secure then s_https else s_http) ++ colon_slash_slash ++ host ++ [47].
Proof.
  intros Hp. unfold url_string. rewrite (escape_host_plain _ Hp). destruct secure; reflexivity.
Qed.

(* ------------------------------------------------------------------------------------------ *)
(* 3b. the query string: ParseQuery (Values.Encode ps) = ps                                     *)

Definition wire_safe (c : N) : Prop := c <> amp /\ c <> eq_sign /\ c <> semicolon.

Lemma hex_digit_safe v : wire_safe (hex_digit v).
Proof. unfold wire_safe, hex_digit, amp, eq_sign, semicolon. destruct (v <? 10) eqn:E; lia. Qed.

Lemma query_keep_spec c : query_keep c = true -> wire_safe c /\ c <> 37 /\ c <> 43.
Proof.
  unfold query_keep, is_alnum, wire_safe, amp, eq_sign, semicolon. cbn [existsb]. intros H.
  repeat split; intros ->; discriminate.
Qed.

Lemma query_escape_safe s : Forall wire_safe (query_escape s).
Proof.
  unfold query_escape. induction s as [|c s IH]; cbn [flat_map]; [constructor|].
  apply Forall_app; split; [|exact IH].
  destruct (query_keep c) eqn:K; [constructor; [apply query_keep_spec; exact K | constructor]|].
  destruct (c =? 32); repeat constructor; try apply hex_digit_safe; unfold amp, eq_sign, semicolon; lia.
Qed.

Lemma unhex_hex_digit v : v < 16 -> unhex (hex_digit v) = Some v.
Proof. intros H. unfold unhex, hex_digit. split_ifs; try (f_equal; lia); lia. Qed.

Lemma query_unescape_escape s : bytes_ok s -> query_unescape (query_escape s) = Some s.
Proof.
  unfold bytes_ok, query_escape. induction 1 as [|c s Hc _ IH]; [reflexivity|]. cbn [flat_map].
  destruct (query_keep c) eqn:K.
  - destruct (query_keep_spec c K) as [_ [H37 H43]]. cbn [app query_unescape].
    replace (c =? 37) with false by lia. replace (c =? 43) with false by lia. rewrite IH. reflexivity.
  - destruct (c =? 32) eqn:E32.
    + cbn [app query_unescape]. cbn [N.eqb Pos.eqb]. rewrite IH. f_equal. f_equal. lia.
    + cbn [app query_unescape]. cbn [N.eqb Pos.eqb].
      rewrite (unhex_hex_digit (c / 16)) by nlia. rewrite (unhex_hex_digit (c mod 16)) by nlia.
      rewrite IH. f_equal. f_equal. nlia.
Qed.

Lemma cut_eq_app a b : Forall (fun c => c <> eq_sign) a -> cut_eq (a ++ eq_sign :: b) = (a, b).
Proof.
  induction 1 as [|c a Hc _ IH]; cbn [app cut_eq]; [reflexivity|].
  replace (c =? eq_sign) with false by lia. rewrite IH. reflexivity.
Qed.

Lemma split_on_single a : Forall (fun c => c <> amp) a -> split_on amp a = [a].
Proof.
  induction 1 as [|c a Hc _ IH]; cbn [split_on]; [reflexivity|].
  replace (c =? amp) with false by lia. rewrite IH. reflexivity.
Qed.

Lemma split_on_app a rest : Forall (fun c => c <> amp) a -> split_on amp (a ++ amp :: rest) = a :: split_on amp rest.
Proof.
  induction 1 as [|c a Hc _ IH]; cbn [app split_on]; [reflexivity|].
  replace (c =? amp) with false by lia. rewrite IH. reflexivity.
Qed.

Lemma split_on_join segs : segs <> [] -> Forall (Forall (fun c => c <> amp)) segs -> split_on amp (join [amp] segs) = segs.
Proof.
  induction segs as [|x segs IH]; intros Hne H; [congruence|].
  inversion H as [|? ? Hx Hs]; subst. destruct segs as [|y segs].
  - cbn [join]. apply split_on_single. exact Hx.
  - change (join [amp] (x :: y :: segs)) with (x ++ [amp] ++ join [amp] (y :: segs)). cbn [app].
    rewrite (split_on_app _ _ Hx). f_equal. apply IH; [discriminate | exact Hs].
Qed.

Definition pair_bytes_ok (kv : str * str) : Prop := bytes_ok (fst kv) /\ bytes_ok (snd kv).

Lemma encode_pair_safe kv : Forall (fun c => c <> amp /\ c <> semicolon) (encode_pair kv).
Proof.
  unfold encode_pair. apply Forall_app; split; [|apply Forall_app; split].
  - eapply Forall_impl; [|apply query_escape_safe]. intros c [H1 [_ H3]]. auto.
  - constructor; [unfold eq_sign, amp, semicolon; lia | constructor].
  - eapply Forall_impl; [|apply query_escape_safe]. intros c [H1 [_ H3]]. auto.
Qed.

Lemma parse_segment_encode k v rest :
  bytes_ok k -> bytes_ok v ->
  parse_segments (encode_pair (k, v) :: rest) =
  match parse_segments rest with Some t => Some ((k, v) :: t) | None => None end.
Proof.
  intros Hk Hv. cbn [parse_segments].
  assert (Hsemi : existsb (N.eqb semicolon) (encode_pair (k, v)) = false).
  { destruct (existsb (N.eqb semicolon) (encode_pair (k, v))) eqn:E; [|reflexivity].
    apply existsb_exists in E as [c [Hin Hc]]. pose proof (encode_pair_safe (k, v)) as Hs.
    rewrite Forall_forall in Hs. destruct (Hs c Hin) as [_ Hn]. apply N.eqb_eq in Hc. congruence. }
  rewrite Hsemi.
  assert (Hnil : is_nil (encode_pair (k, v)) = false).
  { unfold encode_pair. cbn [fst snd]. destruct (query_escape k); reflexivity. }
  rewrite Hnil. unfold encode_pair. cbn [fst snd]. change ([eq_sign] ++ query_escape v) with (eq_sign :: query_escape v).
  rewrite cut_eq_app.
  - rewrite (query_unescape_escape k Hk), (query_unescape_escape v Hv). reflexivity.
  - eapply Forall_impl; [|apply query_escape_safe]. intros c [_ [H _]]. exact H.
Qed.

Lemma parse_segments_encode ps : Forall pair_bytes_ok ps -> parse_segments (map encode_pair ps) = Some ps.
Proof.
  induction 1 as [|[k v] ps [Hk Hv] _ IH]; [reflexivity|]. cbn [map].
  rewrite (parse_segment_encode k v _ Hk Hv), IH. reflexivity.
Qed.

(* what url.Values.Encode writes, ParseQuery reads back: nothing is lost or confused on the wire *)
Theorem parse_encode_query ps : Forall pair_bytes_ok ps -> parse_query (encode_query ps) = Some ps.
Proof.
  intros H. unfold parse_query, encode_query. destruct ps as [|p ps]; [reflexivity|].
  rewrite split_on_join.
  - apply parse_segments_encode. exact H.
  - discriminate.
  - apply Forall_forall. intros seg Hin. apply in_map_iff in Hin as [kv [<- _]].
    eapply Forall_impl; [|apply encode_pair_safe]. intros c [Hc _]. exact Hc.
Qed.

(* the form the handlers see (errors dropped by the logging handler) is the strict parse whenever that succeeds *)
Lemma collect_of_parse segs : forall ps, parse_segments segs = Some ps -> collect_segments segs = ps.
Proof.
  induction segs as [|seg rest IH]; intros ps H; cbn [parse_segments collect_segments] in *; [inversion H; reflexivity|].
  destruct (existsb (N.eqb semicolon) seg); [discriminate|].
  destruct (is_nil seg); [apply IH; exact H|].
  destruct (cut_eq seg) as [k v]. destruct (query_unescape k); [|discriminate]. destruct (query_unescape v); [|discriminate].
  destruct (parse_segments rest) as [t|]; [|discriminate]. inversion H; subst. f_equal. apply IH. reflexivity.
Qed.

Theorem form_of_encode_query ps : Forall pair_bytes_ok ps -> form_of_query (encode_query ps) = ps.
Proof.
  intros H. unfold form_of_query. apply collect_of_parse. exact (parse_encode_query ps H).
Qed.

(* ---- everything the proxy writes into the query is plain bytes ---- *)
Lemma enc_char_byte v : enc_char v < 256.
Proof. unfold enc_char. split_ifs; lia. Qed.

Lemma b64_encode_bytes b : bytes_ok (b64_encode b).
Proof.
  unfold bytes_ok. induction b as [| x | x y | x y z r IH] using list_ind3; cbn [b64_encode];
    repeat (constructor; [first [apply enc_char_byte | unfold pad; lia]|]); auto.
Qed.

Lemma dec_bytes t : bytes_ok (dec t).
Proof.
  assert (H : forall n, bytes_ok (dec_N n)).
  { intros n. destruct (dec_N_spec n) as [_ [Hd _]]. eapply Forall_impl; [|exact Hd]. unfold is_digit. intros; lia. }
  destruct t; cbn [dec]; [repeat constructor | apply H | constructor; [lia | apply H]].
Qed.

Lemma hex_digit_byte v : v < 16 -> hex_digit v < 256.
Proof. unfold hex_digit. intros. destruct (v <? 10); lia. Qed.

Lemma escape_host_bytes h : bytes_ok h -> bytes_ok (escape_host h).
Proof.
  unfold bytes_ok, escape_host. induction 1 as [|c h Hc _ IH]; cbn [flat_map]; [constructor|].
  apply Forall_app; split; [|exact IH].
  destruct (host_keep c); [constructor; [exact Hc | constructor]|].
  constructor; [lia|]. constructor; [apply hex_digit_byte; nlia|]. constructor; [apply hex_digit_byte; nlia | constructor].
Qed.

Lemma url_string_bytes secure origin_form host : bytes_ok host -> bytes_ok (url_string (proxy_scheme secure origin_form) host).
Proof.
  intros H. unfold url_string. apply Forall_app; split; [|apply Forall_app; split; [|apply Forall_app; split]].
  - destruct origin_form; destruct secure; cbn; repeat constructor; lia.
  - destruct (proxy_scheme secure origin_form); destruct host; repeat constructor; lia.
  - apply escape_host_bytes. exact H.
  - repeat constructor; lia.
Qed.

(* ------------------------------------------------------------------------------------------ *)
(* 3c. the single-flight key of Revoke: Sprintf("%q:%q", access, refresh) names the pair       *)

Definition unhex_lower (d : N) : N := if d <? 58 then d - 48 else d - 87.

Lemma unhex_hex_lower v : unhex_lower (hex_lower v) = v.
Proof. unfold unhex_lower, hex_lower. destruct (v <? 10) eqn:E; [replace (48 + v <? 58) with true by lia | replace (87 + v <? 58) with false by lia]; lia. Qed.

(* reads a quoted body up to its closing quote; returns the content and what follows *)
Fixpoint unquote_body (s : str) : option (str * str) :=
  match s with
  | [] => None
  | c :: r =>
      if c =? 34 then Some ([], r)
      else if c =? 92 then
        match r with
        | d :: r1 =>
            if d =? 120 then
              match r1 with
              | h :: l :: r2 =>
                  match unquote_body r2 with
                  | Some (t, rest) => Some (unhex_lower h * 16 + unhex_lower l :: t, rest)
                  | None => None
                  end
              | _ => None
              end
            else match unquote_body r1 with Some (t, rest) => Some (d :: t, rest) | None => None end
        | [] => None
        end
      else match unquote_body r with Some (t, rest) => Some (c :: t, rest) | None => None end
  end.

Lemma unquote_quote_body s rest : unquote_body (quote_body s ++ 34 :: rest) = Some (s, rest).
Proof.
  unfold quote_body. induction s as [|c s IH]; [reflexivity|]. cbn [flat_map]. unfold quote_byte at 1.
  destruct (c =? 34) eqn:E34.
  - cbn [app unquote_body N.eqb Pos.eqb]. rewrite IH. f_equal. f_equal. f_equal. lia.
  - destruct (c =? 92) eqn:E92.
    + cbn [app unquote_body N.eqb Pos.eqb]. rewrite IH. f_equal. f_equal. f_equal. lia.
    + destruct ((32 <=? c) && (c <? 127)) eqn:Ep.
      * cbn [app unquote_body]. rewrite E34, E92, IH. reflexivity.
      * cbn [app unquote_body N.eqb Pos.eqb]. rewrite IH, !unhex_hex_lower. f_equal. f_equal. f_equal. nlia.
Qed.

Lemma quote_inj_app a a' r r' : quote a ++ r = quote a' ++ r' -> a = a' /\ r = r'.
Proof.
  unfold quote. cbn [app]. rewrite <- !app_assoc. cbn [app]. intros H. inversion H as [H1].
  pose proof (unquote_quote_body a r) as Ha. rewrite H1, unquote_quote_body in Ha. inversion Ha; auto.
Qed.

(* equal keys <-> equal (access, refresh) pairs: sessions that share only one token are never merged *)
Theorem flight_key_inj s1 s2 :
  flight_key s1 = flight_key s2 <-> as_access s1 = as_access s2 /\ as_refresh s1 = as_refresh s2.
Proof.
  unfold flight_key. split.
  - intros H. apply quote_inj_app in H as [Ha H]. cbn [app] in H. inversion H as [H1].
    pose proof (unquote_quote_body (as_refresh s1) []) as Hr. rewrite H1, unquote_quote_body in Hr.
    inversion Hr; auto.
  - intros [-> ->]. reflexivity.
Qed.

(* ------------------------------------------------------------------------------------------ *)
Section Mac.
Variable mac : str -> str -> str.

(* what the theorems need to know about HMAC-SHA256: it returns a non-empty byte string *)
Definition mac_wf : Prop := forall k m, mac k m <> [] /\ bytes_ok (mac k m).

Lemma loc_fields base secret uri now :
  let l := get_sign_out_url mac base secret uri now in
  form_get k_redirect_uri (l_params l) = uri /\
  form_get k_sig (l_params l) = sign_redirect mac secret uri now /\
  form_get k_ts (l_params l) = dec now.
Proof. repeat split; reflexivity. Qed.

(* ---- the proxy's half ---- *)
Theorem proxy_signout base secret secure origin_form host now :
  let r := proxy_sign_out mac base secret secure origin_form host now in
  let uri := url_string (proxy_scheme secure origin_form) host in
  p_status r = 302%Z /\ p_clears r = true /\ p_sets_live r = false /\ p_asks r = false /\ l_base (p_loc r) = base /\
  l_params (p_loc r) = [(k_redirect_uri, uri); (k_sig, b64_encode (mac secret (uri ++ dec now))); (k_ts, dec now)] /\
  (host_plain host = true -> origin_form = true ->
     uri = (if secure then s_https else s_http) ++ colon_slash_slash ++ host ++ [47]) /\
  (host_plain host = true -> host <> [] -> origin_form = false -> uri = [47; 47] ++ host ++ [47]).
Proof.
  cbv zeta. repeat split.
  - intros Hp ->. apply url_string_origin_form; exact Hp.
  - intros Hp Hne ->. rewrite (url_string_plain _ _ Hp Hne). reflexivity.
Qed.

(* ---- the two halves meet ---- *)
Definition int64 (t : Z) : Prop := (- 9223372036854775808 <= t < 9223372036854775808)%Z.

Theorem signature_accepted base psecret asecret secure origin_form host now now' :
  mac_wf -> asecret = psecret -> psecret <> [] -> int64 now -> (now' - now <= 300)%Z ->
  let l := p_loc (proxy_sign_out mac base psecret secure origin_form host now) in
  valid_signature mac asecret (form_get k_redirect_uri (l_params l)) (form_get k_sig (l_params l))
                  (form_get k_ts (l_params l)) true now' = true.
Proof.
  intros Hwf -> Hs Hnow Hage. cbv zeta. unfold proxy_sign_out. cbn [p_loc].
  destruct (loc_fields base psecret (url_string (proxy_scheme secure origin_form) host) now) as [-> [-> ->]].
  set (uri := url_string (proxy_scheme secure origin_form) host).
  unfold valid_signature, sign_redirect.
  destruct (Hwf psecret (uri ++ dec now)) as [Hne Hb].
  pose proof (url_string_nonempty (proxy_scheme secure origin_form) host) as Hu. fold uri in Hu.
  pose proof (b64_encode_nonempty _ Hne) as Hsig. pose proof (dec_nonempty now) as Hts.
  destruct uri as [|u0 ur] eqn:Eu; [congruence|].
  destruct (b64_encode (mac psecret ((u0 :: ur) ++ dec now))) as [|g0 gr] eqn:Eg; [congruence|].
  destruct (dec now) as [|t0 tr] eqn:Et; [congruence|].
  destruct psecret as [|k0 kr]; [congruence|]. cbn [is_nil orb negb].
  rewrite <- Eg, (b64_roundtrip _ Hb). rewrite <- Et, (parse_int_dec now Hnow).
  unfold sig_ttl. replace (now' - now >? 300)%Z with false by lia. apply str_eqb_refl.
Qed.

(* ... and on the wire: the query string the proxy's Location carries (url.Values.Encode), read by the
   authenticator's ParseForm (ParseQuery), yields the same three fields, which pass validSignature *)
Theorem signature_accepted_on_the_wire base psecret asecret secure origin_form host now now' :
  mac_wf -> asecret = psecret -> psecret <> [] -> bytes_ok host -> int64 now -> (now' - now <= 300)%Z ->
  let l := p_loc (proxy_sign_out mac base psecret secure origin_form host now) in
  exists ps, parse_query (encode_query (l_params l)) = Some ps /\
    valid_signature mac asecret (form_get k_redirect_uri ps) (form_get k_sig ps) (form_get k_ts ps) true now' = true.
Proof.
  intros Hwf He Hs Hh Hnow Hage. cbv zeta. exists (l_params (p_loc (proxy_sign_out mac base psecret secure origin_form host now))).
  split; [|exact (signature_accepted base psecret asecret secure origin_form host now now' Hwf He Hs Hnow Hage)].
  apply parse_encode_query. unfold proxy_sign_out, get_sign_out_url. cbn [p_loc l_params].
  repeat constructor; cbn [fst snd]; unfold k_redirect_uri, k_sig, k_ts, sign_redirect;
    try (apply url_string_bytes; exact Hh); try apply b64_encode_bytes; try apply dec_bytes;
    repeat constructor; lia.
Qed.

Definition is_gate (b : abody) : bool := match b with BGate _ => true | _ => false end.

(* followed into the authenticator's route: the gate pair lets the browser through *)
Corollary redirect_passes_gates base psecret asecret secure origin_form host now now' p m ck idp :
  mac_wf -> asecret = psecret -> psecret <> [] -> int64 now -> (now' - now <= 300)%Z -> m <> MOther ->
  let l := p_loc (proxy_sign_out mac base psecret secure origin_form host now) in
  is_gate (r_body (auth_sign_out mac asecret p now' (follow l m true ck idp))) = false.
Proof.
  intros Hwf He Hs Hnow Hage Hm. cbv zeta.
  pose proof (signature_accepted base psecret asecret secure origin_form host now now' Hwf He Hs Hnow Hage) as Hv.
  cbv zeta in Hv. unfold auth_sign_out, follow. cbn [q_method q_in_domain q_uri q_sig q_ts q_parses q_cookie q_idp negb].
  rewrite Hv. cbn [negb]. destruct m; [| |congruence].
  - destruct ck; reflexivity.
  - destruct ck; [reflexivity | reflexivity |]. destruct (revoke_ok p idp); reflexivity.
Qed.

(* an accepted signature IS the MAC, under the authenticator's secret, of this return address and
   the canonical decimal of this timestamp, and the timestamp is at most 300 s old *)
Theorem signature_sound secret uri sig ts parses now :
  valid_signature mac secret uri sig ts parses now = true ->
  secret <> [] /\ uri <> [] /\ parses = true /\
  exists t, parse_int ts = Some t /\ (now - t <= 300)%Z /\ b64_decode sig = Some (mac secret (uri ++ dec t)).
Proof.
  unfold valid_signature. intros H.
  destruct uri; [discriminate|]. destruct sig; [discriminate|]. destruct ts; [discriminate|].
  destruct secret; [discriminate|]. cbn [is_nil orb] in H.
  destruct parses; [|discriminate]. cbn [negb] in H.
  destruct (b64_decode (n0 :: sig)) as [rs|]; [|discriminate].
  destruct (parse_int (n1 :: ts)) as [t|]; [|discriminate].
  unfold sig_ttl in H. destruct (now - t >? 300)%Z eqn:E; [discriminate|].
  apply str_eqb_eq in H. subst rs.
  repeat split; try discriminate. exists t. repeat split; [lia].
Qed.

(* ---- provider Revoke ---- *)
Lemma revoke_ok_iff p a :
  revoke_ok p a = true <->
  exists b, a = IdpSt 200%Z b \/ (a = IdpSt 400%Z b /\ already_revoked p b = true).
Proof.
  unfold revoke_ok. split.
  - destruct a as [c b|]; [|discriminate]. destruct (c =? 200)%Z eqn:E2.
    + intros _. exists b. left. f_equal. lia.
    + destruct (c =? 400)%Z eqn:E4; [|discriminate]. intros H. exists b. right. split; [f_equal; lia | exact H].
  - intros [b [->|[-> H]]]; [reflexivity | exact H].
Qed.

(* ---- the authenticator's half ---- *)
Definition gates_pass (secret : str) (now : Z) (q : areq) : bool :=
  q_in_domain q && valid_signature mac secret (q_uri q) (q_sig q) (q_ts q) (q_parses q) now.

Theorem revoke_then_clear secret p now q :
  q_method q = MPost ->
  let r := auth_sign_out mac secret p now q in
  (* the cookie is cleared only together with the redirect, and only when there was no session to
     revoke (the cookie does not open) or Revoke was called with the session's token and succeeded *)
  (r_clears r = true ->
     gates_pass secret now q = true /\ r_body r = BRedirect (q_uri q) /\
     ((q_cookie q = ACJunk /\ r_revoked r = []) \/
      exists s, q_cookie q = ACSealed s /\ r_revoked r = [revoke_token p s] /\ revoke_ok p (q_idp q) = true)) /\
  (* a loadable session: Revoke is always attempted; its failure gives the 500 page and keeps the cookie *)
  (forall s, q_cookie q = ACSealed s -> gates_pass secret now q = true ->
     r_revoked r = [revoke_token p s] /\
     (revoke_ok p (q_idp q) = false ->
        r_body r = BPage 500%Z (as_email s) (q_uri q) (q_sig q) (q_ts q) /\ r_clears r = false) /\
     (revoke_ok p (q_idp q) = true -> r_body r = BRedirect (q_uri q) /\ r_clears r = true)).
Proof.
  intros Hm. cbv zeta. unfold auth_sign_out, gates_pass. rewrite Hm.
  destruct (q_in_domain q); cbn [negb andb].
  2:{ split; [discriminate | intros s _ H; discriminate]. }
  destruct (valid_signature mac secret (q_uri q) (q_sig q) (q_ts q) (q_parses q) now); cbn [negb].
  2:{ split; [discriminate | intros s _ H; discriminate]. }
  split.
  - destruct (q_cookie q) as [| |s]; cbn [r_clears r_body r_revoked]; [discriminate | intros _; auto |].
    destruct (revoke_ok p (q_idp q)) eqn:E; cbn [r_clears r_body r_revoked]; [|discriminate].
    intros _. split; [reflexivity|]. split; [reflexivity|]. right. exists s. auto.
  - intros s -> _. destruct (revoke_ok p (q_idp q)); cbn [r_clears r_body r_revoked];
      (split; [reflexivity|]); split; intros H; try discriminate; auto.
Qed.

Theorem needs_valid_request secret p now q :
  gates_pass secret now q = false \/ q_method q = MOther ->
  let r := auth_sign_out mac secret p now q in
  (exists code, r_body r = BGate code) /\ r_clears r = false /\ r_revoked r = [].
Proof.
  cbv zeta. unfold auth_sign_out, gates_pass. intros [H|H].
  - destruct (q_method q); try (split; [eexists; reflexivity | split; reflexivity]);
      destruct (q_in_domain q); cbn [negb andb] in *; try (split; [eexists; reflexivity | split; reflexivity]);
      rewrite H; cbn [negb]; (split; [eexists; reflexivity | split; reflexivity]).
  - rewrite H. split; [eexists; reflexivity | split; reflexivity].
Qed.

(* looking at the sign-out page (GET) neither revokes nor clears anything *)
Theorem get_is_passive secret p now q :
  q_method q = MGet ->
  let r := auth_sign_out mac secret p now q in r_clears r = false /\ r_revoked r = [].
Proof.
  intros Hm. cbv zeta. unfold auth_sign_out. rewrite Hm.
  destruct (negb (q_in_domain q)); [split; reflexivity|].
  destruct (negb (valid_signature mac secret (q_uri q) (q_sig q) (q_ts q) (q_parses q) now)); [split; reflexivity|].
  destruct (q_cookie q); split; reflexivity.
Qed.

(* nothing is ever revoked without a loadable session of the authenticator, and the token sent to
   the IdP is that session's own *)
Theorem revoked_is_own_token secret p now q tok :
  In tok (r_revoked (auth_sign_out mac secret p now q)) ->
  exists s, q_cookie q = ACSealed s /\ tok = revoke_token p s /\ q_method q = MPost /\ gates_pass secret now q = true.
Proof.
  unfold auth_sign_out, gates_pass.
  destruct (q_method q); cbn [r_revoked]; try (intros []);
    destruct (q_in_domain q); cbn [negb andb r_revoked]; try (intros []);
    destruct (valid_signature mac secret (q_uri q) (q_sig q) (q_ts q) (q_parses q) now); cbn [negb r_revoked]; try (intros []).
  - destruct (q_cookie q); cbn [r_revoked]; intros [].
  - destruct (q_cookie q) as [| |s]; cbn [r_revoked]; try (intros []).
    destruct (revoke_ok p (q_idp q)); cbn [r_revoked]; intros [<-|[]]; exists s; auto.
Qed.

(* the signature stays valid for the whole window: what passed once passes again until ts + 300
   (the sign-out page's form posts the same three fields back) *)
Lemma valid_signature_window secret uri sig ts parses now1 now2 t :
  valid_signature mac secret uri sig ts parses now1 = true ->
  parse_int ts = Some t -> (now2 - t <= 300)%Z ->
  valid_signature mac secret uri sig ts parses now2 = true.
Proof.
  unfold valid_signature. intros H Ht Hw.
  destruct (is_nil uri || is_nil sig || is_nil ts || is_nil secret); [discriminate|].
  destruct (negb parses); [discriminate|].
  destruct (b64_decode sig); [|discriminate]. rewrite Ht in *.
  unfold sig_ttl in *. destruct (now1 - t >? 300)%Z; [discriminate|].
  replace (now2 - t >? 300)%Z with false by lia. exact H.
Qed.

Theorem page_then_post secret p now1 now2 q s idp t :
  q_method q = MGet -> q_cookie q = ACSealed s -> gates_pass secret now1 q = true ->
  parse_int (q_ts q) = Some t -> (now2 - t <= 300)%Z ->
  (* the page carries the request's own three fields ... *)
  r_body (auth_sign_out mac secret p now1 q) = BPage 200%Z (as_email s) (q_uri q) (q_sig q) (q_ts q) /\
  (* ... and posting them back passes the gates again *)
  gates_pass secret now2 {| q_method := MPost; q_uri := q_uri q; q_sig := q_sig q; q_ts := q_ts q;
                            q_parses := q_parses q; q_in_domain := q_in_domain q; q_cookie := ACSealed s; q_idp := idp |} = true.
Proof.
  intros Hm Hc Hg Ht Hw. unfold gates_pass in *. apply andb_true_iff in Hg as [Hd Hv]. split.
  - unfold auth_sign_out. rewrite Hm, Hd, Hv, Hc. reflexivity.
  - cbn [q_in_domain q_uri q_sig q_ts q_parses]. rewrite Hd. cbn [andb].
    eapply valid_signature_window; eauto.
Qed.

(* ---- histories: a cleared session's token is revoked at the IdP, whatever happened before ---- *)
Definition ainv (st : astate) : Prop :=
  forall p s, In (p, s) (st_cleared st) -> In (revoke_token p s) (st_revoked st).

Lemma ainv_step secret st e : ainv st -> ainv (astep mac secret st e).
Proof.
  intros Hinv p s Hin. unfold astep in *. cbn [st_cleared st_revoked] in *.
  set (r := auth_sign_out mac secret (e_provider e) (e_now e) (e_req e)) in *.
  assert (Hold : In (p, s) (st_cleared st) -> In (revoke_token p s)
            ((if revoke_ok (e_provider e) (q_idp (e_req e)) then r_revoked r else []) ++ st_revoked st)).
  { intros H. apply in_or_app. right. apply Hinv. exact H. }
  destruct (q_cookie (e_req e)) as [| |s0] eqn:Eck; [auto | auto |].
  destruct (r_clears r) eqn:Ecl; [|auto].
  destruct Hin as [Heq|Hin]; [|auto]. inversion Heq; subst. clear Heq.
  assert (Hm : q_method (e_req e) = MPost).
  { destruct (q_method (e_req e)) eqn:Em; [|reflexivity|].
    - destruct (get_is_passive secret (e_provider e) (e_now e) (e_req e) Em) as [H _]. fold r in H. congruence.
    - destruct (needs_valid_request secret (e_provider e) (e_now e) (e_req e) (or_intror Em)) as [_ [H _]]. fold r in H. congruence. }
  destruct (revoke_then_clear secret (e_provider e) (e_now e) (e_req e) Hm) as [H1 _]. fold r in H1.
  destruct (H1 Ecl) as [_ [_ [[Hj _]|[s1 [Hs1 [Hrev Hok]]]]]]; [congruence|].
  rewrite Eck in Hs1. inversion Hs1; subst s1. rewrite Hok, Hrev. left. reflexivity.
Qed.

Theorem cleared_implies_revoked secret evs : ainv (arun mac secret evs).
Proof.
  unfold arun. assert (H0 : ainv {| st_revoked := []; st_cleared := [] |}) by (intros p s []).
  revert H0. generalize {| st_revoked := []; st_cleared := [] |}.
  induction evs as [|e evs IH]; intros st Hst; cbn [fold_left]; [exact Hst|].
  apply IH. apply ainv_step. exact Hst.
Qed.

(* the IdP's state only grows, and only by tokens of sessions presented on valid confirmed requests *)
Theorem revoked_provenance secret evs tok :
  In tok (st_revoked (arun mac secret evs)) ->
  exists e s, In e evs /\ q_cookie (e_req e) = ACSealed s /\ tok = revoke_token (e_provider e) s /\
              q_method (e_req e) = MPost /\ gates_pass secret (e_now e) (e_req e) = true /\
              revoke_ok (e_provider e) (q_idp (e_req e)) = true.
Proof.
  unfold arun.
  assert (G : forall evs st, In tok (st_revoked (fold_left (astep mac secret) evs st)) ->
            In tok (st_revoked st) \/
            exists e s, In e evs /\ q_cookie (e_req e) = ACSealed s /\ tok = revoke_token (e_provider e) s /\
              q_method (e_req e) = MPost /\ gates_pass secret (e_now e) (e_req e) = true /\
              revoke_ok (e_provider e) (q_idp (e_req e)) = true).
  { clear evs. induction evs as [|e evs IH]; intros st H; cbn [fold_left] in H; [left; exact H|].
    destruct (IH _ H) as [H1|[e' [s [Hin Hrest]]]].
    - unfold astep in H1. cbn [st_revoked] in H1. apply in_app_or in H1 as [H1|H1]; [|left; exact H1].
      right. destruct (revoke_ok (e_provider e) (q_idp (e_req e))) eqn:Eok; [|destruct H1].
      destruct (revoked_is_own_token secret (e_provider e) (e_now e) (e_req e) tok H1) as [s [Hs [Ht [Hm Hg]]]].
      exists e, s. repeat split; auto. left; reflexivity.
    - right. exists e', s. split; [right; exact Hin | exact Hrest]. }
  intros H. destruct (G evs _ H) as [[]|H']. exact H'.
Qed.

(* ---- concurrent confirmations under the single-flight wrapper ---- *)
Lemma gen_is_sequential secret p now q :
  auth_sign_out_gen mac secret now q (fun s => (revoke_ok p (q_idp q), [revoke_token p s])) = auth_sign_out mac secret p now q.
Proof.
  unfold auth_sign_out_gen, auth_sign_out. destruct (q_method q); try reflexivity;
    destruct (negb (q_in_domain q)); try reflexivity;
    destruct (negb (valid_signature mac secret (q_uri q) (q_sig q) (q_ts q) (q_parses q) now)); try reflexivity.
Qed.

Lemma gen_reaches secret now q s rv :
  reaches_revoke mac secret now q = Some s ->
  auth_sign_out_gen mac secret now q rv =
  (let '(ok, sent) := rv s in
   if ok then {| r_body := BRedirect (q_uri q); r_clears := true; r_revoked := sent |}
   else {| r_body := BPage 500%Z (as_email s) (q_uri q) (q_sig q) (q_ts q); r_clears := false; r_revoked := sent |}).
Proof.
  unfold reaches_revoke, auth_sign_out_gen. destruct (q_method q); try discriminate.
  destruct (q_cookie q) as [| |s0]; try discriminate.
  destruct (q_in_domain q); [|discriminate]. cbn [andb negb].
  destruct (valid_signature mac secret (q_uri q) (q_sig q) (q_ts q) (q_parses q) now); [|discriminate].
  intros H; inversion H; subst. reflexivity.
Qed.

(* with nothing in flight a request is served exactly as in the sequential model *)
Lemma cstep_alone secret p st now q :
  cs_flights st = [] -> snd (cstep mac secret p st (CReq now q)) = Some (auth_sign_out mac secret p now q).
Proof.
  intros Hf. unfold cstep. destruct (reaches_revoke mac secret now q) as [s|] eqn:E.
  - rewrite Hf. cbn [find_flight snd]. f_equal. rewrite <- gen_is_sequential.
    rewrite !(gen_reaches _ _ _ s _ E). reflexivity.
  - cbn [snd]. f_equal. rewrite <- (gen_is_sequential secret p now q).
    unfold reaches_revoke in E. unfold auth_sign_out_gen.
    destruct (q_method q); try reflexivity; destruct (negb (q_in_domain q)) eqn:Ed; try reflexivity;
      destruct (negb (valid_signature mac secret (q_uri q) (q_sig q) (q_ts q) (q_parses q) now)) eqn:Ev; try reflexivity.
    destruct (q_cookie q); try reflexivity.
    apply negb_false_iff in Ed. apply negb_false_iff in Ev. rewrite Ed, Ev in E. discriminate.
Qed.

Lemma find_flight_some k fl f : find_flight k fl = Some f -> In f fl /\ fl_key f = k.
Proof.
  induction fl as [|g fl IH]; cbn [find_flight]; [discriminate|].
  destruct (str_eqb k (fl_key g)) eqn:E.
  - intros H; inversion H; subst. split; [left; reflexivity | symmetry; apply str_eqb_eq; exact E].
  - intros H. destruct (IH H). split; [right; assumption | assumption].
Qed.

Lemma drop_flight_in k fl f : In f (drop_flight k fl) -> In f fl.
Proof.
  induction fl as [|g fl IH]; cbn [drop_flight]; [auto|].
  destruct (str_eqb k (fl_key g)); [intros H; right; exact H|]. intros [H|H]; [left; exact H | right; auto].
Qed.

(* the sessions that may sign out concurrently: equal single-flight keys name the same IdP token *)
Definition consistent (p : provider) (U : list asession) : Prop :=
  forall s1 s2, In s1 U -> In s2 U -> flight_key s1 = flight_key s2 -> revoke_token p s1 = revoke_token p s2.
Definition sessions_in (U : list asession) (evs : list cevent) : Prop :=
  forall now q s, In (CReq now q) evs -> q_cookie q = ACSealed s -> In s U.

Definition cinv (p : provider) (U : list asession) (st : cstate) : Prop :=
  (forall s, In s (cs_cleared st) -> In (revoke_token p s) (cs_revoked st)) /\
  (forall f, In f (cs_flights st) -> fl_ok f = true -> In (fl_token f) (cs_revoked st)) /\
  (forall f s, In f (cs_flights st) -> In s U -> flight_key s = fl_key f -> revoke_token p s = fl_token f).

Lemma reaches_sealed secret now q s : reaches_revoke mac secret now q = Some s -> q_cookie q = ACSealed s.
Proof.
  unfold reaches_revoke. destruct (q_method q); try discriminate. destruct (q_cookie q); try discriminate.
  destruct (_ && _); [|discriminate]. intros H; inversion H; reflexivity.
Qed.

Lemma cinv_step secret p U st e :
  consistent p U -> (forall now q s, e = CReq now q -> q_cookie q = ACSealed s -> In s U) ->
  cinv p U st -> cinv p U (fst (cstep mac secret p st e)).
Proof.
  intros Hcons Hin [I1 [I2 I3]]. destruct e as [now q|k]; cbn [cstep].
  2:{ cbn [fst cs_cleared cs_revoked cs_flights]. split; [exact I1|]. split.
      - intros f Hf. apply I2. eapply drop_flight_in; eauto.
      - intros f s Hf. apply I3. eapply drop_flight_in; eauto. }
  destruct (reaches_revoke mac secret now q) as [s|] eqn:E; [|cbn [fst]; repeat split; auto].
  pose proof (Hin now q s eq_refl (reaches_sealed _ _ _ _ E)) as HsU.
  destruct (find_flight (flight_key s) (cs_flights st)) as [f|] eqn:Ef.
  - destruct (find_flight_some _ _ _ Ef) as [Hf Hk].
    rewrite (gen_reaches secret now q s _ E). cbn [fst cs_cleared cs_revoked cs_flights].
    split; [|split; [exact I2 | exact I3]].
    destruct (fl_ok f) eqn:Eok; cbn [r_clears]; [|exact I1].
    intros s' [<-|H]; [|apply I1; exact H].
    rewrite (I3 f s Hf HsU (eq_sym Hk)). apply I2; assumption.
  - rewrite (gen_reaches secret now q s _ E). cbn [fst cs_cleared cs_revoked cs_flights].
    destruct (revoke_ok p (q_idp q)) eqn:Eok; cbn [r_clears].
    + split; [|split].
      * intros s' [<-|H]; [left; reflexivity | right; apply I1; exact H].
      * intros f [<-|Hf] Hok; cbn [fl_token]; [left; reflexivity | right; apply I2; assumption].
      * intros f s' [<-|Hf] Hs' Hk; cbn [fl_token fl_key] in *; [apply Hcons; assumption | apply I3; assumption].
    + split; [exact I1|]. split.
      * intros f [<-|Hf] Hok; cbn [fl_ok] in *; [discriminate | apply I2; assumption].
      * intros f s' [<-|Hf] Hs' Hk; cbn [fl_token fl_key] in *; [apply Hcons; assumption | apply I3; assumption].
Qed.

(* for EVERY interleaving of confirmations and flight completions: whoever was told "signed out"
   has their own token revoked at the IdP — provided equal single-flight keys name equal tokens *)
Theorem conc_cleared_implies_revoked secret p U evs :
  consistent p U -> sessions_in U evs ->
  forall s, In s (cs_cleared (fst (crun mac secret p evs))) -> In (revoke_token p s) (cs_revoked (fst (crun mac secret p evs))).
Proof.
  intros Hcons Hin. unfold crun.
  assert (G : forall evs st, sessions_in U evs -> cinv p U st -> cinv p U (fst (crun_from mac secret p st evs))).
  { clear evs Hin. induction evs as [|e evs IH]; intros st Hin Hst; cbn [crun_from]; [exact Hst|].
    destruct (cstep mac secret p st e) as [st1 o] eqn:E1.
    destruct (crun_from mac secret p st1 evs) as [st2 rs] eqn:E2. cbn [fst].
    replace st2 with (fst (crun_from mac secret p st1 evs)) by (rewrite E2; reflexivity).
    apply IH.
    - intros now q s H. apply (Hin now q s). right; exact H.
    - replace st1 with (fst (cstep mac secret p st e)) by (rewrite E1; reflexivity).
      apply cinv_step; [exact Hcons | | exact Hst]. intros now q s -> Hc. apply (Hin now q s); [left; reflexivity | exact Hc]. }
  apply (G evs cinit Hin). split; [intros ? []|]. split; [intros ? []|]. intros ? ? [].
Qed.

(* the key names both tokens (flight_key_inj), so the guard holds for every set of sessions: the FULL
   statement, for every provider and every interleaving *)
Lemma consistent_always p U : consistent p U.
Proof.
  intros s1 s2 _ _ H. apply flight_key_inj in H as [Ha Hr]. destruct p; cbn [revoke_token]; assumption.
Qed.

Theorem conc_cleared_implies_revoked_full secret p evs s :
  In s (cs_cleared (fst (crun mac secret p evs))) -> In (revoke_token p s) (cs_revoked (fst (crun mac secret p evs))).
Proof.
  set (U := flat_map (fun e => match e with CReq _ q => match q_cookie q with ACSealed s => [s] | _ => [] end | _ => [] end) evs).
  apply (conc_cleared_implies_revoked secret p U evs); [apply consistent_always|].
  intros now q s0 Hin Hc. unfold U. apply in_flat_map. exists (CReq now q). split; [exact Hin|]. rewrite Hc. left; reflexivity.
Qed.

End Mac.

(* hypotheses are satisfiable: a toy MAC with 32-byte output *)
Definition toy_mac (k m : str) : str := repeat (N.of_nat (List.length k + List.length m) mod 256) 32.
Example toy_mac_wf : mac_wf toy_mac.
Proof.
  intros k m. unfold toy_mac. split; [discriminate|]. apply Forall_forall. intros x Hx.
  apply repeat_spec in Hx. subst. apply N.mod_lt. discriminate.
Qed.

Example signout_roundtrip_example :
  let host := [97;112;112;46;116;101;115;116] in       (* app.test *)
  let secret := [115;51;99;114;51;116] in
  let l := p_loc (proxy_sign_out toy_mac [] secret true true host 1700000000%Z) in
  form_get k_redirect_uri (l_params l) = s_https ++ colon_slash_slash ++ host ++ [47] /\
  form_get k_ts (l_params l) = [49;55;48;48;48;48;48;48;48;48] /\
  valid_signature toy_mac secret (form_get k_redirect_uri (l_params l)) (form_get k_sig (l_params l))
                  (form_get k_ts (l_params l)) true 1700000240%Z = true /\
  valid_signature toy_mac secret (form_get k_redirect_uri (l_params l)) (form_get k_sig (l_params l))
                  (form_get k_ts (l_params l)) true 1700000301%Z = false.
Proof. vm_compute. repeat split. Qed.

(* a complete sign-out as a history: proxy redirect followed (POST) 100 s later with a live session,
   IdP answers 200 — the cookie is cleared and the access token is revoked; the same request under
   a 503 answer clears and revokes nothing *)
Example signout_history_example :
  let host := [97;112;112;46;116;101;115;116] in
  let secret := [115;51;99;114;51;116] in
  let s := {| as_email := [97;64;98]; as_access := [97;116]; as_refresh := [114;116] |} in
  let l := p_loc (proxy_sign_out toy_mac [] secret true true host 1700000000%Z) in
  let ev idp := {| e_provider := PGoogle; e_now := 1700000100%Z; e_req := follow l MPost true (ACSealed s) idp |} in
  arun toy_mac secret [ev (IdpSt 200%Z BNotJSON)] = {| st_revoked := [[97;116]]; st_cleared := [(PGoogle, s)] |} /\
  arun toy_mac secret [ev (IdpSt 503%Z BNotJSON)] = {| st_revoked := []; st_cleared := [] |} /\
  r_body (auth_sign_out toy_mac secret PGoogle 1700000100%Z (follow l MPost true (ACSealed s) (IdpSt 503%Z BNotJSON)))
    = BPage 500%Z [97;64;98] (form_get k_redirect_uri (l_params l)) (form_get k_sig (l_params l)) (form_get k_ts (l_params l)).
Proof. vm_compute. repeat split. Qed.

(* historical: before 7e98525 the flight was keyed by the access token alone and this history refuted the
   statement for Okta (finding C19-K1: s2 cleared, r2 never revoked).  With the repaired key both calls are made. *)
Example conc_okta_regression :
  let host := [97;112;112;46;116;101;115;116] in
  let secret := [115;51;99;114;51;116] in
  let l := p_loc (proxy_sign_out toy_mac [] secret true true host 1700000000%Z) in
  let s1 := {| as_email := [97]; as_access := [97;116]; as_refresh := [114;49] |} in
  let s2 := {| as_email := [98]; as_access := [97;116]; as_refresh := [114;50] |} in
  let evs := [CReq 1700000100%Z (follow l MPost true (ACSealed s1) (IdpSt 200%Z BNotJSON));
              CReq 1700000100%Z (follow l MPost true (ACSealed s2) (IdpSt 200%Z BNotJSON))] in
  cs_cleared (fst (crun toy_mac secret POkta evs)) = [s2; s1] /\
  cs_revoked (fst (crun toy_mac secret POkta evs)) = [[114;50]; [114;49]] /\
  map r_revoked (snd (crun toy_mac secret POkta evs)) = [[[114;49]]; [[114;50]]].
Proof. vm_compute. repeat split. Qed.

(* two tabs of ONE session (same pair) are still merged: one call, both cleared *)
Example conc_same_session_merged :
  let host := [97;112;112;46;116;101;115;116] in
  let secret := [115;51;99;114;51;116] in
  let l := p_loc (proxy_sign_out toy_mac [] secret true true host 1700000000%Z) in
  let s1 := {| as_email := [97]; as_access := [97;116]; as_refresh := [114;49] |} in
  let evs := [CReq 1700000100%Z (follow l MPost true (ACSealed s1) (IdpSt 200%Z BNotJSON));
              CReq 1700000100%Z (follow l MPost true (ACSealed s1) (IdpSt 200%Z BNotJSON))] in
  map r_revoked (snd (crun toy_mac secret POkta evs)) = [[[114;49]]; []] /\
  map r_clears (snd (crun toy_mac secret POkta evs)) = [true; true].
Proof. vm_compute. repeat split. Qed.
