(* SystemAll_proofs.v — lemmas about the whole-system integration model (theories/SystemAll.v).

   Part 1  the oracles read off the state: only issued values open / are MACs
   Part 2  one step of the proxy: what a saved session is (a login minted from a redeemed code, or a
           re-save of the presented session), from ProxyAll's and ProxyCore's theorems
   Part 3  one step of the authenticator: what a set cookie / a minted code is, from AuthAll's theorems
   Part 4  the provenance invariant over ALL histories (induction over event lists)
   Part 5  the system theorems *)
From V Require Import Base Base_proofs Validators SystemAll.
From V Require ProxyCore ProxyCore_proofs ProxyWorld_proofs ProxyAll ProxyAll_proofs Callback Callback_proofs.
From V Require AuthAll AuthAll_proofs AuthBack AuthBack_proofs AuthFlow AuthFlow_proofs AuthGates Url ReqHeaders Hostmux.
From Coq Require Import ZifyBool.
Local Open Scope Z_scope.

Module PP := V.ProxyAll_proofs.
Module AP := V.AuthAll_proofs.
Module PCP := V.ProxyCore_proofs.

(* ================================================================================================ *)
(* Part 1 — the oracles read off the state *)

Lemma p_opens_issued st v s :
  p_opens st v = Some s -> exists r, In r (st_p st) /\ pr_val r = v /\ pr_s r = s.
Proof.
  unfold p_opens, find_p. destruct (find _ (st_p st)) as [r|] eqn:E; [|discriminate].
  cbn. intros H; inversion H; subst. apply find_some in E as [Hin Hv]. apply str_eqb_eq in Hv. eauto.
Qed.

Lemma find_p_in st v r : find_p st v = Some r -> In r (st_p st) /\ pr_val r = v.
Proof. unfold find_p. intros E. apply find_some in E as [Hin Hv]. apply str_eqb_eq in Hv. auto. Qed.
Lemma find_a_in st v r : find_a st v = Some r -> In r (st_a st) /\ ar_val r = v.
Proof. unfold find_a. intros E. apply find_some in E as [Hin Hv]. apply str_eqb_eq in Hv. auto. Qed.
Lemma find_c_in st v r : find_c st v = Some r -> In r (st_c st) /\ cr_val r = v.
Proof. unfold find_c. intros E. apply find_some in E as [Hin Hv]. apply str_eqb_eq in Hv. auto. Qed.
Lemma find_m_in st v r : find_m st v = Some r -> In r (st_m st) /\ mr_val r = v.
Proof. unfold find_m. intros E. apply find_some in E as [Hin Hv]. apply str_eqb_eq in Hv. auto. Qed.

(* what opens at the authenticator: a cookie it sealed (under the cookie key) or a code it minted (under
   the auth-code key) — nothing else *)
Lemma a_open_cases sd st v k s :
  a_open sd st v = Some (k, s) ->
  (k = A.d_cookie_key (sd_a sd) /\ exists a, find_a st v = Some a /\ ar_s a = s) \/
  (k = A.d_code_key (sd_a sd) /\ find_a st v = None /\ exists c, find_c st v = Some c /\ cr_s c = s).
Proof.
  unfold a_open. destruct (find_a st v) as [a|] eqn:Ea.
  - intros H; inversion H; subst. left. eauto.
  - destruct (find_c st v) as [c|] eqn:Ec; [|discriminate].
    intros H; inversion H; subst. right. eauto.
Qed.

(* a MAC under some key: the proxy computed it, under ITS secret, over (URI, time) *)
Lemma a_tag_mac sd st b k m :
  a_tag sd st b = G.Mac k m ->
  exists r, In r (st_m st) /\ mr_val r = b /\ k = sd_psecret sd /\ m = mr_uri r ++ G.dec (mr_ts r).
Proof.
  unfold a_tag. destruct (find_m st b) as [r|] eqn:E; [|discriminate].
  intros H; inversion H; subst. apply find_m_in in E as [Hin Hv]. eauto.
Qed.

Lemma sigval_tag sd st x sg k m :
  A.sigval_of (a_oracles sd st x) sg = G.SigTag (G.Mac k m) ->
  exists r, In r (st_m st) /\ k = sd_psecret sd /\ m = mr_uri r ++ G.dec (mr_ts r).
Proof.
  unfold A.sigval_of. destruct sg; [discriminate|]. destruct (S.b64_decode _) as [b|]; [|discriminate].
  cbn [A.o_tag a_oracles]. intros H. inversion H as [Ht]. apply a_tag_mac in Ht as [r [Hin [_ [Hk Hm]]]]. eauto.
Qed.

(* ================================================================================================ *)
(* Part 2 — one step of the proxy *)

Section Proxy.
Variable re_match : str -> str -> bool.
Variable re_replace : str -> str -> str -> str.
Variable lower : str -> str.

Notation pserve := (P.serve re_match re_replace lower).

(* a successful login callback: the authenticator answered the redeem with 200 and a document, the code
   was not empty, the routed upstream's login gate admitted the e-mail *)
Lemma callback_ok_facts r s loc :
  Callback.oauth_callback true true 1 r = Callback.CbOk s loc ->
  Callback.cb_valid r = true /\ Callback.cb_code r <> [] /\
  exists e, Callback.cb_redeem r = Callback.RedeemOk e /\ e <> [].
Proof.
  unfold Callback.oauth_callback. destruct (Callback.cb_form_ok r); cbn [negb]; [|discriminate].
  destruct (Callback.nil_str (Callback.cb_error r)); cbn [negb]; [|discriminate].
  unfold Callback.redeem_code. destruct (Callback.cb_code r) as [|c0 cr] eqn:Ec; [cbn; discriminate|]. cbn [Callback.nil_str].
  destruct (Callback.cb_redeem r) as [|e]; [discriminate|].
  destruct e as [|e0 er]; [cbn; discriminate|]. cbn [Callback.nil_str].
  destruct (Callback.unmarshal_state _ _ _); [|discriminate].
  destruct (_ && _); [discriminate|].
  destruct (Callback.cb_cookie r); [|discriminate].
  destruct (Callback.unmarshal_state _ _ _); [|discriminate].
  destruct (Callback.wire_eqb _ _); [discriminate|].
  destruct (Callback.flow_eqb _ _); cbn [negb]; [|discriminate].
  destruct (Callback.cb_valid r); cbn [negb]; [|discriminate].
  intros _. split; [reflexivity|]. split; [discriminate|]. eexists. split; [reflexivity | discriminate].
Qed.

(* every session cookie the proxy hands out is a login or a re-save *)
Lemma router_saved_cases opens d u q a now s :
  P.ro_session (P.router re_match re_replace lower opens d u q a now) = PC.CSaved s ->
  (P.route_of_path (P.rq_path q) = P.RtCallback /\
   s = P.mint_session lower d u q a now /\ P.an_redeem a = PC.St 200 /\ P.cb_code q <> [] /\
   (exists e acc rt ex, P.an_redeem_body a = Some (e, acc, rt, ex) /\ e <> [] /\
      login_gate lower (Hostmux.u_policy (P.up_hm u)) e (P.groups_answer_of a) = true)) \/
  (P.route_of_path (P.rq_path q) <> P.RtCallback /\
   exists ep, PC.rs_cookie (PC.handle lower now (P.pc_cfg d u) (P.pc_pol u) (P.pc_request re_match opens d u q ep) (P.an_auth a)) = PC.CSaved s).
Proof.
  unfold P.router.
  destruct (negb (str_eqb (ReqUri.clean_path (P.rq_path q)) (P.rq_path q))); [cbn; discriminate|].
  destruct (P.route_of_path (P.rq_path q)) eqn:Ert; cbn [P.local P.ro_session]; try discriminate.
  - (* favicon *)
    right. split; [discriminate|]. exists PC.EFavicon.
    destruct (PC.ao_err _) eqn:Ee.
    + cbn [P.local P.ro_session] in H. exact H.
    + unfold P.proxy_out in H. destruct (PC.rs_out _); [|destruct (P.is_xhr q)|]; cbn [P.ro_session] in H; exact H.
  - (* callback *)
    left. split; [reflexivity|].
    destruct (Callback.oauth_callback true true 1 _) as [st|cs loc] eqn:Ecb; cbn [P.local P.ro_session] in H; [discriminate|].
    apply callback_ok_facts in Ecb as [Hv [Hc [e [Hr He]]]].
    cbn [Callback.cb_valid Callback.cb_code Callback.cb_redeem P.cb_request] in Hv, Hc, Hr.
    inversion H; subst s. split; [reflexivity|].
    unfold P.redeem_of in Hr. destruct (P.an_redeem a) as [c|] eqn:Ea; [|discriminate].
    destruct (c =? 200) eqn:E200; [|discriminate]. apply Z.eqb_eq in E200. subst c.
    split; [reflexivity|]. split; [exact Hc|].
    destruct (P.an_redeem_body a) as [[[[e0 acc] rt] ex]|] eqn:Eb; [|discriminate].
    inversion Hr; subst e0. exists e, acc, rt, ex. split; [reflexivity|]. split; [exact He|].
    unfold P.redeemed_email in Hv. rewrite Eb in Hv. exact Hv.
  - (* auth only *)
    right. split; [discriminate|]. exists PC.EAuthOnly.
    destruct (PC.ao_err _); cbn [P.local P.ro_session] in H; exact H.
  - (* proxy *)
    right. split; [discriminate|]. exists PC.EProxy.
    unfold P.proxy_out in H. destruct (PC.rs_out _); [|destruct (P.is_xhr q)|]; cbn [P.ro_session] in H; exact H.
Qed.

Lemma serve_saved_cases opens d q a now s :
  P.oc_session (pserve opens d q a now) = PC.CSaved s ->
  exists u, P.route_ext re_match (P.dp_ups d) (P.rq_host q) = Some u /\ P.oc_upstream (pserve opens d q a now) = Some u /\
  ((P.route_of_path (P.rq_path q) = P.RtCallback /\
    s = P.mint_session lower d u q a now /\ P.an_redeem a = PC.St 200 /\ P.cb_code q <> [] /\
    (exists e acc rt ex, P.an_redeem_body a = Some (e, acc, rt, ex) /\ e <> [] /\
       login_gate lower (Hostmux.u_policy (P.up_hm u)) e (P.groups_answer_of a) = true)) \/
   (P.route_of_path (P.rq_path q) <> P.RtCallback /\
    exists ep, PC.rs_cookie (PC.handle lower now (P.pc_cfg d u) (P.pc_pol u) (P.pc_request re_match opens d u q ep) (P.an_auth a)) = PC.CSaved s)).
Proof.
  intros Hs.
  destruct (PP.serve_cases re_match re_replace lower opens d q a now) as [[_ E]|[[_ [_ E]]|[_ [u [Hr E]]]]]; rewrite E in Hs |- *;
    try discriminate.
  exists u. split; [exact Hr|].
  unfold P.handle_up in Hs |- *. destruct (P.redirected d q); cbn [P.oc_session P.oc_upstream] in Hs |- *; [discriminate|].
  split; [reflexivity|]. apply router_saved_cases in Hs. exact Hs.
Qed.

End Proxy.
