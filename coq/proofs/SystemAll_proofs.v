(* SystemAll_proofs.v — lemmas about the whole-system integration model (theories/SystemAll.v).

   Part 1  the oracles read off the state: only issued values open / are MACs
   Part 2  one step of the proxy: what a saved session is (a login minted from a redeemed code, or a
           re-save of the presented session), from ProxyAll's and ProxyCore's theorems
   Part 3  one step of the authenticator: what a set cookie / a minted code is, from AuthAll's theorems
   Part 4  the provenance invariant over ALL histories (induction over event lists)
   Part 5  the system theorems *)
From V Require Import Base Base_proofs Validators SystemAll.
From V Require ProxyCore ProxyCore_proofs ProxyWorld_proofs ProxyAll ProxyAll_proofs Callback Callback_proofs.
From V Require AuthAll AuthAll_proofs AuthBack AuthBack_proofs AuthFlow AuthFlow_proofs AuthGates AuthGates_proofs Url ReqHeaders Hostmux ReqUri RespHeaders.
From Coq Require Import ZifyBool ZifyN ZifyNat.
Require Coq.Strings.String.
Import Coq.Strings.String.StringSyntax.
Local Open Scope Z_scope.

Module PP := V.ProxyAll_proofs.
Module AP := V.AuthAll_proofs.
Module PCP := V.ProxyCore_proofs.

(* ================================================================================================ *)
(* Part 1 — the oracles read off the state *)

Lemma p_opens_issued st v s :
  p_opens st v = Some s -> exists r, In r (st_p st) /\ pr_val r = v /\ pr_s r = s.
Proof.
  unfold p_opens, find_p. destruct (find _ (st_p st)) as [r|] eqn:E; [|discriminate].
  cbn. intros H; inversion H; subst. apply find_some in E as [Hin Hv]. apply str_eqb_eq in Hv. eauto.
Qed.

Lemma find_p_in st v r : find_p st v = Some r -> In r (st_p st) /\ pr_val r = v.
Proof. unfold find_p. intros E. apply find_some in E as [Hin Hv]. apply str_eqb_eq in Hv. auto. Qed.
Lemma find_a_in st v r : find_a st v = Some r -> In r (st_a st) /\ ar_val r = v.
Proof. unfold find_a. intros E. apply find_some in E as [Hin Hv]. apply str_eqb_eq in Hv. auto. Qed.
Lemma find_c_in st v r : find_c st v = Some r -> In r (st_c st) /\ cr_val r = v.
Proof. unfold find_c. intros E. apply find_some in E as [Hin Hv]. apply str_eqb_eq in Hv. auto. Qed.
Lemma find_m_in st v r : find_m st v = Some r -> In r (st_m st) /\ mr_val r = v.
Proof. unfold find_m. intros E. apply find_some in E as [Hin Hv]. apply str_eqb_eq in Hv. auto. Qed.

(* what opens at the authenticator: a cookie it sealed (under the cookie key) or a code it minted (under
   the auth-code key) — nothing else *)
Lemma a_open_cases sd st v k s :
  a_open sd st v = Some (k, s) ->
  (k = A.d_cookie_key (sd_a sd) /\ exists a, find_a st v = Some a /\ ar_s a = s) \/
  (k = A.d_code_key (sd_a sd) /\ find_a st v = None /\ exists c, find_c st v = Some c /\ cr_s c = s).
Proof.
  unfold a_open. destruct (find_a st v) as [a|] eqn:Ea.
  - intros H; inversion H; subst. left. eauto.
  - destruct (find_c st v) as [c|] eqn:Ec; [|discriminate].
    intros H; inversion H; subst. right. eauto.
Qed.

(* a MAC under some key: the proxy computed it, under ITS secret, over (URI, time) *)
Lemma a_tag_mac sd st b k m :
  a_tag sd st b = G.Mac k m ->
  exists r, In r (st_m st) /\ mr_val r = b /\ k = sd_psecret sd /\ m = mr_uri r ++ G.dec (mr_ts r).
Proof.
  unfold a_tag. destruct (find_m st b) as [r|] eqn:E; [|discriminate].
  intros H; inversion H; subst. apply find_m_in in E as [Hin Hv]. eauto.
Qed.

Lemma sigval_tag sd st x sg k m :
  A.sigval_of (a_oracles sd st x) sg = G.SigTag (G.Mac k m) ->
  exists b r, S.b64_decode sg = Some b /\ find_m st b = Some r /\ In r (st_m st) /\ k = sd_psecret sd /\
              m = mr_uri r ++ G.dec (mr_ts r).
Proof.
  unfold A.sigval_of. destruct sg as [|c0 sg]; [discriminate|]. destruct (S.b64_decode (c0 :: sg)) as [b|] eqn:Eb; [|discriminate].
  cbn [A.o_tag a_oracles]. intros H. inversion H as [Ht]. unfold a_tag in Ht.
  destruct (find_m st b) as [r|] eqn:Ef; [|discriminate]. inversion Ht; subst.
  apply find_m_in in Ef as Hin. destruct Hin as [Hin _]. exists b, r. auto.
Qed.

(* ================================================================================================ *)
(* Part 2 — one step of the proxy *)

Section Proxy.
Variable re_match : str -> str -> bool.
Variable re_replace : str -> str -> str -> str.
Variable lower : str -> str.

Notation pserve := (P.serve re_match re_replace lower).

(* a successful login callback: the authenticator answered the redeem with 200 and a document, the code
   was not empty, the routed upstream's login gate let the e-mail pass *)
Lemma callback_ok_facts r s loc :
  Callback.oauth_callback true true 1 r = Callback.CbOk s loc ->
  Callback.cb_valid r = true /\ Callback.cb_code r <> [] /\
  exists e, Callback.cb_redeem r = Callback.RedeemOk e /\ e <> [].
Proof.
  unfold Callback.oauth_callback. destruct (Callback.cb_form_ok r); cbn [negb]; [|discriminate].
  destruct (Callback.nil_str (Callback.cb_error r)); cbn [negb]; [|discriminate].
  unfold Callback.redeem_code. destruct (Callback.cb_code r) as [|c0 cr] eqn:Ec; [cbn; discriminate|]. cbn [Callback.nil_str].
  destruct (Callback.cb_redeem r) as [|e]; [discriminate|].
  destruct e as [|e0 er]; [cbn; discriminate|]. cbn [Callback.nil_str].
  destruct (Callback.unmarshal_state _ _ _); [|discriminate].
  destruct (_ && _); [discriminate|].
  destruct (Callback.cb_cookie r); [|discriminate].
  destruct (Callback.unmarshal_state _ _ _); [|discriminate].
  destruct (Callback.wire_eqb _ _); [discriminate|].
  destruct (Callback.flow_eqb _ _); cbn [negb]; [|discriminate].
  destruct (Callback.cb_valid r); cbn [negb]; [|discriminate].
  intros _. split; [reflexivity|]. split; [discriminate|]. eexists. split; [reflexivity | discriminate].
Qed.

(* every session cookie the proxy hands out is a login or a re-save *)
Lemma router_saved_cases opens d u q a now s :
  P.ro_session (P.router re_match re_replace lower opens d u q a now) = PC.CSaved s ->
  (P.route_of_path (P.rq_path q) = P.RtCallback /\
   s = P.mint_session lower d u q a now /\ P.an_redeem a = PC.St 200 /\ P.cb_code q <> [] /\
   (exists e acc rt ex, P.an_redeem_body a = Some (e, acc, rt, ex) /\ e <> [] /\
      login_gate lower (Hostmux.u_policy (P.up_hm u)) e (P.groups_answer_of a) = true)) \/
  (P.route_of_path (P.rq_path q) <> P.RtCallback /\
   exists ep, PC.rs_cookie (PC.handle lower now (P.pc_cfg d u) (P.pc_pol u) (P.pc_request re_match opens d u q ep) (P.an_auth a)) = PC.CSaved s).
Proof.
  unfold P.router. intros H.
  destruct (negb (str_eqb (ReqUri.clean_path (P.rq_path q)) (P.rq_path q))); [cbn in H; discriminate|].
  destruct (P.route_of_path (P.rq_path q)) eqn:Ert; cbn [P.local P.ro_session] in H; try discriminate.
  - (* favicon *)
    right. split; [discriminate|]. exists PC.EFavicon.
    destruct (PC.ao_err _) eqn:Ee.
    + cbn [P.local P.ro_session] in H. exact H.
    + unfold P.proxy_out in H. destruct (PC.rs_out _); [|destruct (P.is_xhr q)|]; cbn [P.ro_session] in H; exact H.
  - (* callback *)
    left. split; [reflexivity|].
    destruct (Callback.oauth_callback true true 1 _) as [st|cs loc] eqn:Ecb; cbn [P.local P.ro_session] in H; [discriminate|].
    apply callback_ok_facts in Ecb as [Hv [Hc [e [Hr He]]]].
    cbn [Callback.cb_valid Callback.cb_code Callback.cb_redeem P.cb_request] in Hv, Hc, Hr.
    inversion H; subst s. split; [reflexivity|].
    unfold P.redeem_of in Hr. destruct (P.an_redeem a) as [c|] eqn:Ea; [|discriminate].
    destruct (c =? 200) eqn:E200; [|discriminate]. apply Z.eqb_eq in E200. subst c.
    split; [reflexivity|]. split; [exact Hc|].
    destruct (P.an_redeem_body a) as [[[[e0 acc] rt] ex]|] eqn:Eb; [|discriminate].
    inversion Hr; subst e0. exists e, acc, rt, ex. split; [reflexivity|]. split; [exact He|].
    unfold P.redeemed_email in Hv. rewrite Eb in Hv. exact Hv.
  - (* auth only *)
    right. split; [discriminate|]. exists PC.EAuthOnly.
    destruct (PC.ao_err _); cbn [P.local P.ro_session] in H; exact H.
  - (* proxy *)
    right. split; [discriminate|]. exists PC.EProxy.
    unfold P.proxy_out in H. destruct (PC.rs_out _); [|destruct (P.is_xhr q)|]; cbn [P.ro_session] in H; exact H.
Qed.

Lemma serve_saved_cases opens d q a now s :
  P.oc_session (pserve opens d q a now) = PC.CSaved s ->
  exists u, P.route_ext re_match (P.dp_ups d) (P.rq_host q) = Some u /\ P.oc_upstream (pserve opens d q a now) = Some u /\
  ((P.route_of_path (P.rq_path q) = P.RtCallback /\
    s = P.mint_session lower d u q a now /\ P.an_redeem a = PC.St 200 /\ P.cb_code q <> [] /\
    (exists e acc rt ex, P.an_redeem_body a = Some (e, acc, rt, ex) /\ e <> [] /\
       login_gate lower (Hostmux.u_policy (P.up_hm u)) e (P.groups_answer_of a) = true)) \/
   (P.route_of_path (P.rq_path q) <> P.RtCallback /\
    exists ep, PC.rs_cookie (PC.handle lower now (P.pc_cfg d u) (P.pc_pol u) (P.pc_request re_match opens d u q ep) (P.an_auth a)) = PC.CSaved s)).
Proof.
  intros Hs.
  destruct (PP.serve_cases re_match re_replace lower opens d q a now) as [[_ E]|[[_ [_ E]]|[_ [u [Hr E]]]]]; rewrite E in Hs |- *;
    try discriminate.
  exists u. split; [exact Hr|].
  unfold P.handle_up in Hs |- *. destruct (P.redirected d q); cbn [P.oc_session P.oc_upstream] in Hs |- *; [discriminate|].
  split; [reflexivity|]. apply router_saved_cases in Hs. exact Hs.
Qed.

End Proxy.

(* ================================================================================================ *)
(* Part 3 — one step of the authenticator *)

Lemma now_s_of st : (now_ns st / A.ns)%Z = st_now st.
Proof. unfold now_ns. apply Z.div_mul. unfold A.ns, G.ns. lia. Qed.

Lemma sets_of_in ops s : In s (sets_of ops) <-> In (F.OpSet s) ops.
Proof.
  induction ops as [|op ops IH]; cbn; [tauto|]. destruct op as [|s0]; cbn.
  - rewrite IH. split; [auto | intros [H|H]; [discriminate | exact H]].
  - rewrite IH. split; intros [H|H]; auto; [left; congruence | left; congruence].
Qed.

Section Auth.
Variable lower : str -> str.
Variable sd : sysdep.
Let da := sd_a sd.

Definition wf : Prop := A.d_cookie_key da <> A.d_code_key da.

Notation aresp := (auth_resp lower sd).

Lemma routed_presented st q slug k rest :
  AP.routed da q slug k rest ->
  presented_a sd st q = Some (slug, k, rest, match A.lookup slug (A.q_sess q) with Some v => find_a st v | None => None end).
Proof. intros [_ [_ [_ Hf]]]. unfold presented_a. fold da. rewrite Hf. reflexivity. Qed.

(* the cookie the authenticator loads is one it sealed *)
Lemma loaded_cookie st q x slug k rest c s0 :
  wf -> AP.routed da q slug k rest ->
  A.lookup slug (A.q_sess q) = Some c ->
  A.o_open (a_oracles sd st x) c = Some (A.d_cookie_key da, A.to_back s0) ->
  exists a, auth_pres sd st q = Some a /\ In a (st_a st) /\ ar_s a = A.to_back s0 /\ ar_val a = c.
Proof.
  intros Hwf Hr Hl Ho. cbn [A.o_open a_oracles] in Ho.
  apply a_open_cases in Ho as [[_ [a [Ha Hs]]]|[Hk _]]; [|exfalso; apply Hwf; exact Hk].
  exists a. unfold auth_pres. rewrite (routed_presented st q slug k rest Hr), Hl.
  apply find_a_in in Ha as Ha'. destruct Ha' as [Hin Hv]. auto.
Qed.

(* every session cookie the authenticator sets: an IdP login (callback) or a re-save of the presented one *)
Lemma auth_set_cases st q x sc s :
  wf -> In (F.OpSet s) (A.r_sess_ops (aresp st q x sc)) ->
  (is_login sd st q = true /\ A.r_sess_ops (aresp st q x sc) = [F.OpSet s] /\
   F.s_lifetime s = st_now st + A.d_lifetime da /\ F.s_email s <> [] /\
   F.rule_passes lower (A.fcfg da) (F.s_email s) = true /\
   A.r_calls (aresp st q x sc) = [A.CIdp (F.CallRedeem (B.form_get B.k_code (fst (B.compute_form (A.inner q A.p_callback)))))] /\
   exists ts, AP.idp_vouched (auth_kind sd st q) (auth_answers sd st q sc)
                (B.form_get B.k_code (fst (B.compute_form (A.inner q A.p_callback)))) ts /\
              T.s_email ts = F.s_email s) \/
  (is_login sd st q = false /\
   exists a, auth_pres sd st q = Some a /\ In a (st_a st) /\
     F.s_email s = B.s_email (ar_s a) /\ F.s_lifetime s = B.s_lifetime_dl (ar_s a) /\
     st_now st <= B.s_lifetime_dl (ar_s a)).
Proof.
  intros Hwf Hin. unfold auth_resp in *.
  destruct (AP.login_end_to_end lower da q (a_oracles sd st x) (auth_answers sd st q sc) (now_ns st) s Hin)
    as [slug [k [[Hr H]|[Hr H]]]].
  - left. cbv zeta in H. destruct H as [_ H].
    destruct H as (nonce & redirect & ts & _ & _ & _ & _ & _ & _ & Hrd & Hv & Hrule & Hs & _ & _ & Hops & _ & Hcalls).
    rewrite now_s_of in Hs.
    assert (Hk : auth_kind sd st q = k) by (unfold auth_kind; rewrite (routed_presented st q slug k _ Hr); reflexivity).
    split. { unfold is_login. rewrite (routed_presented st q slug k _ Hr). apply str_eqb_refl. }
    split; [exact Hops|]. subst s. cbn [F.redeemed_session F.s_lifetime F.s_email].
    split; [reflexivity|]. pose proof Hv as [_ [Hne _]]. split; [exact Hne|]. split; [exact Hrule|]. split; [exact Hcalls|].
    exists ts. rewrite Hk. split; [exact Hv | reflexivity].
  - right. destruct H as [c [s0 [Hl [Ho [Hlt [He [_ [Hlf _]]]]]]]]. rewrite now_s_of in Hlt.
    destruct (loaded_cookie st q x slug k _ c s0 Hwf Hr Hl Ho) as [a [Hp [Hia [Hs _]]]].
    split. { unfold is_login. rewrite (routed_presented st q slug k _ Hr). vm_compute. reflexivity. }
    exists a. rewrite Hs. destruct s0; cbn in *. auto.
Qed.

End Auth.

Section Auth2.
Variable lower : str -> str.
Variable sd : sysdep.
Let da := sd_a sd.
Notation aresp := (auth_resp lower sd).

(* while the IdP is down, or for a credential whose grant is revoked, the IdP confirms nothing *)
Lemma eff_not_refreshed i k g ga sc now s0 s calls :
  i_down i = true \/ is_revoked i g = true ->
  ~ AuthFlow_proofs.refreshed_ok now s0 (A.an_refresh (eff_answers i k g ga sc)) s calls.
Proof.
  intros Hd [_ [_ [jerr [tok [dur [Hr _]]]]]]. unfold eff_answers in Hr.
  destruct (i_down i); cbn [A.an_refresh] in Hr; [discriminate|].
  destruct Hd as [Hd|Hd]; [discriminate|]. rewrite Hd in Hr. unfold revoked_refresh in Hr. discriminate.
Qed.

Lemma eff_not_validated i k g ga sc now s0 s calls :
  i_down i = true \/ is_revoked i g = true ->
  ~ AuthFlow_proofs.validated_ok (A.fkind k) now s0 (A.an_validate (eff_answers i k g ga sc)) s calls.
Proof.
  intros Hd [_ [_ [_ [[j [a [Hv [Hj Ha]]]] _]]]]. unfold eff_answers in Hv.
  destruct (i_down i); cbn [A.an_validate] in Hv; [discriminate|].
  destruct Hd as [Hd|Hd]; [discriminate|]. rewrite Hd in Hv. unfold revoked_validate in Hv.
  destruct k; cbn in *; [discriminate|]. inversion Hv; subst. specialize (Ha eq_refl). discriminate.
Qed.

(* every auth code: minted by /sign_in for the session of a cookie the authenticator itself sealed, whose
   grant the IdP confirmed in this very request; handed to a URI that is in a configured root domain and
   carries a MAC the PROXY computed (under a secret equal to the authenticator's) over that URI and a fresh time *)
Lemma auth_code_cases st q x sc src s :
  wf sd -> A.r_loc (aresp st q x sc) = A.LCode src s ->
  exists a, auth_pres sd st q = Some a /\ In a (st_a st) /\
    F.s_email s = B.s_email (ar_s a) /\ F.s_lifetime s = B.s_lifetime_dl (ar_s a) /\
    st_now st <= B.s_lifetime_dl (ar_s a) /\
    A.r_sess_ops (aresp st q x sc) = [F.OpSet s] /\
    G.valid_redirect_uri src (A.root_domains da) = true /\
    (forall sch ui h port rest, Url.rfc_split src sch ui h port rest -> G.in_domain (Url.rfc_hostname h) (A.d_proxy_domains da)) /\
    (exists m t, presented_mac st q = Some m /\ In m (st_m st) /\ sd_psecret sd = A.d_client_secret da /\
       src ++ G.dec t = mr_uri m ++ G.dec (mr_ts m) /\ now_ns st - t * A.ns <= G.ttl_ns) /\
    i_down (st_idp st) = false /\ is_revoked (st_idp st) (ar_grant a) = false.
Proof.
  intros Hwf Hl. unfold auth_resp in *.
  destruct (AP.code_end_to_end lower da q (a_oracles sd st x) (auth_answers sd st q sc) (now_ns st) src s Hl)
    as (slug & k & Hr & Hg & Hsrc & _ & Hdom & _ & Hsig & _ & Hck & _).
  destruct Hck as (c & s0 & Hlk & Ho & Hlt & _ & He & Hlf & _ & Hops & calls & _ & Hconf).
  rewrite now_s_of in Hlt, Hconf.
  destruct (loaded_cookie sd st q x slug k _ c s0 Hwf Hr Hlk Ho) as [a [Hp [Hia [Hs _]]]].
  exists a. split; [exact Hp|]. split; [exact Hia|]. rewrite Hs.
  split; [destruct s0; exact He|]. split; [destruct s0; exact Hlf|]. split; [destruct s0; exact Hlt|].
  split; [exact Hops|].
  destruct Hg as (_ & _ & _ & Hvr & _). rewrite <- Hsrc in Hvr. split; [exact Hvr|]. split; [exact Hdom|].
  split.
  { destruct Hsig as [t [_ [Htag Hfresh]]]. apply sigval_tag in Htag as (b & m & Hb & Hf & Hm & Hk & Hmsg).
    exists m, t. fold da. split; [|auto].
    unfold presented_mac. change (B.form_get A.k_sig (fst (B.compute_form (A.inner q A.p_sign_in))))
      with (AP.sig_value (A.inner q A.p_sign_in)). rewrite Hb. exact Hf. }
  assert (Hk : auth_kind sd st q = k) by (unfold auth_kind; rewrite (routed_presented sd st q slug k _ Hr); reflexivity).
  assert (Hgr : auth_grant sd st q = ar_grant a) by (unfold auth_grant; rewrite Hp; reflexivity).
  unfold auth_answers in Hconf. rewrite Hk, Hgr in Hconf.
  destruct (i_down (st_idp st)) eqn:Ed.
  { exfalso. destruct Hconf as [H|H]; [eapply eff_not_refreshed | eapply eff_not_validated]; try exact H; left; exact Ed. }
  split; [reflexivity|].
  destruct (is_revoked (st_idp st) (ar_grant a)) eqn:Er; [|reflexivity].
  exfalso. destruct Hconf as [H|H]; [eapply eff_not_refreshed | eapply eff_not_validated]; try exact H; right; exact Er.
Qed.

End Auth2.

(* ================================================================================================ *)
(* Part 3b — the back channel as the proxy model sees it *)

Module BP := V.AuthBack_proofs.

Section Back.
Variable lower : str -> str.

(* a request routed to one of the four back-channel paths: refused by a gate (405 / 500 / 401: no handler),
   or answered by exactly that handler for a caller who presented the configured credentials *)
Lemma back_resp_cases d q o an now slug k h :
  AP.routed d q slug k (A.rt_path (AP.rt_back h)) ->
  let r := A.inner q (A.rt_path (AP.rt_back h)) in
  let e := A.benv d k o an (now / A.ns) in
  exists rs, A.serve lower d q o an now = AP.of_back d o now k an r rs /\
    (rs = B.err_resp 405%N \/ rs = B.err_resp 500%N \/ rs = B.err_resp 401%N \/
     (BP.creds_ok (A.bcfg d) r /\ rs = B.run_handler (A.bcfg d) e h r (Some (BP.the_form r)))).
Proof.
  intros Hr r e. rewrite (AP.serve_routed lower d q o an now slug k _ Hr), AP.back_adapter_serve.
  fold r e. eexists. split; [reflexivity|].
  unfold B.serve, B.serve_table. change (B.rq_path r) with (A.rt_path (AP.rt_back h)).
  rewrite AP.b_route_found.
  destruct (BP.serve_route_cases (A.bcfg d) e (AP.b_route h) r (A.d_pre d) (AP.b_route_both h))
    as [[_ ->]|[[_ [_ [_ ->]]]|[[_ [_ [_ ->]]]|[_ [_ [Hc ->]]]]]]; auto.
Qed.

Lemma of_back_err d o now k an r c :
  A.r_ran (AP.of_back d o now k an r (B.err_resp c)) = None /\
  A.r_status (AP.of_back d o now k an r (B.err_resp c)) = c /\
  (forall b, A.r_body (AP.of_back d o now k an r (B.err_resp c)) <> A.BJson b).
Proof.
  unfold AP.of_back. cbn. split; [reflexivity|]. split; [reflexivity|].
  intros b. unfold A.err_body. destruct (A.accept_json r); discriminate.
Qed.

(* /redeem: a complete token document only for a code the authenticator opens under the auth-code key *)
Lemma redeem_doc_genuine d q o an now lk e acc rt ex :
  redeem_doc (jbody lk (A.serve lower d q o an now)) = Some (e, acc, rt, ex) ->
  lk = LinkUp /\ A.r_status (A.serve lower d q o an now) = 200%N /\
  exists slug k s, AP.routed d q slug k B.p_redeem /\
    A.o_open o (B.presented_code (A.inner q B.p_redeem)) = Some (A.d_code_key d, s) /\
    (now / A.ns <= B.s_refresh_dl s) /\ (now / A.ns <= B.s_lifetime_dl s) /\
    e = B.s_email s /\ acc = B.s_access s /\ rt = B.s_refresh_tok s /\ ex = B.s_refresh_dl s - now / A.ns /\
    B.presented_id (A.inner q B.p_redeem) = A.d_client_id d /\
    B.presented_secret (A.inner q B.p_redeem) = A.d_client_secret d.
Proof.
  intros Hd. unfold jbody in Hd. destruct lk; try discriminate. split; [reflexivity|].
  destruct (A.r_body (A.serve lower d q o an now)) as [| | | | |b| | | |] eqn:Eb; try discriminate.
  destruct (AP.backchannel_end_to_end lower d q o an now) as (H1 & H2 & _).
  destruct (H2 b Eb) as [h Hran]. destruct (H1 h Hran) as (slug & k & Hr & _).
  destruct (back_resp_cases d q o an now slug k h Hr) as [rs [Hs Hc]].
  rewrite Hs in Eb, Hran |- *.
  destruct Hc as [->|[->|[->|[[Hi Hsec] ->]]]];
    try (exfalso; eapply (proj2 (proj2 (of_back_err d o now k an _ _))); exact Eb).
  unfold AP.of_back in Eb |- *. rewrite BP.run_handler_ran in Eb |- *.
  unfold A.of_back_handler, A.mk in Eb |- *. cbn [A.r_body A.r_status] in Eb |- *.
  unfold A.back_body in Eb.
  destruct (A.has_field _) eqn:Ef; [|destruct h; [| | |]; try discriminate; destruct (B.rs_calls _); try discriminate;
                                     unfold A.err_body in Eb; destruct (A.accept_json _); discriminate].
  inversion Eb as [Hb]. clear Eb. rewrite <- Hb in Hd.
  destruct h; cbn [B.run_handler] in *.
  - (* profile: no access_token field *)
    exfalso. unfold B.get_profile in Hd. repeat match type of Hd with context [if ?c then _ else _] => destruct c end;
      try (destruct (B.e_groups _)); cbn in Hd; discriminate.
  - (* validate: no document *)
    exfalso. unfold B.validate_token in Hd. repeat match type of Hd with context [if ?c then _ else _] => destruct c end;
      cbn in Hd; discriminate.
  - (* redeem *)
    change (A.rt_path (AP.rt_back B.HRedeem)) with B.p_redeem in *.
    unfold B.redeem in *. cbn [B.parse_form] in *.
    unfold B.unseal in *. cbn [A.benv B.e_open B.e_now A.bcfg B.cfg_code_key] in *.
    change (B.form_get B.k_code (B.form_of (Some (BP.the_form (A.inner q B.p_redeem)))))
      with (B.presented_code (A.inner q B.p_redeem)) in *.
    destruct (A.o_open o (B.presented_code (A.inner q B.p_redeem))) as [[k0 s]|] eqn:Eo; [|cbn in Hd; discriminate].
    destruct (N.eqb k0 (A.d_code_key d)) eqn:Ek; [|cbn in Hd; discriminate].
    apply N.eqb_eq in Ek. subst k0.
    destruct ((B.s_refresh_dl s <? now / A.ns) || (B.s_lifetime_dl s <? now / A.ns)) eqn:Et; [cbn in Hd; discriminate|].
    apply orb_false_iff in Et as [Et1 Et2]. apply Z.ltb_ge in Et1, Et2.
    cbn in Hd. inversion Hd; subst. split; [reflexivity|].
    exists slug, k, s. split; [exact Hr|]. repeat split; auto.
  - (* refresh: no refresh_token field *)
    exfalso. unfold B.refresh in Hd. cbn [B.parse_form] in Hd.
    repeat match type of Hd with context [if ?c then _ else _] => destruct c end;
      try (destruct (B.e_refresh _)); cbn in Hd; discriminate.
Qed.

End Back.

(* ================================================================================================ *)
(* Part 4 — the provenance invariant over all histories *)

Section Inv.
Variable re_match : str -> str -> bool.
Variable re_replace : str -> str -> str -> str.
Variable lower : str -> str.
Variable sd : sysdep.
Let d := sd_p sd.
Let da := sd_a sd.

Notation step := (SystemAll.step re_match re_replace lower sd).
Notation run := (SystemAll.run re_match re_replace lower sd).

(* the IdP vouched: a code exchange answered 200 with tokens, and the verified e-mail of the id_token
   payload (Google) / of the userinfo answer (Okta) is the recorded one; the authenticator's rule lets it pass *)
Definition vouch_ok (v : vrec) : Prop :=
  (exists ts, AP.idp_vouched (vr_kind v) (vr_an v) (vr_idp_code v) ts /\ T.s_email ts = vr_email v) /\
  F.rule_passes lower (A.fcfg da) (vr_email v) = true /\ vr_email v <> [].

Definition a_ok (st : state) (a : arec) : Prop :=
  exists g v, ar_grant a = Some g /\ nth_error (st_v st) g = Some v /\
    B.s_email (ar_s a) = vr_email v /\ B.s_lifetime_dl (ar_s a) = vr_at v + A.d_lifetime da /\
    vr_at v <= ar_at a /\ ar_at a <= st_now st.

(* the URI carries a MAC the proxy computed under a secret equal to the authenticator's, over a text equal
   to this URI followed by a decimal time at most five minutes old *)
Definition signed_by_proxy (st : state) (c : crec) : Prop :=
  exists m t, cr_sig c = Some m /\ In m (st_m st) /\ sd_psecret sd = A.d_client_secret da /\
    cr_uri c ++ G.dec t = mr_uri m ++ G.dec (mr_ts m) /\ cr_at c * A.ns - t * A.ns <= G.ttl_ns.

Definition c_ok (st : state) (c : crec) : Prop :=
  exists g v, cr_grant c = Some g /\ nth_error (st_v st) g = Some v /\
    B.s_email (cr_s c) = vr_email v /\ B.s_lifetime_dl (cr_s c) = vr_at v + A.d_lifetime da /\
    vr_at v <= cr_at c /\ cr_at c <= st_now st /\ cr_at c <= B.s_lifetime_dl (cr_s c) /\
    G.valid_redirect_uri (cr_uri c) (A.root_domains da) = true /\
    (forall sch ui h port rest, Url.rfc_split (cr_uri c) sch ui h port rest ->
       G.in_domain (Url.rfc_hostname h) (A.d_proxy_domains da)) /\
    signed_by_proxy st c.

(* the redeem request the proxy builds from ITS configuration presents the credentials the authenticator
   is configured with *)
Definition creds_presented (slug host code : str) : Prop :=
  let r := A.inner (rq_redeem sd slug host code) B.p_redeem in
  B.presented_id r = A.d_client_id da /\ B.presented_secret r = A.d_client_secret da.

Definition p_ok (st : state) (p : prec) : Prop :=
  exists c u code, In c (st_c st) /\ pr_code p = Some (cr_val c) /\ pr_grant p = cr_grant c /\
    PC.s_email (pr_s p) = B.s_email (cr_s c) /\
    PC.s_lifetime_dl (pr_s p) = pr_login p + P.dp_L d /\
    PC.s_upstream (pr_s p) = pr_host p /\
    P.route_ext re_match (P.dp_ups d) (pr_host p) = Some u /\ PC.s_slug (pr_s p) = P.slug_of d u /\
    (exists ans, login_gate lower (Hostmux.u_policy (P.up_hm u)) (PC.s_email (pr_s p)) ans = true) /\
    creds_presented (P.slug_of d u) (pr_host p) code /\
    cr_at c <= pr_login p /\ pr_login p <= B.s_refresh_dl (cr_s c) /\ pr_login p <= B.s_lifetime_dl (cr_s c) /\
    pr_login p <= pr_conf p /\ pr_conf p <= pr_at p /\ pr_at p <= st_now st /\
    PC.s_valid_dl (pr_s p) <= pr_conf p + P.dp_V d /\
    (pr_real p = false -> In (pr_conf p) (st_out st)).

Definition Inv (st : state) : Prop :=
  Forall vouch_ok (st_v st) /\ Forall (a_ok st) (st_a st) /\ Forall (c_ok st) (st_c st) /\ Forall (p_ok st) (st_p st) /\
  Forall (fun v => vr_at v <= st_now st) (st_v st).

Lemma inv_init t0 : Inv (init t0).
Proof. unfold Inv, init. cbn. repeat split; constructor. Qed.

(* ---- monotonicity of the clauses in the state ---- *)
Definition extends (st st' : state) : Prop :=
  st_now st <= st_now st' /\ (exists l, st_v st' = st_v st ++ l) /\ (exists l, st_c st' = st_c st ++ l) /\
  (exists l, st_m st' = st_m st ++ l) /\ (forall t, In t (st_out st) -> In t (st_out st')).

Lemma nth_error_app_l {X} (l l' : list X) n x : nth_error l n = Some x -> nth_error (l ++ l') n = Some x.
Proof. intros H. rewrite nth_error_app1; [exact H|]. apply nth_error_Some. congruence. Qed.

Lemma a_ok_mono st st' a : extends st st' -> a_ok st a -> a_ok st' a.
Proof.
  intros (Hn & [lv Hv] & _) (g & v & H1 & H2 & H3 & H4 & H5 & H6).
  exists g, v. rewrite Hv. split; [exact H1|]. split; [apply nth_error_app_l; exact H2|].
  split; [exact H3|]. split; [exact H4|]. split; [exact H5|]. lia.
Qed.

Lemma signed_mono st st' c : extends st st' -> signed_by_proxy st c -> signed_by_proxy st' c.
Proof.
  intros (_ & _ & _ & [lm Hm] & _) (m & t0 & H0 & H1 & H2 & H3 & H4). exists m, t0. rewrite Hm.
  repeat split; auto. apply in_or_app. left. exact H1.
Qed.

Lemma c_ok_mono st st' c : extends st st' -> c_ok st c -> c_ok st' c.
Proof.
  intros He (g & v & H1 & H2 & H3 & H4 & H5 & H6 & H7 & H8 & H9 & H10).
  pose proof He as (Hn & [lv Hv] & _).
  exists g, v. rewrite Hv. split; [exact H1|]. split; [apply nth_error_app_l; exact H2|].
  split; [exact H3|]. split; [exact H4|]. split; [exact H5|]. split; [lia|]. split; [exact H7|].
  split; [exact H8|]. split; [exact H9|]. eapply signed_mono; eauto.
Qed.

Lemma p_ok_mono st st' p : extends st st' -> p_ok st p -> p_ok st' p.
Proof.
  intros (Hn & _ & [lc Hc] & _ & Ho) (c & u & code & H). exists c, u, code. rewrite Hc.
  destruct H as (H1 & H2 & H3 & H4 & H5 & H6 & H7 & H8 & H9 & H10 & H11 & H12 & H13 & H14 & H15 & H16 & H17 & H18).
  split; [apply in_or_app; left; exact H1|].
  repeat (split; [assumption|]). split; [lia|]. split; [assumption|]. intros Hf. apply Ho, H18, Hf.
Qed.

Lemma extends_refl st : extends st st.
Proof. unfold extends. repeat split; try lia; try (exists []; rewrite app_nil_r; reflexivity); auto. Qed.

End Inv.

(* ---- ProxyCore: what a re-save is ---- *)
Section Resave.
Variable lower : str -> str.

Lemma handle_saved_auth now c u r a s' :
  PC.rs_cookie (PC.handle lower now c u r a) = PC.CSaved s' ->
  PC.ao_cookie (PC.authenticate lower now c u (PC.r_host r) (PC.r_cookie r) a) = PC.CSaved s'.
Proof.
  assert (P0 : forall s1, PC.rs_cookie (PC.proxy_handle lower now c u r a) = PC.CSaved s1 ->
                PC.ao_cookie (PC.authenticate lower now c u (PC.r_host r) (PC.r_cookie r) a) = PC.CSaved s1).
  { intros s1. unfold PC.proxy_handle. destruct (PC.whitelisted u r); [discriminate|].
    destruct (PC.ao_err (PC.authenticate lower now c u (PC.r_host r) (PC.r_cookie r) a)); auto. }
  unfold PC.handle. destruct (PC.r_endpoint r).
  - apply P0.
  - cbn. auto.
  - destruct (PC.ao_err (PC.authenticate lower now c u (PC.r_host r) (PC.r_cookie r) a)); [cbn; auto|].
    cbn. destruct (PC.rs_cookie (PC.proxy_handle lower now c u r a)) eqn:Ep; try discriminate.
    + auto.
    + intros H; inversion H; subst. apply P0. reflexivity.
Qed.

(* a re-save that moved the validity deadline under a grace stamp happened on an "unavailable" answer *)
Lemma authenticate_saved_grace now c u host s a s' :
  PC.ao_cookie (PC.authenticate lower now c u host (PC.Sealed s) a) = PC.CSaved s' ->
  PC.s_valid_dl s' <> PC.s_valid_dl s -> PC.s_grace s' <> None -> saw_unavailable a = true.
Proof.
  unfold PC.authenticate, PC.expired.
  destruct (negb (str_eqb (PC.s_slug s) (PC.c_slug c))); [discriminate|].
  destruct (negb (str_eqb host (PC.s_upstream s))); [discriminate|].
  destruct (PC.s_lifetime_dl s <? now); [discriminate|].
  destruct (PC.s_refresh_dl s <? now) eqn:Er.
  - destruct (PC.refresh_session now c (p_groups (PC.u_rules u)) s a) as [[r s1] calls] eqn:Erf.
    pose proof (PCP.refresh_preserves _ _ _ _ _ _ _ _ Erf) as [_ [_ [_ [_ [Hv _]]]]].
    destruct r; try discriminate.
    destruct (request_gate lower (PC.u_rules u) (PC.s_email s1)); [|discriminate].
    cbn. intros H; inversion H; subst. intros Hne. contradiction.
  - destruct (PC.s_valid_dl s <? now) eqn:Ev.
    + destruct (PC.validate_session now c (p_groups (PC.u_rules u)) s a) as [[ok s1] calls] eqn:Evs.
      destruct ok; [|discriminate].
      destruct (request_gate lower (PC.u_rules u) (PC.s_email s1)); [|discriminate].
      cbn. intros H; inversion H; subst. intros _ Hg.
      destruct (PCP.grace_stamp_validate _ _ _ _ _ _ _ Evs) as [[_ Hn]|[Ho _]]; [contradiction|].
      unfold saw_unavailable, unavail_ans.
      destruct Ho as [[code [Ha Hu]]|[_ [_ Hu]]].
      * rewrite Ha, Hu. rewrite orb_true_r. reflexivity.
      * unfold PC.user_groups in Hu. destruct (PC.a_profile a) as [cp|]; [|discriminate].
        destruct (cp =? 200); [destruct (PC.a_profile_body a); discriminate|].
        destruct (PC.unavailable cp) eqn:Eu; [|discriminate]. rewrite !orb_true_r. reflexivity.
    + destruct (request_gate lower (PC.u_rules u) (PC.s_email s)); discriminate.
Qed.

End Resave.

(* the presented session cookie as the proxy model opens it is the jar record the system model finds *)
Lemma session_cookie_presented sd st q s :
  P.session_cookie (p_opens st) (sd_p sd) q = PC.Sealed s ->
  exists r, presented_p sd st q = Some r /\ pr_s r = s /\ In r (st_p st).
Proof.
  unfold P.session_cookie, presented_p.
  destruct (find _ (ReqHeaders.read_cookies _)) as [c|]; [|discriminate].
  unfold p_opens. destruct (find_p st (ReqHeaders.c_value c)) as [r|] eqn:E; cbn; [|discriminate].
  intros H; inversion H; subst. exists r. apply find_p_in in E as [Hin _]. auto.
Qed.


Section InvStep.
Variable re_match : str -> str -> bool.
Variable re_replace : str -> str -> str -> str.
Variable lower : str -> str.
Variable sd : sysdep.
Let d := sd_p sd.
Let da := sd_a sd.
Hypothesis Hwf : wf sd.

Notation INV := (Inv re_match lower sd).
Notation p_ok := (p_ok re_match lower sd).
Notation c_ok := (c_ok sd).
Notation a_ok := (a_ok sd).
Notation pstep := (proxy_step re_match re_replace lower sd).
Notation astep := (auth_step lower sd).
Notation poutc := (proxy_outcome re_match re_replace lower sd).

Lemma is_callback_iff q : is_callback q = true <-> P.route_of_path (P.rq_path q) = P.RtCallback.
Proof. unfold is_callback. destruct (P.route_of_path (P.rq_path q)); split; intros H; try discriminate; reflexivity. Qed.

Lemma proxy_step_extends st q bk lk sc : extends st (fst (pstep st q bk lk sc)).
Proof.
  unfold proxy_step, extends. cbn [fst st_now st_v st_c st_m st_out]. split; [lia|].
  split; [exists []; rewrite app_nil_r; reflexivity|]. split; [exists []; rewrite app_nil_r; reflexivity|].
  split.
  - destruct (new_mrec _ _ _ _); [eexists; reflexivity | exists []; rewrite app_nil_r; reflexivity].
  - intros t Ht. destruct (_ || _); [right|]; exact Ht.
Qed.

Lemma new_prec_ok st q bk lk sc r :
  INV st ->
  new_prec re_match sd st q (poutc st q bk lk sc) = Some r ->
  p_ok (fst (pstep st q bk lk sc)) r.
Proof.
  intros HI Hn. set (st' := fst (pstep st q bk lk sc)).
  assert (Hext : extends st st') by apply proxy_step_extends.
  destruct HI as (HV & HA & HC & HP & HT).
  unfold new_prec in Hn. set (oc := poutc st q bk lk sc) in *.
  destruct (P.oc_session oc) as [| |s'] eqn:Es; try discriminate.
  destruct (P.oc_upstream oc) as [u|] eqn:Eu; [|discriminate].
  unfold oc, proxy_outcome in Es, Eu.
  destruct (serve_saved_cases re_match re_replace lower _ _ _ _ _ _ Es) as [u0 [Hr [Hu Hc]]].
  rewrite Eu in Hu. inversion Hu; subst u0. clear Hu.
  destruct Hc as [[Hrt [Hs' [Hrd [Hcode [e [acc [rt [ex [Hb [He Hg]]]]]]]]]]|[Hrt [ep Hh]]].
  - (* a login *)
    apply is_callback_iff in Hrt as Hcb. rewrite Hcb in Hn. inversion Hn; subst r. clear Hn.
    pose proof Hb as Hb0.
    cbn [P.an_redeem_body bc_answers] in Hb.
    apply (redeem_doc_genuine lower) in Hb as (Hlk & _ & slug & k & s & Hrouted & Ho & Ht1 & Ht2 & -> & -> & -> & -> & Hid & Hsec).
    rewrite now_s_of in Ht1, Ht2.
    cbn [A.o_open a_oracles] in Ho. apply a_open_cases in Ho as [[Hk _]|[_ [_ [c [Hfc Hcs]]]]]; [exfalso; apply Hwf; symmetry; exact Hk|].
    assert (Hslug : proxy_slug re_match sd q = P.slug_of (sd_p sd) u).
    { unfold proxy_slug, proxy_up. rewrite Hr. reflexivity. }
    change (B.presented_code _) with (redeemed_code re_match sd q) in Hfc.
    apply find_c_in in Hfc as Hc'. destruct Hc' as [Hcin Hcv].
    rewrite Forall_forall in HC. destruct (HC c Hcin) as (g & v & G1 & G2 & G3 & G4 & G5 & G6 & _).
    exists c, u, (P.cb_code q). cbn [pr_code pr_grant pr_s pr_login pr_host pr_conf pr_at pr_real].
    split. { unfold st'. unfold proxy_step. cbn [fst st_c]. exact Hcin. }
    rewrite Hfc. cbn [option_map]. split; [reflexivity|].
    split. { unfold proxy_grant. rewrite Hcb, Hfc. reflexivity. }
    subst s'. unfold P.mint_session. rewrite Hb0.
    cbn [PC.s_email PC.s_lifetime_dl PC.s_upstream PC.s_slug PC.s_valid_dl].
    subst s. split; [reflexivity|]. split; [reflexivity|]. split; [reflexivity|]. split; [exact Hr|].
    split; [reflexivity|]. split; [eexists; exact Hg|].
    split. { unfold creds_presented. rewrite <- Hslug. split; assumption. }
    split; [exact G6|]. split; [exact Ht1|]. split; [exact Ht2|].
    split; [lia|]. split; [lia|]. split; [destruct Hext; lia|]. split; [lia|]. discriminate.
  - (* a re-save of the presented session *)
    assert (Hncb : is_callback q = false).
    { destruct (is_callback q) eqn:E; [|reflexivity]. apply is_callback_iff in E. contradiction. }
    rewrite Hncb in Hn.
    apply handle_saved_auth in Hh as Ha. cbn [PC.r_host PC.r_cookie P.pc_request] in Ha.
    destruct (P.session_cookie (p_opens st) (sd_p sd) q) as [| |s] eqn:Eck; [cbn in Ha; discriminate | cbn in Ha; discriminate |].
    destruct (session_cookie_presented sd st q s Eck) as [r0 [Hp [Hs0 Hin0]]].
    rewrite Hp in Hn. inversion Hn; subst r. clear Hn.
    rewrite Forall_forall in HP. destruct (HP r0 Hin0) as (c & u0 & code & K).
    destruct K as (K1 & K2 & K3 & K4 & K5 & K6 & K7 & K8 & K9 & K10 & K11 & K12 & K13 & K14 & K15 & K16 & K17 & K18).
    destruct (PCP.authenticate_saved_preserves lower _ _ _ _ _ _ _ Ha) as (Q1 & Q2 & Q3 & Q4 & _ & _ & Q7 & _).
    destruct Hext as (E1 & _ & _ & _ & E5).
    exists c, u0, code. cbn [pr_code pr_grant pr_s pr_login pr_host pr_conf pr_at pr_real].
    rewrite Hs0 in *.
    split. { unfold st', proxy_step. cbn [fst st_c]. exact K1. }
    split; [exact K2|]. split; [exact K3|]. split; [congruence|]. split; [congruence|]. split; [congruence|].
    split; [exact K7|]. split; [congruence|]. split; [rewrite Q4; exact K9|]. split; [exact K10|].
    split; [exact K11|]. split; [exact K12|]. split; [exact K13|].
    destruct (PC.s_valid_dl s' =? PC.s_valid_dl s) eqn:Esame.
    + apply Z.eqb_eq in Esame. split; [exact K14|]. split; [lia|]. split; [unfold st', proxy_step; cbn [fst st_now]; lia|].
      split; [lia|]. intros Hf. apply E5, K18, Hf.
    + apply Z.eqb_neq in Esame. destruct Q7 as [Q7|Q7]; [contradiction|].
      cbn [PC.c_V P.pc_cfg] in Q7.
      split; [lia|]. split; [lia|]. split; [unfold st', proxy_step; cbn [fst st_now]; lia|]. split; [lia|].
      destruct (PC.s_grace s') as [g0|] eqn:Eg; [|discriminate]. intros _.
      assert (Hsaw : saw_unavailable (P.an_auth (bc_answers lk (bc_run re_match lower sd st q lk sc) bk)) = true).
      { eapply authenticate_saved_grace; [exact Ha | exact Esame | rewrite Eg; discriminate]. }
      unfold st', proxy_step. cbn [fst st_out]. rewrite Hsaw, orb_true_r. left. reflexivity.
Qed.

Lemma inv_proxy_step st q bk lk sc : INV st -> INV (fst (pstep st q bk lk sc)).
Proof.
  intros HI. pose proof (proxy_step_extends st q bk lk sc) as Hext.
  pose proof (new_prec_ok st q bk lk sc) as Hnew.
  destruct HI as (HV & HA & HC & HP & HT). set (st' := fst (pstep st q bk lk sc)) in *.
  assert (Ev : st_v st' = st_v st) by reflexivity.
  assert (Ea : st_a st' = st_a st) by reflexivity.
  assert (Ec : st_c st' = st_c st) by reflexivity.
  unfold Inv. rewrite Ev, Ea, Ec.
  split; [exact HV|].
  split. { eapply Forall_impl; [|exact HA]. intros a Ha0. eapply a_ok_mono; [exact Hext | exact Ha0]. }
  split. { eapply Forall_impl; [|exact HC]. intros c Hc0. eapply c_ok_mono; [exact Hext | exact Hc0]. }
  split.
  - assert (HP' : Forall (p_ok st') (st_p st)).
    { eapply Forall_impl; [|exact HP]. intros p Hp0. eapply p_ok_mono; try exact Hext; try exact Hp0; exact re_replace. }
    unfold st' at 2. unfold proxy_step. cbn [fst st_p].
    destruct (new_prec re_match sd st q _) as [r|] eqn:En; [|exact HP'].
    apply Forall_app. split; [exact HP'|]. constructor; [|constructor].
    apply Hnew; [repeat split; assumption | reflexivity].
  - eapply Forall_impl; [|exact HT]. intros v Hv. destruct Hext as [E1 _]. cbn beta in *. lia.
Qed.

End InvStep.

Section InvStepA.
Variable re_match : str -> str -> bool.
Variable re_replace : str -> str -> str -> str.
Variable lower : str -> str.
Variable sd : sysdep.
Hypothesis Hwf : wf sd.

Notation INV := (Inv re_match lower sd).
Notation p_ok := (p_ok re_match lower sd).
Notation c_ok := (c_ok sd).
Notation a_ok := (a_ok sd).
Notation astep := (auth_step lower sd).
Notation aresp := (auth_resp lower sd).

Lemma auth_step_extends st q x sc : extends st (fst (astep st q x sc)).
Proof.
  unfold auth_step, extends. cbn [fst st_now st_v st_c st_m st_out]. split; [lia|].
  split; [eexists; reflexivity|]. split; [eexists; reflexivity|].
  split; [exists []; rewrite app_nil_r; reflexivity|]. auto.
Qed.

Lemma add_cookies_forall (Q : arec -> Prop) slug g now : forall ss l,
  Forall Q l ->
  (forall s n, In s ss -> Q {| ar_val := name tag_a n; ar_s := A.to_back s; ar_slug := slug; ar_grant := g; ar_at := now |}) ->
  Forall Q (add_cookies l slug g now ss).
Proof.
  induction ss as [|s ss IH]; intros l Hl Hs; cbn [add_cookies]; [exact Hl|].
  apply IH.
  - apply Forall_app. split; [exact Hl|]. constructor; [|constructor]. apply Hs. left. reflexivity.
  - intros s0 n Hin. apply Hs. right. exact Hin.
Qed.

Lemma inv_auth_step st q x sc : INV st -> INV (fst (astep st q x sc)).
Proof.
  intros HI. pose proof (auth_step_extends st q x sc) as Hext.
  destruct HI as (HV & HA & HC & HP & HT). set (st' := fst (astep st q x sc)) in *.
  set (r := aresp st q x sc).
  assert (Ev : st_v st' = st_v st ++ new_vrecs sd st q sc r) by reflexivity.
  assert (Ec : st_c st' = st_c st ++ new_crecs sd st q r) by reflexivity.
  assert (Ep : st_p st' = st_p st) by reflexivity.
  assert (En : st_now st' = st_now st) by reflexivity.
  assert (Em : st_m st' = st_m st) by reflexivity.
  pose proof (auth_set_cases lower sd st q x sc) as Hset. fold r in Hset.
  (* the vouch record of a login *)
  assert (Hlogin : forall s, In s (sets_of (A.r_sess_ops r)) -> is_login sd st q = true ->
            A.r_sess_ops r = [F.OpSet s] /\
            new_vrecs sd st q sc r = [{| vr_email := F.s_email s; vr_slug := auth_slug sd st q; vr_kind := auth_kind sd st q;
                    vr_idp_code := B.form_get B.k_code (fst (B.compute_form (A.inner q A.p_callback)));
                    vr_an := auth_answers sd st q sc; vr_at := st_now st |}]).
  { intros s Hin Hl. apply sets_of_in in Hin. destruct (Hset s Hwf Hin) as [[_ [Hops _]]|[Hl' _]]; [|congruence].
    split; [exact Hops|]. unfold new_vrecs. rewrite Hl, Hops. reflexivity. }
  unfold Inv. split; [|split; [|split; [|split]]].
  - (* vouches *)
    rewrite Ev. apply Forall_app. split; [exact HV|].
    unfold new_vrecs. destruct (is_login sd st q) eqn:El; [|constructor].
    destruct (sets_of (A.r_sess_ops r)) as [|s ss] eqn:Es; [constructor|].
    constructor; [|constructor].
    assert (Hin : In (F.OpSet s) (A.r_sess_ops r)) by (apply sets_of_in; rewrite Es; left; reflexivity).
    destruct (Hset s Hwf Hin) as [[_ [_ [_ [Hne [Hrule [_ [ts [Hv Hem]]]]]]]]|[Hl' _]]; [|congruence].
    unfold vouch_ok. cbn [vr_email vr_kind vr_an vr_idp_code]. split; [exists ts; split; assumption|]. split; assumption.
  - (* authenticator cookies *)
    unfold st' at 2. unfold auth_step. cbn [fst st_a]. fold r.
    apply add_cookies_forall.
    + eapply Forall_impl; [|exact HA]. intros a Ha0. eapply a_ok_mono; [exact Hext | exact Ha0].
    + intros s n Hin. pose proof Hin as Hin'. apply sets_of_in in Hin'.
      destruct (Hset s Hwf Hin') as [[Hl [Hops [Hlife _]]]|[Hl [a0 [Hp0 [Hia0 [He0 [Hl0 _]]]]]]].
      * destruct (Hlogin s Hin Hl) as [_ Hnv].
        exists (length (st_v st)), {| vr_email := F.s_email s; vr_slug := auth_slug sd st q; vr_kind := auth_kind sd st q;
                    vr_idp_code := B.form_get B.k_code (fst (B.compute_form (A.inner q A.p_callback)));
                    vr_an := auth_answers sd st q sc; vr_at := st_now st |}.
        cbn [ar_grant ar_s ar_at vr_email vr_at]. split.
        { unfold grant_after. rewrite Hl. destruct (sets_of (A.r_sess_ops r)); [destruct Hin | reflexivity]. }
        split. { rewrite Ev, Hnv. rewrite nth_error_app2; [rewrite Nat.sub_diag; reflexivity | apply Nat.le_refl]. }
        destruct s; cbn in *. repeat split; auto; lia.
      * rewrite Forall_forall in HA. destruct (HA a0 Hia0) as (g & v & G1 & G2 & G3 & G4 & G5 & G6).
        exists g, v. cbn [ar_grant ar_s ar_at]. split.
        { unfold grant_after. rewrite Hl. unfold auth_grant. rewrite Hp0. exact G1. }
        split. { rewrite Ev. apply nth_error_app_l. exact G2. }
        destruct s; cbn in *. repeat split; try congruence; lia.
  - (* codes *)
    rewrite Ec. apply Forall_app. split.
    + eapply Forall_impl; [|exact HC]. intros c Hc0. eapply c_ok_mono; [exact Hext | exact Hc0].
    + unfold new_crecs. destruct (A.r_loc r) as [| |src s| |] eqn:El; try apply Forall_nil. constructor; [|constructor].
      destruct (auth_code_cases lower sd st q x sc src s Hwf El) as (a0 & Hp0 & Hia0 & He0 & Hl0 & Hlt & _ & Hvr & Hdom & Hsig & _).
      rewrite Forall_forall in HA. destruct (HA a0 Hia0) as (g & v & G1 & G2 & G3 & G4 & G5 & G6).
      exists g, v. cbn [cr_grant cr_s cr_at cr_uri]. split; [unfold auth_grant; rewrite Hp0; exact G1|].
      split; [rewrite Ev; apply nth_error_app_l; exact G2|].
      destruct Hsig as (m & t & Hpm & Hm & Hk & Hmsg & Hfresh).
      destruct s; cbn in *. split; [congruence|]. split; [congruence|]. split; [lia|]. split; [lia|]. split; [lia|].
      split; [exact Hvr|]. split; [exact Hdom|].
      exists m, t. cbn [st_m cr_sig cr_uri cr_at]. unfold now_ns in Hfresh. auto.
  - (* proxy cookies *)
    rewrite Ep. eapply Forall_impl; [|exact HP]. intros p Hp0. eapply p_ok_mono; try exact Hext; try exact Hp0; exact re_replace.
  - rewrite Ev, En. apply Forall_app. split; [exact HT|].
    unfold new_vrecs. destruct (is_login sd st q); [|constructor].
    destruct (sets_of (A.r_sess_ops r)); constructor; [cbn; lia | constructor].
Qed.

End InvStepA.

(* ---- all events, all histories ---- *)
Section InvRun.
Variable re_match : str -> str -> bool.
Variable re_replace : str -> str -> str -> str.
Variable lower : str -> str.
Variable sd : sysdep.
Hypothesis Hwf : wf sd.

Notation INV := (Inv re_match lower sd).
Notation step := (SystemAll.step re_match re_replace lower sd).
Notation run := (SystemAll.run re_match re_replace lower sd).

Lemma inv_same st st' :
  st_now st <= st_now st' -> st_p st' = st_p st -> st_a st' = st_a st -> st_c st' = st_c st -> st_v st' = st_v st ->
  st_m st' = st_m st -> st_out st' = st_out st -> INV st -> INV st'.
Proof.
  intros Hn Ep Ea Ec Ev Em Eo (HV & HA & HC & HP & HT).
  assert (Hext : extends st st').
  { unfold extends. rewrite Ev, Ec, Em, Eo. split; [exact Hn|]. repeat split; try (exists []; rewrite app_nil_r; reflexivity); auto. }
  unfold Inv. rewrite Ep, Ea, Ec, Ev.
  split; [exact HV|].
  split. { eapply Forall_impl; [|exact HA]. intros a Ha0. eapply a_ok_mono; [exact Hext | exact Ha0]. }
  split. { eapply Forall_impl; [|exact HC]. intros c Hc0. eapply c_ok_mono; [exact Hext | exact Hc0]. }
  split. { eapply Forall_impl; [|exact HP]. intros p Hp0. eapply p_ok_mono; try exact Hext; try exact Hp0; exact re_replace. }
  eapply Forall_impl; [|exact HT]. intros v Hv. cbn beta in *. lia.
Qed.

Lemma inv_step st e : INV st -> INV (fst (step st e)).
Proof.
  intros HI. destruct e as [dt|c|q bk lk sc|q x sc]; cbn [SystemAll.step].
  - cbn [fst]. apply (inv_same st); try reflexivity; try exact HI; cbn; lia.
  - cbn [fst]. apply (inv_same st); try reflexivity; try exact HI; cbn; lia.
  - pose proof (inv_proxy_step re_match re_replace lower sd Hwf st q bk lk sc HI) as H.
    destruct (proxy_step re_match re_replace lower sd st q bk lk sc) as [st' o]. exact H.
  - pose proof (inv_auth_step re_match re_replace lower sd Hwf st q x sc HI) as H.
    destruct (auth_step lower sd st q x sc) as [st' o]. exact H.
Qed.

Lemma run_inv : forall evs st st' tr, run st evs = (st', tr) -> INV st ->
  INV st' /\ forall s e o, In (s, e, o) tr -> INV s /\ o = snd (step s e).
Proof.
  induction evs as [|e evs IH]; intros st st' tr Hr HI; cbn [SystemAll.run] in Hr.
  - inversion Hr; subst. split; [exact HI|]. intros s e o [].
  - destruct (step st e) as [st1 o1] eqn:E1. destruct (run st1 evs) as [st2 tr2] eqn:E2.
    inversion Hr; subst. pose proof (inv_step st e HI) as HI1. rewrite E1 in HI1. cbn [fst] in HI1.
    destruct (IH st1 st' tr2 E2 HI1) as [H1 H2]. split; [exact H1|].
    intros s e0 o [Heq|Hin].
    + inversion Heq; subst. split; [exact HI|]. rewrite E1. reflexivity.
    + apply H2. exact Hin.
Qed.

End InvRun.

(* ================================================================================================ *)
(* Part 5 — the system theorems *)

Section Theorems.
Variable re_match : str -> str -> bool.
Variable re_replace : str -> str -> str -> str.
Variable lower : str -> str.
Variable sd : sysdep.
Hypothesis Hwf : wf sd.

Notation INV := (Inv re_match lower sd).
Notation step := (SystemAll.step re_match re_replace lower sd).
Notation run := (SystemAll.run re_match re_replace lower sd).

(* the provenance of an identity: see SYS_identity_vouched *)
Definition identity_chain (st : state) (q : P.request) (u : P.iupstream) (e : str) : Prop :=
  exists p c g v,
    presented_p sd st q = Some p /\ In p (st_p st) /\ PC.s_email (pr_s p) = e /\ pr_host p = P.rq_host q /\
    pr_login p <= st_now st /\ st_now st <= pr_login p + P.dp_L (sd_p sd) /\
    (exists ans, login_gate lower (Hostmux.u_policy (P.up_hm u)) e ans = true) /\
    In c (st_c st) /\ pr_code p = Some (cr_val c) /\ pr_grant p = Some g /\ B.s_email (cr_s c) = e /\
    (exists code, creds_presented sd (P.slug_of (sd_p sd) u) (P.rq_host q) code) /\
    cr_at c <= pr_login p /\ pr_login p <= B.s_refresh_dl (cr_s c) /\
    G.valid_redirect_uri (cr_uri c) (A.root_domains (sd_a sd)) = true /\
    (forall sch ui h port rest, Url.rfc_split (cr_uri c) sch ui h port rest ->
       G.in_domain (Url.rfc_hostname h) (A.d_proxy_domains (sd_a sd))) /\
    signed_by_proxy sd st c /\
    cr_grant c = Some g /\ nth_error (st_v st) g = Some v /\ vr_email v = e /\ vr_at v <= cr_at c /\
    vouch_ok lower sd v.

Lemma served_identity st q bk lk sc bv :
  INV st -> P.oc_backend (proxy_outcome re_match re_replace lower sd st q bk lk sc) = Some bv ->
  exists u, P.route_ext re_match (P.dp_ups (sd_p sd)) (P.rq_host q) = Some u /\
    P.bk_target bv = Hostmux.target re_replace (P.rq_host q) (P.up_hm u) /\
    (P.skip_hit re_match u q = true -> PP.identity_absent (P.bk_handler bv)) /\
    (forall e, In e (ReqHeaders.h_get ReqHeaders.k_xfe (P.bk_handler bv)) ->
       P.skip_hit re_match u q = false /\ identity_chain st q u e /\
       exists s, P.session_cookie (p_opens st) (sd_p sd) q = PC.Sealed s /\
         PCP.session_ok lower (st_now st) (P.pc_cfg (sd_p sd) u) (P.pc_pol u) (P.rq_host q) s
           (P.an_auth (bc_answers lk (bc_run re_match lower sd st q lk sc) bk))).
Proof.
  intros HI Hb. unfold proxy_outcome in Hb.
  destruct (PP.backend_reached_only_if re_match re_replace lower _ _ _ _ _ _ Hb)
    as (u & Hr & _ & _ & _ & Ht & _ & _ & _ & _ & _ & _ & Hmed & _).
  exists u. split; [exact Hr|]. split; [exact Ht|]. split.
  - intros Hsk. destruct Hmed as [[_ [_ Habs]]|[s [s' [_ [_ [_ [_ Habs]]]]]]]; [exact Habs | exact (Habs Hsk)].
  - intros e He.
    destruct Hmed as [[_ [_ Habs]]|[s [s' [Hck [Hok [Hem [Hid Habs]]]]]]].
    { exfalso. rewrite (Habs ReqHeaders.k_xfe) in He; [destruct He|]. unfold ReqHeaders.identity_keys. cbn. tauto. }
    destruct (P.skip_hit re_match u q) eqn:Esk.
    { exfalso. rewrite (Habs eq_refl ReqHeaders.k_xfe) in He; [destruct He|]. unfold ReqHeaders.identity_keys. cbn. tauto. }
    split; [reflexivity|]. split; [|exists s; split; [exact Hck | exact Hok]].
    destruct (Hid eq_refl) as [_ [Hxfe _]]. rewrite Hxfe in He. destruct He as [He|[]]. subst e.
    destruct (session_cookie_presented sd st q s Hck) as [p [Hp [Hps Hpin]]].
    destruct HI as (HV & HA & HC & HP & HT).
    rewrite Forall_forall in HP, HC, HV.
    destruct (HP p Hpin) as (c & u0 & code & K).
    destruct K as (K1 & K2 & K3 & K4 & K5 & K6 & K7 & K8 & K9 & K10 & K11 & K12 & K13 & K14 & K15 & K16 & K17 & K18).
    destruct Hok as (O1 & O2 & O3 & _).
    rewrite Hps in K4, K5, K6, K8, K9, K17.
    assert (Hhost : pr_host p = P.rq_host q) by congruence.
    rewrite Hhost in K7. rewrite Hr in K7. inversion K7; subst u0.
    destruct (HC c K1) as (g & v & G1 & G2 & G3 & G4 & G5 & G6 & G7 & G8 & G9 & G10).
    exists p, c, g, v. rewrite Hem.
    split; [exact Hp|]. split; [exact Hpin|]. split; [rewrite Hps; reflexivity|]. split; [exact Hhost|].
    split; [lia|]. split; [lia|]. split; [exact K9|]. split; [exact K1|]. split; [exact K2|].
    split; [congruence|]. split; [congruence|]. split; [exists code; rewrite <- Hhost; exact K10|].
    split; [exact K11|]. split; [exact K12|]. split; [exact G8|]. split; [exact G9|]. split; [exact G10|].
    split; [exact G1|]. split; [exact G2|]. split; [congruence|]. split; [exact G5|].
    apply HV. eapply nth_error_In. exact G2.
Qed.

End Theorems.

(* ================================================================================================ *)
(* Part 6 — the back channel under a wired deployment: statuses of /validate, /refresh, /profile *)

Section BackStatus.
Variable lower : str -> str.

Lemma validate_facts d q o an now slug k :
  AP.routed d q slug k B.p_validate ->
  let r := A.serve lower d q o an now in
  (A.r_status r = 200%N -> F.idp_validates (A.fkind k) (A.an_validate an) = true) /\
  A.r_status r <> 429%N /\ A.r_status r <> 503%N.
Proof.
  intros Hr. cbv zeta.
  destruct (back_resp_cases lower d q o an now slug k B.HValidate Hr) as [rs [Hs Hc]].
  rewrite Hs, AP.of_back_status.
  destruct Hc as [->|[->|[->|[_ ->]]]]; cbn [B.err_resp B.rs_status]; try (repeat split; intros; discriminate).
  cbn [B.run_handler]. unfold B.validate_token.
  destruct (B.is_nil _); [cbn; repeat split; intros; discriminate|].
  cbn [A.benv B.e_valid].
  destruct (F.idp_validates (A.fkind k) (A.an_validate an)); cbn; repeat split; intros; try discriminate; reflexivity.
Qed.

Lemma code_unavail pe : B.code_for_error pe = 429%N \/ B.code_for_error pe = 503%N -> pe = B.ERateLimit \/ pe = B.EUnavailable.
Proof. destruct pe; cbn; intros [H|H]; try discriminate; auto. Qed.

Lemma refresh_facts d q o an now slug k :
  AP.routed d q slug k B.p_refresh ->
  let r := A.serve lower d q o an now in
  (A.r_status r = 201%N -> exists tok dur, F.refresh_access_token (A.fkind k) (A.an_refresh an) = inr (tok, dur)) /\
  (A.r_status r = 429%N \/ A.r_status r = 503%N ->
     exists e, F.refresh_access_token (A.fkind k) (A.an_refresh an) = inl e /\ (e = F.ERateLimited \/ e = F.EUnavailable)).
Proof.
  intros Hr. cbv zeta.
  destruct (back_resp_cases lower d q o an now slug k B.HRefresh Hr) as [rs [Hs Hc]].
  rewrite Hs, AP.of_back_status.
  destruct Hc as [->|[->|[->|[_ ->]]]]; cbn [B.err_resp B.rs_status];
    try (split; [intros; discriminate | intros [H|H]; discriminate]).
  cbn [B.run_handler]. unfold B.refresh. cbn [B.parse_form].
  destruct (B.is_nil _); [cbn; split; [intros; discriminate | intros [H|H]; discriminate]|].
  cbn [A.benv B.e_refresh].
  destruct (F.refresh_access_token (A.fkind k) (A.an_refresh an)) as [e|[tok dur]]; cbn [B.ran B.rs_status].
  - split; [destruct e; cbn; intros; discriminate|]. intros H. exists e. split; [reflexivity|].
    apply code_unavail in H. destruct e; cbn in H; destruct H as [H|H]; try discriminate; auto.
  - split; [eauto|]. intros [H|H]; discriminate.
Qed.

Lemma profile_facts d q o an now slug k :
  AP.routed d q slug k B.p_profile ->
  let r := A.serve lower d q o an now in
  (A.r_status r = 429%N \/ A.r_status r = 503%N ->
     A.an_groups an = B.GrpErr B.ERateLimit \/ A.an_groups an = B.GrpErr B.EUnavailable).
Proof.
  intros Hr. cbv zeta.
  destruct (back_resp_cases lower d q o an now slug k B.HProfile Hr) as [rs [Hs Hc]].
  rewrite Hs, AP.of_back_status.
  destruct Hc as [->|[->|[->|[_ ->]]]]; cbn [B.err_resp B.rs_status]; try (intros [H|H]; discriminate).
  cbn [B.run_handler]. unfold B.get_profile.
  destruct (B.is_nil _); [cbn; intros [H|H]; discriminate|].
  cbn [A.benv B.e_groups].
  destruct (A.an_groups an) as [gs|pe]; cbn [B.ran B.rs_status]; [intros [H|H]; discriminate|].
  intros H. apply code_unavail in H. destruct H as [->| ->]; auto.
Qed.

End BackStatus.

Section Wired.
Variable re_match : str -> str -> bool.
Variable lower : str -> str.
Variable sd : sysdep.

Definition leaves : list str := [B.p_redeem; B.p_refresh; B.p_validate; B.p_profile].

(* the authenticator routes <provider>/<slug>/<leaf> to the provider registered under exactly that slug *)
Definition wired_slug (slug : str) : Prop :=
  exists k, forall leaf, In leaf leaves ->
    A.find_slug (A.c_slash :: slug ++ leaf) (A.d_slugs (sd_a sd)) = Some (slug, k, leaf) /\
    ReqUri.clean_path (A.c_slash :: slug ++ leaf) = A.c_slash :: slug ++ leaf.

(* the proxy addresses the authenticator by its configured host, under provider slugs it serves *)
Definition wired : Prop :=
  sd_bc_host sd = A.d_host (sd_a sd) /\ forall q, wired_slug (proxy_slug re_match sd q).

Lemma bc_routed slug leaf m qy body ct hs k :
  sd_bc_host sd = A.d_host (sd_a sd) -> In leaf leaves ->
  A.find_slug (A.c_slash :: slug ++ leaf) (A.d_slugs (sd_a sd)) = Some (slug, k, leaf) ->
  ReqUri.clean_path (A.c_slash :: slug ++ leaf) = A.c_slash :: slug ++ leaf ->
  AP.routed (sd_a sd) (bc_request sd slug leaf m qy body ct hs) slug k leaf.
Proof.
  intros Hh Hl Hf Hc. unfold AP.routed, bc_request. cbn [A.q_path A.q_host].
  split; [|auto].
  intros E. apply (f_equal (@length N)) in E.
  change (length (A.c_slash :: slug ++ leaf)) with (S (length (slug ++ leaf))) in E. rewrite app_length in E.
  assert (Hl7 : (7 <= length leaf)%nat).
  { destruct Hl as [<-|[<-|[<-|[<-|[]]]]]; vm_compute; lia. }
  assert (H5 : length A.p_ping = 5%nat) by reflexivity. rewrite H5 in E. lia.
Qed.

Lemma wired_kind q k :
  (forall leaf, In leaf leaves ->
     A.find_slug (A.c_slash :: proxy_slug re_match sd q ++ leaf) (A.d_slugs (sd_a sd)) = Some (proxy_slug re_match sd q, k, leaf) /\
     ReqUri.clean_path (A.c_slash :: proxy_slug re_match sd q ++ leaf) = A.c_slash :: proxy_slug re_match sd q ++ leaf) ->
  proxy_kind re_match sd q = k.
Proof.
  intros H. unfold proxy_kind. destruct (H B.p_validate) as [Hf _]; [unfold leaves; cbn; tauto|]. rewrite Hf. reflexivity.
Qed.

Lemma revoked_refresh_is k : F.refresh_access_token (A.fkind k) (revoked_refresh k) = inl F.ETokenRevoked.
Proof. destruct k; vm_compute; reflexivity. Qed.
Lemma revoked_validate_is k : F.idp_validates (A.fkind k) (revoked_validate k) = false.
Proof. destruct k; reflexivity. Qed.

Lemma eff_validate_false i k g ga sc :
  i_down i = true \/ is_revoked i g = true -> F.idp_validates (A.fkind k) (A.an_validate (eff_answers i k g ga sc)) = false.
Proof.
  intros H. unfold eff_answers. destruct (i_down i); [destruct k; reflexivity|].
  destruct H as [H|H]; [discriminate|]. cbn [A.an_validate]. rewrite H. apply revoked_validate_is.
Qed.

Lemma eff_refresh_err i k g ga sc :
  i_down i = true \/ is_revoked i g = true ->
  exists e, F.refresh_access_token (A.fkind k) (A.an_refresh (eff_answers i k g ga sc)) = inl e /\
            (i_down i = false -> e = F.ETokenRevoked).
Proof.
  intros H. unfold eff_answers. destruct (i_down i) eqn:Ed.
  - exists F.EUnavailable. split; [destruct k; reflexivity | discriminate].
  - destruct H as [H|H]; [discriminate|]. cbn [A.an_refresh]. rewrite H. exists F.ETokenRevoked.
    split; [apply revoked_refresh_is | reflexivity].
Qed.

(* while the IdP is down or the grant of the presented credential is revoked, the authenticator confirms nothing *)
Lemma no_confirmation st q bk lk sc :
  wired ->
  i_down (st_idp st) = true \/ is_revoked (st_idp st) (proxy_grant re_match sd st q) = true ->
  let a := P.an_auth (bc_answers lk (bc_run re_match lower sd st q lk sc) bk) in
  PC.a_validate a <> PC.St 200 /\ (forall tok dur, PC.redeem_refresh a <> PC.RrOk tok dur).
Proof.
  intros [Hh Hw] Hrev. cbv zeta. destruct (Hw q) as [k Hk]. pose proof (wired_kind q k Hk) as Hkind.
  cbn [P.an_auth bc_answers PC.a_validate]. split.
  - intros E. unfold http_of in E. destruct lk; [|discriminate|discriminate]. inversion E as [Hst].
    cbn [bc_validate bc_run] in Hst. unfold bc_serve in Hst.
    destruct (Hk B.p_validate) as [Hf Hc]; [unfold leaves; cbn; tauto|].
    match type of Hst with Z.of_N (A.r_status (A.serve _ _ ?rq0 _ ?an0 _)) = _ => set (rq := rq0) in *; set (an := an0) in * end.
    assert (Hrt : AP.routed (sd_a sd) rq (proxy_slug re_match sd q) k B.p_validate).
    { unfold rq, rq_validate. apply bc_routed; auto. unfold leaves; cbn; tauto. }
    destruct (validate_facts lower (sd_a sd) rq (a_oracles sd st no_aux) an (now_ns st) _ k Hrt) as [H200 _].
    cbv zeta in H200. assert (Hs : A.r_status (A.serve lower (sd_a sd) rq (a_oracles sd st no_aux) an (now_ns st)) = 200%N) by lia.
    apply H200 in Hs. unfold an in Hs. rewrite Hkind in Hs. rewrite eff_validate_false in Hs by exact Hrev. discriminate.
  - intros tok dur E. unfold PC.redeem_refresh in E. cbn [PC.a_refresh PC.a_refresh_body] in E.
    unfold http_of in E. destruct lk; [|discriminate|discriminate].
    destruct (Z.of_N _ =? 201) eqn:E201; [|destruct (PC.unavailable _); [discriminate|]; destruct (_ =? 401); discriminate].
    apply Z.eqb_eq in E201.
    destruct (Hk B.p_refresh) as [Hf Hc]; [unfold leaves; cbn; tauto|].
    cbn [bc_refresh bc_run] in E201. unfold bc_serve in E201.
    match type of E201 with Z.of_N (A.r_status (A.serve _ _ ?rq0 _ ?an0 _)) = _ => set (rq := rq0) in *; set (an := an0) in * end.
    assert (Hrt : AP.routed (sd_a sd) rq (proxy_slug re_match sd q) k B.p_refresh).
    { unfold rq, rq_refresh. apply bc_routed; auto. unfold leaves; cbn; tauto. }
    destruct (refresh_facts lower (sd_a sd) rq (a_oracles sd st no_aux) an (now_ns st) _ k Hrt) as [H201 _].
    cbv zeta in H201. destruct H201 as [t0 [d0 Hok]]; [lia|].
    unfold an in Hok. rewrite Hkind in Hok.
    destruct (eff_refresh_err (st_idp st) k (proxy_grant re_match sd st q) None sc Hrev) as [e [He _]].
    rewrite He in Hok. discriminate.
Qed.

End Wired.

(* ================================================================================================ *)
(* Part 7 — revocation *)

Section Revocation.
Variable re_match : str -> str -> bool.
Variable re_replace : str -> str -> str -> str.
Variable lower : str -> str.
Variable sd : sysdep.
Hypothesis Hwf : wf sd.
Hypothesis Hwired : wired re_match sd.

Notation INV := (Inv re_match lower sd).
Notation step := (SystemAll.step re_match re_replace lower sd).
Notation run := (SystemAll.run re_match re_replace lower sd).
Notation pstep := (proxy_step re_match re_replace lower sd).

Definition revoked_at (st : state) (g : nat) (t : Z) : Prop := In (g, t) (i_rev (st_idp st)).

Lemma revoked_at_is st g t : revoked_at st g t -> is_revoked (st_idp st) (Some g) = true.
Proof.
  unfold revoked_at, is_revoked. intros H. apply existsb_exists. exists (g, t). split; [exact H|]. cbn. apply Nat.eqb_refl.
Qed.

(* a copy whose validity deadline was set after its grant was revoked is a fresh login (a code redeemed
   after the revocation) or an outage-grace extension — never a confirmation *)
Definition Rev (st : state) : Prop :=
  forall p g t, In p (st_p st) -> pr_grant p = Some g -> revoked_at st g t -> t < pr_conf p ->
    pr_conf p = pr_login p \/ pr_real p = false.

Lemma rev_init t0 : Rev (init t0).
Proof. intros p g t []. Qed.

Lemma rev_proxy_step st q bk lk sc : INV st -> Rev st -> Rev (fst (pstep st q bk lk sc)).
Proof.
  intros HI HR p g t Hin Hg Hrv Ht.
  unfold proxy_step in Hin, Hrv. cbn [fst st_p st_idp] in Hin, Hrv. unfold revoked_at in Hrv. cbn [st_idp] in Hrv.
  set (oc := proxy_outcome re_match re_replace lower sd st q bk lk sc) in *.
  destruct (new_prec re_match sd st q oc) as [r|] eqn:En; [|exact (HR p g t Hin Hg Hrv Ht)].
  apply in_app_or in Hin as [Hin|[<-|[]]]; [exact (HR p g t Hin Hg Hrv Ht)|].
  unfold new_prec in En.
  destruct (P.oc_session oc) as [| |s'] eqn:Es; try discriminate.
  destruct (P.oc_upstream oc) as [u|] eqn:Eu; [|discriminate].
  destruct (is_callback q) eqn:Ecb.
  { inversion En; subst r. left. reflexivity. }
  destruct (presented_p sd st q) as [p0|] eqn:Ep0; [|discriminate].
  inversion En; subst r. clear En. cbn [pr_conf pr_login pr_real pr_grant] in *.
  unfold oc, proxy_outcome in Es.
  destruct (serve_saved_cases re_match re_replace lower _ _ _ _ _ _ Es) as [u0 [Hr [Hu Hc]]].
  destruct Hc as [[Hrt _]|[Hrt [ep Hh]]].
  { exfalso. apply is_callback_iff in Hrt. congruence. }
  apply handle_saved_auth in Hh as Ha. cbn [PC.r_host PC.r_cookie P.pc_request] in Ha.
  destruct (P.session_cookie (p_opens st) (sd_p sd) q) as [| |s] eqn:Eck; [cbn in Ha; discriminate | cbn in Ha; discriminate |].
  destruct (session_cookie_presented sd st q s Eck) as [r0 [Hp [Hs0 Hin0]]].
  rewrite Ep0 in Hp. inversion Hp; subst r0. rewrite Hs0 in *.
  destruct (PC.s_valid_dl s' =? PC.s_valid_dl s) eqn:Esame.
  { exact (HR p0 g t Hin0 Hg Hrv Ht). }
  apply Z.eqb_neq in Esame.
  destruct (PC.s_grace s') as [g0|] eqn:Eg; [right; reflexivity|]. exfalso.
  (* a real confirmation while the grant is revoked *)
  assert (Hgr : proxy_grant re_match sd st q = Some g).
  { unfold proxy_grant. rewrite Ecb, Ep0. exact Hg. }
  assert (Hrev : is_revoked (st_idp st) (proxy_grant re_match sd st q) = true).
  { rewrite Hgr. eapply revoked_at_is. exact Hrv. }
  destruct (no_confirmation re_match lower sd st q bk lk sc Hwired (or_intror Hrev)) as [Hnv Hnr].
  cbv zeta in Hnv, Hnr.
  revert Ha. unfold PC.authenticate, PC.expired.
  destruct (negb (str_eqb (PC.s_slug s) _)); [discriminate|].
  destruct (negb (str_eqb (P.rq_host q) (PC.s_upstream s))); [discriminate|].
  destruct (PC.s_lifetime_dl s <? st_now st); [discriminate|].
  destruct (PC.s_refresh_dl s <? st_now st) eqn:Er.
  - destruct (PC.refresh_session _ _ _ s _) as [[rr s1] calls] eqn:Erf.
    pose proof (PCP.refresh_preserves _ _ _ _ _ _ _ _ Erf) as [_ [_ [_ [_ [Hv _]]]]].
    destruct rr; try discriminate. destruct (request_gate _ _ _); [|discriminate].
    cbn. intros H; inversion H; subst. contradiction.
  - destruct (PC.s_valid_dl s <? st_now st) eqn:Ev.
    + destruct (PC.validate_session _ _ _ s _) as [[ok s1] calls] eqn:Evs.
      destruct ok; [|discriminate]. destruct (request_gate _ _ _); [|discriminate].
      cbn. intros H; inversion H; subst.
      destruct (PCP.grace_stamp_validate _ _ _ _ _ _ _ Evs) as [[[Hc200 _] _]|[_ [Hgs _]]].
      * exact (Hnv Hc200).
      * rewrite Eg in Hgs. discriminate.
    + destruct (request_gate _ _ _); discriminate.
Qed.


Lemma rev_grow st st' :
  INV st -> Rev st -> st_p st' = st_p st ->
  (forall g t, In (g, t) (i_rev (st_idp st')) -> In (g, t) (i_rev (st_idp st)) \/ t = st_now st) ->
  Rev st'.
Proof.
  intros (_ & _ & _ & HP & _) HR Ep Hi p g t Hin Hg Hrv Ht. rewrite Ep in Hin.
  destruct (Hi g t Hrv) as [Hold| ->]; [exact (HR p g t Hin Hg Hold Ht)|].
  exfalso. rewrite Forall_forall in HP. destruct (HP p Hin) as (c & u & code & K).
  destruct K as (_ & _ & _ & _ & _ & _ & _ & _ & _ & _ & _ & _ & _ & _ & K15 & K16 & _). lia.
Qed.

Lemma rev_step st e : INV st -> Rev st -> Rev (fst (step st e)).
Proof.
  intros HI HR. destruct e as [dt|c|q bk lk sc|q x sc]; cbn [SystemAll.step].
  - cbn [fst]. apply (rev_grow st); auto.
  - cbn [fst]. apply (rev_grow st); auto. cbn [with_idp st_idp]. intros g t.
    destruct c; cbn [idp_step i_rev]; auto. intros [H|H]; [inversion H; auto | auto].
  - pose proof (rev_proxy_step st q bk lk sc HI HR) as H.
    destruct (proxy_step re_match re_replace lower sd st q bk lk sc) as [st1 o]. exact H.
  - assert (H : Rev (fst (auth_step lower sd st q x sc))).
    { apply (rev_grow st); auto. unfold auth_step. cbn [fst st_idp]. unfold idp_after. intros g t.
      destruct (revoked_now _ _ _ _ _); auto. destruct (auth_grant sd st q); auto.
      cbn [i_rev]. intros [H|H]; [inversion H; auto | auto]. }
    destruct (auth_step lower sd st q x sc) as [st1 o]. exact H.
Qed.

Lemma run_inv_rev : forall evs st st' tr, run st evs = (st', tr) -> INV st -> Rev st ->
  INV st' /\ Rev st' /\ forall s e o, In (s, e, o) tr -> INV s /\ Rev s /\ o = snd (step s e).
Proof.
  induction evs as [|e evs IH]; intros st st' tr Hr HI HR; cbn [SystemAll.run] in Hr.
  - inversion Hr; subst. split; [exact HI|]. split; [exact HR|]. intros s e o [].
  - destruct (step st e) as [st1 o1] eqn:E1. destruct (run st1 evs) as [st2 tr2] eqn:E2.
    inversion Hr; subst.
    pose proof (inv_step re_match re_replace lower sd Hwf st e HI) as HI1. rewrite E1 in HI1. cbn [fst] in HI1.
    pose proof (rev_step st e HI HR) as HR1. rewrite E1 in HR1. cbn [fst] in HR1.
    destruct (IH st1 st' tr2 E2 HI1 HR1) as [H1 [H2 H3]]. split; [exact H1|]. split; [exact H2|].
    intros s e0 o [Heq|Hin].
    + inversion Heq; subst. split; [exact HI|]. split; [exact HR|]. rewrite E1. reflexivity.
    + apply H3. exact Hin.
Qed.

(* one served request of a revoked lineage *)
Lemma revoked_served st q bk lk sc bv e p g t :
  0 <= P.dp_V (sd_p sd) -> INV st -> Rev st ->
  P.oc_backend (proxy_outcome re_match re_replace lower sd st q bk lk sc) = Some bv ->
  In e (ReqHeaders.h_get ReqHeaders.k_xfe (P.bk_handler bv)) ->
  presented_p sd st q = Some p -> pr_grant p = Some g -> revoked_at st g t ->
  st_now st <= t + P.dp_V (sd_p sd) \/
  (t < pr_login p /\ st_now st <= pr_login p + P.dp_V (sd_p sd)) \/
  (exists t', In t' (st_out (fst (pstep st q bk lk sc))) /\ t < t' /\ t' <= st_now st /\ st_now st <= t' + P.dp_V (sd_p sd)).
Proof.
  intros HV HI HR Hb He Hp Hg Hrv.
  destruct (served_identity re_match re_replace lower sd st q bk lk sc bv HI Hb) as (u & Hr & _ & _ & Hid).
  destruct (Hid e He) as (Hsk & _ & s & Hck & Hok).
  destruct (session_cookie_presented sd st q s Hck) as [p' [Hp' [Hps Hpin]]].
  rewrite Hp in Hp'. inversion Hp'; subst p'. clear Hp'.
  destruct (Z_le_gt_dec (st_now st) (t + P.dp_V (sd_p sd))) as [Hle|Hgt]; [left; exact Hle|]. right.
  assert (Htn : t < st_now st) by lia.
  assert (Hcb : is_callback q = false).
  { destruct (is_callback q) eqn:E; [|reflexivity]. apply is_callback_iff in E.
    unfold proxy_outcome in Hb.
    destruct (PP.backend_reached_only_if re_match re_replace lower _ _ _ _ _ _ Hb)
      as (_ & _ & _ & _ & _ & _ & _ & _ & _ & _ & _ & [Hrt|Hrt] & _); rewrite E in Hrt; discriminate. }
  assert (Hgr : proxy_grant re_match sd st q = Some g) by (unfold proxy_grant; rewrite Hcb, Hp; exact Hg).
  assert (Hrev : is_revoked (st_idp st) (proxy_grant re_match sd st q) = true) by (rewrite Hgr; eapply revoked_at_is; exact Hrv).
  destruct (no_confirmation re_match lower sd st q bk lk sc Hwired (or_intror Hrev)) as [Hnv Hnr]. cbv zeta in Hnv, Hnr.
  set (a := P.an_auth (bc_answers lk (bc_run re_match lower sd st q lk sc) bk)) in *.
  assert (Hout : saw_unavailable a = true -> exists t', In t' (st_out (fst (pstep st q bk lk sc))) /\ t < t' /\ t' <= st_now st /\ st_now st <= t' + P.dp_V (sd_p sd)).
  { intros Hs. exists (st_now st). unfold proxy_step. cbn [fst st_out]. fold a. rewrite Hs, orb_true_r.
    split; [left; reflexivity | lia]. }
  destruct Hok as (_ & _ & _ & Hrf & Hvl & _).
  destruct (Z_lt_dec (PC.s_refresh_dl s) (st_now st)) as [Hrd|Hrd].
  - (* refresh due *)
    right. apply Hout. destruct (Hrf Hrd) as [_ [[tok [dur [Hc _]]]|[Ho _]]]; [exfalso; exact (Hnr _ _ Hc)|].
    destruct Ho as [Ho|[tok [dur [Hc _]]]]; [|exfalso; exact (Hnr _ _ Hc)].
    unfold PC.redeem_refresh in Ho. unfold saw_unavailable, unavail_ans.
    destruct (PC.a_refresh a) as [c|]; [|discriminate].
    destruct (c =? 201); [destruct (PC.a_refresh_body a) as [[? ?]|]; discriminate|].
    destruct (PC.unavailable c); [reflexivity|]. destruct (c =? 401); discriminate.
  - destruct (Z_lt_dec (PC.s_valid_dl s) (st_now st)) as [Hvd|Hvd].
    + (* revalidation due *)
      right. apply Hout. destruct (Hvl ltac:(lia) Hvd) as [[Hc _]|[Ho _]]; [exfalso; exact (Hnv Hc)|].
      destruct Ho as [[code [Ha Hu]]|[Hc _]]; [|exfalso; exact (Hnv Hc)].
      unfold saw_unavailable, unavail_ans. rewrite Ha, Hu. rewrite orb_true_r. reflexivity.
    + (* nothing due: the deadline was set at most V ago *)
      destruct HI as (_ & _ & _ & HP & _). rewrite Forall_forall in HP.
      destruct (HP p Hpin) as (c & u0 & code & K).
      destruct K as (_ & _ & _ & _ & _ & _ & _ & _ & _ & _ & _ & _ & _ & K14 & K15 & K16 & K17 & K18).
      rewrite Hps in K17.
      destruct (Z_le_gt_dec (pr_conf p) t) as [Hct|Hct]; [lia|].
      destruct (HR p g t Hpin Hg Hrv ltac:(lia)) as [Hcl|Hreal].
      * left. lia.
      * right. exists (pr_conf p). split; [|lia].
        pose proof (proxy_step_extends re_match re_replace lower sd st q bk lk sc) as (_ & _ & _ & _ & Eo). apply Eo, K18, Hreal.
Qed.


(* ---- revocations persist; how a grant gets revoked ---- *)
Lemma revoked_step st e g t : revoked_at st g t -> revoked_at (fst (step st e)) g t.
Proof.
  unfold revoked_at. destruct e as [dt|c|q bk lk sc|q x sc]; cbn [SystemAll.step]; intros H.
  - exact H.
  - cbn [fst with_idp st_idp]. destruct c; cbn [idp_step i_rev]; auto. right. exact H.
  - unfold proxy_step. destruct (proxy_step re_match re_replace lower sd st q bk lk sc) eqn:E. unfold proxy_step in E.
    inversion E; subst. cbn [fst st_idp]. exact H.
  - destruct (auth_step lower sd st q x sc) eqn:E. unfold auth_step in E. inversion E; subst. cbn [fst st_idp].
    unfold idp_after. destruct (revoked_now _ _ _ _ _); [|exact H]. destruct (auth_grant sd st q); [|exact H].
    cbn [i_rev]. right. exact H.
Qed.

Lemma run_revoked : forall evs st st' tr g t, run st evs = (st', tr) -> revoked_at st g t ->
  revoked_at st' g t /\ forall s e o, In (s, e, o) tr -> revoked_at s g t.
Proof.
  induction evs as [|e evs IH]; intros st st' tr g t Hr Hv; cbn [SystemAll.run] in Hr.
  - inversion Hr; subst. split; [exact Hv|]. intros s e o [].
  - destruct (step st e) as [st1 o1] eqn:E1. destruct (run st1 evs) as [st2 tr2] eqn:E2. inversion Hr; subst.
    pose proof (revoked_step st e g t Hv) as Hv1. rewrite E1 in Hv1. cbn [fst] in Hv1.
    destruct (IH st1 st' tr2 g t E2 Hv1) as [H1 H2]. split; [exact H1|].
    intros s e0 o [Heq|Hin]; [inversion Heq; subst; exact Hv | exact (H2 s e0 o Hin)].
Qed.

(* the operator revokes a grant at the IdP *)
Lemma idp_revoke_revokes st g : revoked_at (fst (step st (EvIdp (IRevoke g)))) g (st_now st).
Proof. unfold revoked_at. cbn. left. reflexivity. Qed.

(* C19 composed: a sign-out that cleared the cookie after the IdP confirmed the revocation of the session's
   token revokes the grant of the presented authenticator session, at that instant *)
Lemma signout_revokes st q x sc a g tok :
  let r := auth_resp lower sd st q x sc in
  AP.has_clear (A.r_sess_ops r) -> In (A.CRevoke tok) (A.r_calls r) ->
  auth_pres sd st q = Some a -> ar_grant a = Some g ->
  revoked_at (fst (auth_step lower sd st q x sc)) g (st_now st).
Proof.
  cbv zeta. intros Hcl Hcall Hp Hg. unfold auth_resp in *.
  destruct (AP.signout_end_to_end lower (sd_a sd) q (a_oracles sd st no_aux) (auth_answers sd st q sc) (now_ns st)) as [_ _].
  set (o := a_oracles sd st x) in *. set (an := auth_answers sd st q sc) in *.
  destruct (AP.signout_end_to_end lower (sd_a sd) q o an (now_ns st)) as [H1 H2]. cbv zeta in H1, H2.
  destruct (H1 tok Hcall) as [slug [k Hr]].
  destruct (H2 slug k Hr) as [Hc _]. destruct (Hc Hcl) as (_ & _ & _ & _ & [[_ Hn]|[s [_ [Hcalls Hok]]]]).
  { rewrite Hn in Hcall. destruct Hcall. }
  assert (Hk : auth_kind sd st q = k) by (unfold auth_kind; rewrite (routed_presented sd st q slug k _ Hr); reflexivity).
  unfold revoked_at, auth_step. cbn [fst st_idp]. unfold idp_after, revoked_now, auth_resp. fold o an.
  rewrite Hcalls. cbn [revoke_called existsb orb andb]. rewrite Hk. fold an. rewrite Hok.
  unfold auth_grant. rewrite Hp, Hg. cbn [i_rev]. left. reflexivity.
Qed.

End Revocation.

(* ================================================================================================ *)
(* Part 8 — the theorems over all histories *)

Section Final.
Variable re_match : str -> str -> bool.
Variable re_replace : str -> str -> str -> str.
Variable lower : str -> str.
Variable sd : sysdep.

Notation INV := (Inv re_match lower sd).
Notation step := (SystemAll.step re_match re_replace lower sd).
Notation run := (SystemAll.run re_match re_replace lower sd).
Notation pstep := (proxy_step re_match re_replace lower sd).

(* what a trace entry of a proxy request is *)
Lemma trace_proxy st q bk lk sc o :
  OProxy o = snd (step st (EvProxy q bk lk sc)) ->
  po_out o = proxy_outcome re_match re_replace lower sd st q bk lk sc.
Proof.
  cbn [SystemAll.step]. unfold proxy_step. intros H. inversion H. reflexivity.
Qed.

Theorem identity_vouched t0 evs st' tr :
  wf sd -> run (init t0) evs = (st', tr) ->
  forall st q bk lk sc o bv, In (st, EvProxy q bk lk sc, OProxy o) tr -> P.oc_backend (po_out o) = Some bv ->
  exists u, P.route_ext re_match (P.dp_ups (sd_p sd)) (P.rq_host q) = Some u /\
    P.bk_target bv = Hostmux.target re_replace (P.rq_host q) (P.up_hm u) /\
    (P.skip_hit re_match u q = true -> PP.identity_absent (P.bk_handler bv)) /\
    (forall e, In e (ReqHeaders.h_get ReqHeaders.k_xfe (P.bk_handler bv)) ->
       P.skip_hit re_match u q = false /\ identity_chain lower sd st q u e).
Proof.
  intros Hwf Hrun st q bk lk sc o bv Hin Hb.
  destruct (run_inv re_match re_replace lower sd Hwf evs (init t0) st' tr Hrun (inv_init re_match lower sd t0)) as [_ Htr].
  destruct (Htr _ _ _ Hin) as [HI Ho]. rewrite (trace_proxy _ _ _ _ _ _ Ho) in Hb.
  destruct (served_identity re_match re_replace lower sd st q bk lk sc bv HI Hb) as (u & Hr & Ht & Hsk & Hid).
  exists u. split; [exact Hr|]. split; [exact Ht|]. split; [exact Hsk|].
  intros e He. destruct (Hid e He) as (H1 & H2 & _). auto.
Qed.

(* a proxy session yields identity headers only on the Host of the login it descends from, at that
   upstream's backend *)
Theorem session_host_bound t0 evs st' tr :
  wf sd -> run (init t0) evs = (st', tr) ->
  forall st q bk lk sc o bv p, In (st, EvProxy q bk lk sc, OProxy o) tr -> P.oc_backend (po_out o) = Some bv ->
  ReqHeaders.h_get ReqHeaders.k_xfe (P.bk_handler bv) <> [] -> presented_p sd st q = Some p ->
  P.rq_host q = pr_host p /\
  exists u, P.route_ext re_match (P.dp_ups (sd_p sd)) (pr_host p) = Some u /\
            P.bk_target bv = Hostmux.target re_replace (pr_host p) (P.up_hm u) /\
            (exists ans, login_gate lower (Hostmux.u_policy (P.up_hm u)) (PC.s_email (pr_s p)) ans = true).
Proof.
  intros Hwf Hrun st q bk lk sc o bv p Hin Hb Hne Hp.
  destruct (identity_vouched t0 evs st' tr Hwf Hrun st q bk lk sc o bv Hin Hb) as (u & Hr & Ht & _ & Hid).
  destruct (ReqHeaders.h_get ReqHeaders.k_xfe (P.bk_handler bv)) as [|e l] eqn:E; [contradiction|].
  destruct (Hid e (or_introl eq_refl)) as [_ (p' & c & g & v & K1 & _ & K3 & K4 & _ & _ & K7 & _)].
  rewrite Hp in K1. inversion K1; subst p'. split; [symmetry; exact K4|].
  exists u. rewrite K4. rewrite K3. auto.
Qed.

Theorem revocation_propagates t0 evs1 s1 tr1 evs2 s2 tr2 g t :
  wf sd -> wired re_match sd -> 0 <= P.dp_V (sd_p sd) ->
  run (init t0) evs1 = (s1, tr1) -> revoked_at s1 g t -> run s1 evs2 = (s2, tr2) ->
  forall st q bk lk sc o bv e p,
    In (st, EvProxy q bk lk sc, OProxy o) tr2 -> P.oc_backend (po_out o) = Some bv ->
    In e (ReqHeaders.h_get ReqHeaders.k_xfe (P.bk_handler bv)) ->
    presented_p sd st q = Some p -> pr_grant p = Some g ->
    st_now st <= t + P.dp_V (sd_p sd) \/
    (t < pr_login p /\ st_now st <= pr_login p + P.dp_V (sd_p sd)) \/
    (exists t', In t' (st_out (fst (pstep st q bk lk sc))) /\ t < t' /\ t' <= st_now st /\ st_now st <= t' + P.dp_V (sd_p sd)).
Proof.
  intros Hwf Hw HV Hr1 Hrv Hr2 st q bk lk sc o bv e p Hin Hb He Hp Hg.
  destruct (run_inv_rev re_match re_replace lower sd Hwf Hw evs1 (init t0) s1 tr1 Hr1 (inv_init re_match lower sd t0) (rev_init t0))
    as [HI1 [HR1 _]].
  destruct (run_inv_rev re_match re_replace lower sd Hwf Hw evs2 s1 s2 tr2 Hr2 HI1 HR1) as [_ [_ Htr]].
  destruct (Htr _ _ _ Hin) as [HI [HR Ho]]. rewrite (trace_proxy _ _ _ _ _ _ Ho) in Hb.
  destruct (run_revoked re_match re_replace lower sd evs2 s1 s2 tr2 g t Hr2 Hrv) as [_ Hrt].
  eapply revoked_served; eauto.
Qed.


Lemma run_app : forall l1 l2 st,
  run st (l1 ++ l2) = let '(s1, t1) := run st l1 in let '(s2, t2) := run s1 l2 in (s2, t1 ++ t2).
Proof.
  induction l1 as [|e l1 IH]; intros l2 st; cbn [app SystemAll.run].
  - destruct (run st l2). reflexivity.
  - destruct (step st e) as [st1 o]. rewrite IH. destruct (run st1 l1) as [s1 t1]. destruct (run s1 l2) as [s2 t2]. reflexivity.
Qed.

Theorem signout_propagates t0 evs1 s1 tr1 q0 x0 sc0 a g tok evs2 s2 tr2 :
  wf sd -> wired re_match sd -> 0 <= P.dp_V (sd_p sd) ->
  run (init t0) evs1 = (s1, tr1) ->
  AP.has_clear (A.r_sess_ops (auth_resp lower sd s1 q0 x0 sc0)) ->
  In (A.CRevoke tok) (A.r_calls (auth_resp lower sd s1 q0 x0 sc0)) ->
  auth_pres sd s1 q0 = Some a -> ar_grant a = Some g ->
  run (fst (step s1 (EvAuth q0 x0 sc0))) evs2 = (s2, tr2) ->
  forall st q bk lk sc o bv e p,
    In (st, EvProxy q bk lk sc, OProxy o) tr2 -> P.oc_backend (po_out o) = Some bv ->
    In e (ReqHeaders.h_get ReqHeaders.k_xfe (P.bk_handler bv)) ->
    presented_p sd st q = Some p -> pr_grant p = Some g ->
    st_now st <= st_now s1 + P.dp_V (sd_p sd) \/
    (st_now s1 < pr_login p /\ st_now st <= pr_login p + P.dp_V (sd_p sd)) \/
    (exists t', In t' (st_out (fst (pstep st q bk lk sc))) /\ st_now s1 < t' /\ t' <= st_now st /\ st_now st <= t' + P.dp_V (sd_p sd)).
Proof.
  intros Hwf Hw HV Hr1 Hcl Hcall Hp Hg Hr2.
  pose proof (signout_revokes lower sd s1 q0 x0 sc0 a g tok Hcl Hcall Hp Hg) as Hrv.
  assert (Hr1' : run (init t0) (evs1 ++ [EvAuth q0 x0 sc0]) =
                 (fst (step s1 (EvAuth q0 x0 sc0)), tr1 ++ [(s1, EvAuth q0 x0 sc0, snd (step s1 (EvAuth q0 x0 sc0)))])).
  { rewrite run_app, Hr1. cbn [SystemAll.run]. destruct (step s1 (EvAuth q0 x0 sc0)). reflexivity. }
  eapply (revocation_propagates t0 _ _ _ evs2 s2 tr2 g (st_now s1) Hwf Hw HV Hr1'); [|exact Hr2].
  cbn [SystemAll.step]. destruct (auth_step lower sd s1 q0 x0 sc0) eqn:E. cbn [fst] in *. exact Hrv.
Qed.

End Final.

(* ================================================================================================ *)
(* Part 9 — a concrete deployment: non-vacuity, and the witnesses of the two refuted clauses *)

Module SysEx.

Definition ad : A.deployment :=
  {| A.d_host := bs "sso.ex.com"; A.d_slugs := [(bs "o", A.AOkta)]; A.d_pre := true; A.d_proxy_domains := [bs "ex.com"];
     A.d_client_id := bs "i"; A.d_client_secret := bs "s"; A.d_scheme := bs "https"; A.d_addresses := [];
     A.d_email_domains := [bs "ex.com"]; A.d_lifetime := 3600; A.d_code_key := 2%N; A.d_cookie_key := 1%N |}.
Definition up (host target : str) : P.iupstream :=
  {| P.up_hm := {| Hostmux.u_route := Hostmux.Simple host target;
                   Hostmux.u_policy := {| p_addresses := []; p_domains := [bs "ex.com"]; p_groups := [] |};
                   Hostmux.u_slug := []; Hostmux.u_skip := []; Hostmux.u_preserve := false |};
     P.up_overrides := []; P.up_inject := []; P.up_replace := true; P.up_hmac := None; P.up_skip_sign := true |}.
Definition h_app : str := bs "app.ex.com".
Definition h_app2 : str := bs "app2.ex.com".
Definition pd : P.deployment :=
  {| P.dp_ups := [up h_app (bs "127.0.0.1:9001"); up h_app2 (bs "127.0.0.1:9002")]; P.dp_slug := bs "o";
     P.dp_L := 3000; P.dp_V := 60; P.dp_G := 300; P.dp_secure := false;
     P.dp_httponly := true; P.dp_cookie_name := bs "_sso_proxy"; P.dp_cookie_domain := []; P.dp_signer := None;
     P.dp_auth_base := bs "http://sso.ex.com" |}.
Definition sd : sysdep := {| sd_p := pd; sd_a := ad; sd_pid := bs "i"; sd_psecret := bs "s"; sd_bc_host := bs "sso.ex.com" |}.

Definition ex_match (p s : str) : bool := false.
Definition ex_replace (p s t : str) : str := t.

Definition preq (host path : str) (client : list (str * str)) : P.request :=
  {| P.rq_host := host; P.rq_method := bs "GET"; P.rq_path := path; P.rq_rawquery := []; P.rq_client := client;
     P.rq_body := []; P.rq_chunked := false; P.rq_ip := bs "10.0.0.1"; P.cb_form_ok := true; P.cb_error := []; P.cb_code := [];
     P.cb_state := Callback.WJunk 0; P.cb_csrf := None |}.
Definition flow : Callback.flow := {| Callback.f_sid := 7%N; Callback.f_redirect := bs "/x" |}.
Definition pcb (host code : str) : P.request :=
  {| P.rq_host := host; P.rq_method := bs "GET"; P.rq_path := bs "/oauth2/callback"; P.rq_rawquery := []; P.rq_client := [];
     P.rq_body := []; P.rq_chunked := false; P.rq_ip := bs "10.0.0.1"; P.cb_form_ok := true; P.cb_error := []; P.cb_code := code;
     P.cb_state := Callback.WEnc 0 (Callback.Seal 1 2 (Callback.PFlow flow));
     P.cb_csrf := Some (Callback.WEnc 0 (Callback.Seal 1 1 (Callback.PFlow flow))) |}.
Definition bk : RespHeaders.upstream :=
  {| RespHeaders.u_n1xx := 0%nat; RespHeaders.u_status := 200%N; RespHeaders.u_lines := []; RespHeaders.u_announced := []; RespHeaders.u_trailers := [] |}.

(* the IdP's script: vouches for bob@ex.com, validates, revokes on request *)
Definition sc : A.answers :=
  {| A.an_refresh := F.RReset; A.an_validate := F.VStatus 200 true true;
     A.an_tok := T.Resp 200 (T.Json {| T.f_access := T.JStr (bs "at1"); T.f_refresh := T.JStr (bs "rt1"); T.f_expires := T.JNum 600; T.f_idtoken := T.JMissing |});
     A.an_ui := T.Resp 200 (T.Json {| T.f_email := T.JStr (bs "bob@ex.com"); T.f_verified := T.JBool true; T.f_groups := T.JMissing; T.f_username := T.JMissing |});
     A.an_payload := fun _ => T.NotJSON; A.an_revoke := S.IdpSt 200 S.BNotJSON; A.an_groups := B.GrpOk []; A.an_nonce := bs "n";
     A.an_static := 404%N |}.

Definition areq (path q : str) (sess csrf : list (str * str)) : A.request :=
  {| A.q_host := bs "sso.ex.com"; A.q_path := path; A.q_method := bs "GET"; A.q_query := q; A.q_ctype := no_ctype; A.q_body := [];
     A.q_headers := []; A.q_sess := sess; A.q_csrf := csrf |}.
Definition back_uri : str := bs "https://sso.ex.com/o/sign_in".
(* the browser returns from the IdP *)
Definition q_cb : A.request :=
  areq (bs "/o/callback") (bs "code=IDP1&state=" ++ qesc (S.b64_encode (bs "n" ++ 58%N :: back_uri))) [] [(bs "o", bs "n")].
(* /sign_in with the parameters of the proxy's k-th signed redirect *)
Definition q_si (k : nat) (t : Z) (host ck : str) : A.request :=
  areq (bs "/o/sign_in")
       (bs "client_id=i&redirect_uri=" ++ qesc (callback_uri sd host) ++ bs "&sig=" ++ qesc (S.b64_encode (name tag_s k)) ++
        bs "&ts=" ++ G.dec t ++ bs "&state=x") [(bs "o", ck)] [].
Definition q_so (k : nat) (t : Z) (host ck : str) : A.request :=
  {| A.q_host := bs "sso.ex.com"; A.q_path := bs "/o/sign_out"; A.q_method := bs "POST"; A.q_query := []; A.q_ctype := urlenc;
     A.q_body := bs "redirect_uri=" ++ qesc (signout_uri sd host) ++ bs "&sig=" ++ qesc (S.b64_encode (name tag_s k)) ++ bs "&ts=" ++ G.dec t;
     A.q_headers := []; A.q_sess := [(bs "o", ck)]; A.q_csrf := [] |}.
Definition ck (v : str) : list (str * str) := [(bs "Cookie", bs "_sso_proxy=" ++ v)].

(* a full login on app.ex.com: redirect (MAC S0), IdP login (cookie A0), code C0, redeem (cookie P0) *)
Definition login (host_mint host_redeem : str) : list event :=
  [ EvProxy (preq host_mint (bs "/x") []) bk LinkUp sc;
    EvAuth q_cb no_aux sc;
    EvAuth (q_si 0 1000 host_mint (name tag_a 0)) no_aux sc;
    EvProxy (pcb host_redeem (name tag_c 0)) bk LinkUp sc ].

Definition evs_served : list event := login h_app h_app ++ [EvProxy (preq h_app (bs "/x") (ck (name tag_p 0))) bk LinkUp sc].
Definition evs_revoked : list event :=
  evs_served ++ [EvTick 100; EvProxy (preq h_app (bs "/x") (ck (name tag_p 0))) bk LinkUp sc;   (* revalidated: P1 *)
                 EvIdp (IRevoke 0); EvTick 100; EvProxy (preq h_app (bs "/x") (ck (name tag_p 1))) bk LinkUp sc].
Definition evs_signout : list event :=
  evs_served ++ [EvProxy (preq h_app (bs "/oauth2/sign_out") (ck (name tag_p 0))) bk LinkUp sc;   (* MAC S1 *)
                 EvAuth (q_so 1 1000 h_app (name tag_a 1)) no_aux sc;
                 EvTick 100; EvProxy (preq h_app (bs "/x") (ck (name tag_p 0))) bk LinkUp sc].
Definition evs_cross : list event := login h_app h_app2 ++ [EvProxy (preq h_app2 (bs "/x") (ck (name tag_p 0))) bk LinkUp sc].
Definition evs_inflight : list event :=
  [ EvProxy (preq h_app (bs "/x") []) bk LinkUp sc; EvAuth q_cb no_aux sc; EvAuth (q_si 0 1000 h_app (name tag_a 0)) no_aux sc;
    EvIdp (IRevoke 0); EvTick 200;
    EvProxy (pcb h_app (name tag_c 0)) bk LinkUp sc;
    EvProxy (preq h_app (bs "/x") (ck (name tag_p 0))) bk LinkUp sc ].

Definition runex (evs : list event) := run ex_match ex_replace lower_ascii sd (init 1000) evs.

(* what the last proxy request of a history did: e-mail the backend received, status the client received *)
Definition last_view (evs : list event) : list str * N :=
  match rev (snd (runex evs)) with
  | (_, _, OProxy o) :: _ =>
      (match P.oc_backend (po_out o) with Some bv => ReqHeaders.h_get ReqHeaders.k_xfe (P.bk_handler bv) | None => [] end,
       match P.oc_client (po_out o) with RespHeaders.Resp st _ => st | _ => 0%N end)
  | _ => ([], 0%N)
  end.

Lemma wf_ex : wf sd.
Proof. unfold wf. cbn. discriminate. Qed.

End SysEx.


(* ---- non-vacuity ---- *)
Example ex_login_reaches_backend :
  SysEx.last_view SysEx.evs_served = ([bs "bob@ex.com"], 200%N).
Proof. vm_compute. reflexivity. Qed.

Example ex_revocation_ends_it :
  SysEx.last_view SysEx.evs_revoked = ([], 403%N) /\
  revoked_at (fst (SysEx.runex SysEx.evs_revoked)) 0 1100.
Proof. split; [vm_compute; reflexivity|]. unfold revoked_at. vm_compute. left. reflexivity. Qed.

Example ex_signout_ends_it :
  SysEx.last_view SysEx.evs_signout = ([], 403%N) /\
  revoked_at (fst (SysEx.runex SysEx.evs_signout)) 0 1000.
Proof. split; [vm_compute; reflexivity|]. unfold revoked_at. vm_compute. left. reflexivity. Qed.

Example ex_wired : wired SysEx.ex_match SysEx.sd.
Proof.
  split; [reflexivity|]. intros q. exists A.AOkta. intros leaf Hl.
  assert (Hs : proxy_slug SysEx.ex_match SysEx.sd q = bs "o").
  { unfold proxy_slug, proxy_up. cbn [SysEx.sd sd_p SysEx.pd P.dp_ups].
    destruct (P.route_ext _ _ _) as [u|] eqn:E; [|reflexivity].
    apply (PP.route_ext_in SysEx.ex_match) in E. destruct E as [<-|[<-|[]]]; reflexivity. }
  rewrite Hs. destruct Hl as [<-|[<-|[<-|[<-|[]]]]]; split; vm_compute; reflexivity.
Qed.

(* ---- the two clauses that are FALSE of the faithful model ---- *)

(* (d, first half) "a code minted for redirect A is never redeemable into a proxy session bound to host B":
   the authenticator's /redeem ignores redirect_uri (sso.go:108 "TODO: remove ... unused by authenticator";
   authenticator.go:634-700 never reads it), so a code handed to app.ex.com's callback mints a session on app2.ex.com *)
Definition code_bound_to_host : Prop :=
  forall re_match re_replace lower sd t0 evs st' tr,
    wf sd -> run re_match re_replace lower sd (init t0) evs = (st', tr) ->
    forall p c, In p (st_p st') -> In c (st_c st') -> pr_code p = Some (cr_val c) ->
      cr_uri c = callback_uri sd (pr_host p).

Theorem code_bound_to_host_refuted : ~ code_bound_to_host.
Proof.
  intros H.
  specialize (H SysEx.ex_match SysEx.ex_replace lower_ascii SysEx.sd 1000 SysEx.evs_cross _ _ SysEx.wf_ex
                (surjective_pairing (SysEx.runex SysEx.evs_cross))).
  destruct (st_p (fst (SysEx.runex SysEx.evs_cross))) as [|p l] eqn:Ep; [vm_compute in Ep; discriminate|].
  destruct (st_c (fst (SysEx.runex SysEx.evs_cross))) as [|c l'] eqn:Ec; [vm_compute in Ec; discriminate|].
  specialize (H p c (or_introl eq_refl) (or_introl eq_refl)).
  vm_compute in Ep. inversion Ep; subst p. vm_compute in Ec. inversion Ec; subst c.
  specialize (H eq_refl). vm_compute in H. discriminate.
Qed.

(* (b, at full strength) "after the grant is revoked at t no backend is reached with its descendants after
   t + V (outage grace aside)": a code minted BEFORE the revocation stays redeemable until the refresh deadline it
   carries (/redeem consults no one), and the session minted from it is served for V more seconds *)
Definition revocation_strict : Prop :=
  forall re_match re_replace lower sd t0 evs1 s1 tr1 evs2 s2 tr2 g t,
    wf sd -> wired re_match sd -> 0 <= P.dp_V (sd_p sd) ->
    run re_match re_replace lower sd (init t0) evs1 = (s1, tr1) -> revoked_at s1 g t ->
    run re_match re_replace lower sd s1 evs2 = (s2, tr2) ->
    forall st q bk lk sc o bv e p,
      In (st, EvProxy q bk lk sc, OProxy o) tr2 -> P.oc_backend (po_out o) = Some bv ->
      In e (ReqHeaders.h_get ReqHeaders.k_xfe (P.bk_handler bv)) ->
      presented_p sd st q = Some p -> pr_grant p = Some g ->
      st_now st <= t + P.dp_V (sd_p sd) \/
      (exists t', In t' (st_out (fst (proxy_step re_match re_replace lower sd st q bk lk sc))) /\ t < t').

(* a trace entry that contradicts the strict clause, as a boolean on a concrete trace *)
Definition strict_counter (re_match : str -> str -> bool) (re_replace : str -> str -> str -> str) (lower : str -> str)
    (sd : sysdep) (g : nat) (t : Z) (x : state * event * out) : bool :=
  match x with
  | (st, EvProxy q bk lk sc, OProxy o) =>
      match P.oc_backend (po_out o), presented_p sd st q with
      | Some bv, Some p =>
          negb (match ReqHeaders.h_get ReqHeaders.k_xfe (P.bk_handler bv) with [] => true | _ => false end) &&
          match pr_grant p with Some g' => Nat.eqb g' g | None => false end &&
          (t + P.dp_V (sd_p sd) <? st_now st) &&
          match st_out (fst (proxy_step re_match re_replace lower sd st q bk lk sc)) with [] => true | _ => false end
      | _, _ => false
      end
  | _ => false
  end.

Theorem revocation_strict_refuted : ~ revocation_strict.
Proof.
  intros H.
  pose (evs1 := firstn 4 SysEx.evs_inflight). pose (evs2 := skipn 4 SysEx.evs_inflight).
  pose (r1 := run SysEx.ex_match SysEx.ex_replace lower_ascii SysEx.sd (init 1000) evs1).
  pose (r2 := run SysEx.ex_match SysEx.ex_replace lower_ascii SysEx.sd (fst r1) evs2).
  assert (Hrv : revoked_at (fst r1) 0 1000).
  { unfold revoked_at. vm_compute. left. reflexivity. }
  specialize (H SysEx.ex_match SysEx.ex_replace lower_ascii SysEx.sd 1000 evs1 (fst r1) (snd r1) evs2 (fst r2) (snd r2) 0%nat 1000
                SysEx.wf_ex ex_wired ltac:(cbn; lia) (surjective_pairing r1) Hrv (surjective_pairing r2)).
  assert (Hc : existsb (strict_counter SysEx.ex_match SysEx.ex_replace lower_ascii SysEx.sd 0 1000) (snd r2) = true)
    by (vm_compute; reflexivity).
  apply existsb_exists in Hc as [[[st e] o] [Hin Hx]]. unfold strict_counter in Hx.
  destruct e as [| |q bk lk sc|]; try discriminate. destruct o as [| |o|]; try discriminate.
  destruct (P.oc_backend (po_out o)) as [bv|] eqn:Eb; [|discriminate].
  destruct (presented_p SysEx.sd st q) as [p|] eqn:Ep; [|discriminate].
  apply andb_true_iff in Hx as [Hx H4]. apply andb_true_iff in Hx as [Hx H3]. apply andb_true_iff in Hx as [H1 H2].
  destruct (ReqHeaders.h_get ReqHeaders.k_xfe (P.bk_handler bv)) as [|e0 l0] eqn:Ee; [discriminate|].
  destruct (pr_grant p) as [g'|] eqn:Eg; [|discriminate]. apply Nat.eqb_eq in H2. subst g'.
  apply Z.ltb_lt in H3.
  specialize (H st q bk lk sc o bv e0 p Hin Eb ltac:(rewrite Ee; left; reflexivity) Ep Eg).
  destruct H as [H|[t' [Ht' _]]]; [lia|].
  destruct (st_out _); [destruct Ht' | discriminate].
Qed.

(* ================================================================================================ *)
(* Part 10 — "revoked" is never mistaken for "unavailable" *)

Section NoGrace.
Variable re_match : str -> str -> bool.
Variable re_replace : str -> str -> str -> str.
Variable lower : str -> str.
Variable sd : sysdep.
Hypothesis Hwf : wf sd.
Hypothesis Hwired : wired re_match sd.

Lemma idp_groups_not_unavailable i email allowed :
  idp_groups i email allowed <> B.GrpErr B.ERateLimit /\ idp_groups i email allowed <> B.GrpErr B.EUnavailable.
Proof.
  unfold idp_groups. destruct allowed; [split; discriminate|]. destruct (dir_lookup email (i_groups i)); split; discriminate.
Qed.

(* authenticator reachable, IdP up, grant revoked: no back-channel answer is 429 / 503 *)
Lemma revoked_up_not_unavailable st q bk sc :
  i_down (st_idp st) = false -> is_revoked (st_idp st) (proxy_grant re_match sd st q) = true ->
  saw_unavailable (P.an_auth (bc_answers LinkUp (bc_run re_match lower sd st q LinkUp sc) bk)) = false.
Proof.
  intros Hup Hrev. destruct Hwired as [Hh Hw]. destruct (Hw q) as [k Hk]. pose proof (wired_kind re_match sd q k Hk) as Hkind.
  unfold saw_unavailable, unavail_ans. cbn [P.an_auth bc_answers PC.a_refresh PC.a_validate PC.a_profile http_of].
  cbn [bc_refresh bc_validate bc_profile bc_run]. unfold bc_serve.
  apply orb_false_iff. split; [apply orb_false_iff; split|].
  - (* refresh *)
    destruct (Hk B.p_refresh) as [Hf Hc]; [unfold leaves; cbn; tauto|].
    match goal with |- PC.unavailable (Z.of_N (A.r_status (A.serve _ _ ?rq0 _ ?an0 _))) = _ => set (rq := rq0); set (an := an0) end.
    assert (Hrt : AP.routed (sd_a sd) rq (proxy_slug re_match sd q) k B.p_refresh).
    { unfold rq, rq_refresh. apply bc_routed; auto. unfold leaves; cbn; tauto. }
    destruct (refresh_facts lower (sd_a sd) rq (a_oracles sd st no_aux) an (now_ns st) _ k Hrt) as [_ Hun]. cbv zeta in Hun.
    destruct (PC.unavailable _) eqn:Eu; [|reflexivity]. exfalso.
    apply PCP.unavailable_iff in Eu. destruct Hun as [e [He Hcase]]; [lia|].
    unfold an in He. rewrite Hkind in He.
    destruct (eff_refresh_err (st_idp st) k (proxy_grant re_match sd st q) None sc (or_intror Hrev)) as [e' [He' Hrk]].
    rewrite He' in He. inversion He; subst e'. rewrite (Hrk Hup) in Hcase. destruct Hcase; discriminate.
  - (* validate *)
    destruct (Hk B.p_validate) as [Hf Hc]; [unfold leaves; cbn; tauto|].
    match goal with |- PC.unavailable (Z.of_N (A.r_status (A.serve _ _ ?rq0 _ ?an0 _))) = _ => set (rq := rq0); set (an := an0) end.
    assert (Hrt : AP.routed (sd_a sd) rq (proxy_slug re_match sd q) k B.p_validate).
    { unfold rq, rq_validate. apply bc_routed; auto. unfold leaves; cbn; tauto. }
    destruct (validate_facts lower (sd_a sd) rq (a_oracles sd st no_aux) an (now_ns st) _ k Hrt) as [_ [H429 H503]]. cbv zeta in H429, H503.
    destruct (PC.unavailable _) eqn:Eu; [|reflexivity]. exfalso. apply PCP.unavailable_iff in Eu. lia.
  - (* profile *)
    destruct (Hk B.p_profile) as [Hf Hc]; [unfold leaves; cbn; tauto|].
    match goal with |- PC.unavailable (Z.of_N (A.r_status (A.serve _ _ ?rq0 _ ?an0 _))) = _ => set (rq := rq0); set (an := an0) end.
    assert (Hrt : AP.routed (sd_a sd) rq (proxy_slug re_match sd q) k B.p_profile).
    { unfold rq, rq_profile. apply bc_routed; auto. unfold leaves; cbn; tauto. }
    pose proof (profile_facts lower (sd_a sd) rq (a_oracles sd st no_aux) an (now_ns st) _ k Hrt) as Hun. cbv zeta in Hun.
    destruct (PC.unavailable _) eqn:Eu; [|reflexivity]. exfalso. apply PCP.unavailable_iff in Eu.
    assert (Hg : A.an_groups an = B.GrpErr B.ERateLimit \/ A.an_groups an = B.GrpErr B.EUnavailable) by (apply Hun; lia).
    unfold an, eff_answers in Hg. rewrite Hup in Hg. cbn [A.an_groups] in Hg.
    match type of Hg with idp_groups ?i ?e ?a = _ \/ _ => destruct (idp_groups_not_unavailable i e a) as [N1 N2] end.
    destruct Hg; contradiction.
Qed.

(* ... so a due check of a revoked lineage ends the session: no grace *)
Theorem revoked_answer_ends_session st q bk sc bv e p g t :
  Inv re_match lower sd st ->
  P.oc_backend (proxy_outcome re_match re_replace lower sd st q bk LinkUp sc) = Some bv ->
  In e (ReqHeaders.h_get ReqHeaders.k_xfe (P.bk_handler bv)) ->
  presented_p sd st q = Some p -> pr_grant p = Some g -> revoked_at st g t -> i_down (st_idp st) = false ->
  st_now st <= PC.s_refresh_dl (pr_s p) /\ st_now st <= PC.s_valid_dl (pr_s p).
Proof.
  intros HI Hb He Hp Hg Hrv Hup.
  destruct (served_identity re_match re_replace lower sd st q bk LinkUp sc bv HI Hb) as (u & Hr & _ & _ & Hid).
  destruct (Hid e He) as (Hsk & _ & s & Hck & Hok).
  destruct (session_cookie_presented sd st q s Hck) as [p' [Hp' [Hps Hpin]]].
  rewrite Hp in Hp'. inversion Hp'; subst p'. clear Hp'. rewrite Hps.
  assert (Hcb : is_callback q = false).
  { destruct (is_callback q) eqn:E; [|reflexivity]. apply is_callback_iff in E.
    unfold proxy_outcome in Hb.
    destruct (PP.backend_reached_only_if re_match re_replace lower _ _ _ _ _ _ Hb)
      as (_ & _ & _ & _ & _ & _ & _ & _ & _ & _ & _ & [Hrt|Hrt] & _); rewrite E in Hrt; discriminate. }
  assert (Hgr : proxy_grant re_match sd st q = Some g) by (unfold proxy_grant; rewrite Hcb, Hp; exact Hg).
  assert (Hrev : is_revoked (st_idp st) (proxy_grant re_match sd st q) = true) by (rewrite Hgr; eapply revoked_at_is; exact Hrv).
  destruct (no_confirmation re_match lower sd st q bk LinkUp sc Hwired (or_intror Hrev)) as [Hnv Hnr]. cbv zeta in Hnv, Hnr.
  pose proof (revoked_up_not_unavailable st q bk sc Hup Hrev) as Hns.
  set (a := P.an_auth (bc_answers LinkUp (bc_run re_match lower sd st q LinkUp sc) bk)) in *.
  destruct Hok as (_ & _ & _ & Hrf & Hvl & _).
  destruct (Z_lt_dec (PC.s_refresh_dl s) (st_now st)) as [Hrd|Hrd].
  - exfalso. destruct (Hrf Hrd) as [_ [[tok [dur [Hc _]]]|[Ho _]]]; [exact (Hnr _ _ Hc)|].
    destruct Ho as [Ho|[tok [dur [Hc _]]]]; [|exact (Hnr _ _ Hc)].
    unfold PC.redeem_refresh in Ho. unfold saw_unavailable, unavail_ans in Hns.
    destruct (PC.a_refresh a) as [c|]; [|discriminate].
    destruct (c =? 201); [destruct (PC.a_refresh_body a) as [[? ?]|]; discriminate|].
    destruct (PC.unavailable c); [discriminate|]. destruct (c =? 401); discriminate.
  - split; [lia|]. destruct (Z_lt_dec (PC.s_valid_dl s) (st_now st)) as [Hvd|Hvd]; [|lia]. exfalso.
    destruct (Hvl ltac:(lia) Hvd) as [[Hc _]|[Ho _]]; [exact (Hnv Hc)|].
    destruct Ho as [[code [Ha Hu]]|[Hc _]]; [|exact (Hnv Hc)].
    unfold saw_unavailable, unavail_ans in Hns. rewrite Ha, Hu in Hns. rewrite orb_true_r in Hns. discriminate.
Qed.

End NoGrace.

(* ================================================================================================ *)
(* Part 11 — names: the k-th sealed value of a kind is called  tag :: decimal k, so an issued value opens to
   exactly the record it was issued with (the direction the safety theorems do not need) *)

Lemma name_inj tag k1 k2 : name tag k1 = name tag k2 -> k1 = k2.
Proof.
  unfold name. intros H. inversion H as [Hd].
  apply AuthGates_proofs.dec_inj_nonneg in Hd; lia.
Qed.

Section Named.
Context {X : Type}.
Variable tag : N.
Variable val : X -> str.

Definition named_from (off : nat) (l : list X) : Prop :=
  forall k x, nth_error l k = Some x -> val x = name tag (off + k).
Definition named (l : list X) : Prop := named_from 0 l.

Lemma named_tail off y l : named_from off (y :: l) -> named_from (S off) l.
Proof. intros H k x Hk. specialize (H (S k) x Hk). rewrite H. f_equal. lia. Qed.

Lemma find_named_from : forall l off x, named_from off l -> In x l ->
  find (fun r => str_eqb (val r) (val x)) l = Some x.
Proof.
  induction l as [|y l IH]; intros off x Hn Hin; [destruct Hin|].
  cbn [find]. destruct (str_eqb (val y) (val x)) eqn:E.
  - destruct Hin as [->|Hin]; [reflexivity|]. exfalso.
    apply str_eqb_eq in E. apply In_nth_error in Hin as [k Hk].
    pose proof (Hn 0%nat y eq_refl) as H0. pose proof (Hn (S k) x Hk) as H1.
    rewrite E, H1 in H0. apply name_inj in H0. lia.
  - destruct Hin as [->|Hin]; [rewrite str_eqb_refl in E; discriminate|].
    eapply IH; [eapply named_tail; exact Hn | exact Hin].
Qed.

Lemma find_named l x : named l -> In x l -> find (fun r => str_eqb (val r) (val x)) l = Some x.
Proof. apply find_named_from. Qed.

Lemma named_app l x : named l -> val x = name tag (length l) -> named (l ++ [x]).
Proof.
  intros Hn Hx k y Hk. destruct (Nat.lt_ge_cases k (length l)) as [Hlt|Hge].
  - rewrite nth_error_app1 in Hk by exact Hlt. exact (Hn k y Hk).
  - rewrite nth_error_app2 in Hk by exact Hge.
    destruct (k - length l)%nat as [|j] eqn:Ej; cbn in Hk; [|destruct j; discriminate].
    inversion Hk; subst y. rewrite Hx. cbn. f_equal. lia.
Qed.

End Named.

Definition Names (st : state) : Prop :=
  named tag_p pr_val (st_p st) /\ named tag_a ar_val (st_a st) /\ named tag_c cr_val (st_c st) /\ named tag_s mr_val (st_m st).

Lemma names_init t0 : Names (init t0).
Proof. unfold Names, named, named_from, init. cbn. repeat split; intros k x H; destruct k; discriminate. Qed.

Lemma add_cookies_named slug g now : forall ss l, named tag_a ar_val l -> named tag_a ar_val (add_cookies l slug g now ss).
Proof.
  induction ss as [|s ss IH]; intros l Hl; cbn [add_cookies]; [exact Hl|].
  apply IH. apply named_app; [exact Hl | reflexivity].
Qed.

Section NamesStep.
Variable re_match : str -> str -> bool.
Variable re_replace : str -> str -> str -> str.
Variable lower : str -> str.
Variable sd : sysdep.

Lemma names_step st e : Names st -> Names (fst (SystemAll.step re_match re_replace lower sd st e)).
Proof.
  intros (Hp & Ha & Hc & Hm). destruct e as [dt|c|q bk lk sc|q x sc]; cbn [SystemAll.step].
  - cbn. repeat split; assumption.
  - cbn. repeat split; assumption.
  - unfold proxy_step. cbn [fst]. unfold Names. cbn [st_p st_a st_c st_m].
    split; [|split; [exact Ha|split; [exact Hc|]]].
    + destruct (new_prec _ _ _ _ _) as [r|] eqn:En; [|exact Hp]. apply named_app; [exact Hp|].
      unfold new_prec in En. destruct (P.oc_session _); try discriminate. destruct (P.oc_upstream _); try discriminate.
      destruct (is_callback q); [inversion En; reflexivity|]. destruct (presented_p sd st q); [|discriminate]. inversion En; reflexivity.
    + destruct (new_mrec _ _ _ _) as [m|] eqn:En; [|exact Hm]. apply named_app; [exact Hm|].
      unfold new_mrec in En. destruct (P.oc_loc _); try discriminate; inversion En; reflexivity.
  - destruct (auth_step lower sd st q x sc) as [st1 o] eqn:E. unfold auth_step in E. inversion E; subst. cbn [fst].
    unfold Names. cbn [st_p st_a st_c st_m].
    split; [exact Hp|]. split; [apply add_cookies_named; exact Ha|]. split; [|exact Hm].
    unfold new_crecs. destruct (A.r_loc _); try (rewrite app_nil_r; exact Hc). apply named_app; [exact Hc | reflexivity].
Qed.

Lemma run_names : forall evs st st' tr, SystemAll.run re_match re_replace lower sd st evs = (st', tr) -> Names st ->
  Names st' /\ forall s e o, In (s, e, o) tr -> Names s.
Proof.
  induction evs as [|e evs IH]; intros st st' tr Hr Hn; cbn [SystemAll.run] in Hr.
  - inversion Hr; subst. split; [exact Hn|]. intros s e o [].
  - destruct (SystemAll.step re_match re_replace lower sd st e) as [st1 o1] eqn:E1.
    destruct (SystemAll.run re_match re_replace lower sd st1 evs) as [st2 tr2] eqn:E2. inversion Hr; subst.
    pose proof (names_step st e Hn) as Hn1. rewrite E1 in Hn1. cbn [fst] in Hn1.
    destruct (IH st1 st' tr2 E2 Hn1) as [H1 H2]. split; [exact H1|].
    intros s e0 o [Heq|Hin]; [inversion Heq; subst; exact Hn | exact (H2 s e0 o Hin)].
Qed.

End NamesStep.

(* an issued code is found under its own name *)
Lemma find_c_named st c : Names st -> In c (st_c st) -> find_c st (cr_val c) = Some c.
Proof. intros (_ & _ & Hc & _) Hin. unfold find_c. apply (find_named tag_c cr_val); assumption. Qed.

(* ================================================================================================ *)
(* Part 12 — the back-channel adapter is faithful on byte strings: what the authenticator's ParseForm reads off
   the request the proxy model builds (url.Values.Encode) is what the proxy put in *)

Local Open Scope N_scope.

Definition bytes (s : str) : Prop := Forall (fun c => c < 256) s.

Lemma hexd_ok n : n < 16 -> B.ishex (hexd n) = true /\ B.unhex (hexd n) = n.
Proof.
  intros H. unfold hexd, B.ishex, B.unhex. destruct (n <? 10) eqn:E.
  - assert (n < 10) by lia. split; [lia|].
    replace ((48 <=? 48 + n) && (48 + n <=? 57)) with true by lia. lia.
  - assert (10 <= n) by lia. split; [lia|].
    replace ((48 <=? 55 + n) && (55 + n <=? 57)) with false by lia.
    replace ((97 <=? 55 + n) && (55 + n <=? 102)) with false by lia.
    replace ((65 <=? 55 + n) && (55 + n <=? 70)) with true by lia. lia.
Qed.

Lemma unreserved_plain c : unreserved c = true -> c <> 37 /\ c <> 43 /\ c <> 38 /\ c <> 59 /\ c <> 61.
Proof. unfold unreserved. intros H. lia. Qed.

Lemma unescape_qesc s : bytes s -> B.unescape_q (qesc s) = Some s.
Proof.
  induction 1 as [|c s Hc Hs IH]; [reflexivity|]. cbn [qesc].
  destruct (unreserved c) eqn:Eu.
  - apply unreserved_plain in Eu as (H37 & H43 & _). cbn [B.unescape_q].
    replace (c =? 37) with false by lia. replace (c =? 43) with false by lia. rewrite IH. reflexivity.
  - destruct (c =? 32) eqn:E32.
    + assert (c = 32) by lia. subst c. cbn [B.unescape_q]. cbn. rewrite IH. reflexivity.
    + cbn [B.unescape_q]. cbn [N.eqb Pos.eqb].
      destruct (hexd_ok (c / 16)) as [H1 H2]. { apply N.div_lt_upper_bound; lia. }
      destruct (hexd_ok (c mod 16)) as [H3 H4]. { apply N.mod_lt. lia. }
      rewrite H1, H3. cbn [andb]. rewrite IH, H2, H4. cbn [option_map]. f_equal. f_equal.
      pose proof (N.div_mod c 16 ltac:(lia)). lia.
Qed.

Definition sep_free (s : str) : Prop := Forall (fun c => c <> 38 /\ c <> 59 /\ c <> 61) s.

Lemma hexd_plain n : n < 16 -> hexd n <> 38 /\ hexd n <> 59 /\ hexd n <> 61.
Proof. intros H. unfold hexd. destruct (n <? 10) eqn:E; lia. Qed.

Lemma qesc_sep_free s : bytes s -> sep_free (qesc s).
Proof.
  induction 1 as [|c s Hc Hs IH]; [constructor|]. cbn [qesc].
  destruct (unreserved c) eqn:Eu.
  - constructor; [|exact IH]. apply unreserved_plain in Eu. tauto.
  - destruct (c =? 32); [constructor; [lia | exact IH]|].
    constructor; [lia|]. constructor; [apply hexd_plain; apply N.div_lt_upper_bound; lia|].
    constructor; [apply hexd_plain; apply N.mod_lt; lia | exact IH].
Qed.

Lemma cut_on_app a b : Forall (fun c => c <> 61) a -> B.cut_on 61 (a ++ 61 :: b) = (a, b).
Proof.
  induction 1 as [|c a Hc Ha IH]; cbn [app B.cut_on]; [reflexivity|].
  replace (c =? 61) with false by lia. rewrite IH. reflexivity.
Qed.

Lemma split_on_no_sep s : Forall (fun c => c <> 38) s -> split_on 38 s = [s].
Proof.
  induction 1 as [|c s Hc Hs IH]; [reflexivity|]. cbn [split_on]. replace (c =? 38) with false by lia. rewrite IH. reflexivity.
Qed.

Lemma split_on_app a b : Forall (fun c => c <> 38) a -> split_on 38 (a ++ 38 :: b) = a :: split_on 38 b.
Proof.
  induction 1 as [|c a Hc Ha IH]; cbn [app split_on]; [reflexivity|].
  replace (c =? 38) with false by lia. rewrite IH. reflexivity.
Qed.

Definition pair_text (p : str * str) : str := qesc (fst p) ++ 61 :: qesc (snd p).

Lemma sep_free_weaken s : sep_free s -> Forall (fun c => c <> 38) s /\ Forall (fun c => c <> 61) s /\ Forall (fun c => c <> 59) s.
Proof. intros H. repeat split; eapply Forall_impl; try exact H; cbn; intros; tauto. Qed.

Lemma pair_text_no_amp p : bytes (fst p) -> bytes (snd p) -> Forall (fun c => c <> 38) (pair_text p).
Proof.
  intros Hk Hv. unfold pair_text. apply Forall_app. split; [apply sep_free_weaken, qesc_sep_free, Hk|].
  constructor; [lia|]. apply sep_free_weaken, qesc_sep_free, Hv.
Qed.

Lemma parse_segment_pair p : bytes (fst p) -> bytes (snd p) -> B.parse_segment (pair_text p) = B.SegPair (fst p) (snd p).
Proof.
  intros Hk Hv. unfold B.parse_segment, pair_text.
  assert (Hsemi : existsb (N.eqb 59) (qesc (fst p) ++ 61 :: qesc (snd p)) = false).
  { apply not_true_is_false. intros E. apply existsb_exists in E as [c [Hin Hc]]. assert (c = 59) by lia. subst c.
    apply in_app_or in Hin as [Hin|[Hin|Hin]]; [|discriminate|].
    - pose proof (proj2 (proj2 (sep_free_weaken _ (qesc_sep_free _ Hk)))) as F. rewrite Forall_forall in F. exact (F _ Hin eq_refl).
    - pose proof (proj2 (proj2 (sep_free_weaken _ (qesc_sep_free _ Hv)))) as F. rewrite Forall_forall in F. exact (F _ Hin eq_refl). }
  rewrite Hsemi.
  assert (Hnil : B.is_nil (qesc (fst p) ++ 61 :: qesc (snd p)) = false) by (destruct (qesc (fst p)); reflexivity).
  rewrite Hnil. rewrite cut_on_app by (apply sep_free_weaken, qesc_sep_free, Hk).
  rewrite (unescape_qesc _ Hk), (unescape_qesc _ Hv). reflexivity.
Qed.

Definition bytes_pairs (ps : list (str * str)) : Prop := Forall (fun p => bytes (fst p) /\ bytes (snd p)) ps.

Lemma encode_cons k v p2 ps : encode_pairs ((k, v) :: p2 :: ps) = pair_text (k, v) ++ 38 :: encode_pairs (p2 :: ps).
Proof. destruct p2 as [k2 v2]. unfold pair_text. cbn [fst snd]. cbn [encode_pairs]. rewrite <- app_assoc. reflexivity. Qed.

Lemma split_encode ps : bytes_pairs ps -> ps <> [] -> split_on 38 (encode_pairs ps) = map pair_text ps.
Proof.
  induction 1 as [|p ps [Hk Hv] Hps IH]; [contradiction|]. intros _.
  destruct ps as [|p2 ps].
  - destruct p as [k v]. cbn [encode_pairs map]. apply (split_on_no_sep (pair_text (k, v))). apply pair_text_no_amp; assumption.
  - destruct p as [k v]. rewrite encode_cons.
    rewrite split_on_app by (apply (pair_text_no_amp (k, v)); assumption).
    rewrite IH by discriminate. reflexivity.
Qed.

Lemma parse_segments_pairs ps : bytes_pairs ps -> B.parse_segments (map pair_text ps) = (ps, false).
Proof.
  induction 1 as [|p ps [Hk Hv] Hps IH]; [reflexivity|]. cbn [map B.parse_segments]. rewrite IH.
  rewrite (parse_segment_pair p Hk Hv). destruct p; reflexivity.
Qed.

Lemma parse_query_encode ps : bytes_pairs ps -> ps <> [] -> B.parse_query (encode_pairs ps) = (ps, false).
Proof. intros Hb Hne. unfold B.parse_query. rewrite (split_encode ps Hb Hne). apply parse_segments_pairs, Hb. Qed.

Lemma bytes_bs_literals :
  bytes B.k_client_id /\ bytes B.k_client_secret /\ bytes B.k_code /\ bytes k_grant_type /\ bytes v_auth_code /\
  bytes A.k_redirect_uri /\ bytes B.k_refresh_token /\ bytes P.p_callback.
Proof. repeat split; unfold bytes; repeat constructor. Qed.

(* SYS_adapter_redeem: for byte strings, the authenticator reads off the proxy model's redeem request exactly the
   client id, the client secret and the code the proxy put in *)
Theorem redeem_request_faithful sd slug host code :
  bytes (sd_pid sd) -> bytes (sd_psecret sd) -> bytes code -> bytes (callback_uri sd host) ->
  let r := A.inner (rq_redeem sd slug host code) B.p_redeem in
  B.presented_id r = (if B.is_nil (sd_pid sd) then [] else sd_pid sd) /\
  B.presented_secret r = (if B.is_nil (sd_psecret sd) then [] else sd_psecret sd) /\
  B.presented_code r = code /\ snd (B.compute_form r) = false.
Proof.
  intros Hi Hs Hc Hu. cbv zeta.
  destruct bytes_bs_literals as (L1 & L2 & L3 & L4 & L5 & L6 & _).
  set (ps := [(B.k_client_id, sd_pid sd); (B.k_client_secret, sd_psecret sd); (B.k_code, code);
              (k_grant_type, v_auth_code); (A.k_redirect_uri, callback_uri sd host)]).
  assert (Hb : bytes_pairs ps) by (unfold ps; repeat constructor; assumption).
  assert (Hq : B.parse_query (encode_pairs ps) = (ps, false)) by (apply parse_query_encode; [exact Hb | discriminate]).
  assert (Hf : B.compute_form (A.inner (rq_redeem sd slug host code) B.p_redeem) = (ps, false)).
  { unfold B.compute_form, A.inner, rq_redeem, bc_request. cbn [B.rq_method A.q_method B.rq_ctype A.q_ctype B.rq_body A.q_body B.rq_query A.q_query].
    replace (B.reads_body B.m_post) with true by reflexivity. cbn [urlenc B.ct_urlenc B.ct_err].
    fold ps. rewrite Hq. cbn [orb]. replace (B.parse_query []) with (@nil (str * str), false) by reflexivity.
    rewrite app_nil_r. reflexivity. }
  unfold B.presented_id, B.presented_secret, B.presented_code. rewrite Hf. cbn [fst snd].
  unfold ps. split; [|split; [|split]].
  - cbn [B.form_get]. replace (str_eqb B.k_client_id B.k_client_id) with true by reflexivity.
    destruct (B.is_nil (sd_pid sd)) eqn:E; [|reflexivity].
    unfold B.url_query, A.inner, rq_redeem, bc_request. cbn. reflexivity.
  - cbn [B.form_get]. replace (str_eqb B.k_client_secret B.k_client_id) with false by reflexivity.
    replace (str_eqb B.k_client_secret B.k_client_secret) with true by reflexivity.
    destruct (B.is_nil (sd_psecret sd)) eqn:E; [|reflexivity].
    unfold A.inner, rq_redeem, bc_request. cbn. reflexivity.
  - cbn [B.form_get]. replace (str_eqb B.k_code B.k_client_id) with false by reflexivity.
    replace (str_eqb B.k_code B.k_client_secret) with false by reflexivity.
    replace (str_eqb B.k_code B.k_code) with true by reflexivity. reflexivity.
  - reflexivity.
Qed.

Local Open Scope Z_scope.

Corollary creds_presented_bytes sd slug host code :
  bytes (sd_pid sd) -> bytes (sd_psecret sd) -> bytes code -> bytes (callback_uri sd host) ->
  creds_presented sd slug host code -> sd_pid sd = A.d_client_id (sd_a sd) /\ sd_psecret sd = A.d_client_secret (sd_a sd).
Proof.
  intros Hi Hs Hc Hu [H1 H2]. destruct (redeem_request_faithful sd slug host code Hi Hs Hc Hu) as (F1 & F2 & _).
  rewrite F1 in H1. rewrite F2 in H2.
  split; [destruct (sd_pid sd); exact H1 | destruct (sd_psecret sd); exact H2].
Qed.
