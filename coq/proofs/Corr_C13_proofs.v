(* The monitor of Corr_C13 accepts the model's own predictions: the specification applied to the
   implementation's observations (routing by search in the configuration list, the routed
   upstream's policy / provider / backend, isolation) is what the theorems of Hostmux_proofs
   establish for the model. Also: the history the correspondence executes is a run of the
   history machine the isolation theorem quantifies over. *)
From V Require Import Base Base_proofs CorrBase Validators Hostmux Hostmux_proofs Corr_C13.

Lemma str_eqb_sym a b : str_eqb a b = str_eqb b a.
Proof. apply eq_true_iff_eq. rewrite !str_eqb_eq. split; congruence. Qed.

Lemma session_eqb_refl s : session_eqb s s = true.
Proof. unfold session_eqb. rewrite !str_eqb_refl. reflexivity. Qed.

Lemma ostr_eqb_refl o : ostr_eqb o o = true.
Proof. destruct o; simpl; [apply str_eqb_refl | reflexivity]. Qed.

Lemma obs_eqb_refl o : obs_eqb o o = true.
Proof.
  unfold obs_eqb. rewrite N.eqb_refl, !ostr_eqb_refl.
  assert (H1: option_eqb N.eqb (o_backend o) (o_backend o) = true)
    by (destruct (o_backend o); simpl; [apply N.eqb_refl | reflexivity]).
  assert (H2: cookie_eqb (o_cookie o) (o_cookie o) = true)
    by (destruct (o_cookie o); simpl; try reflexivity; apply session_eqb_refl).
  rewrite H1, H2. reflexivity.
Qed.

Lemma obs_list_eqb_refl l : obs_list_eqb l l = true.
Proof. unfold obs_list_eqb. induction l as [|o l IH]; cbn [list_eqb]; [reflexivity|]. rewrite obs_eqb_refl. exact IH. Qed.

Section P.
Variable re_match : str -> str -> bool.
Variable re_replace : str -> str -> str -> str.
Variable lower : str -> str.
Variable dflt : str.

(* routing by search in the configuration list = routing by the router proxy.New builds *)
Lemma spec_route_model cfg h :
  route_of re_match cfg h = match spec_route re_match cfg h with Some u => RUp u | None => RDefault end.
Proof.
  rewrite route_of_spec. unfold spec_route.
  destruct (find (is_simple_for h) (rev cfg)); [reflexivity|].
  destruct (find (is_rw_match re_match h) cfg); reflexivity.
Qed.

Lemma spec_request_model fixed cfg q :
  spec_request re_match re_replace lower (provider_slug fixed dflt) cfg q =
  handle re_match re_replace lower fixed dflt cfg q.
Proof.
  unfold spec_request, handle. destruct (str_eqb (q_path q) ping_path); [reflexivity|].
  rewrite spec_route_model. destruct (spec_route re_match cfg (q_host q)) as [u|]; [|reflexivity].
  unfold proxy_request, whitelisted, forward, target, spec_target.
  destruct (existsb (fun p => re_match p (q_path q)) (u_skip u)); [reflexivity|].
  unfold authenticate. destruct (q_cookie q) as [s|]; [|reflexivity].
  rewrite (str_eqb_sym (s_upstream s) (q_host q)).
  destruct (str_eqb (s_slug s) (provider_slug fixed dflt u)); simpl; [|reflexivity].
  destruct (str_eqb (q_host q) (s_upstream s)); simpl; [|reflexivity].
  destruct (request_gate lower (u_policy u) (s_email s)); reflexivity.
Qed.

Lemma spec_flow_model cfg l : spec_flow re_match cfg l = flow_started re_match cfg l.
Proof.
  unfold spec_flow, flow_started. rewrite spec_route_model.
  destruct (spec_route re_match cfg (l_start l)) as [u|]; [|rewrite andb_false_r; reflexivity].
  reflexivity.
Qed.

Lemma spec_login_model fixed cfg l :
  spec_login re_match lower (provider_slug fixed dflt) cfg l = fst (callback re_match lower fixed dflt cfg l).
Proof.
  unfold spec_login, callback. rewrite spec_route_model, spec_flow_model.
  destruct (spec_route re_match cfg (l_host l)) as [u|]; [|reflexivity].
  destruct (flow_started re_match cfg l); [|reflexivity]. cbn [andb].
  unfold callback_on. destruct (login_admit lower (u_policy u) (l_email l) (l_groups l)); reflexivity.
Qed.

(* the monitor accepts every history whose observations are the model's predictions *)
Lemma monitor_accepts_model fixed bs cfg : forall xs st,
  bound st ->
  map obs_of xs = map (project bs) (xrun re_match re_replace lower dflt fixed cfg st xs) ->
  monitor re_match re_replace lower (provider_slug fixed dflt) bs cfg (logins st) xs = true.
Proof.
  induction xs as [|x xs IH]; intros st Hb Hobs; [reflexivity|].
  pose proof (step_bound re_match re_replace lower fixed dflt cfg st (to_event st x) Hb) as Hb1.
  cbn [xrun] in Hobs.
  destruct (step re_match re_replace lower fixed dflt cfg st (to_event st x)) as [st1 r] eqn:Es.
  cbn [map] in Hobs. inversion Hobs as [[Ho Hrest]]. clear Hobs. cbn [fst] in Hb1.
  destruct x as [l o|h p c o]; cbn [obs_of to_event] in *.
  - (* login *)
    cbn [step] in Es. destruct (callback re_match lower fixed dflt cfg l) as [r' os] eqn:Ec.
    inversion Es; subst st1 r'. clear Es. cbn [monitor].
    subst o. rewrite spec_login_model, Ec. cbn [fst]. rewrite obs_eqb_refl. cbn [andb].
    assert (Hi: issued_of l (project bs r) = match os with Some s => Some (l_host l, s) | None => None end).
    { unfold issued_of. cbn [project o_cookie].
      pose proof (callback_cookie re_match lower fixed dflt cfg l) as Hck. rewrite Ec in Hck. cbn [fst snd] in Hck.
      rewrite Hck. destruct os; reflexivity. }
    rewrite Hi. exact (IH _ Hb1 Hrest).
  - (* request *)
    cbn [step] in Es. inversion Es; subst st1 r. clear Es. cbn [monitor].
    subst o. rewrite spec_request_model, obs_eqb_refl. cbn [andb].
    rewrite (IH _ Hb Hrest), andb_true_r.
    destruct c as [|j|s]; try reflexivity. cbn [resolve_ref].
    destruct (nth_error (logins st) j) as [[[h1 s]|]|] eqn:En; try reflexivity.
    destruct (str_eqb h1 h) eqn:Eh; [reflexivity|]. cbn [orb].
    apply str_eqb_neq in Eh. apply nth_error_In in En. specialize (Hb h1 s En).
    set (q := {| q_host := h; q_path := p; q_cookie := Some s |}).
    assert (Ha: accepted (handle re_match re_replace lower fixed dflt cfg q) = false).
    { apply handle_other_host with (s := s); [reflexivity|]. cbn [q_host q]. congruence. }
    apply user_only_when_accepted in Ha. cbn [project o_user]. rewrite Ha.
    destruct (match r_target _ with Some t => backend_of _ t | None => None end); reflexivity.
Qed.

(* what the correspondence executes is a run of the history machine *)
Lemma xrun_is_run fixed cfg : forall xs st,
  exists evs, length evs = length xs /\
    map snd (snd (run re_match re_replace lower fixed dflt cfg st evs)) =
    xrun re_match re_replace lower dflt fixed cfg st xs.
Proof.
  induction xs as [|x xs IH]; intros st; [exists []; split; reflexivity|].
  cbn [xrun]. destruct (step re_match re_replace lower fixed dflt cfg st (to_event st x)) as [st1 r] eqn:Es.
  destruct (IH st1) as [evs [Hl He]]. exists (to_event st x :: evs). split; [simpl; congruence|].
  cbn [run]. rewrite Es. destruct (run re_match re_replace lower fixed dflt cfg st1 evs) as [st2 tr] eqn:Er.
  cbn [snd map] in *. rewrite He. reflexivity.
Qed.

End P.

(* the judge accepts the repaired model's predictions outright, and today's model's predictions
   up to the known finding (never as an unattributed violation) *)
Lemma judge_accepts_fixed_model dflt svcs mt rt bs evs :
  map obs_of evs = map (project bs) (xrun (tab_match mt) (tab_replace rt) lower_ascii dflt true (resolve svcs) init evs) ->
  judge (CHist dflt svcs mt rt bs evs) = 0.
Proof.
  intros H. unfold judge. rewrite <- H, obs_list_eqb_refl, andb_false_r.
  pose proof (monitor_accepts_model (tab_match mt) (tab_replace rt) lower_ascii dflt true bs (resolve svcs) evs init
                (init_bound) H) as Hm.
  change (provider_slug true dflt) with (own_slug dflt) in Hm. cbn [logins init] in Hm. rewrite Hm. reflexivity.
Qed.

Lemma judge_accepts_today_model dflt svcs mt rt bs evs :
  map obs_of evs = map (project bs) (xrun (tab_match mt) (tab_replace rt) lower_ascii dflt false (resolve svcs) init evs) ->
  judge (CHist dflt svcs mt rt bs evs) = 0 \/ judge (CHist dflt svcs mt rt bs evs) = 101.
Proof.
  intros H. unfold judge. rewrite <- H, obs_list_eqb_refl. cbn [negb andb].
  pose proof (monitor_accepts_model (tab_match mt) (tab_replace rt) lower_ascii dflt false bs (resolve svcs) evs init
                (init_bound) H) as Hm.
  change (provider_slug false dflt) with (fun _ : upstream => dflt) in Hm. cbn [logins init] in Hm. rewrite Hm.
  destruct (monitor (tab_match mt) (tab_replace rt) lower_ascii (own_slug dflt) bs (resolve svcs) [] evs);
    [left | right]; reflexivity.
Qed.
