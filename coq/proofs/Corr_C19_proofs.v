(* The monitors of Corr_C19 accept the model's own predictions: this ties the boolean specification
   applied to implementation observations to the theorems of SignOut_proofs / SignOutCompose_proofs. *)
From V Require Import Base Base_proofs CorrBase SignOut SignOut_proofs Validators ProxyCore ProxyCore_proofs
  SignOutCompose_proofs Corr_C19.
From Coq Require Import ZifyBool.

Lemma strs_eqb_refl l : strs_eqb l l = true.
Proof. apply strs_eqb_eq. reflexivity. Qed.

Section M.
Variable mac : str -> str -> str.

Lemma auth_monitor_accepts_model o : auth_holds_on mac o (auth_model mac o) = true.
Proof.
  unfold auth_holds_on, auth_model, request_valid, auth_sign_out.
  destruct (ao_req o) as [m uri sg ts parses dom ck idp]. cbn [q_method q_uri q_sig q_ts q_parses q_in_domain q_cookie q_idp].
  destruct m; cbn [is_post is_get].
  - (* GET *)
    destruct dom; cbn [negb andb orb]; [|reflexivity].
    destruct (valid_signature mac (ao_secret o) uri sg ts parses (ao_clock o)); cbn [negb andb orb]; [|reflexivity].
    destruct ck; reflexivity.
  - (* POST *)
    destruct dom; cbn [negb andb orb]; [|reflexivity].
    destruct (valid_signature mac (ao_secret o) uri sg ts parses (ao_clock o)); cbn [negb andb orb]; [|reflexivity].
    destruct ck as [| |s]; cbn [r_clears r_revoked r_body is_nil negb andb orb is_redirect_to].
    + reflexivity.
    + rewrite str_eqb_refl. reflexivity.
    + destruct (revoke_ok (ao_provider o) idp); cbn [r_clears r_revoked r_body is_nil negb andb orb is_redirect_to];
        rewrite ?str_eqb_refl, ?strs_eqb_refl; reflexivity.
  - (* other methods *)
    rewrite !andb_false_r. reflexivity.
Qed.

Lemma proxy_monitor_accepts_model base secret secure origin_form host clock now :
  host <> [] -> (clock <= now <= clock + 60)%Z ->
  let r := proxy_sign_out mac base secret secure origin_form host now in
  proxy_holds mac {| po_base := base; po_secret := secret; po_secure := secure; po_origin_form := origin_form;
                     po_host := host; po_clock := clock; po_ts := now; po_status := p_status r;
                     po_cleared := p_clears r; po_live := p_sets_live r; po_calls := []; po_obs_base := l_base (p_loc r);
                     po_query := encode_query (l_params (p_loc r)); po_params := l_params (p_loc r) |} = true.
Proof.
  intros Hne Hclk. cbv zeta. unfold proxy_holds, proxy_sign_out.
  cbn [po_base po_secret po_secure po_origin_form po_host po_clock po_ts po_status po_cleared po_live po_calls po_obs_base po_query po_params
       p_status p_clears p_sets_live p_asks p_loc l_base l_params get_sign_out_url].
  destruct (loc_fields mac base secret (url_string (proxy_scheme secure origin_form) host) now) as [E1 [E2 E3]].
  cbn [get_sign_out_url l_params] in E1, E2, E3. rewrite E1, E2, E3.
  rewrite !str_eqb_refl. cbn [map fst]. rewrite strs_eqb_refl. cbn [andb].
  replace (clock <=? now)%Z with true by lia. replace (now <=? clock + 60)%Z with true by lia.
  change ((302 =? 302)%Z) with true. cbn [andb]. rewrite !andb_true_r.
  rewrite (url_string_escaped (proxy_scheme secure origin_form) host (or_intror Hne)).
  destruct origin_form; destruct secure; cbn [proxy_scheme negb andb app s_https s_http colon_slash_slash];
    rewrite ?str_eqb_refl, ?orb_true_r; reflexivity.
Qed.

End M.

Lemma idp_revoked_b_spec a : idp_revoked_b a = true -> revoked_answers a.
Proof. intros H. apply revoked_answers_b_spec. exact H. Qed.

(* if the observation agrees with the model on the projected observables, the property clause
   "a saved copy is refused at its next due check" holds of the observation *)
Lemma reuse_monitor_sound revoked o : reuse_mismatch o = false -> reuse_holds revoked o = true.
Proof.
  unfold reuse_mismatch, reuse_holds. intros H.
  destruct (token_revoked revoked (ro_session o) && idp_revoked_b (ro_answers o) && check_due o) eqn:E; [|reflexivity].
  cbn [negb orb]. apply andb_true_iff in E as [E Hdue]. apply andb_true_iff in E as [_ Hr].
  apply idp_revoked_b_spec in Hr.
  assert (Hd : (s_valid_dl (ro_session o) < ro_now o \/ s_refresh_dl (ro_session o) < ro_now o)%Z).
  { unfold check_due in Hdue. apply orb_true_iff in Hdue. lia. }
  destruct (old_copy_not_served lower_ascii (ro_now o) (ro_cfg o) reuse_policy (reuse_request o) (ro_session o) (ro_answers o)
              eq_refl eq_refl eq_refl Hr Hd) as [Hs Hc].
  apply negb_false_iff in H. apply andb_true_iff in H as [H Hcalls]. apply andb_true_iff in H as [Hout Heff].
  rewrite Hc in Heff. cbn [effect_code] in Heff. rewrite <- (proj1 (N.eqb_eq _ _) Heff). cbn [N.eqb Pos.eqb].
  rewrite andb_true_r. unfold served in Hs.
  destruct (rs_out (handle lower_ascii (ro_now o) (ro_cfg o) reuse_policy (reuse_request o) (ro_answers o))); [discriminate| |].
  - apply andb_true_iff in Hout as [Hout _]. apply andb_true_iff in Hout as [Hout _]. exact Hout.
  - apply andb_true_iff in Hout as [Hout _]. exact Hout.
Qed.

(* what the correspondence executes for a concurrent step is a run of the single-flight transition
   system; for a batch of one it is the sequential handler *)
Lemma conc_model_is_crun mac o :
  conc_model mac o = snd (crun mac (co_secret o) (co_provider o) (map (CReq (co_clock o)) (co_reqs o))).
Proof. reflexivity. Qed.

Lemma conc_model_single mac secret p clock q bodies calls :
  conc_model mac {| co_secret := secret; co_provider := p; co_clock := clock; co_reqs := [q]; co_bodies := bodies; co_calls := calls |}
  = [auth_sign_out mac secret p clock q].
Proof.
  unfold conc_model, crun. cbn [map co_secret co_provider co_clock co_reqs crun_from].
  pose proof (cstep_alone mac secret p cinit clock q eq_refl) as H.
  destruct (cstep mac secret p cinit (CReq clock q)) as [st1 o]. cbn [snd] in *. subst o. reflexivity.
Qed.
