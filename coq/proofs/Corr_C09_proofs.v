(* The monitors of Corr_C09 accept the model's own predictions, for every input and every
   history: this ties the boolean specifications that are applied to the implementation's
   observations to the theorems of AuthFlow_proofs. *)
From V Require Import Base Base_proofs CorrBase Validators Validators_proofs AuthFlow AuthFlow_proofs.
From V Require Corr_C11 Corr_C11_proofs.
From V Require Import Corr_C09.
From Coq Require Import ZifyN ZifyNat ZifyBool.
Local Open Scope Z_scope.

(* ---------- reflexivity of the comparison ---------- *)
Lemma close_z_refl x : close_z x x = true.
Proof. unfold close_z. apply andb_true_iff. split; apply Z.leb_le; lia. Qed.

Lemma sess_close_refl s : sess_close s s = true.
Proof. unfold sess_close. rewrite !str_eqb_refl, !close_z_refl. reflexivity. Qed.

Lemma list_eqb_refl {A} (f : A -> A -> bool) (Hf : forall x, f x x = true) l : list_eqb f l l = true.
Proof. induction l as [|x l IH]; simpl; [reflexivity|]. rewrite Hf, IH. reflexivity. Qed.

Lemma op_close_refl o : op_close o o = true.
Proof. destruct o; simpl; [reflexivity | apply sess_close_refl]. Qed.

Lemma idp_call_eqb_refl x : idp_call_eqb x x = true.
Proof. destruct x; simpl; apply str_eqb_refl. Qed.

Lemma bool_eqb_refl b : bool_eqb b b = true.
Proof. destruct b; reflexivity. Qed.

Lemma opt_close_refl {A} (f : A -> A -> bool) (Hf : forall x, f x x = true) o : opt_close f o o = true.
Proof. destruct o; simpl; [apply Hf | reflexivity]. Qed.

Lemma option_str_eqb_refl o : option_eqb str_eqb o o = true.
Proof. destruct o; simpl; [apply str_eqb_refl | reflexivity]. Qed.

Lemma si_agree_refl o : si_agree o o = true.
Proof.
  unfold si_agree. rewrite !N.eqb_refl, !bool_eqb_refl, (opt_close_refl _ sess_close_refl),
    (list_eqb_refl _ op_close_refl), (list_eqb_refl _ idp_call_eqb_refl). reflexivity.
Qed.

Lemma cb_agree_refl o : cb_agree o o = true.
Proof.
  unfold cb_agree. rewrite N.eqb_refl, option_str_eqb_refl, (opt_close_refl _ sess_close_refl),
    bool_eqb_refl, (list_eqb_refl _ idp_call_eqb_refl). reflexivity.
Qed.

(* ---------- SplitN read through Split + Join ---------- *)
Lemma split_on_nonempty sep s : split_on sep s <> [].
Proof.
  induction s as [|c s IH]; simpl; [discriminate|].
  destruct (N.eqb c sep); [discriminate|]. destruct (split_on sep s); [discriminate | discriminate].
Qed.

Lemma join_split sep s : join [sep] (split_on sep s) = s.
Proof.
  induction s as [|c s IH]; simpl; [reflexivity|].
  destruct (N.eqb_spec c sep) as [->|Hne].
  - destruct (split_on sep s) as [|x r] eqn:E; [exfalso; eapply split_on_nonempty; eassumption|].
    cbn [join app] in *. rewrite IH. reflexivity.
  - destruct (split_on sep s) as [|x r] eqn:E; [exfalso; eapply split_on_nonempty; eassumption|].
    destruct r as [|y r]; cbn [join app] in *; rewrite <- IH; reflexivity.
Qed.

Lemma split_on_prefix sep a b : ~ In sep a -> split_on sep (a ++ sep :: b) = a :: split_on sep b.
Proof.
  induction a as [|c a IH]; intros Hn; simpl.
  - rewrite N.eqb_refl. reflexivity.
  - destruct (N.eqb_spec c sep) as [->|Hne]; [exfalso; apply Hn; left; reflexivity|].
    rewrite IH by (intros H; apply Hn; right; exact H). reflexivity.
Qed.

Lemma nonce_and_redirect_spec nonce redirect :
  ~ In colon nonce -> nonce_and_redirect (nonce ++ colon :: redirect) = Some (nonce, redirect).
Proof.
  intros Hn. unfold nonce_and_redirect. rewrite split_on_prefix by exact Hn.
  destruct (split_on colon redirect) as [|r rest] eqn:E; [exfalso; eapply split_on_nonempty; eassumption|].
  rewrite <- E, join_split. reflexivity.
Qed.

Section P.
Variable lower : str -> str.

(* ---------- the rule of the model is the documented rule ---------- *)
Lemma rule_passes_spec cfg email :
  rule_guard lower cfg = true -> rule_passes lower cfg email = spec_rule lower cfg email.
Proof.
  unfold rule_guard, spec_rule. rewrite rule_passes_eq. destruct (c_addresses cfg) as [|x a]; intros G.
  - apply Corr_C11_proofs.spec_domain_model. exact G.
  - apply Corr_C11_proofs.spec_address_model.
Qed.

Lemma derived_from_of now s0 s' :
  s_email s' = s_email s0 -> s_rtok s' = s_rtok s0 -> s_lifetime s' = s_lifetime s0 ->
  (now <= s_refresh s0 -> s' = s0) ->
  derived_from now (CkSealed KCookie s0) s' = true.
Proof.
  intros He Hr Hl Hs. unfold derived_from. rewrite He, Hr, Hl, !str_eqb_refl, Z.eqb_refl. cbn [andb].
  destruct (Z.ltb_spec (s_refresh s0) now) as [H|H]; [reflexivity|].
  rewrite (Hs H), str_eqb_refl, Z.eqb_refl. reflexivity.
Qed.

(* ---------- /sign_in: the monitor accepts the model ---------- *)
Lemma si_holds_model cfg p now rq c rr vr :
  rule_guard lower cfg = true ->
  si_holds lower cfg p now rq c rr vr (si_obs_of (sign_in_route lower cfg p now rq c rr vr)) = true.
Proof.
  intros G. unfold si_holds, si_obs_of. cbn [so_has_code so_status so_code so_ops so_calls so_leak so_page].
  set (r := sign_in_route lower cfg p now rq c rr vr).
  apply andb_true_iff. split.
  - pose proof (response_shape lower cfg p now rq c rr vr) as Sh. cbv zeta in Sh. fold r in Sh.
    destruct (r_code r) as [s|] eqn:Rc; cbn [is_some].
    + destruct Sh as [St _]. rewrite St.
      destruct (code_sound lower _ _ _ _ _ _ _ _ Rc) as [[G1 [G2 [G3 [G4 _]]]] [s0 [-> [L [R [Em [Li [Rt [_ D]]]]]]]]].
      fold r in D.
      assert (Hd : derived_from now (CkSealed KCookie s0) s = true).
      { apply derived_from_of; try assumption.
        destruct D as [[Hlt _]|[_ [Heq _]]]; [intros; lia | intros _; exact Heq]. }
      rewrite Hd. unfold spec_code_allowed. rewrite G1, G2, G3, G4. cbn [andb N.eqb Pos.eqb].
      rewrite <- (rule_passes_spec cfg _ G), R.
      assert (E : (now <=? s_lifetime s0) = true) by (apply Z.leb_le; exact L). rewrite E. cbn [andb].
      destruct D as [[Hlt [Hrt [jerr [tok [dur [-> [_ Hc]]]]]]]|[Hge [_ [_ [[j [a [-> [Hv1 Hv2]]]] Hc]]]]].
      * assert (E2 : (s_refresh s0 <? now) = true) by (apply Z.ltb_lt; exact Hlt). rewrite E2, Hc.
        apply is_nil_false in Hrt. rewrite Hrt. cbn. rewrite str_eqb_refl. reflexivity.
      * assert (E2 : (s_refresh s0 <? now) = false) by (apply Z.ltb_ge; exact Hge). rewrite E2, Hc.
        cbn. rewrite str_eqb_refl. destruct p; [reflexivity | |].
        -- rewrite Hv1 by discriminate. rewrite (Hv2 eq_refl). reflexivity.
        -- rewrite Hv1 by discriminate. reflexivity.
    + cbn [negb andb]. destruct Sh as [[St Bo]|[St Bo]]; rewrite Bo.
      * rewrite St. reflexivity.
      * apply orb_true_iff. right. apply N.leb_le. exact St.
  - apply forallb_forall. intros [|s'] Hin; [reflexivity|].
    destruct (sign_in_route_sets lower _ _ _ _ _ _ _ _ Hin) as [s0 [-> [_ [He [Hr [Hl Hs]]]]]].
    apply derived_from_of; assumption.
Qed.

(* the same against any IdP log that contains the calls this request makes (a batch log) *)
Lemma si_holds_model_calls cfg p now rq c rr vr calls :
  rule_guard lower cfg = true ->
  (forall x, In x (r_calls (sign_in_route lower cfg p now rq c rr vr)) -> mem_call x calls = true) ->
  si_holds lower cfg p now rq c rr vr (with_calls (si_obs_of (sign_in_route lower cfg p now rq c rr vr)) calls) = true.
Proof.
  intros G Hcalls. unfold si_holds, si_obs_of, with_calls.
  cbn [so_has_code so_status so_code so_ops so_calls so_leak so_page].
  set (r := sign_in_route lower cfg p now rq c rr vr) in *.
  apply andb_true_iff. split.
  - pose proof (response_shape lower cfg p now rq c rr vr) as Sh. cbv zeta in Sh. fold r in Sh.
    destruct (r_code r) as [s|] eqn:Rc; cbn [is_some].
    + destruct Sh as [St _]. rewrite St.
      destruct (code_sound lower _ _ _ _ _ _ _ _ Rc) as [[G1 [G2 [G3 [G4 _]]]] [s0 [-> [L [R [Em [Li [Rt [_ D]]]]]]]]].
      fold r in D.
      assert (Hd : derived_from now (CkSealed KCookie s0) s = true).
      { apply derived_from_of; try assumption.
        destruct D as [[Hlt _]|[_ [Heq _]]]; [intros; lia | intros _; exact Heq]. }
      rewrite Hd. unfold spec_code_allowed. rewrite G1, G2, G3, G4. cbn [andb N.eqb Pos.eqb].
      rewrite <- (rule_passes_spec cfg _ G), R.
      assert (E : (now <=? s_lifetime s0) = true) by (apply Z.leb_le; exact L). rewrite E. cbn [andb].
      destruct D as [[Hlt [Hrt [jerr [tok [dur [-> [_ Hc]]]]]]]|[Hge [_ [_ [[j [a [-> [Hv1 Hv2]]]] Hc]]]]].
      * assert (E2 : (s_refresh s0 <? now) = true) by (apply Z.ltb_lt; exact Hlt). rewrite E2.
        rewrite (Hcalls (CallRefresh (s_rtok s0))) by (rewrite Hc; left; reflexivity).
        apply is_nil_false in Hrt. rewrite Hrt. reflexivity.
      * assert (E2 : (s_refresh s0 <? now) = false) by (apply Z.ltb_ge; exact Hge). rewrite E2.
        rewrite (Hcalls (CallValidate (s_access s0))) by (rewrite Hc; left; reflexivity).
        cbn. destruct p; [reflexivity | |].
        -- rewrite Hv1 by discriminate. rewrite (Hv2 eq_refl). reflexivity.
        -- rewrite Hv1 by discriminate. reflexivity.
    + cbn [negb andb]. destruct Sh as [[St Bo]|[St Bo]]; rewrite Bo.
      * rewrite St. reflexivity.
      * apply orb_true_iff. right. apply N.leb_le. exact St.
  - apply forallb_forall. intros [|s'] Hin; [reflexivity|].
    destruct (sign_in_route_sets lower _ _ _ _ _ _ _ _ Hin) as [s0 [-> [_ [He [Hr [Hl Hs]]]]]].
    apply derived_from_of; assumption.
Qed.

(* ... and the coalesced refresh follower, provided the IdP's answer for its refresh token is
   positive and the batch log shows a refresh call for that token *)
Lemma si_holds_follower cfg p now rq c rr vr r calls :
  rule_guard lower cfg = true ->
  sign_in_route_follower lower cfg now rq c = Some r ->
  refresh_ok_reply rr = true ->
  (forall s0, c = CkSealed KCookie s0 -> mem_call (CallRefresh (s_rtok s0)) calls = true) ->
  si_holds lower cfg p now rq c rr vr (with_calls (si_obs_of r) calls) = true.
Proof.
  intros G F Rok Hcalls. unfold si_holds, si_obs_of, with_calls.
  cbn [so_has_code so_status so_code so_ops so_calls so_leak so_page].
  apply andb_true_iff. split.
  - pose proof (follower_shape lower _ _ _ _ _ F) as Sh.
    destruct (r_code r) as [s|] eqn:Rc; cbn [is_some].
    + destruct Sh as [St _]. rewrite St.
      destruct (follower_code_sound lower _ _ _ _ _ _ F Rc) as [G1 [G2 [G3 [G4 [-> [L [R [T [RP _]]]]]]]]].
      assert (Hd : derived_from now (CkSealed KCookie s) s = true) by (apply derived_from_of; auto).
      rewrite Hd. unfold spec_code_allowed. rewrite G1, G2, G3, G4. cbn [andb N.eqb Pos.eqb].
      rewrite <- (rule_passes_spec cfg _ G), RP.
      assert (E : (now <=? s_lifetime s) = true) by (apply Z.leb_le; exact L). rewrite E.
      assert (E2 : (s_refresh s <? now) = true) by (apply Z.ltb_lt; exact R). rewrite E2.
      apply is_nil_false in T. rewrite T, Rok, (Hcalls s eq_refl). reflexivity.
    + cbn [negb andb]. destruct Sh as [St Bo]. rewrite Bo.
      apply orb_true_iff. right. apply N.leb_le. exact St.
  - apply forallb_forall. intros [|s'] Hin; [reflexivity|].
    destruct (follower_sets lower _ _ _ _ _ _ F Hin) as [-> _]. apply derived_from_of; auto.
Qed.

(* ---------- /callback ---------- *)
Lemma cb_holds_model cfg now rq rd :
  rule_guard lower cfg = true ->
  cb_holds lower cfg now rq rd (cb_obs_of (oauth_callback lower cfg now rq rd)) = true.
Proof.
  intros G. unfold cb_holds, cb_obs_of. cbn [co_saved co_status co_location co_calls co_csrf_cleared].
  destruct (cr_saved (oauth_callback lower cfg now rq rd)) as [s|] eqn:Sv.
  - pose proof (callback_csrf lower _ _ _ _ _ Sv) as
      [nonce [redirect [email [access [rtok [dur [Hg [_ [_ [Hst [Hn [Hc [Hr [-> [He [Hp [-> [Hl [Hs Hcalls]]]]]]]]]]]]]]]]]]].
    rewrite Hg, Hst, (nonce_and_redirect_spec _ _ Hn), Hc, Hr, Hl, Hs, Hcalls.
    cbn [option_eqb redeemed_session s_email s_lifetime mem_call existsb idp_call_eqb].
    rewrite !str_eqb_refl, close_z_refl, <- (rule_passes_spec cfg _ G), Hp.
    apply is_nil_false in He. rewrite He. cbn.
    (* the CSRF cookie is cleared on every path past the equality test *)
    revert Sv. unfold oauth_callback.
    repeat match goal with |- context [if ?b then _ else _] => destruct b; cbn [cr_saved cb_error_page cr_csrf_cleared]; try discriminate end;
    repeat match goal with |- context [match ?x with _ => _ end] => destruct x; cbn [cr_saved cb_error_page cr_csrf_cleared]; try discriminate end;
    repeat match goal with |- context [if ?b then _ else _] => destruct b; cbn [cr_saved cb_error_page cr_csrf_cleared]; try discriminate end;
    reflexivity.
  - destruct (callback_no_session lower _ _ _ _ Sv) as [Hl Hs]. rewrite Hl. cbn [is_some negb andb].
    destruct (N.eqb_spec (cr_status (oauth_callback lower cfg now rq rd)) 302) as [E|E]; [rewrite E in Hs; lia | reflexivity].
Qed.

(* ---------- /start ---------- *)
Lemma st_holds_model nonce rq :
  nonce <> [] -> ~ In colon nonce ->
  let m := oauth_start nonce rq in
  st_holds rq (mkTO (sr_status m) (sr_csrf_set m) (sr_state m)) = true.
Proof.
  intros Hne Hn. cbv zeta. unfold oauth_start, st_holds.
  destruct (st_get rq); cbn [negb]; [|reflexivity].
  destruct (st_outer_ok rq); cbn [negb]; [|reflexivity].
  destruct (st_inner_ok rq); cbn [negb]; [|reflexivity].
  destruct (st_sig_ok rq); cbn [negb]; [|reflexivity].
  cbn. rewrite str_eqb_refl. apply is_nil_false in Hne. rewrite Hne. cbn.
  destruct (existsb (N.eqb colon) nonce) eqn:E; [|reflexivity].
  apply existsb_exists in E. destruct E as [x [Hx Hc]]. apply N.eqb_eq in Hc. subst x. contradiction.
Qed.

(* ---------- histories ---------- *)
Definition model_obs (cfg : config) (w : world) (e : event) : hobs :=
  match e with
  | EvTick _ => HTick
  | EvCallback rq rd => HCb (cb_obs_of (oauth_callback lower cfg (w_now w) rq rd))
  | EvSignIn p rq pc rr vr => HSi (si_obs_of (sign_in_route lower cfg p (w_now w) rq (present w pc) rr vr))
  end.

Fixpoint model_steps (cfg : config) (w : world) (evs : list event) : list (event * hobs) :=
  match evs with
  | [] => []
  | e :: r => (e, model_obs cfg w e) :: model_steps cfg (step lower cfg w e) r
  end.

Lemma present_obs_eq w pc : present_obs (w_issued w) pc = present w pc.
Proof. destruct pc; reflexivity. Qed.

(* for EVERY history the monitor accepts what the model does, and the two worlds stay aligned *)
Lemma hist_holds_model cfg evs w :
  rule_guard lower cfg = true ->
  hist_judge lower cfg w (w_issued w) (model_steps cfg w evs) = (true, true).
Proof.
  intros G. revert w; induction evs as [|e evs IH]; intros w; [reflexivity|].
  cbn [model_steps hist_judge].
  destruct e as [d|rq rd|p rq pc rr vr]; cbn [model_obs].
  - specialize (IH (step lower cfg w (EvTick d))). cbn [step w_issued] in *. rewrite IH. reflexivity.
  - rewrite cb_agree_refl, (cb_holds_model cfg _ rq rd G).
    specialize (IH (step lower cfg w (EvCallback rq rd))). cbn [step cb_obs_of co_saved] in *.
    destruct (cr_saved (oauth_callback lower cfg (w_now w) rq rd)); cbn [w_issued] in IH; rewrite IH; reflexivity.
  - rewrite si_agree_refl, present_obs_eq, (si_holds_model cfg p _ rq _ rr vr G).
    specialize (IH (step lower cfg w (EvSignIn p rq pc rr vr))). cbn [step w_issued si_obs_of so_ops] in *.
    rewrite IH. reflexivity.
Qed.

(* ---------- browser histories ---------- *)
Definition bmodel_obs (cfg : config) (w : bworld) (e : bevent) : bobs :=
  match e with
  | BvTick _ => BoTick
  | BvStart nonce rq =>
      let m := oauth_start nonce rq in BoStart (mkBSO (sr_status m) (start_set_cookies m) (sr_state m))
  | BvCallback rq rd =>
      let m := oauth_callback lower cfg (bw_now w) (with_csrf rq (bw_csrf w)) rd in
      BoCb (mkBCO (bw_csrf w) (callback_set_cookies m) (cb_obs_of m))
  | BvSignIn p rq rr vr =>
      BoSi (bw_sess w) (si_obs_of (sign_in_route lower cfg p (bw_now w) rq (jar_cookie (bw_sess w)) rr vr))
  end.

Fixpoint bmodel_steps (cfg : config) (w : bworld) (evs : list bevent) : list (bevent * bobs) :=
  match evs with
  | [] => []
  | e :: r => (e, bmodel_obs cfg w e) :: bmodel_steps cfg (bstep lower cfg w e) r
  end.

(* the nonces are the server's: hex of 32 random bytes — non-empty, no colon *)
Definition good_event (e : bevent) : Prop :=
  match e with BvStart n _ => n <> [] /\ ~ In colon n | _ => True end.

Definition mjar_of (w : bworld) : option (str * bool) := option_map (fun v => (v, true)) (bw_csrf w).

Lemma sc_eqb_refl x : sc_eqb x x = true.
Proof. unfold sc_eqb. rewrite str_eqb_refl, bool_eqb_refl. reflexivity. Qed.

Lemma mjar_value_of w : mjar_value (mjar_of w) = bw_csrf w.
Proof. unfold mjar_value, mjar_of. destruct (bw_csrf w); reflexivity. Qed.

Lemma bhist_holds_model cfg evs w :
  rule_guard lower cfg = true -> Forall good_event evs ->
  bhist_judge lower cfg w (mjar_of w) (bw_sess w) (bmodel_steps cfg w evs) = (true, true).
Proof.
  intros G. revert w; induction evs as [|e evs IH]; intros w Hg; [reflexivity|].
  inversion Hg as [|e' evs' He Hg']; subst. cbn [bmodel_steps bhist_judge].
  destruct e as [d|nonce rq|rq rd|p rq rr vr]; cbn [bmodel_obs].
  - specialize (IH (bstep lower cfg w (BvTick d)) Hg'). cbn [bstep] in *.
    unfold mjar_of in *. cbn [bw_csrf bw_sess] in *. rewrite IH. reflexivity.
  - cbn [bs_status bs_set bs_state]. destruct He as [Hne Hnc].
    rewrite N.eqb_refl, (list_eqb_refl _ sc_eqb_refl), option_str_eqb_refl.
    assert (J : jar_apply_all None (start_set_cookies (oauth_start nonce rq)) = sr_csrf_set (oauth_start nonce rq)).
    { rewrite jar_after_start. destruct (sr_csrf_set (oauth_start nonce rq)); reflexivity. }
    rewrite J. pose proof (st_holds_model nonce rq Hne Hnc) as Hs. cbv zeta in Hs. rewrite Hs.
    assert (M : fold_left (mjar_apply true) (start_set_cookies (oauth_start nonce rq)) (mjar_of w) =
                mjar_of (bstep lower cfg w (BvStart nonce rq))).
    { unfold mjar_of. cbn [bstep bw_csrf]. rewrite jar_after_start. unfold start_set_cookies.
      destruct (sr_csrf_set (oauth_start nonce rq)); reflexivity. }
    rewrite M. specialize (IH (bstep lower cfg w (BvStart nonce rq)) Hg').
    cbn [bstep bw_sess] in IH |- *. rewrite IH. reflexivity.
  - cbn [bc_sent bc_set bc_obs]. set (m := oauth_callback lower cfg (bw_now w) (with_csrf rq (bw_csrf w)) rd).
    rewrite cb_agree_refl, (list_eqb_refl _ sc_eqb_refl), mjar_value_of, option_str_eqb_refl.
    pose proof (cb_holds_model cfg (bw_now w) (with_csrf rq (bw_csrf w)) rd G) as Hc. fold m in Hc. rewrite Hc.
    assert (M : fold_left (mjar_apply false) (callback_set_cookies m) (mjar_of w) =
                mjar_of (bstep lower cfg w (BvCallback rq rd))).
    { unfold mjar_of. cbn [bstep bw_csrf]. fold m. rewrite jar_after_callback. unfold callback_set_cookies.
      destruct (cr_csrf_cleared m); reflexivity. }
    rewrite M.
    assert (E : (if is_some (co_saved (cb_obs_of m))
                 then mjar_from_start (mjar_of w) && negb (is_some (mjar_of (bstep lower cfg w (BvCallback rq rd))))
                 else true) = true).
    { cbn [cb_obs_of co_saved]. destruct (cr_saved m) as [s|] eqn:Sv; [|reflexivity]. cbn [is_some].
      pose proof (callback_saved_cleared lower _ _ _ _ _ Sv) as Cl.
      pose proof (callback_csrf lower _ _ _ _ _ Sv) as [nonce [redirect [em [ac [rt [du [_ [_ [_ [_ [_ [Hcs _]]]]]]]]]]]].
      cbn [with_csrf cb_csrf] in Hcs. unfold mjar_of at 1. rewrite Hcs. cbn [option_map mjar_from_start andb].
      unfold mjar_of. cbn [bstep bw_csrf]. rewrite jar_after_callback. fold m in Cl |- *. rewrite Cl. reflexivity. }
    rewrite E. specialize (IH (bstep lower cfg w (BvCallback rq rd)) Hg').
    cbn [bstep bw_sess cb_obs_of co_saved] in IH |- *. fold m in IH |- *.
    destruct (cr_saved m); rewrite IH; reflexivity.
  - rewrite si_agree_refl, (opt_close_refl _ sess_close_refl),
      (si_holds_model cfg p _ rq _ rr vr G).
    specialize (IH (bstep lower cfg w (BvSignIn p rq rr vr)) Hg').
    unfold mjar_of in *. cbn [bstep bw_csrf bw_sess si_obs_of so_ops] in IH |- *. rewrite IH. reflexivity.
Qed.

End P.
