(* Corr_C14_proofs.v — the monitor of Corr_C14 accepts the model's own prediction for every
   input: this ties the boolean specification applied to the implementation's observations
   (fail-closed clauses + "first stated value along the chain") to the model and its theorems.
   For documents in which no selected service carries `options:` in BOTH the default and the
   cluster block the judgement is 0; otherwise it is 0 or 101 (known finding 1). *)
From V Require Import Base Base_proofs CorrBase Config Config_proofs Corr_C14.
From Coq Require Import ZifyN ZifyBool.

(* ---- first-stated ---- *)
Lemma fs_cons {A} (emp : A -> bool) z x l : fs emp z (x :: l) = if emp x then fs emp z l else x.
Proof. unfold fs; simpl. destruct (emp x); reflexivity. Qed.

Lemma fs_nil {A} (emp : A -> bool) (z : A) : fs emp z [] = z.
Proof. reflexivity. Qed.

Lemma mg_true_fs {A} (emp : A -> bool) z d c :
  (forall x, emp x = true -> x = z) -> mg emp true d c = fs emp z [c; d].
Proof.
  intros Hz. unfold mg, fs; simpl. destruct (emp c) eqn:Ec; simpl; [|reflexivity].
  destruct (emp d) eqn:Ed; simpl; [apply Hz; assumption | reflexivity].
Qed.

Section FieldSpec.
Context {A : Type} (emp : A -> bool) (f : opts -> A).
Hypothesis F : is_field emp f.
Let z := f empty_opts.

Definition layers_val (os : list (option opts)) (D : opts) : A :=
  fs emp z (map f (flat_map opt_list os) ++ [f D]).

Lemma layers_base D : layers_val [] D = f D.
Proof.
  destruct F as [_ [_ F3]]. unfold layers_val, fs; simpl.
  destruct (emp (f D)) eqn:E; simpl; [symmetry; apply F3; assumption | reflexivity].
Qed.

Lemma fs_layer o os D r :
  inherits emp (ofield f o) (layers_val os D) r -> r = layers_val (o :: os) D.
Proof.
  destruct F as [_ [F2 _]]. unfold inherits, layers_val. intros ->.
  destruct o as [x|]; simpl.
  - rewrite fs_cons. reflexivity.
  - rewrite F2. reflexivity.
Qed.

(* a selected service without `options:` in both blocks *)
Lemma main_layers D d c :
  (is_some (rc_options c) && is_some (rc_options d)) = false ->
  f (effective_opts D (merge_route true d c)) = layers_val [rc_options c; rc_options d] D.
Proof.
  intros H6. apply fs_layer.
  pose proof (f_effective emp f F D (merge_route true d c)) as H. rewrite cluster_options in H.
  destruct (rc_options c) as [co|] eqn:Ec, (rc_options d) as [do|] eqn:Ed; simpl in H6; try discriminate.
  - (* only the cluster block has options *)
    rewrite <- (fs_layer None [] D (layers_val [] D)), layers_base; [exact H|].
    destruct F as [_ [F2 _]]. unfold inherits; simpl. rewrite F2. reflexivity.
  - (* only the default block has options: the cluster layer is skipped *)
    destruct F as [_ [F2 _]]. unfold inherits; simpl. rewrite F2.
    apply fs_layer. rewrite layers_base. exact H.
  - destruct F as [_ [F2 _]]. unfold inherits; simpl. rewrite F2.
    apply fs_layer. rewrite layers_base. exact H.
Qed.

Lemma extra_layers D name d c ex e :
  (is_some (rc_options c) && is_some (rc_options d)) = false ->
  f (effective_opts D (u0_route (resolve_extra (MU0 name (merge_route true d c) ex) e))) =
  layers_val [rc_options e; rc_options c; rc_options d] D.
Proof.
  intros H6. apply fs_layer. rewrite <- (main_layers D d c H6).
  apply (f_extra emp f F D (MU0 name (merge_route true d c) ex) e).
Qed.
End FieldSpec.

(* ---- header maps ---- *)
Lemma spec_map_get_cons k m ls :
  spec_map_get k (m :: ls) =
  match map_get k m with
  | Some (c :: v) => Some (c :: v)
  | Some [] => match spec_map_get k ls with Some x => Some x | None => Some [] end
  | None => spec_map_get k ls
  end.
Proof.
  unfold spec_map_get; simpl. destruct (map_get k m) as [[|c v]|]; simpl; try reflexivity.
  destruct (filter (fun v => negb (is_nil v))
                   (flat_map (fun m0 => match map_get k m0 with Some v => [v] | None => [] end) ls)) as [|x l];
    [|reflexivity].
  destruct (flat_map (fun m0 => match map_get k m0 with Some v => [v] | None => [] end) ls); reflexivity.
Qed.

Section MFieldSpec.
Context (f : opts -> smap).
Hypothesis F : is_mfield f.

Definition mlayers (os : list (option opts)) : list smap := map f (flat_map opt_list os).

Lemma mlayer_step o os (p r : smap) :
  (forall k, map_get k p = spec_map_get k (mlayers os)) ->
  inherits_map (ofield f o) p r ->
  forall k, map_get k r = spec_map_get k (mlayers (o :: os)).
Proof.
  destruct F as [_ F2]. intros Hp Hr k. rewrite (Hr k). destruct o as [x|]; simpl.
  - unfold mlayers; simpl. rewrite spec_map_get_cons. fold (mlayers os). rewrite <- (Hp k).
    destruct (map_get k (f x)) as [[|c v]|], (map_get k p); reflexivity.
  - rewrite F2; simpl. unfold mlayers; simpl. fold (mlayers os). rewrite <- (Hp k).
    destruct (map_get k p); reflexivity.
Qed.

Definition onodup (o : option opts) : Prop := NoDup (keys (ofield f o)).

Lemma onodup_none : onodup None.
Proof. destruct F as [_ F2]. unfold onodup; simpl. rewrite F2. constructor. Qed.

Lemma main_mlayers D d c :
  f D = [] -> onodup (rc_options c) -> onodup (rc_options d) ->
  (is_some (rc_options c) && is_some (rc_options d)) = false ->
  forall k, map_get k (f (effective_opts D (merge_route true d c))) = spec_map_get k (mlayers [rc_options c; rc_options d]).
Proof.
  intros HD Nc Nd H6 k.
  assert (Nm : onodup (rc_options (merge_route true d c))).
  { rewrite cluster_options. destruct (rc_options c); assumption. }
  rewrite (m_effective f F D _ HD Nm k). rewrite cluster_options.
  destruct F as [_ F2].
  destruct (rc_options c) as [co|] eqn:Ec, (rc_options d) as [do|] eqn:Ed; simpl in H6; try discriminate;
    unfold mlayers; simpl; rewrite ?spec_map_get_cons; unfold spec_map_get; simpl; rewrite ?F2; simpl.
  - destruct (map_get k (f co)) as [[|x v]|]; reflexivity.
  - destruct (map_get k (f do)) as [[|x v]|]; reflexivity.
  - reflexivity.
Qed.

Lemma extra_mlayers D name d c ex e :
  f D = [] -> onodup (rc_options e) -> onodup (rc_options c) -> onodup (rc_options d) ->
  (is_some (rc_options c) && is_some (rc_options d)) = false ->
  forall k, map_get k (f (effective_opts D (u0_route (resolve_extra (MU0 name (merge_route true d c) ex) e)))) =
            spec_map_get k (mlayers [rc_options e; rc_options c; rc_options d]).
Proof.
  intros HD Ne Nc Nd H6.
  apply (mlayer_step (rc_options e) [rc_options c; rc_options d]
                     (f (effective_opts D (merge_route true d c)))).
  - apply main_mlayers; assumption.
  - apply (m_extra f F D (MU0 name (merge_route true d c) ex) e HD Ne).
    simpl u0_route. rewrite cluster_options. destruct (rc_options c); assumption.
Qed.
End MFieldSpec.

Lemma opt_str_eqb_refl o : opt_str_eqb o o = true.
Proof. destruct o; simpl; [apply str_eqb_refl | reflexivity]. Qed.

Lemma map_matches_of obs layers :
  (forall k, map_get k obs = spec_map_get k layers) -> map_matches obs layers = true.
Proof. intros H. unfold map_matches. apply forallb_forall. intros k _. rewrite H. apply opt_str_eqb_refl. Qed.

Lemma keys_nodup_spec m : keys_nodup m = true -> NoDup (keys m).
Proof.
  unfold keys_nodup, keys. induction (map fst m) as [|k l IH]; intros H; [constructor|].
  apply andb_true_iff in H as [H1 H2]. constructor; [|apply IH; assumption].
  intros Hin. apply mem_str_In in Hin. rewrite Hin in H1. discriminate.
Qed.

(* ---- one observed tuple against one expectation ---- *)
Lemma bool_eqb_refl b : bool_eqb b b = true. Proof. destruct b; reflexivity. Qed.

Lemma matches_intro tv x u :
  let L := x_olayers x in let D := x_defaults x in
  u_service u = x_service x -> u_from u = x_from x -> u_to u = x_to x -> u_type u = x_type x ->
  u_route u = x_route x ->
  u_groups u = fs emp_list [] (map o_groups L ++ [o_groups D]) ->
  u_domains u = fs emp_list [] (map o_domains L ++ [o_domains D]) ->
  u_addresses u = fs emp_list [] (map o_addresses L ++ [o_addresses D]) ->
  u_skip u = fs emp_list [] (map o_skip_auth_regex L ++ [o_skip_auth_regex D]) ->
  u_timeout u = fs emp_Z 0%Z (map o_timeout L ++ [o_timeout D]) ->
  u_reset_deadline u = fs emp_Z 0%Z (map o_reset_deadline L ++ [o_reset_deadline D]) ->
  u_flush_interval u = fs emp_Z 0%Z (map o_flush_interval L ++ [o_flush_interval D]) ->
  u_tls_skip u = fs emp_bool false (map o_tls_skip L ++ [o_tls_skip D]) ->
  u_preserve_host u = fs emp_bool false (map o_preserve_host L ++ [o_preserve_host D]) ->
  u_skip_signing u = fs emp_bool false (map o_skip_signing L ++ [o_skip_signing D]) ->
  u_provider_slug u = fs emp_list [] (map o_provider_slug L ++ [o_provider_slug D]) ->
  u_cookie_name u = fs emp_list [] (map o_cookie_name L ++ [o_cookie_name D]) ->
  (forall k, map_get k (u_header_overrides u) = spec_map_get k (map o_header_overrides L)) ->
  (forall k, map_get k (u_inject_headers u) = spec_map_get k (map o_inject_headers L)) ->
  u_hmac u = is_some (map_get (x_service x ++ lit_signing_key) tv) ->
  matches tv x u = true.
Proof.
  intros L D H1 H2 H3 H4 HR H5 H6 H7 H8 H9 H10 H11 H12 H13 H14 H15 H16 H17 H18 H19.
  unfold matches. fold L. fold D.
  rewrite H1, H2, H3, H4, HR, H5, H6, H7, H8, H9, H10, H11, H12, H13, H14, H15, H16, H19.
  rewrite (map_matches_of _ _ H17), (map_matches_of _ _ H18).
  unfold Z_eqb. rewrite !str_eqb_refl, !Z.eqb_refl, !bool_eqb_refl.
  repeat (rewrite (proj2 (strs_eqb_eq _ _) eq_refl)). reflexivity.
Qed.

Definition final (O : oracle) (E : env) (u0 : upstream0) (k : N) : upstream :=
  set_hmac (tuple_of O (e_defaults E) u0 k) (has_key (e_tvars E) (u0_service u0)).

Lemma route_parts_spec O r k : route_kind O r = Ok k ->
  route_parts O r k = spec_route_parts O (rc_from r) (rc_to r) (rc_type r).
Proof.
  intros H. apply route_kind_ok in H. unfold route_parts, spec_route_parts.
  destruct H as [[-> [[T|T] _]]|[-> [T _]]]; rewrite T; reflexivity.
Qed.

Definition sel_up0 (t : sel) : upstream0 :=
  MU0 (sl_name t) (merge_route true (b_route (sl_d t)) (b_route (sl_c t)))
      (mg emp_list true (b_extra (sl_d t)) (b_extra (sl_c t))).

Definition strip (p : upstream0) : upstream0 := MU0 (u0_service p) (u0_route p) [].

Definition sel_wf (t : sel) : Prop := block_wf (sl_c t) = true /\ block_wf (sl_d t) = true.

Lemma route_wf_onodup r : route_wf r = true ->
  onodup o_header_overrides (rc_options r) /\ onodup o_inject_headers (rc_options r).
Proof.
  unfold route_wf, onodup. destruct (rc_options r) as [o|]; simpl.
  - unfold opts_wf. intros H. apply andb_true_iff in H as [H1 H2]. split; apply keys_nodup_spec; assumption.
  - intros _. split; constructor.
Qed.

Lemma mg_false_fs {A} (emp : A -> bool) z e p l :
  (forall x, emp x = true -> x = z) -> p = fs emp z l -> mg emp false e p = fs emp z (e :: l).
Proof.
  intros Hz ->. rewrite fs_cons. unfold mg; simpl.
  destruct (emp e) eqn:Ee; simpl; [|rewrite andb_false_r; reflexivity].
  rewrite andb_true_r. destruct (emp (fs emp z l)) eqn:Ep; simpl; [|reflexivity].
  rewrite (Hz _ Ee), (Hz _ Ep). reflexivity.
Qed.

Lemma env_wf_maps E : env_wf E = true ->
  o_header_overrides (e_defaults E) = [] /\ o_inject_headers (e_defaults E) = [].
Proof. unfold env_wf. intros H. apply andb_true_iff in H as [H1 H2]. split; apply is_nil_true; assumption. Qed.

Lemma matches_main O E t k :
  env_wf E = true -> sel_wf t -> sel_d6 t = false ->
  route_kind O (u0_route (strip (sel_up0 t))) = Ok k ->
  matches (e_tvars E) (expect O (sl_name t) [b_route (sl_c t); b_route (sl_d t)] (e_defaults E) (sel_d6 t))
          (final O E (strip (sel_up0 t)) k) = true.
Proof.
  intros HE [Wc Wd] H6 HK. destruct (env_wf_maps E HE) as [D1 D2].
  unfold block_wf in Wc, Wd. apply andb_true_iff in Wc as [Wc _]. apply andb_true_iff in Wd as [Wd _].
  destruct (route_wf_onodup _ Wc) as [Nc1 Nc2]. destruct (route_wf_onodup _ Wd) as [Nd1 Nd2].
  unfold sel_d6 in H6. apply route_parts_spec in HK.
  set (c := b_route (sl_c t)) in *. set (d := b_route (sl_d t)) in *.
  apply matches_intro; cbn -[effective_opts merge_route fs route_parts spec_route_parts].
  - reflexivity.
  - apply mg_true_fs, @emp_list_nil.
  - apply mg_true_fs, @emp_list_nil.
  - apply mg_true_fs, @emp_list_nil.
  - cbn -[route_parts spec_route_parts merge_route fs] in HK. rewrite HK. cbn -[spec_route_parts fs].
    rewrite !(mg_true_fs emp_list []) by apply @emp_list_nil. reflexivity.
  - apply (main_layers emp_list o_groups fld_groups _ d c H6).
  - apply (main_layers emp_list o_domains fld_domains _ d c H6).
  - apply (main_layers emp_list o_addresses fld_addresses _ d c H6).
  - apply (main_layers emp_list o_skip_auth_regex fld_skip _ d c H6).
  - apply (main_layers emp_Z o_timeout fld_timeout _ d c H6).
  - apply (main_layers emp_Z o_reset_deadline fld_reset _ d c H6).
  - apply (main_layers emp_Z o_flush_interval fld_flush _ d c H6).
  - apply (main_layers emp_bool o_tls_skip fld_tls _ d c H6).
  - apply (main_layers emp_bool o_preserve_host fld_preserve _ d c H6).
  - apply (main_layers emp_bool o_skip_signing fld_signing _ d c H6).
  - apply (main_layers emp_list o_provider_slug fld_slug _ d c H6).
  - apply (main_layers emp_list o_cookie_name fld_cookie _ d c H6).
  - apply (main_mlayers o_header_overrides mfld_ho _ d c D1 Nc1 Nd1 H6).
  - apply (main_mlayers o_inject_headers mfld_inj _ d c D2 Nc2 Nd2 H6).
  - unfold has_key, is_some. reflexivity.
Qed.

Lemma matches_extra O E t e k :
  env_wf E = true -> sel_wf t -> route_wf e = true -> sel_d6 t = false ->
  route_kind O (u0_route (resolve_extra (sel_up0 t) e)) = Ok k ->
  matches (e_tvars E) (expect O (sl_name t) [e; b_route (sl_c t); b_route (sl_d t)] (e_defaults E) (sel_d6 t))
          (final O E (resolve_extra (sel_up0 t) e) k) = true.
Proof.
  intros HE [Wc Wd] We H6 HK. destruct (env_wf_maps E HE) as [D1 D2].
  unfold block_wf in Wc, Wd. apply andb_true_iff in Wc as [Wc _]. apply andb_true_iff in Wd as [Wd _].
  destruct (route_wf_onodup _ Wc) as [Nc1 Nc2]. destruct (route_wf_onodup _ Wd) as [Nd1 Nd2].
  destruct (route_wf_onodup _ We) as [Ne1 Ne2].
  unfold sel_d6 in H6. apply route_parts_spec in HK. unfold sel_up0 in *.
  set (c := b_route (sl_c t)) in *. set (d := b_route (sl_d t)) in *.
  set (ex := mg emp_list true (b_extra (sl_d t)) (b_extra (sl_c t))) in *.
  assert (EF : rc_from (u0_route (resolve_extra (MU0 (sl_name t) (merge_route true d c) ex) e)) = fs emp_list [] [rc_from e; rc_from c; rc_from d]).
  { cbn -[fs]. apply mg_false_fs; [apply @emp_list_nil | apply mg_true_fs, @emp_list_nil]. }
  assert (ET : rc_to (u0_route (resolve_extra (MU0 (sl_name t) (merge_route true d c) ex) e)) = fs emp_list [] [rc_to e; rc_to c; rc_to d]).
  { cbn -[fs]. apply mg_false_fs; [apply @emp_list_nil | apply mg_true_fs, @emp_list_nil]. }
  assert (EY : rc_type (u0_route (resolve_extra (MU0 (sl_name t) (merge_route true d c) ex) e)) = fs emp_list [] [rc_type e; rc_type c; rc_type d]).
  { cbn -[fs]. apply mg_false_fs; [apply @emp_list_nil | apply mg_true_fs, @emp_list_nil]. }
  apply matches_intro; cbn -[effective_opts merge_route fs resolve_extra route_parts spec_route_parts].
  - simpl. destruct (sl_name t); reflexivity.
  - exact EF.
  - exact ET.
  - exact EY.
  - rewrite HK, EF, ET, EY. reflexivity.
  - apply (extra_layers emp_list o_groups fld_groups _ (sl_name t) d c ex e H6).
  - apply (extra_layers emp_list o_domains fld_domains _ (sl_name t) d c ex e H6).
  - apply (extra_layers emp_list o_addresses fld_addresses _ (sl_name t) d c ex e H6).
  - apply (extra_layers emp_list o_skip_auth_regex fld_skip _ (sl_name t) d c ex e H6).
  - apply (extra_layers emp_Z o_timeout fld_timeout _ (sl_name t) d c ex e H6).
  - apply (extra_layers emp_Z o_reset_deadline fld_reset _ (sl_name t) d c ex e H6).
  - apply (extra_layers emp_Z o_flush_interval fld_flush _ (sl_name t) d c ex e H6).
  - apply (extra_layers emp_bool o_tls_skip fld_tls _ (sl_name t) d c ex e H6).
  - apply (extra_layers emp_bool o_preserve_host fld_preserve _ (sl_name t) d c ex e H6).
  - apply (extra_layers emp_bool o_skip_signing fld_signing _ (sl_name t) d c ex e H6).
  - apply (extra_layers emp_list o_provider_slug fld_slug _ (sl_name t) d c ex e H6).
  - apply (extra_layers emp_list o_cookie_name fld_cookie _ (sl_name t) d c ex e H6).
  - apply (extra_mlayers o_header_overrides mfld_ho _ (sl_name t) d c ex e D1 Ne1 Nc1 Nd1 H6).
  - apply (extra_mlayers o_inject_headers mfld_inj _ (sl_name t) d c ex e D2 Ne2 Nc2 Nd2 H6).
  - unfold has_key, is_some. simpl. destruct (sl_name t); reflexivity.
Qed.

(* ---- the list of resolved routes against the list of expectations ---- *)
Lemma select_spec cluster d : select cluster d = map sel_up0 (spec_selected cluster d).
Proof.
  induction d as [|s d IH]; [reflexivity|]. simpl. unfold resolve_upstream.
  destruct (assoc_block lit_default (s_clusters s)) as [[db|]|], (assoc_block cluster (s_clusters s)) as [[cb|]|];
    simpl; rewrite IH; reflexivity.
Qed.

Lemma assoc_block_in k l b : assoc_block k l = Some (Some b) -> In (k, Some b) l.
Proof.
  induction l as [|[k' b'] l IH]; simpl; [discriminate|].
  destruct (str_eqb k k') eqn:E.
  - intros H; inversion H; subst. apply str_eqb_eq in E; subst. left; reflexivity.
  - intros H; right; auto.
Qed.

Lemma block_or_empty_wf k l : forallb (fun kb => match snd kb with Some b => block_wf b | None => true end) l = true ->
  block_wf (block_or_empty (assoc_block k l)) = true.
Proof.
  intros H. destruct (assoc_block k l) as [[b|]|] eqn:G; try reflexivity.
  rewrite forallb_forall in H. apply assoc_block_in in G. apply (H _ G).
Qed.

Lemma spec_selected_wf cluster d : doc_wf d = true -> Forall sel_wf (spec_selected cluster d).
Proof.
  unfold doc_wf. induction d as [|s d IH]; simpl; intros H; [constructor|].
  apply andb_true_iff in H as [H1 H2].
  destruct (is_some (assoc_block lit_default (s_clusters s)) || is_some (assoc_block cluster (s_clusters s)));
    [|apply IH; assumption].
  constructor; [|apply IH; assumption]. split; simpl; apply block_or_empty_wf; assumption.
Qed.

Definition Rel (O : oracle) (E : env) (x : expected) (u0 : upstream0) : Prop :=
  x_d6 x = false -> forall k, route_kind O (u0_route u0) = Ok k -> matches (e_tvars E) x (final O E u0 k) = true.

Definition mainx (O : oracle) (E : env) (t : sel) : expected :=
  expect O (sl_name t) [b_route (sl_c t); b_route (sl_d t)] (e_defaults E) (sel_d6 t).
Definition extrax (O : oracle) (E : env) (t : sel) (e : routecfg) : expected :=
  expect O (sl_name t) [e; b_route (sl_c t); b_route (sl_d t)] (e_defaults E) (sel_d6 t).

Lemma sel_extras_spec t : sel_extras t = u0_extra (sel_up0 t).
Proof. unfold sel_extras. simpl. symmetry. apply mg_true_fs. apply @emp_list_nil. Qed.

Lemma sel_extras_wf t e : sel_wf t -> In e (sel_extras t) -> route_wf e = true.
Proof.
  intros [Wc Wd] Hin. unfold block_wf in Wc, Wd.
  apply andb_true_iff in Wc as [_ Wc]. apply andb_true_iff in Wd as [_ Wd].
  rewrite forallb_forall in Wc, Wd. unfold sel_extras, fs in Hin. simpl in Hin.
  destruct (b_extra (sl_c t)) as [|x l] eqn:Ec; simpl in Hin.
  - destruct (b_extra (sl_d t)) as [|y l'] eqn:Ed; simpl in Hin; [contradiction | apply Wd; assumption].
  - apply Wc; assumption.
Qed.

Lemma rel_mains O E S : env_wf E = true -> Forall sel_wf S ->
  Forall2 (Rel O E) (map (mainx O E) S) (map strip (map sel_up0 S)).
Proof.
  intros HE. induction 1 as [|t S Wt _ IH]; simpl; constructor; [|assumption].
  intros H6 k HK. apply matches_main; assumption.
Qed.

Lemma rel_extras O E S : env_wf E = true -> Forall sel_wf S ->
  Forall2 (Rel O E) (flat_map (fun t => map (extrax O E t) (sel_extras t)) S)
          (flat_map (fun p => map (resolve_extra p) (u0_extra p)) (map sel_up0 S)).
Proof.
  intros HE. induction 1 as [|t S Wt _ IH]; cbn [flat_map map]; [constructor|].
  apply Forall2_app; [|assumption].
  rewrite <- sel_extras_spec.
  assert (W : forall e, In e (sel_extras t) -> route_wf e = true) by (intros e; apply sel_extras_wf; assumption).
  induction (sel_extras t) as [|e l IHl]; simpl; constructor.
  - intros H6 k HK. apply matches_extra; try assumption. apply W; left; reflexivity.
  - apply IHl. intros e' He'. apply W; right; assumption.
Qed.

Lemma spec_expected_rel O E d : env_wf E = true -> doc_wf d = true ->
  Forall2 (Rel O E) (spec_expected O E d) (routes (e_cluster E) d).
Proof.
  intros HE Hd. unfold spec_expected, routes, expand_extras. rewrite select_spec.
  pose proof (spec_selected_wf (e_cluster E) d Hd) as W.
  apply Forall2_app; [apply rel_mains | apply rel_extras]; assumption.
Qed.

Lemma rel_resolved O E X cs ups :
  Forall2 (Rel O E) X cs -> Forall2 (resolved_as O E) cs ups ->
  forall2b (fun x u => matches (e_tvars E) x u || x_d6 x) X ups = true.
Proof.
  intros H; revert ups; induction H as [|x u0 X cs Hx _ IH]; intros ups H2; inversion H2; subst; simpl; [reflexivity|].
  rewrite IH; [|assumption]. rewrite andb_true_r.
  destruct (x_d6 x) eqn:D; [apply orb_true_r|]. rewrite orb_false_r.
  match goal with H : resolved_as _ _ _ _ |- _ => destruct H as [k [[_ [_ [_ [HK _]]]] ->]] end.
  apply (Hx D k HK).
Qed.

(* ---- reflexivity of the tuple comparison ---- *)
Lemma smap_eqb_refl m : smap_eqb m m = true.
Proof. unfold smap_eqb. apply forallb_forall. intros k _. apply opt_str_eqb_refl. Qed.

Lemma upstream_eqb_refl u : upstream_eqb u u = true.
Proof.
  unfold upstream_eqb, Z_eqb.
  rewrite !str_eqb_refl, !Z.eqb_refl, !bool_eqb_refl, !smap_eqb_refl, N.eqb_refl.
  repeat (rewrite (proj2 (strs_eqb_eq _ _) eq_refl)). reflexivity.
Qed.

Lemma forall2b_refl {A} (f : A -> A -> bool) l : (forall x, f x x = true) -> forall2b f l l = true.
Proof. intros H. induction l as [|x l IH]; simpl; [reflexivity | rewrite H, IH; reflexivity]. Qed.

(* ---- the fail-closed clauses hold of everything the model accepts ---- *)
Lemma fc_elem O E u0 k :
  elem_ok O E u0 k -> has_allow_rule (final O E u0 k) = true -> fail_closed_b O (final O E u0 k) = true.
Proof.
  intros [Hs [Hf [Ht [Hr [Hre _]]]]] Hal.
  apply route_kind_ok in Hr. apply has_allow_rule_spec in Hal.
  unfold fail_closed_b, final. cbn -[effective_opts] in *.
  apply is_nil_false in Hs, Hf, Ht, Hal. rewrite Hs, Hf, Ht, Hal, Hre. simpl.
  destruct Hr as [[-> [[T|T] [U1 U2]]]|[-> [T R]]]; rewrite T; simpl.
  - rewrite U1, U2. reflexivity.
  - rewrite U1, U2. reflexivity.
  - rewrite R. reflexivity.
Qed.

Lemma fc_model O E cs ups :
  Forall2 (resolved_as O E) cs ups -> forallb has_allow_rule ups = true ->
  forallb (fail_closed_b O) ups = true.
Proof.
  induction 1 as [|u0 u cs ups [k [Hk ->]] _ IH]; simpl; intros H; [reflexivity|].
  apply andb_true_iff in H as [H1 H2]. rewrite IH; [|assumption].
  fold (final O E u0 k). rewrite (fc_elem O E u0 k Hk H1). reflexivity.
Qed.

Lemma forall2b_no_d6 tv X ups :
  Forall (fun x => x_d6 x = false) X ->
  forall2b (matches tv) X ups = forall2b (fun x u => matches tv x u || x_d6 x) X ups.
Proof.
  intros H; revert ups; induction H as [|x X Hx _ IH]; intros [|u ups]; simpl; try reflexivity.
  rewrite Hx, orb_false_r, IH. reflexivity.
Qed.

Lemma spec_expected_no_d6 O E d :
  forallb (fun t => negb (sel_d6 t)) (spec_selected (e_cluster E) d) = true ->
  Forall (fun x => x_d6 x = false) (spec_expected O E d).
Proof.
  intros H. rewrite forallb_forall in H. unfold spec_expected. apply Forall_app. split.
  - apply Forall_forall. intros x Hx. apply in_map_iff in Hx as [t [<- Ht]]. simpl.
    apply negb_true_iff. apply H; assumption.
  - apply Forall_forall. intros x Hx. apply in_flat_map in Hx as [t [Ht Hx]].
    apply in_map_iff in Hx as [e [<- _]]. simpl. apply negb_true_iff. apply H; assumption.
Qed.

Definition to_obs (m : result (list upstream)) : option (list upstream) :=
  match m with Ok u => Some u | Err _ => None end.

(* The monitor accepts the model's prediction, for every environment, oracle tables and
   document that respect the harness guards (distinct header keys, no header maps among the
   deployment defaults): judgement 0, or 101 (known finding 1) — and always 0 when no selected
   service carries `options:` in both its default and its cluster block. *)
Theorem judge_load_model E T d :
  doc_wf (subst_doc (e_tvars E) d) = true -> env_wf E = true ->
  let c := CLoad E T d (to_obs (set_upstream_configs (oracle_of T) E d)) in
  (judge c = 0 \/ judge c = 101) /\
  (forallb (fun t => negb (sel_d6 t)) (spec_selected (e_cluster E) (subst_doc (e_tvars E) d)) = true -> judge c = 0).
Proof.
  intros Hd HE. cbv zeta. unfold judge. rewrite Hd, HE. simpl negb.
  destruct (set_upstream_configs (oracle_of T) E d) as [ups|e] eqn:S; simpl to_obs.
  - assert (RM : result_matches (Ok ups) (Some ups) = true).
    { simpl. apply forall2b_refl. apply upstream_eqb_refl. }
    rewrite RM. simpl negb. simpl orb.
    apply set_upstream_configs_ok in S as [L R]. unfold load_configs in L. apply load_resolved_elems in L.
    rewrite (fc_model _ _ _ _ L R).
    pose proof (rel_resolved _ E _ _ _ (spec_expected_rel (oracle_of T) E _ HE Hd) L) as OD. rewrite OD.
    split.
    + destruct (forall2b (matches (e_tvars E)) (spec_expected (oracle_of T) E (subst_doc (e_tvars E) d)) ups); simpl; auto.
    + intros H6. rewrite (forall2b_no_d6 _ _ _ (spec_expected_no_d6 (oracle_of T) E _ H6)), OD. reflexivity.
  - simpl. split; [left; reflexivity | intros _; reflexivity].
Qed.

(* ---- templates ---- *)
Lemma brace_free_spec s : brace_free s = true -> bfree s.
Proof.
  unfold brace_free, bfree. rewrite forallb_forall, Forall_forall. intros H c Hc.
  specialize (H c Hc). apply andb_true_iff in H as [H1 H2]. apply negb_true_iff in H1, H2.
  split; intros ->; rewrite N.eqb_refl in *; discriminate.
Qed.

Lemma toks_wf_spec ts : forallb tok_wf ts = true -> Forall tok_ok ts.
Proof.
  rewrite forallb_forall, Forall_forall. intros H t Ht. specialize (H t Ht).
  destruct t; simpl in *; apply brace_free_spec; assumption.
Qed.

Lemma tv_wf_spec tv : tv_wf tv = true -> tv_ok tv.
Proof.
  unfold tv_wf, tv_ok. rewrite forallb_forall, Forall_forall. intros H kv Hkv. specialize (H kv Hkv).
  apply andb_true_iff in H as [H1 H2]. split; apply brace_free_spec; assumption.
Qed.

Lemma tails_suffix t s : In t (tails s) -> t <> [] /\ suffix t s.
Proof.
  induction s as [|c s IH]; simpl; [contradiction|]. intros [<-|H].
  - split; [discriminate | apply suffix_refl].
  - destruct (IH H) as [H1 H2]. split; [assumption | apply suffix_tail; assumption].
Qed.

Theorem judge_tmpl_model tv toks : judge (CTmpl tv toks (subst_all tv (render toks))) = 0.
Proof.
  unfold judge. rewrite str_eqb_refl. simpl negb.
  destruct (forallb tok_wf toks && tv_wf tv) eqn:G; simpl; [|reflexivity].
  apply andb_true_iff in G as [G1 G2]. apply toks_wf_spec in G1. pose proof (tv_wf_spec tv G2) as G3.
  rewrite (subst_tokens tv G3 toks G1), str_eqb_refl. simpl.
  assert (F : forallb (fun kv => negb (occurs_b (placeholder (fst kv)) (render (tsubst tv toks)))) tv = true).
  { apply forallb_forall. intros [k v] Hkv. simpl. apply negb_true_iff. unfold occurs_b.
    destruct (existsb (fun t => has_prefix t (placeholder k)) (tails (render (tsubst tv toks)))) eqn:X; [|reflexivity].
    exfalso. apply existsb_exists in X as [t [Hin Hp]]. apply tails_suffix in Hin as [Hne Hs].
    assert (Hk : bfree k).
    { unfold tv_ok in G3. rewrite Forall_forall in G3. apply (G3 (k, v) Hkv). }
    assert (Hin' : In k (keys tv)) by (unfold keys; apply in_map_iff; exists (k, v); split; [reflexivity | assumption]).
    rewrite (render_no_occurrence k (tsubst tv toks) (tsubst_ok tv toks G3 G1) Hk (tsubst_no_var tv toks k Hin') t Hne Hs) in Hp.
    discriminate. }
  rewrite F. reflexivity.
Qed.

Theorem judge_bad_model : judge (CBad true) = 0.
Proof. reflexivity. Qed.

(* the strongest true form of "a cluster block changes only what it states", end to end: when
   no selected service carries `options:` in both blocks, every field of every resolved upstream
   is the first stated value along  extra route > cluster block > default block > deployment
   default  (header maps key by key) *)
Theorem field_by_field_d6_free O E d ups :
  doc_wf (subst_doc (e_tvars E) d) = true -> env_wf E = true ->
  forallb (fun t => negb (sel_d6 t)) (spec_selected (e_cluster E) (subst_doc (e_tvars E) d)) = true ->
  set_upstream_configs O E d = Ok ups ->
  forall2b (matches (e_tvars E)) (spec_expected O E (subst_doc (e_tvars E) d)) ups = true.
Proof.
  intros Hd HE H6 S.
  apply set_upstream_configs_ok in S as [L R]. unfold load_configs in L. apply load_resolved_elems in L.
  rewrite (forall2b_no_d6 _ _ _ (spec_expected_no_d6 O E _ H6)).
  apply (rel_resolved _ E _ _ _ (spec_expected_rel O E _ HE Hd) L).
Qed.

(* ---- validators built by proxy.New, asked through the login callback ---- *)
From V Require Validators Corr_C11 Corr_C11_proofs.

Definition admit_rows (ids : list (str * list str)) (pols : list Validators.policy) : list (list N) :=
  map (fun p => map (fun id => if Validators.login_admit lower_ascii p (fst id) (Validators.GroupsOk (snd id))
                               then 1 else 0) ids) pols.

Lemma rows_eqb_refl (l : list (list N)) : list_eqb (list_eqb N.eqb) l l = true.
Proof.
  apply (list_eqb_spec (list_eqb N.eqb)); [|reflexivity].
  intros x y. apply list_eqb_spec. intros; apply N.eqb_eq.
Qed.

(* the monitor (documented any-of rule on the upstream's own lists) accepts the model of
   proxy.New's validators for every set of identities and every list of policies *)
Theorem judge_admit_model ids pols : judge (CAdmit ids pols (admit_rows ids pols)) = 0.
Proof.
  unfold judge. fold (admit_rows ids pols). rewrite rows_eqb_refl. simpl negb.
  destruct (forallb (fun p => Corr_C11.dom_guard lower_ascii (Validators.p_domains p)) pols) eqn:G; simpl; [|reflexivity].
  rewrite forallb_forall in G.
  assert (E : map (fun p => map (fun id => if Corr_C11.spec_admit lower_ascii p (fst id) (Validators.GroupsOk (snd id)) then 1 else 0) ids) pols
              = admit_rows ids pols).
  { unfold admit_rows. apply map_ext_in. intros p Hp. apply map_ext. intros id.
    rewrite (Corr_C11_proofs.spec_admit_model lower_ascii p (fst id) (Validators.GroupsOk (snd id)) (G p Hp)). reflexivity. }
  rewrite E, rows_eqb_refl. reflexivity.
Qed.
