(* Composition of sign-out with the coordinator's proxy model (read-only imports of ProxyCore /
   ProxyWorld): once the IdP has revoked the token — the authenticator's back channel answers 401
   to /refresh and a non-200, non-429/503 status (or nothing) to /validate — every saved copy of a
   proxy session is refused and cleared at its next due check, and a check is due at the latest
   when the copy's validity deadline has passed, i.e. at most V seconds after it was sealed. *)
From V Require Import Base Base_proofs SignOut SignOut_proofs Validators ProxyCore ProxyCore_proofs ProxyWorld ProxyWorld_proofs.
From Coq Require Import ZifyBool.
Open Scope Z_scope.

(* what the proxy hears from the authenticator about a revoked token *)
Definition revoked_answers (a : answers) : Prop :=
  a_refresh a = St 401 /\
  (a_validate a = Transport \/ exists code, a_validate a = St code /\ code <> 200 /\ unavailable code = false).

Definition revoked_answers_b (a : answers) : bool :=
  match a_refresh a with St c => c =? 401 | Transport => false end &&
  match a_validate a with St c => negb (c =? 200) && negb (unavailable c) | Transport => true end.

Lemma revoked_answers_b_spec a : revoked_answers_b a = true <-> revoked_answers a.
Proof.
  unfold revoked_answers_b, revoked_answers. split.
  - intros H. apply andb_true_iff in H as [H1 H2]. split.
    + destruct (a_refresh a) as [c|]; [|discriminate]. f_equal. lia.
    + destruct (a_validate a) as [c|]; [|left; reflexivity]. right. exists c.
      apply andb_true_iff in H2 as [H2 H3]. apply negb_true_iff in H3. split; [reflexivity|]. split; [lia | exact H3].
  - intros [H1 H2]. rewrite H1. cbn. destruct H2 as [->|[code [-> [Hne Hu]]]]; [reflexivity|].
    rewrite Hu. cbn. lia.
Qed.

Section Compose.
Variable lower : str -> str.

Lemma revoked_denied_refresh allowed a : revoked_answers a -> denied_at_refresh allowed a.
Proof. intros [H _]. left. unfold redeem_refresh. rewrite H. reflexivity. Qed.

Lemma revoked_denied_validate allowed a : revoked_answers a -> denied_at_validate allowed a.
Proof. intros [_ [H|H]]; [left; exact H | right; left; exact H]. Qed.

(* ANY saved copy, on any host, under any policy: once a check is due it is refused and cleared *)
Theorem old_copy_refused now c u host s a :
  revoked_answers a ->
  s_valid_dl s < now \/ s_refresh_dl s < now ->
  exists e, ao_err (authenticate lower now c u host (Sealed s) a) = Some e /\
            ao_cookie (authenticate lower now c u host (Sealed s) a) = CCleared /\
            ao_session (authenticate lower now c u host (Sealed s) a) = None.
Proof.
  intros Hr Hdue.
  destruct (ao_err (authenticate lower now c u host (Sealed s) a)) as [e|] eqn:E.
  - exists e. split; [reflexivity|]. eapply authenticate_error_clears; eauto.
  - exfalso. destruct (authenticate_sound lower now c u host (Sealed s) a E) as [s0 [Es Hok]].
    inversion Es; subst s0. destruct Hok as [Hslug [Hup [Hl _]]].
    destruct (Z_lt_dec (s_refresh_dl s) now) as [Hrf|Hrf].
    + destruct (revocation_refresh lower now c u host s a Hslug Hup Hl Hrf
                  (or_intror (revoked_denied_refresh _ a Hr))) as [e [He _]]. congruence.
    + assert (Hv : s_valid_dl s < now) by lia.
      destruct (revocation_validate lower now c u host s a Hslug Hup Hl ltac:(lia) Hv
                  (revoked_denied_validate _ a Hr)) as [He _]. congruence.
Qed.

(* seen at the proxy's front door: the upstream is not reached and the response clears the cookie *)
Theorem old_copy_not_served now c u r s a :
  r_cookie r = Sealed s -> r_endpoint r = EProxy -> whitelisted u r = false ->
  revoked_answers a ->
  s_valid_dl s < now \/ s_refresh_dl s < now ->
  served (handle lower now c u r a) = false /\ rs_cookie (handle lower now c u r a) = CCleared.
Proof.
  intros Hck Hep Hwl Hr Hdue. unfold handle, proxy_handle. rewrite Hep, Hwl, Hck.
  destruct (old_copy_refused now c u (r_host r) s a Hr Hdue) as [e [He [Hc _]]].
  rewrite He. unfold served. cbn [rs_out rs_cookie]. split; [destruct e; reflexivity | exact Hc].
Qed.

(* the time bound: a copy that is not yet due is exactly one whose deadlines have not passed;
   the validity deadline of every copy the proxy ever issued is at most V after its sealing *)
Theorem old_copy_refused_within_V c pol_of evs k i host a now :
  nth_error (w_issued (run lower c pol_of evs)) k = Some i ->
  revoked_answers a ->
  i_at i + c_V c < now ->
  exists e, ao_err (authenticate lower now c (pol_of host) host (Sealed (i_s i)) a) = Some e /\
            ao_cookie (authenticate lower now c (pol_of host) host (Sealed (i_s i)) a) = CCleared.
Proof.
  intros Hn Hr Hlate.
  pose proof (inv_run lower c pol_of evs) as Hinv. unfold Inv in Hinv.
  rewrite Forall_forall in Hinv. specialize (Hinv i (nth_error_In _ _ Hn)).
  destruct Hinv as [_ [_ [_ [_ [_ [_ [Hv _]]]]]]].
  destruct (old_copy_refused now c (pol_of host) host (i_s i) a Hr ltac:(left; lia)) as [e [He [Hc _]]].
  exists e. auto.
Qed.

End Compose.

(* ---- both services, whole histories ---------------------------------------------------------- *)
(* the token of a proxy session that the provider's Revoke names *)
Definition grant_token (p : provider) (s : session) : str :=
  match p with PGoogle => s_access s | POkta => s_refresh_tok s end.

(* After ANY history of requests to the authenticator (any methods, fields, cookies, IdP answers):
   if some response cleared the cookie of session [s] (the user was told "signed out"), then the IdP
   holds its token revoked; hence — if the proxy's back channel reports what the IdP holds — every
   saved copy [ps] of a proxy session minted from the same grant is refused and cleared at its next
   due check, on any host and under any policy. *)
Theorem signed_out_copy_refused (mac : str -> str -> str) secret evs p s lower now c u host ps a :
  In (p, s) (st_cleared (arun mac secret evs)) ->
  grant_token p ps = revoke_token p s ->
  (In (grant_token p ps) (st_revoked (arun mac secret evs)) -> revoked_answers a) ->
  s_valid_dl ps < now \/ s_refresh_dl ps < now ->
  exists e, ao_err (authenticate lower now c u host (Sealed ps) a) = Some e /\
            ao_cookie (authenticate lower now c u host (Sealed ps) a) = CCleared /\
            ao_session (authenticate lower now c u host (Sealed ps) a) = None.
Proof.
  intros Hcl Htok Hback Hdue. apply old_copy_refused; [|exact Hdue].
  apply Hback. rewrite Htok. apply (cleared_implies_revoked mac secret evs p s Hcl).
Qed.

(* satisfiable: a session one second past its validity deadline, answers 401 / 401 *)
Example old_copy_example :
  let s := {| s_slug := [103%N]; s_email := [97%N;64%N;98%N]; s_user := []; s_access := [116%N]; s_refresh_tok := [114%N];
              s_refresh_dl := 5000; s_lifetime_dl := 90000; s_valid_dl := 999; s_grace := None;
              s_groups := []; s_upstream := [104%N] |} in
  let a := {| a_refresh := St 401; a_refresh_body := None; a_validate := St 401;
              a_profile := St 200; a_profile_body := Some [] |} in
  revoked_answers a /\
  ao_err (authenticate lower_ascii 1000 {| c_slug := [103%N]; c_L := 86400; c_V := 60; c_G := 0 |}
            {| u_rules := {| p_addresses := []; p_domains := [star]; p_groups := [] |}; u_preflight := false |}
            [104%N] (Sealed s) a) = Some ENotAuthorized.
Proof.
  cbv zeta. split; [|reflexivity]. split; [reflexivity|]. right. exists 401. repeat split; [lia].
Qed.
