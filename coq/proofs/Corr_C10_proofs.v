(* Corr_C10_proofs.v — the monitor used by Corr_C10.judge accepts the model's own prediction for
   every input: with the repaired emailFromIDToken (len_check = true) without exception, with
   today's code (len_check = false) except exactly on the signature of known finding C10-K1.
   This ties the boolean specification that is applied to the implementation's observations
   (spec_vouched, holds_sound, holds_nocrash) to the theorems of IdToken_proofs. *)
From V Require Import Base Base_proofs CorrBase IdToken IdToken_proofs Corr_C10.

Lemma opt_str_eqb_refl (e : str) : option_eqb str_eqb (Some e) (Some e) = true.
Proof. simpl. apply str_eqb_refl. Qed.

Lemma opt_str_eqb_eq (a b : option str) : option_eqb str_eqb a b = true <-> a = b.
Proof.
  destruct a, b; simpl; split; intros H; try discriminate; try reflexivity.
  - apply str_eqb_eq in H. congruence.
  - inversion H. apply str_eqb_refl.
Qed.

Lemma obs_eqb_refl o : obs_eqb o o = true.
Proof. destruct o; simpl; rewrite ?str_eqb_refl, ?N.eqb_refl; reflexivity. Qed.

Lemma cb_obs_eqb_refl o : cb_obs_eqb o o = true.
Proof.
  destruct o as [|st c]; simpl; [reflexivity|]. rewrite N.eqb_refl. destruct c; simpl; [apply str_eqb_refl | reflexivity].
Qed.

Lemma nonempty_some (e : str) : e <> [] -> nonempty e = Some e.
Proof. destruct e; [congruence | reflexivity]. Qed.

Lemma nth1_shape {A} (l : list A) x : nth_error l 1 = Some x -> exists a r, l = a :: x :: r.
Proof. destruct l as [|a [|b r]]; simpl; intros H; inversion H; subst. eauto. Qed.

Lemma idtoken_is_str v idt seg :
  as_string v = Some idt -> nth_error (split_on dot idt) 1 = Some seg -> v = JStr idt.
Proof.
  intros H Hn. destruct v; simpl in H; inversion H; subst; try reflexivity.
  simpl in Hn. discriminate.
Qed.

(* the declarative "vouched e-mail" agrees with what the model's Redeem accepts *)
Lemma spec_vouched_model lc prov oracle cd tok ui s :
  redeem lc prov oracle cd tok ui = Session s ->
  spec_vouched prov oracle tok ui = Some (s_email s).
Proof.
  intros H. apply redeem_session_email in H as (_ & Hne & tf & -> & _ & _ & H).
  destruct prov.
  - destruct H as (idt & seg & bytes & pf & Hi & Hn & Hb & Ho & He & Hv).
    pose proof (idtoken_is_str _ _ _ Hi Hn) as Hi'.
    destruct (nth1_shape _ _ Hn) as (a & r & Hs).
    cbn -[split_on b64url_decode pad4]. rewrite Hi', Hs, Hb, Ho, He, Hv. apply nonempty_some. exact Hne.
  - destruct H as (uf & -> & He & Hv). cbn. rewrite He, Hv. apply nonempty_some. exact Hne.
  - destruct H as (uf & -> & He). cbn. rewrite He. apply nonempty_some. exact Hne.
Qed.

Definition later_ok (later : option N) : bool :=
  match later with Some st => 400 <=? st | None => true end.

(* clauses 1+2 hold of every prediction of the model, for both values of len_check *)
Lemma holds_sound_model lc prov oracle errp cd tok ui later :
  later_ok later = true ->
  holds_sound prov oracle tok ui (obs_of (redeem lc prov oracle cd tok ui))
    (Some (errp, later, cb_obs_of (oauth_callback lc prov oracle errp cd tok ui later))) = true.
Proof.
  intros Hl. unfold holds_sound. apply andb_true_iff. split.
  - destruct (redeem lc prov oracle cd tok ui) as [s|k|] eqn:R; simpl; try reflexivity.
    rewrite (spec_vouched_model _ _ _ _ _ _ _ R). apply str_eqb_refl.
  - destruct (oauth_callback lc prov oracle errp cd tok ui later) as [|st|s] eqn:C; simpl.
    + reflexivity.
    + (* an error page: its status is 400, 403, 500 or the later gate's *)
      unfold oauth_callback in C. destruct errp; [inversion C; reflexivity|].
      destruct (is_nil cd); [inversion C; reflexivity|].
      destruct (redeem_code (redeem lc prov oracle cd tok ui)); try discriminate.
      * destruct later; [|discriminate]. inversion C; subst. exact Hl.
      * inversion C; reflexivity.
    + assert (Hc : session_cookie (oauth_callback lc prov oracle errp cd tok ui later) = Some (s_email s))
        by (rewrite C; reflexivity).
      apply callback_cookie in Hc as (-> & -> & _ & s' & R & E).
      rewrite (spec_vouched_model _ _ _ _ _ _ _ R), E. simpl. rewrite str_eqb_refl. reflexivity.
Qed.

(* clause 3 holds of every prediction of the repaired model *)
Lemma holds_nocrash_model_fixed prov oracle errp cd tok ui later :
  holds_nocrash (obs_of (redeem true prov oracle cd tok ui))
    (Some (errp, later, cb_obs_of (oauth_callback true prov oracle errp cd tok ui later))) = true.
Proof.
  unfold holds_nocrash. apply andb_true_iff. split.
  - destruct (redeem true prov oracle cd tok ui) eqn:R; try reflexivity.
    exfalso. exact (redeem_no_panic _ _ _ _ _ R).
  - destruct (oauth_callback true prov oracle errp cd tok ui later) eqn:C; try reflexivity.
    exfalso. exact (callback_no_drop _ _ _ _ _ _ _ C).
Qed.

Lemma k1_signature_of_panic lc prov oracle cd tok ui :
  redeem lc prov oracle cd tok ui = Panic -> k1_signature prov cd tok = true.
Proof.
  intros R. apply redeem_panic_iff in R as (_ & -> & Nc & a & r & x & i & (tf & -> & D) & Hn).
  cbn. apply is_nil_false in Nc. rewrite Nc, D. simpl.
  destruct (existsb (N.eqb dot) i) eqn:E; [|reflexivity].
  apply existsb_dot_In in E. contradiction.
Qed.

(* ... and of today's model it fails only on the signature of C10-K1 *)
Lemma holds_nocrash_model_today lc prov oracle errp cd tok ui later :
  holds_nocrash (obs_of (redeem lc prov oracle cd tok ui))
    (Some (errp, later, cb_obs_of (oauth_callback lc prov oracle errp cd tok ui later))) = false ->
  lc = false /\ k1_signature prov cd tok = true.
Proof.
  unfold holds_nocrash. intros H. apply andb_false_iff in H as [H|H].
  - destruct (redeem lc prov oracle cd tok ui) eqn:R; try discriminate.
    split; [|exact (k1_signature_of_panic _ _ _ _ _ _ R)].
    apply redeem_panic_iff in R as (R & _). exact R.
  - destruct (oauth_callback lc prov oracle errp cd tok ui later) eqn:C; try discriminate.
    apply callback_dropped_iff in C as [_ R].
    split; [|exact (k1_signature_of_panic _ _ _ _ _ _ R)].
    apply redeem_panic_iff in R as (R & _). exact R.
Qed.

(* the case the driver would write if the implementation behaved exactly like the model *)
Definition model_case (lc : bool) tag prov cd tok ui tab errp later : case :=
  let oracle := oracle_tab tab in
  let '(o, tc, uc) := redeem_tr lc prov oracle cd tok ui in
  Case tag prov cd tok ui tab (obs_of o) tc uc
       (Some (errp, later, cb_obs_of (oauth_callback lc prov oracle errp cd tok ui later))).

Theorem judge_accepts_model lc tag prov cd tok ui tab errp later :
  later_ok later = true -> oracle_miss tab tok = false ->
  judge_lc lc (model_case lc tag prov cd tok ui tab errp later) = 0 \/
  (judge_lc lc (model_case lc tag prov cd tok ui tab errp later) = 101 /\ lc = false /\ k1_signature prov cd tok = true).
Proof.
  intros Hl Hm. unfold model_case, judge_lc. cbv zeta.
  pose proof (holds_sound_model lc prov (oracle_tab tab) errp cd tok ui later Hl) as Hs.
  unfold redeem in Hs.
  destruct (redeem_tr lc prov (oracle_tab tab) cd tok ui) as [[o tc] uc] eqn:R. simpl in Hs. rewrite R.
  rewrite Hm, obs_eqb_refl, cb_obs_eqb_refl. unfold bool_eqb. rewrite !eqb_reflx. simpl.
  rewrite Hs. simpl.
  destruct (holds_nocrash (obs_of o)
              (Some (errp, later, cb_obs_of (oauth_callback lc prov (oracle_tab tab) errp cd tok ui later)))) eqn:Hc.
  - left. reflexivity.
  - right. assert (Hc' : holds_nocrash (obs_of (redeem lc prov (oracle_tab tab) cd tok ui))
              (Some (errp, later, cb_obs_of (oauth_callback lc prov (oracle_tab tab) errp cd tok ui later))) = false)
      by (unfold redeem; rewrite R; exact Hc).
    apply holds_nocrash_model_today in Hc' as [-> K]. rewrite K. simpl. auto.
Qed.

Corollary judge_accepts_fixed_model tag prov cd tok ui tab errp later :
  later_ok later = true -> oracle_miss tab tok = false ->
  judge_lc true (model_case true tag prov cd tok ui tab errp later) = 0.
Proof.
  intros Hl Hm. destruct (judge_accepts_model true tag prov cd tok ui tab errp later Hl Hm) as [H|(_ & H & _)];
    [exact H | discriminate].
Qed.
