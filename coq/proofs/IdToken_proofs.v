(* IdToken_proofs.v — lemmas for C10 (model: theories/IdToken.v). *)
From V Require Import Base Base_proofs IdToken.
From Coq Require Import ZifyN ZifyNat ZifyBool.

(* ------------------------------------------------------------------------------------------ *)
(* strings.Split on '.'                                                                        *)

Lemma split_on_nonempty sep s : split_on sep s <> [].
Proof.
  induction s as [|c s IH]; simpl; [discriminate|].
  destruct (N.eqb c sep); [discriminate|]. destruct (split_on sep s); discriminate.
Qed.

Lemma split_on_no_sep sep s : ~ In sep s -> split_on sep s = [s].
Proof.
  induction s as [|c s IH]; simpl; intros H; [reflexivity|].
  destruct (N.eqb c sep) eqn:E.
  - apply N.eqb_eq in E. exfalso. apply H. left. congruence.
  - rewrite IH; [reflexivity | tauto].
Qed.

Lemma split_on_has_sep sep s : In sep s -> exists a b r, split_on sep s = a :: b :: r.
Proof.
  induction s as [|c s IH]; simpl; intros H; [contradiction|].
  destruct (N.eqb c sep) eqn:E.
  - destruct (split_on sep s) as [|x r] eqn:S; [exfalso; exact (split_on_nonempty _ _ S)|].
    exists [], x, r. reflexivity.
  - destruct H as [H|H]; [apply N.eqb_neq in E; congruence|].
    destruct (IH H) as (a & b & r & ->). exists (c :: a), b, r. reflexivity.
Qed.

Lemma In_dec_N (x : N) l : In x l \/ ~ In x l.
Proof. destruct (in_dec N.eq_dec x l); auto. Qed.

(* jwt[1] is out of range exactly when the token holds no separator *)
Lemma nth1_split_none sep s : nth_error (split_on sep s) 1 = None <-> ~ In sep s.
Proof.
  split.
  - intros H Hin. destruct (split_on_has_sep sep s Hin) as (a & b & r & E). rewrite E in H. discriminate.
  - intros H. rewrite (split_on_no_sep _ _ H). reflexivity.
Qed.

Lemma nth1_length_lt2 {A} (l : list A) : Nat.ltb (length l) 2 = true <-> nth_error l 1 = None.
Proof.
  destruct l as [|a [|b r]]; simpl; split; intros H; try reflexivity; try discriminate.
Qed.

Lemma existsb_dot_In s : existsb (N.eqb dot) s = true <-> In dot s.
Proof.
  rewrite existsb_exists. split.
  - intros (x & Hx & E). apply N.eqb_eq in E. subst. exact Hx.
  - intros H. exists dot. split; [exact H | apply N.eqb_refl].
Qed.

(* ------------------------------------------------------------------------------------------ *)
(* provider_request                                                                            *)

Lemma provider_request_inl {F R} (decode : F -> option R) a r :
  provider_request decode a = inl r <-> exists f, a = Resp 200 (Json f) /\ decode f = Some r.
Proof.
  unfold provider_request. split.
  - destruct a as [|st b]; [discriminate|].
    destruct (st =? 200) eqn:E.
    + apply N.eqb_eq in E. subst st. destruct b as [|f]; [discriminate|].
      destruct (decode f) eqn:D; [|discriminate]. intros H; inversion H; subst. exists f. auto.
    + destruct (st =? 400); [discriminate|]. destruct (st =? 429); discriminate.
  - intros (f & -> & D). simpl. rewrite D. reflexivity.
Qed.

Lemma provider_request_total {F R} (decode : F -> option R) a :
  (exists r, provider_request decode a = inl r) \/ (exists e, provider_request decode a = inr e).
Proof. destruct (provider_request decode a) as [r|e]; eauto. Qed.

(* every "bad" answer is an error: transport failure, any status but 200, a body that is not a
   JSON object for the target struct, a field of the wrong type *)
Definition bad_answer {F R} (decode : F -> option R) (a : answer F) : Prop :=
  a = TransportErr \/
  (exists st b, a = Resp st b /\ st <> 200) \/
  a = Resp 200 NotJSON \/
  (exists f, a = Resp 200 (Json f) /\ decode f = None).

Lemma provider_request_bad {F R} (decode : F -> option R) a :
  bad_answer decode a <-> exists e, provider_request decode a = inr e.
Proof.
  unfold bad_answer, provider_request. split.
  - intros [->|[(st & b & -> & Hst)|[->|(f & -> & D)]]]; simpl; eauto.
    + apply N.eqb_neq in Hst. rewrite Hst. destruct (st =? 400); eauto. destruct (st =? 429); eauto.
    + rewrite D. eauto.
  - destruct a as [|st b]; [auto|]. destruct (st =? 200) eqn:E.
    + apply N.eqb_eq in E. subst. destruct b as [|f]; [auto|].
      destruct (decode f) eqn:D; [intros (e & H); discriminate|]. intros _. right; right; right. eauto.
    + apply N.eqb_neq in E. intros _. right; left. eauto.
Qed.

(* which fields make the typed decoding fail *)
Lemma decode_tok_none f :
  decode_tok f = None <->
  as_string (f_access f) = None \/ as_string (f_refresh f) = None \/
  as_int64 (f_expires f) = None \/ as_string (f_idtoken f) = None.
Proof.
  unfold decode_tok.
  destruct (as_string (f_access f)), (as_string (f_refresh f)), (as_int64 (f_expires f)), (as_string (f_idtoken f));
    split; intros H; try discriminate; try reflexivity; auto 6;
    destruct H as [H|[H|[H|H]]]; discriminate.
Qed.

Lemma as_string_none v : as_string v = None <-> v <> JMissing /\ forall s, v <> JStr s.
Proof.
  destruct v; simpl; split; try discriminate; try (intros [H1 H2]; try congruence; exfalso; eapply H2; reflexivity);
    intros _; split; try discriminate; intros; discriminate.
Qed.

Lemma as_string_nonempty v e : as_string v = Some e -> e <> [] -> v = JStr e.
Proof. destruct v; simpl; intros H He; inversion H; subst; congruence. Qed.

Lemma as_bool_true v : as_bool v = Some true -> v = JBool true.
Proof. destruct v; simpl; intros H; inversion H; subst; congruence. Qed.

Lemma is_nil_false {A} (l : list A) : is_nil l = false <-> l <> [].
Proof. destruct l; simpl; split; congruence. Qed.

Lemma is_nil_true {A} (l : list A) : is_nil l = true <-> l = [].
Proof. destruct l; simpl; split; congruence. Qed.

(* ------------------------------------------------------------------------------------------ *)
(* Google: emailFromIDToken                                                                    *)

(* the id-token payload vouches for [email]: segment 1 exists, is base64url (after '=' padding),
   decodes to a JSON object with that non-empty e-mail and email_verified = true *)
Definition google_vouches (oracle : str -> body user_fields) (idt email : str) : Prop :=
  exists seg bytes pf,
    nth_error (split_on dot idt) 1 = Some seg /\
    b64url_decode (pad4 seg) = Some bytes /\
    oracle bytes = Json pf /\
    f_email pf = JStr email /\ email <> [] /\ f_verified pf = JBool true.

Lemma email_from_id_token_ok lc oracle idt email :
  email_from_id_token lc oracle idt = EOk email <-> google_vouches oracle idt email.
Proof.
  unfold email_from_id_token, google_vouches, jwt_decode_segment, decode_payload. split.
  - destruct (lc && Nat.ltb (length (split_on dot idt)) 2); [discriminate|].
    destruct (nth_error (split_on dot idt) 1) as [seg|] eqn:Hn; [|discriminate].
    destruct (b64url_decode (pad4 seg)) as [bytes|] eqn:Hb; [|discriminate].
    destruct (oracle bytes) as [|pf] eqn:O; [discriminate|].
    destruct (as_string (f_email pf)) as [e|] eqn:E; [|discriminate].
    destruct (as_bool (f_verified pf)) as [v|] eqn:V; [|discriminate].
    destruct (is_nil e) eqn:N; [discriminate|]. destruct v; simpl; [|discriminate].
    intros H; inversion H; subst. apply is_nil_false in N.
    exists seg, bytes, pf.
    split; [reflexivity|]. split; [exact Hb|]. split; [exact O|].
    split; [apply as_string_nonempty; assumption|]. split; [exact N|].
    apply as_bool_true; assumption.
  - intros (seg & bytes & pf & Hn & Hb & Ho & He & Hne & Hv).
    assert (L : Nat.ltb (length (split_on dot idt)) 2 = false).
    { destruct (Nat.ltb (length (split_on dot idt)) 2) eqn:L; [|reflexivity].
      apply nth1_length_lt2 in L. congruence. }
    rewrite L, andb_false_r, Hn, Hb, Ho, He, Hv. simpl.
    destruct email; [congruence | reflexivity].
Qed.

Lemma email_from_id_token_panic lc oracle idt :
  email_from_id_token lc oracle idt = EPanic <-> lc = false /\ ~ In dot idt.
Proof.
  unfold email_from_id_token. rewrite <- nth1_split_none.
  destruct (nth_error (split_on dot idt) 1) as [seg|] eqn:Hn.
  - assert (L : Nat.ltb (length (split_on dot idt)) 2 = false).
    { destruct (Nat.ltb (length (split_on dot idt)) 2) eqn:L; [|reflexivity].
      apply nth1_length_lt2 in L. congruence. }
    rewrite L, andb_false_r. split; [|intros [_ H]; discriminate].
    destruct (jwt_decode_segment seg) as [b|]; [|discriminate]. destruct (oracle b) as [|f]; [discriminate|].
    destruct (decode_payload f) as [[e v]|]; [|discriminate]. destruct (is_nil e); [discriminate|].
    destruct (negb v); discriminate.
  - assert (L : Nat.ltb (length (split_on dot idt)) 2 = true) by (apply nth1_length_lt2; exact Hn).
    rewrite L, andb_true_r. destruct lc; split; try discriminate; auto.
    intros [H _]; discriminate.
Qed.

(* what makes an id-token with a segment 1 unacceptable *)
Definition bad_id_token (oracle : str -> body user_fields) (idt : str) : Prop :=
  exists seg, nth_error (split_on dot idt) 1 = Some seg /\
    (jwt_decode_segment seg = None \/
     exists bytes, jwt_decode_segment seg = Some bytes /\
       (oracle bytes = NotJSON \/
        exists pf, oracle bytes = Json pf /\
          (as_string (f_email pf) = None \/ as_bool (f_verified pf) = None \/       (* ill-typed *)
           as_string (f_email pf) = Some [] \/                                       (* missing / empty e-mail *)
           as_bool (f_verified pf) = Some false))).                                  (* missing / false email_verified *)

Lemma email_from_id_token_bad lc oracle idt :
  bad_id_token oracle idt -> email_from_id_token lc oracle idt = EErr.
Proof.
  intros (seg & Hn & H). unfold email_from_id_token.
  assert (L : Nat.ltb (length (split_on dot idt)) 2 = false).
  { destruct (Nat.ltb (length (split_on dot idt)) 2) eqn:L; [|reflexivity].
    apply nth1_length_lt2 in L. congruence. }
  rewrite L, andb_false_r, Hn.
  destruct H as [->|(bytes & -> & H)]; [reflexivity|].
  destruct H as [->|(pf & -> & H)]; [reflexivity|].
  unfold decode_payload.
  destruct (as_string (f_email pf)) as [e|] eqn:E; [|reflexivity].
  destruct (as_bool (f_verified pf)) as [v|] eqn:V; [|reflexivity].
  destruct H as [H|[H|[H|H]]]; try discriminate.
  - inversion H; subst. reflexivity.
  - inversion H; subst. destruct (is_nil e); reflexivity.
Qed.

(* the three-way split is complete: an id-token is vouched for, bad, or has no segment 1 *)
Lemma id_token_cases oracle idt :
  (exists e, google_vouches oracle idt e) \/ bad_id_token oracle idt \/ ~ In dot idt.
Proof.
  destruct (email_from_id_token false oracle idt) as [e| |] eqn:H.
  - left. exists e. apply (email_from_id_token_ok false). exact H.
  - right; left. unfold email_from_id_token in H. cbn [andb] in H.
    destruct (nth_error (split_on dot idt) 1) as [seg|] eqn:Hn; [|discriminate].
    exists seg. split; [exact Hn|].
    destruct (jwt_decode_segment seg) as [bytes|] eqn:B; [|left; reflexivity]. right. exists bytes. split; [reflexivity|].
    destruct (oracle bytes) as [|pf] eqn:O; [left; reflexivity|]. right. exists pf. split; [reflexivity|].
    unfold decode_payload in H.
    destruct (as_string (f_email pf)) as [e|] eqn:E; [|auto].
    destruct (as_bool (f_verified pf)) as [v|] eqn:V; [|auto].
    destruct e; [auto|]. destruct v; [discriminate | auto 6].
  - right; right. apply (email_from_id_token_panic false oracle idt). exact H.
Qed.

(* ------------------------------------------------------------------------------------------ *)
(* Okta / Cognito userinfo                                                                     *)

Definition okta_vouches (ui : answer user_fields) (email : str) : Prop :=
  exists uf, ui = Resp 200 (Json uf) /\
    f_email uf = JStr email /\ email <> [] /\ f_verified uf = JBool true /\
    as_strings (f_groups uf) <> None.

Definition cognito_vouches (ui : answer user_fields) (email : str) : Prop :=
  exists uf, ui = Resp 200 (Json uf) /\
    f_email uf = JStr email /\ email <> [] /\ as_string (f_username uf) <> None.

Lemma verify_email_okta_ok access ui email called :
  verify_email_okta access ui = (inl email, called) <->
  access <> [] /\ header_value_ok access = true /\ okta_vouches ui email /\ called = true.
Proof.
  unfold verify_email_okta, okta_vouches. split.
  - destruct (is_nil access) eqn:N; [discriminate|]. apply is_nil_false in N.
    destruct (header_value_ok access); simpl; [|discriminate].
    destruct (provider_request decode_okta_user ui) as [[e v]|err] eqn:P; [|discriminate].
    apply provider_request_inl in P as (uf & -> & D). unfold decode_okta_user in D.
    destruct (as_string (f_email uf)) as [e'|] eqn:E; [|discriminate].
    destruct (as_bool (f_verified uf)) as [v'|] eqn:V; [|discriminate].
    destruct (as_strings (f_groups uf)) eqn:G; [|discriminate]. inversion D; subst e' v'.
    destruct (is_nil e) eqn:Ne; [discriminate|]. destruct v; simpl; [|discriminate].
    intros H; inversion H; subst. apply is_nil_false in Ne.
    repeat split; auto. exists uf. repeat split; auto.
    + apply as_string_nonempty; assumption.
    + apply as_bool_true; assumption.
    + congruence.
  - intros (Ha & Hh & (uf & -> & He & Hne & Hv & Hg) & ->).
    apply is_nil_false in Ha. rewrite Ha, Hh. simpl. unfold decode_okta_user. rewrite He, Hv. simpl.
    destruct (as_strings (f_groups uf)); [|congruence]. simpl.
    apply is_nil_false in Hne. rewrite Hne. reflexivity.
Qed.

Lemma verify_email_cognito_ok access ui email called :
  verify_email_cognito access ui = (inl email, called) <->
  access <> [] /\ header_value_ok access = true /\ cognito_vouches ui email /\ called = true.
Proof.
  unfold verify_email_cognito, cognito_vouches. split.
  - destruct (is_nil access) eqn:N; [discriminate|]. apply is_nil_false in N.
    destruct (header_value_ok access); simpl; [|discriminate].
    destruct (provider_request decode_cognito_user ui) as [e|err] eqn:P; [|discriminate].
    apply provider_request_inl in P as (uf & -> & D). unfold decode_cognito_user in D.
    destruct (as_string (f_email uf)) as [e'|] eqn:E; [|discriminate].
    destruct (as_string (f_username uf)) eqn:G; [|discriminate]. inversion D; subst e'.
    destruct (is_nil e) eqn:Ne; [discriminate|].
    intros H; inversion H; subst. apply is_nil_false in Ne.
    repeat split; auto. exists uf. repeat split; auto.
    + apply as_string_nonempty; assumption.
    + congruence.
  - intros (Ha & Hh & (uf & -> & He & Hne & Hg) & ->).
    apply is_nil_false in Ha. rewrite Ha, Hh. simpl. unfold decode_cognito_user. rewrite He. simpl.
    destruct (as_string (f_username uf)); [|congruence].
    apply is_nil_false in Hne. rewrite Hne. reflexivity.
Qed.

(* never a panic outside emailFromIDToken; always a definite verdict *)
Lemma verify_email_okta_total access ui :
  (exists e c, verify_email_okta access ui = (inl e, c)) \/ (exists k c, verify_email_okta access ui = (inr k, c)).
Proof. destruct (verify_email_okta access ui) as [[e|k] c]; eauto. Qed.

(* what makes the userinfo step fail *)
Definition bad_okta_userinfo (access : str) (ui : answer user_fields) : Prop :=
  access = [] \/ header_value_ok access = false \/ bad_answer decode_okta_user ui \/
  exists uf, ui = Resp 200 (Json uf) /\ (as_string (f_email uf) = Some [] \/ as_bool (f_verified uf) = Some false).

Definition bad_cognito_userinfo (access : str) (ui : answer user_fields) : Prop :=
  access = [] \/ header_value_ok access = false \/ bad_answer decode_cognito_user ui \/
  exists uf, ui = Resp 200 (Json uf) /\ as_string (f_email uf) = Some [].

Lemma verify_email_okta_bad access ui :
  bad_okta_userinfo access ui <-> exists k c, verify_email_okta access ui = (inr k, c).
Proof.
  unfold bad_okta_userinfo, verify_email_okta. split.
  - intros [->|[H|[H|(uf & -> & H)]]]; simpl; eauto.
    + destruct (is_nil access); eauto. rewrite H. simpl. eauto.
    + destruct (is_nil access); eauto. destruct (header_value_ok access); simpl; eauto.
      apply provider_request_bad in H as (e & ->). eauto.
    + destruct (is_nil access); eauto. destruct (header_value_ok access); simpl; eauto.
      unfold decode_okta_user.
      destruct (as_string (f_email uf)) as [e|] eqn:E; eauto.
      destruct (as_bool (f_verified uf)) as [v|] eqn:V; eauto.
      destruct (as_strings (f_groups uf)); eauto.
      destruct H as [H|H]; inversion H; subst; simpl; eauto.
      destruct (is_nil e); eauto.
  - destruct (is_nil access) eqn:N; [intros _; left; apply is_nil_true; exact N|].
    destruct (header_value_ok access) eqn:Hh; simpl; [|auto].
    destruct (provider_request decode_okta_user ui) as [[e v]|k] eqn:P.
    + apply provider_request_inl in P as (uf & -> & D). unfold decode_okta_user in D.
      destruct (as_string (f_email uf)) as [e'|] eqn:E; [|discriminate].
      destruct (as_bool (f_verified uf)) as [v'|] eqn:V; [|discriminate].
      destruct (as_strings (f_groups uf)); [|discriminate]. inversion D; subst e' v'.
      destruct (is_nil e) eqn:Ne.
      * intros _. right; right; right. exists uf. split; [reflexivity|]. left. apply is_nil_true in Ne. subst e. exact E.
      * destruct v; simpl; [intros (k & c & H); discriminate|].
        intros _. right; right; right. exists uf. split; [reflexivity|]. right. exact V.
    + intros _. right; right; left. apply provider_request_bad. eauto.
Qed.

Lemma verify_email_cognito_bad access ui :
  bad_cognito_userinfo access ui <-> exists k c, verify_email_cognito access ui = (inr k, c).
Proof.
  unfold bad_cognito_userinfo, verify_email_cognito. split.
  - intros [->|[H|[H|(uf & -> & H)]]]; simpl; eauto.
    + destruct (is_nil access); eauto. rewrite H. simpl. eauto.
    + destruct (is_nil access); eauto. destruct (header_value_ok access); simpl; eauto.
      apply provider_request_bad in H as (e & ->). eauto.
    + destruct (is_nil access); eauto. destruct (header_value_ok access); simpl; eauto.
      unfold decode_cognito_user. rewrite H.
      destruct (as_string (f_username uf)); simpl; eauto.
  - destruct (is_nil access) eqn:N; [intros _; left; apply is_nil_true; exact N|].
    destruct (header_value_ok access) eqn:Hh; simpl; [|auto].
    destruct (provider_request decode_cognito_user ui) as [e|k] eqn:P.
    + apply provider_request_inl in P as (uf & -> & D). unfold decode_cognito_user in D.
      destruct (as_string (f_email uf)) as [e'|] eqn:E; [|discriminate].
      destruct (as_string (f_username uf)); [|discriminate]. inversion D; subst e'.
      destruct (is_nil e) eqn:Ne; [|intros (k & c & H); discriminate].
      intros _. right; right; right. exists uf. split; [reflexivity|]. apply is_nil_true in Ne. subst e. exact E.
    + intros _. right; right; left. apply provider_request_bad. eauto.
Qed.

(* ------------------------------------------------------------------------------------------ *)
(* Redeem                                                                                      *)

(* the token endpoint answered 200 with a JSON object whose four fields decode to these values *)
Definition tok_good (tok : answer tok_fields) (access refresh : str) (expires : Z) (idt : str) : Prop :=
  exists tf, tok = Resp 200 (Json tf) /\ decode_tok tf = Some (access, refresh, expires, idt).

Definition vouched_by (prov : provider) (oracle : str -> body user_fields) (ui : answer user_fields)
    (access idt email : str) : Prop :=
  match prov with
  | Google => google_vouches oracle idt email
  | Okta => access <> [] /\ header_value_ok access = true /\ okta_vouches ui email
  | Cognito => access <> [] /\ header_value_ok access = true /\ cognito_vouches ui email
  end.

Lemma session_eq s e a r x :
  {| s_email := e; s_access := a; s_refresh := r; s_expires_in := x |} = s <->
  s_email s = e /\ s_access s = a /\ s_refresh s = r /\ s_expires_in s = x.
Proof.
  destruct s as [e' a' r' x']; simpl. split.
  - intros H; inversion H; auto.
  - intros (-> & -> & -> & ->). reflexivity.
Qed.

(* exact characterisation of the logins that yield a session *)
Theorem redeem_session_iff lc prov oracle code tok ui s :
  redeem lc prov oracle code tok ui = Session s <->
  code <> [] /\
  exists idt, tok_good tok (s_access s) (s_refresh s) (s_expires_in s) idt /\
              vouched_by prov oracle ui (s_access s) idt (s_email s).
Proof.
  unfold redeem, redeem_tr, tok_good, vouched_by. split.
  - destruct (is_nil code) eqn:Nc; [discriminate|]. apply is_nil_false in Nc.
    destruct (provider_request decode_tok tok) as [[[[a r] x] i]|k] eqn:P; [|discriminate].
    apply provider_request_inl in P as (tf & -> & D).
    destruct prov.
    + destruct (email_from_id_token lc oracle i) as [e| |] eqn:G; try discriminate.
      simpl. intros H. inversion H as [H']. apply session_eq in H' as (He & Ha & Hr & Hx). subst.
      split; [exact Nc|]. exists i. split; [exists tf; auto|].
      apply (email_from_id_token_ok lc). exact G.
    + destruct (verify_email_okta a ui) as [[e|k] c] eqn:G; [|discriminate].
      simpl. intros H. inversion H as [H']. apply session_eq in H' as (He & Ha & Hr & Hx). subst.
      apply verify_email_okta_ok in G as (G1 & G2 & G3 & _).
      split; [exact Nc|]. exists i. split; [exists tf; auto | auto].
    + destruct (verify_email_cognito a ui) as [[e|k] c] eqn:G; [|discriminate].
      simpl. intros H. inversion H as [H']. apply session_eq in H' as (He & Ha & Hr & Hx). subst.
      apply verify_email_cognito_ok in G as (G1 & G2 & G3 & _).
      split; [exact Nc|]. exists i. split; [exists tf; auto | auto].
  - intros (Nc & i & (tf & -> & D) & V). apply is_nil_false in Nc. rewrite Nc.
    assert (P : provider_request decode_tok (Resp 200 (Json tf)) =
                inl (s_access s, s_refresh s, s_expires_in s, i)).
    { apply provider_request_inl. exists tf. auto. }
    rewrite P. destruct prov.
    + apply (email_from_id_token_ok lc) in V. rewrite V. simpl. f_equal. apply session_eq. auto.
    + destruct V as (V1 & V2 & V3).
      assert (G : verify_email_okta (s_access s) ui = (inl (s_email s), true))
        by (apply verify_email_okta_ok; auto).
      rewrite G. simpl. f_equal. apply session_eq. auto.
    + destruct V as (V1 & V2 & V3).
      assert (G : verify_email_cognito (s_access s) ui = (inl (s_email s), true))
        by (apply verify_email_cognito_ok; auto).
      rewrite G. simpl. f_equal. apply session_eq. auto.
Qed.

Lemma decode_tok_some tf a r x i :
  decode_tok tf = Some (a, r, x, i) ->
  as_string (f_access tf) = Some a /\ as_string (f_refresh tf) = Some r /\
  as_int64 (f_expires tf) = Some x /\ as_string (f_idtoken tf) = Some i.
Proof.
  unfold decode_tok.
  destruct (as_string (f_access tf)), (as_string (f_refresh tf)), (as_int64 (f_expires tf)), (as_string (f_idtoken tf));
    intros H; inversion H; auto.
Qed.

(* C10, soundness, spelled out *)
Theorem redeem_session_email lc prov oracle code tok ui s :
  redeem lc prov oracle code tok ui = Session s ->
  code <> [] /\ s_email s <> [] /\
  exists tf, tok = Resp 200 (Json tf) /\
    as_string (f_access tf) = Some (s_access s) /\ as_string (f_refresh tf) = Some (s_refresh s) /\
    match prov with
    | Google =>
        exists idt seg bytes pf,
          as_string (f_idtoken tf) = Some idt /\
          nth_error (split_on dot idt) 1 = Some seg /\
          b64url_decode (pad4 seg) = Some bytes /\
          oracle bytes = Json pf /\
          f_email pf = JStr (s_email s) /\ f_verified pf = JBool true
    | Okta =>
        exists uf, ui = Resp 200 (Json uf) /\ f_email uf = JStr (s_email s) /\ f_verified uf = JBool true
    | Cognito =>
        exists uf, ui = Resp 200 (Json uf) /\ f_email uf = JStr (s_email s)
    end.
Proof.
  intros H. apply redeem_session_iff in H as (Nc & i & (tf & -> & D) & V).
  apply decode_tok_some in D as (Da & Dr & Dx & Di).
  split; [exact Nc|]. unfold vouched_by in V. destruct prov.
  - destruct V as (seg & bytes & pf & V1 & V2 & V3 & V4 & V5 & V6).
    split; [exact V5|]. exists tf. repeat (split; [solve [auto]|]).
    exists i, seg, bytes, pf. auto 8.
  - destruct V as (_ & _ & uf & -> & V4 & V5 & V6 & _).
    split; [exact V5|]. exists tf. repeat (split; [solve [auto]|]). exists uf. auto.
  - destruct V as (_ & _ & uf & -> & V4 & V5 & _).
    split; [exact V5|]. exists tf. repeat (split; [solve [auto]|]). exists uf. auto.
Qed.

(* every kind of unusable answer *)
Definition bad_login (prov : provider) (oracle : str -> body user_fields) (code : str)
    (tok : answer tok_fields) (ui : answer user_fields) : Prop :=
  code = [] \/
  bad_answer decode_tok tok \/
  exists a r x i, tok_good tok a r x i /\
    match prov with
    | Google => bad_id_token oracle i
    | Okta => bad_okta_userinfo a ui
    | Cognito => bad_cognito_userinfo a ui
    end.

Theorem redeem_bad_is_error lc prov oracle code tok ui :
  bad_login prov oracle code tok ui -> exists e, redeem lc prov oracle code tok ui = Error e.
Proof.
  unfold bad_login, redeem, redeem_tr. intros [->|H]; [simpl; eauto|].
  destruct (is_nil code); [simpl; eauto|].
  destruct H as [H|(a & r & x & i & (tf & -> & D) & H)].
  - apply provider_request_bad in H as (e & ->). simpl. eauto.
  - assert (P : provider_request decode_tok (Resp 200 (Json tf)) = inl (a, r, x, i))
      by (apply provider_request_inl; eauto).
    rewrite P. destruct prov.
    + rewrite (email_from_id_token_bad lc oracle i H). simpl. eauto.
    + apply verify_email_okta_bad in H as (k & c & ->). simpl. eauto.
    + apply verify_email_cognito_bad in H as (k & c & ->). simpl. eauto.
Qed.

(* exactly when the request crashes *)
Theorem redeem_panic_iff lc prov oracle code tok ui :
  redeem lc prov oracle code tok ui = Panic <->
  lc = false /\ prov = Google /\ code <> [] /\
  exists a r x i, tok_good tok a r x i /\ ~ In dot i.
Proof.
  unfold redeem, redeem_tr, tok_good. split.
  - destruct (is_nil code) eqn:Nc; [discriminate|]. apply is_nil_false in Nc.
    destruct (provider_request decode_tok tok) as [[[[a r] x] i]|k] eqn:P; [|discriminate].
    apply provider_request_inl in P as (tf & -> & D).
    destruct prov.
    + destruct (email_from_id_token lc oracle i) as [e| |] eqn:G; try discriminate.
      apply email_from_id_token_panic in G as [-> G]. intros _.
      repeat split; auto. exists a, r, x, i. split; [exists tf; auto | exact G].
    + destruct (verify_email_okta a ui) as [[e|k] c]; discriminate.
    + destruct (verify_email_cognito a ui) as [[e|k] c]; discriminate.
  - intros (-> & -> & Nc & a & r & x & i & (tf & -> & D) & Hn).
    apply is_nil_false in Nc. rewrite Nc.
    assert (P : provider_request decode_tok (Resp 200 (Json tf)) = inl (a, r, x, i))
      by (apply provider_request_inl; eauto).
    rewrite P.
    assert (G : email_from_id_token false oracle i = EPanic) by (apply email_from_id_token_panic; auto).
    rewrite G. reflexivity.
Qed.

Theorem redeem_no_panic prov oracle code tok ui : redeem true prov oracle code tok ui <> Panic.
Proof. intros H. apply redeem_panic_iff in H as (H & _). discriminate. Qed.

(* the repaired code turns the crashing answers into errors *)
Theorem redeem_short_token_error oracle code tok ui a r x i :
  code <> [] -> tok_good tok a r x i -> ~ In dot i ->
  redeem true Google oracle code tok ui = Error EOther.
Proof.
  intros Nc (tf & -> & D) Hn. unfold redeem, redeem_tr. apply is_nil_false in Nc. rewrite Nc.
  assert (P : provider_request decode_tok (Resp 200 (Json tf)) = inl (a, r, x, i))
    by (apply provider_request_inl; eauto).
  rewrite P. unfold email_from_id_token.
  rewrite (split_on_no_sep _ _ Hn). reflexivity.
Qed.

(* completeness of the case split: every login is vouched for, bad, or a dot-less Google token *)
Theorem login_cases prov oracle code tok ui :
  (code <> [] /\ exists a r x i e, tok_good tok a r x i /\ vouched_by prov oracle ui a i e) \/
  bad_login prov oracle code tok ui \/
  (prov = Google /\ code <> [] /\ exists a r x i, tok_good tok a r x i /\ ~ In dot i).
Proof.
  destruct (redeem false prov oracle code tok ui) as [s|k|] eqn:R.
  - left. apply redeem_session_iff in R as (Nc & i & T & V). split; [exact Nc|]. eauto 8.
  - right; left. unfold bad_login. unfold redeem, redeem_tr in R.
    destruct (is_nil code) eqn:Nc; [left; apply is_nil_true; exact Nc|]. right.
    destruct (provider_request decode_tok tok) as [[[[a r] x] i]|k'] eqn:P.
    + right. apply provider_request_inl in P as (tf & -> & D).
      exists a, r, x, i. split; [exists tf; auto|].
      destruct prov.
      * destruct (id_token_cases oracle i) as [(e & V)|[B|Hn]]; [|exact B|].
        -- apply (email_from_id_token_ok false) in V. rewrite V in R. discriminate.
        -- assert (G : email_from_id_token false oracle i = EPanic) by (apply email_from_id_token_panic; auto).
           rewrite G in R. discriminate.
      * apply verify_email_okta_bad. destruct (verify_email_okta a ui) as [[e|k''] c]; [discriminate|eauto].
      * apply verify_email_cognito_bad. destruct (verify_email_cognito a ui) as [[e|k''] c]; [discriminate|eauto].
    + left. apply provider_request_bad. eauto.
  - right; right. apply redeem_panic_iff in R as (_ & -> & Nc & H). auto.
Qed.

(* ------------------------------------------------------------------------------------------ *)
(* callback                                                                                    *)

Lemma redeem_code_session o s : redeem_code o = Session s -> o = Session s /\ s_email s <> [].
Proof.
  destruct o as [s'|k|]; simpl; try discriminate.
  destruct (is_nil (s_email s')) eqn:N; [discriminate|]. intros H; inversion H; subst.
  split; [reflexivity | apply is_nil_false; exact N].
Qed.

(* a session cookie is set only for a session that Redeem returned, with its e-mail, when no
   error parameter came in and every later gate passed *)
Theorem callback_cookie lc prov oracle errp code tok ui later e :
  session_cookie (oauth_callback lc prov oracle errp code tok ui later) = Some e ->
  errp = false /\ later = None /\ e <> [] /\
  exists s, redeem lc prov oracle code tok ui = Session s /\ s_email s = e.
Proof.
  unfold oauth_callback. destruct errp; [discriminate|]. destruct (is_nil code); [discriminate|].
  destruct (redeem_code (redeem lc prov oracle code tok ui)) as [s|k|] eqn:R; try discriminate.
  destruct later; [discriminate|]. simpl. intros H; inversion H; subst.
  apply redeem_code_session in R as [R Hne]. repeat split; auto. exists s. auto.
Qed.

(* an unusable answer ends in an error page (400 / 403 / 500), never a cookie *)
Theorem callback_bad_is_error_page lc prov oracle errp code tok ui later :
  bad_login prov oracle code tok ui ->
  exists st, oauth_callback lc prov oracle errp code tok ui later = CbErrorPage st /\
             (st = 400 \/ st = 403 \/ st = 500).
Proof.
  intros B. unfold oauth_callback. destruct errp; [eauto|]. destruct (is_nil code); [eauto|].
  destruct (redeem_bad_is_error lc _ _ _ _ _ B) as (k & ->). simpl. eauto.
Qed.

Theorem callback_dropped_iff lc prov oracle errp code tok ui later :
  oauth_callback lc prov oracle errp code tok ui later = CbDropped <->
  errp = false /\ redeem lc prov oracle code tok ui = Panic.
Proof.
  unfold oauth_callback. split.
  - destruct errp; [discriminate|]. destruct (is_nil code) eqn:Nc; [discriminate|].
    destruct (redeem lc prov oracle code tok ui) as [s|k|] eqn:R; simpl.
    + destruct (is_nil (s_email s)); [discriminate|]. destruct later; discriminate.
    + discriminate.
    + auto.
  - intros [-> R]. pose proof R as R'. apply redeem_panic_iff in R' as (_ & _ & Nc & _).
    apply is_nil_false in Nc. rewrite Nc, R. reflexivity.
Qed.

Theorem callback_no_drop prov oracle errp code tok ui later :
  oauth_callback true prov oracle errp code tok ui later <> CbDropped.
Proof. intros H. apply callback_dropped_iff in H as [_ H]. exact (redeem_no_panic _ _ _ _ _ H). Qed.

(* ------------------------------------------------------------------------------------------ *)
(* witnesses                                                                                   *)

Definition no_fields : tok_fields :=
  {| f_access := JStr [97; 116]; f_refresh := JMissing; f_expires := JMissing; f_idtoken := JMissing |}.
Definition any_oracle : str -> body user_fields := fun _ => NotJSON.

(* a 200 token answer {"access_token":"at"} without id_token: today's code panics *)
Lemma panic_witness :
  redeem false Google any_oracle [99] (Resp 200 (Json no_fields)) TransportErr = Panic /\
  oauth_callback false Google any_oracle false [99] (Resp 200 (Json no_fields)) TransportErr None = CbDropped.
Proof. split; vm_compute; reflexivity. Qed.

Lemma fixed_witness :
  redeem true Google any_oracle [99] (Resp 200 (Json no_fields)) TransportErr = Error EOther /\
  oauth_callback true Google any_oracle false [99] (Resp 200 (Json no_fields)) TransportErr None = CbErrorPage 500.
Proof. split; vm_compute; reflexivity. Qed.

(* ------------------------------------------------------------------------------------------ *)
(* non-vacuity: concrete logins                                                                *)

(* {"email":"a@b.c","email_verified":true} *)
Definition ex_payload : str := [123; 34; 101; 109; 97; 105; 108; 34; 58; 34; 97; 64; 98; 46; 99; 34; 44; 34; 101; 109; 97; 105; 108; 95; 118; 101; 114; 105; 102; 105; 101; 100; 34; 58; 116; 114; 117; 101; 125].
(* h.<base64url(ex_payload), unpadded>.s *)
Definition ex_token : str := [104; 46; 101; 121; 74; 108; 98; 87; 70; 112; 98; 67; 73; 54; 73; 109; 70; 65; 89; 105; 53; 106; 73; 105; 119; 105; 90; 87; 49; 104; 97; 87; 120; 102; 100; 109; 86; 121; 97; 87; 90; 112; 90; 87; 81; 105; 79; 110; 82; 121; 100; 87; 86; 57; 46; 115].
Definition ex_token2 : str := [104; 46; 101; 121; 74; 108; 98; 87; 70; 112; 98; 67; 73; 54; 73; 109; 70; 65; 89; 105; 53; 106; 73; 105; 119; 105; 90; 87; 49; 104; 97; 87; 120; 102; 100; 109; 86; 121; 97; 87; 90; 112; 90; 87; 81; 105; 79; 110; 82; 121; 100; 87; 86; 57].
Definition ex_email : str := [97; 64; 98; 46; 99].
Definition ex_oracle : str -> body user_fields := fun b =>
  if str_eqb b ex_payload
  then Json {| f_email := JStr ex_email; f_verified := JBool true; f_groups := JMissing; f_username := JMissing |}
  else NotJSON.
Definition ex_tok (idt : jv) : answer tok_fields :=
  Resp 200 (Json {| f_access := JStr [97; 116]; f_refresh := JStr [114; 116]; f_expires := JNum 3600; f_idtoken := idt |}).
Definition ex_session : session :=
  {| s_email := ex_email; s_access := [97; 116]; s_refresh := [114; 116]; s_expires_in := 3600 |}.
Definition ex_user (verified : jv) : answer user_fields :=
  Resp 200 (Json {| f_email := JStr ex_email; f_verified := verified; f_groups := JStrs [[103; 49]]; f_username := JStr [97] |}).

(* the model's own base64 decodes the unpadded segment (pad4 adds the "=") to the payload *)
Example ex_segment_decodes :
  option_map (fun l => nth 1 l []) (Some (split_on dot ex_token)) <> None /\
  jwt_decode_segment (nth 1 (split_on dot ex_token) []) = Some ex_payload.
Proof. split; [discriminate | vm_compute; reflexivity]. Qed.

Example ex_google_accepts lc :
  redeem lc Google ex_oracle [99] (ex_tok (JStr ex_token)) TransportErr = Session ex_session /\
  redeem lc Google ex_oracle [99] (ex_tok (JStr ex_token2)) TransportErr = Session ex_session /\
  oauth_callback lc Google ex_oracle false [99] (ex_tok (JStr ex_token)) TransportErr None = CbRedirect ex_session.
Proof. destruct lc; repeat split; vm_compute; reflexivity. Qed.

Example ex_okta_accepts lc :
  redeem lc Okta ex_oracle [99] (ex_tok JMissing) (ex_user (JBool true)) = Session ex_session.
Proof. destruct lc; vm_compute; reflexivity. Qed.

Example ex_cognito_accepts lc :
  redeem lc Cognito ex_oracle [99] (ex_tok JMissing) (ex_user JMissing) = Session ex_session.
Proof. destruct lc; vm_compute; reflexivity. Qed.

(* one rejected login per error class *)
Example ex_rejections lc :
  redeem lc Google ex_oracle [] (ex_tok (JStr ex_token)) TransportErr = Error EBadRequest /\        (* no code *)
  redeem lc Google ex_oracle [99] TransportErr TransportErr = Error EOther /\
  redeem lc Google ex_oracle [99] (Resp 400 NotJSON) TransportErr = Error EBadRequest /\
  redeem lc Google ex_oracle [99] (Resp 429 NotJSON) TransportErr = Error ERateLimit /\
  redeem lc Google ex_oracle [99] (Resp 503 NotJSON) TransportErr = Error EUnavailable /\
  redeem lc Google ex_oracle [99] (Resp 201 (Json (Build_tok_fields JMissing JMissing JMissing (JStr ex_token)))) TransportErr = Error EUnavailable /\
  redeem lc Google ex_oracle [99] (Resp 200 NotJSON) TransportErr = Error EOther /\
  redeem lc Google ex_oracle [99] (ex_tok (JNum 7)) TransportErr = Error EOther /\                  (* ill-typed id_token *)
  redeem lc Google ex_oracle [99] (ex_tok (JStr [104; 46; 33; 33; 33; 33; 46; 115])) TransportErr = Error EOther /\  (* h.!!!!.s *)
  redeem lc Google (fun _ => NotJSON) [99] (ex_tok (JStr ex_token)) TransportErr = Error EOther /\  (* payload not JSON *)
  redeem lc Google (fun _ => Json (Build_user_fields (JStr ex_email) (JBool false) JMissing JMissing)) [99]
         (ex_tok (JStr ex_token)) TransportErr = Error EOther /\                                     (* unverified *)
  redeem lc Google (fun _ => Json (Build_user_fields (JStr ex_email) JMissing JMissing JMissing)) [99]
         (ex_tok (JStr ex_token)) TransportErr = Error EOther /\                                     (* email_verified missing *)
  redeem lc Google (fun _ => Json (Build_user_fields (JStr ex_email) (JStr [116]) JMissing JMissing)) [99]
         (ex_tok (JStr ex_token)) TransportErr = Error EOther /\                                     (* email_verified a string *)
  redeem lc Google (fun _ => Json (Build_user_fields (JStr []) (JBool true) JMissing JMissing)) [99]
         (ex_tok (JStr ex_token)) TransportErr = Error EOther /\                                     (* empty e-mail *)
  redeem lc Okta ex_oracle [99] (ex_tok JMissing) (ex_user (JBool false)) = Error EOther /\
  redeem lc Okta ex_oracle [99] (ex_tok JMissing) (ex_user JMissing) = Error EOther /\
  redeem lc Okta ex_oracle [99] (ex_tok JMissing) (Resp 500 NotJSON) = Error EUnavailable /\
  redeem lc Cognito ex_oracle [99] (ex_tok JMissing) (Resp 200 NotJSON) = Error EOther.
Proof. destruct lc; repeat split; vm_compute; reflexivity. Qed.

(* the hypotheses of the theorems above are satisfiable *)
Example ex_bad_login_sat : bad_login Google ex_oracle [99] (ex_tok (JStr [104; 46; 33; 33; 33; 33; 46; 115])) TransportErr.
Proof.
  right; right. exists [97; 116], [114; 116], 3600%Z, [104; 46; 33; 33; 33; 33; 46; 115].
  split; [eexists; split; reflexivity|].
  exists [33; 33; 33; 33]. split; [reflexivity | left; vm_compute; reflexivity].
Qed.

Example ex_vouched_sat : vouched_by Google ex_oracle TransportErr [97; 116] ex_token ex_email.
Proof.
  apply (email_from_id_token_ok false). vm_compute. reflexivity.
Qed.

(* ------------------------------------------------------------------------------------------ *)
(* combined statements used by props/C10.v                                                     *)

Theorem error_no_session lc prov oracle code tok ui :
  bad_login prov oracle code tok ui ->
  (exists e, redeem lc prov oracle code tok ui = Error e) /\
  forall errp later, exists st,
    oauth_callback lc prov oracle errp code tok ui later = CbErrorPage st /\
    (st = 400 \/ st = 403 \/ st = 500) /\
    session_cookie (oauth_callback lc prov oracle errp code tok ui later) = None.
Proof.
  intros B. split; [exact (redeem_bad_is_error lc _ _ _ _ _ B)|].
  intros errp later. destruct (callback_bad_is_error_page lc _ _ errp _ _ _ later B) as (st & C & Hst).
  exists st. rewrite C. auto.
Qed.

Theorem no_panic_fixed prov oracle errp code tok ui later :
  redeem true prov oracle code tok ui <> Panic /\
  oauth_callback true prov oracle errp code tok ui later <> CbDropped.
Proof. split; [apply redeem_no_panic | apply callback_no_drop]. Qed.

Theorem no_panic_refuted :
  exists prov oracle code tok ui,
    redeem false prov oracle code tok ui = Panic /\
    oauth_callback false prov oracle false code tok ui None = CbDropped.
Proof.
  exists Google, any_oracle, [99], (Resp 200 (Json no_fields)), TransportErr. exact panic_witness.
Qed.
