(* Proofs about B64.v: round trip, injectivity, canonicity (strict), the exact shape of the
   non-canonical inputs the lax decoder accepts, and the refutation of canonicity for it. *)
From V Require Import Base Base_proofs B64.
From Coq Require Import ZifyN ZifyNat ZifyBool.

Ltac nlia := zify; Z.div_mod_to_equations; lia.
Ltac split_ifs :=
  repeat match goal with
         | |- context [if ?b then _ else _] => destruct b eqn:?
         | H : context [if ?b then _ else _] |- _ => destruct b eqn:?
         end.

(* ---- induction principles stepping by 3 and by 4 ------------------------------------------- *)
Lemma list_ind3 {A} (P : list A -> Prop) :
  P [] -> (forall x, P [x]) -> (forall x y, P [x; y]) ->
  (forall x y z r, P r -> P (x :: y :: z :: r)) -> forall l, P l.
Proof.
  intros H0 H1 H2 H3. fix IH 1.
  intros [|x [|y [|z r]]]; [exact H0 | exact (H1 x) | exact (H2 x y) | exact (H3 x y z r (IH r))].
Qed.

Lemma list_ind4 {A} (P : list A -> Prop) :
  P [] -> (forall a, P [a]) -> (forall a b, P [a; b]) -> (forall a b c, P [a; b; c]) ->
  (forall a b c d r, P r -> P (a :: b :: c :: d :: r)) -> forall l, P l.
Proof.
  intros H0 H1 H2 H3 H4. fix IH 1.
  intros [|a [|b [|c [|d r]]]];
    [exact H0 | exact (H1 a) | exact (H2 a b) | exact (H3 a b c) | exact (H4 a b c d r (IH r))].
Qed.

(* ---- alphabet ------------------------------------------------------------------------------- *)
Lemma dec_enc_char v : v < 64 -> dec_char (enc_char v) = Some v.
Proof. intros H. unfold dec_char, enc_char. split_ifs; try (f_equal; lia); lia. Qed.

Lemma dec_char_inv c v : dec_char c = Some v -> c = enc_char v /\ v < 64.
Proof.
  unfold dec_char. intros H. split_ifs; inversion H; subst; clear H;
    (split; [unfold enc_char; split_ifs; lia | lia]).
Qed.

Lemma enc_char_not_crlf v : is_crlf (enc_char v) = false.
Proof. unfold is_crlf, enc_char. split_ifs; lia. Qed.

Lemma enc_char_inj a b : a < 64 -> b < 64 -> enc_char a = enc_char b -> a = b.
Proof.
  intros Ha Hb H. apply dec_enc_char in Ha. apply dec_enc_char in Hb. congruence.
Qed.

Definition sext_ok (q : list N) : Prop := Forall (fun v => v < 64) q.

(* ---- the walk over the characters ----------------------------------------------------------- *)
Lemma sextets_map_enc q : sext_ok q -> sextets (map enc_char q) = Some q.
Proof.
  induction 1 as [|v q Hv _ IH]; [reflexivity|]. cbn [map sextets].
  rewrite enc_char_not_crlf, (dec_enc_char v Hv), IH. reflexivity.
Qed.

Lemma sextets_inv s : forall q, sextets s = Some q -> strip_crlf s = map enc_char q /\ sext_ok q.
Proof.
  induction s as [|c s IH]; intros q H; cbn [sextets] in H.
  - inversion H; subst. split; [reflexivity | constructor].
  - cbn [strip_crlf filter]. destruct (is_crlf c) eqn:Ec; cbn [negb].
    + apply IH; exact H.
    + destruct (dec_char c) as [v|] eqn:Ed; [|discriminate].
      destruct (sextets s) as [r|] eqn:Es; [|discriminate]. inversion H; subst; clear H.
      destruct (IH r eq_refl) as [IH1 IH2]. apply dec_char_inv in Ed as [-> Hv].
      split; [cbn [map]; f_equal; exact IH1 | constructor; assumption].
Qed.

Lemma strip_crlf_id s : has_crlf s = false -> strip_crlf s = s.
Proof.
  induction s as [|c s IH]; [reflexivity|]. cbn [has_crlf existsb strip_crlf filter].
  intros H. apply orb_false_iff in H as [H1 H2]. rewrite H1. cbn [negb]. f_equal. apply IH; exact H2.
Qed.

Lemma has_crlf_strip s : has_crlf (strip_crlf s) = false.
Proof.
  induction s as [|c s IH]; [reflexivity|]. cbn [strip_crlf filter].
  destruct (is_crlf c) eqn:E; cbn [negb]; [exact IH|]. cbn [has_crlf existsb]. rewrite E. exact IH.
Qed.

Lemma sextets_strip s : sextets (strip_crlf s) = sextets s.
Proof.
  unfold strip_crlf. induction s as [|c s IH]; [reflexivity|]. cbn [filter sextets].
  destruct (is_crlf c) eqn:E; cbn [negb]; [exact IH|]. cbn [sextets]. rewrite E, IH. reflexivity.
Qed.

(* CR or LF inserted anywhere is invisible to the decoder *)
Lemma sextets_insert_crlf c a b : is_crlf c = true -> sextets (a ++ c :: b) = sextets (a ++ b).
Proof.
  intros Hc. induction a as [|x a IH]; cbn [app sextets]; [rewrite Hc; reflexivity|].
  rewrite IH. reflexivity.
Qed.

Lemma decode_strip strict s : go_b64url_decode strict (strip_crlf s) = go_b64url_decode strict s.
Proof. unfold go_b64url_decode. rewrite sextets_strip. reflexivity. Qed.

Lemma decode_insert_crlf strict c a b :
  is_crlf c = true -> go_b64url_decode strict (a ++ c :: b) = go_b64url_decode strict (a ++ b).
Proof. intros H. unfold go_b64url_decode. rewrite (sextets_insert_crlf c a b H). reflexivity. Qed.

(* ---- quanta --------------------------------------------------------------------------------- *)
Lemma to_sextets_ok b : bytes_ok b -> sext_ok (to_sextets b).
Proof.
  unfold bytes_ok, sext_ok. induction b as [| x | x y | x y z r IH] using list_ind3; intros H; cbn [to_sextets].
  - constructor.
  - inversion H; subst. repeat constructor; nlia.
  - inversion H as [|? ? Hx H']; subst. inversion H'; subst. repeat constructor; nlia.
  - inversion H as [|? ? Hx H1]; subst. inversion H1 as [|? ? Hy H2]; subst. inversion H2 as [|? ? Hz H3]; subst.
    repeat (constructor; [nlia|]). apply IH; exact H3.
Qed.

Lemma unsext_to_sextets strict b : bytes_ok b -> unsext strict (to_sextets b) = Some b.
Proof.
  unfold bytes_ok. induction b as [| x | x y | x y z r IH] using list_ind3; intros H; cbn [to_sextets unsext].
  - reflexivity.
  - inversion H; subst. replace ((x mod 4 * 16) mod 16 =? 0) with true by nlia.
    rewrite andb_false_r. do 2 f_equal. nlia.
  - inversion H as [|? ? Hx H']; subst. inversion H'; subst.
    replace ((y mod 16 * 4) mod 4 =? 0) with true by nlia.
    rewrite andb_false_r. f_equal. f_equal; [nlia|]. f_equal. nlia.
  - inversion H as [|? ? Hx H1]; subst. inversion H1 as [|? ? Hy H2]; subst. inversion H2 as [|? ? Hz H3]; subst.
    rewrite (IH H3). f_equal. f_equal; [nlia|]. f_equal; [nlia|]. f_equal. nlia.
Qed.

Lemma unsext_inv strict q : sext_ok q -> forall b, unsext strict q = Some b ->
  to_sextets b = clear_tail q /\ bytes_ok b.
Proof.
  unfold sext_ok, bytes_ok.
  induction q as [| a | a b0 | a b0 c | a b0 c d r IH] using list_ind4; intros Hq b H; cbn [unsext] in H.
  - inversion H; subst. split; [reflexivity | constructor].
  - discriminate.
  - inversion Hq as [|? ? Ha H1]; subst. inversion H1 as [|? ? Hb _]; subst.
    destruct (strict && negb (b0 mod 16 =? 0)); [discriminate|]. inversion H; subst; clear H.
    cbn [to_sextets clear_tail]. split; [|repeat constructor; nlia].
    f_equal; [nlia|]. f_equal. nlia.
  - inversion Hq as [|? ? Ha H1]; subst. inversion H1 as [|? ? Hb H2]; subst. inversion H2 as [|? ? Hc _]; subst.
    destruct (strict && negb (c mod 4 =? 0)); [discriminate|]. inversion H; subst; clear H.
    cbn [to_sextets clear_tail]. split; [|repeat constructor; nlia].
    f_equal; [nlia|]. f_equal; [nlia|]. f_equal. nlia.
  - inversion Hq as [|? ? Ha H1]; subst. inversion H1 as [|? ? Hb H2]; subst.
    inversion H2 as [|? ? Hc H3]; subst. inversion H3 as [|? ? Hd H4]; subst.
    destruct (unsext strict r) as [t|] eqn:Er; [|discriminate]. inversion H; subst; clear H.
    destruct (IH H4 t eq_refl) as [IH1 IH2]. cbn [to_sextets clear_tail]. rewrite IH1.
    split; [|repeat (constructor; [nlia|]); exact IH2].
    f_equal; [nlia|]. f_equal; [nlia|]. f_equal; [nlia|]. f_equal. nlia.
Qed.

Lemma unsext_strict_clear q : forall b, unsext true q = Some b -> clear_tail q = q.
Proof.
  induction q as [| a | a b0 | a b0 c | a b0 c d r IH] using list_ind4; intros b H; cbn [unsext] in H;
    cbn [clear_tail]; try reflexivity.
  - cbn [andb] in H. destruct (b0 mod 16 =? 0) eqn:E; [|discriminate]. f_equal. f_equal. nlia.
  - cbn [andb] in H. destruct (c mod 4 =? 0) eqn:E; [|discriminate]. do 3 f_equal. nlia.
  - destruct (unsext true r) as [t|] eqn:Er; [|discriminate]. rewrite (IH t eq_refl). reflexivity.
Qed.

Lemma clear_tail_len4 q : (length q mod 4 = 0)%nat -> clear_tail q = q.
Proof.
  induction q as [| a | a b0 | a b0 c | a b0 c d r IH] using list_ind4; cbn [clear_tail length]; intros H;
    try reflexivity; try discriminate.
  rewrite IH; [reflexivity|].
  change (S (S (S (S (length r))))) with (4 + length r)%nat in H.
  rewrite Nat.add_comm, <- (Nat.mul_1_l 4), Nat.mod_add in H by discriminate. exact H.
Qed.

(* ---- theorems ------------------------------------------------------------------------------- *)
Theorem b64_roundtrip strict b : bytes_ok b -> go_b64url_decode strict (b64url_encode b) = Some b.
Proof.
  intros H. unfold go_b64url_decode, b64url_encode.
  rewrite (sextets_map_enc _ (to_sextets_ok b H)). apply unsext_to_sextets; exact H.
Qed.

Theorem b64_encode_inj a b : bytes_ok a -> bytes_ok b -> b64url_encode a = b64url_encode b -> a = b.
Proof.
  intros Ha Hb H. pose proof (b64_roundtrip false a Ha) as R1. pose proof (b64_roundtrip false b Hb) as R2.
  rewrite H in R1. congruence.
Qed.

Lemma encode_no_crlf b : has_crlf (b64url_encode b) = false.
Proof.
  unfold b64url_encode, has_crlf. induction (to_sextets b) as [|v q IH]; [reflexivity|].
  cbn [map existsb]. rewrite enc_char_not_crlf. exact IH.
Qed.

Theorem b64_decode_bytes strict s b : go_b64url_decode strict s = Some b -> bytes_ok b.
Proof.
  unfold go_b64url_decode. destruct (sextets s) as [q|] eqn:Es; [|discriminate]. intros H.
  destruct (sextets_inv s q Es) as [_ Hq]. exact (proj2 (unsext_inv strict q Hq b H)).
Qed.

(* what the decoder accepts, exactly: after dropping CR/LF and clearing the ignored bits of the
   last character the input IS the canonical encoding of the result *)
Theorem b64_canonical_partial strict s b :
  go_b64url_decode strict s = Some b -> normalize s = Some (b64url_encode b).
Proof.
  unfold go_b64url_decode, normalize, b64url_encode. destruct (sextets s) as [q|] eqn:Es; [|discriminate].
  intros H. destruct (sextets_inv s q Es) as [_ Hq]. rewrite (proj1 (unsext_inv strict q Hq b H)). reflexivity.
Qed.

Theorem b64_canonical_strict_crlf s b :
  go_b64url_decode true s = Some b -> strip_crlf s = b64url_encode b.
Proof.
  unfold go_b64url_decode, b64url_encode. destruct (sextets s) as [q|] eqn:Es; [|discriminate]. intros H.
  destruct (sextets_inv s q Es) as [Hs Hq]. rewrite Hs, (proj1 (unsext_inv true q Hq b H)).
  rewrite (unsext_strict_clear q b H). reflexivity.
Qed.

Theorem b64_canonical_strict s b :
  has_crlf s = false -> go_b64url_decode true s = Some b -> s = b64url_encode b.
Proof. intros Hc H. rewrite <- (strip_crlf_id s Hc). apply b64_canonical_strict_crlf; exact H. Qed.

Theorem b64_canonical_len4 strict s b :
  has_crlf s = false -> (length s mod 4 = 0)%nat ->
  go_b64url_decode strict s = Some b -> s = b64url_encode b.
Proof.
  intros Hc Hl. unfold go_b64url_decode, b64url_encode. destruct (sextets s) as [q|] eqn:Es; [|discriminate].
  intros H. destruct (sextets_inv s q Es) as [Hs Hq]. rewrite (strip_crlf_id s Hc) in Hs.
  rewrite (proj1 (unsext_inv strict q Hq b H)), clear_tail_len4; [exact Hs|].
  rewrite Hs, map_length in Hl. exact Hl.
Qed.

(* two accepted strings with the same result differ at most in CR/LF and the ignored bits *)
Theorem b64_decode_inj_on_canonical strict s1 s2 b :
  go_b64url_decode strict s1 = Some b -> go_b64url_decode strict s2 = Some b -> normalize s1 = normalize s2.
Proof. intros H1 H2. rewrite (b64_canonical_partial _ _ _ H1), (b64_canonical_partial _ _ _ H2). reflexivity. Qed.

(* canonicity is FALSE for the decoder /repo uses today *)
Theorem b64_canonical_refuted_bits :
  exists s b, go_b64url_decode false s = Some b /\ has_crlf s = false /\ s <> b64url_encode b.
Proof. exists [81; 82], [65]. vm_compute. repeat split; discriminate. Qed.   (* "QR" vs "QQ" *)

Theorem b64_canonical_refuted_crlf :
  exists s b, go_b64url_decode true s = Some b /\ s <> b64url_encode b.
Proof. exists [81; 10; 81], [65]. vm_compute. split; [reflexivity | discriminate]. Qed.   (* "Q\nQ" *)

Example b64_roundtrip_nv : go_b64url_decode true (b64url_encode [0; 255; 16; 65; 66]) = Some [0; 255; 16; 65; 66].
Proof. reflexivity. Qed.
