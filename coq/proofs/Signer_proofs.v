(* Signer_proofs.v — lemmas about the model in theories/Signer.v (C12). *)
From V Require Import Base Base_proofs Signer.

(* ------------------------------------------------------------------ header algebra *)
Lemma str_eqb_sym a b : str_eqb a b = str_eqb b a.
Proof.
  destruct (str_eqb a b) eqn:E.
  - apply str_eqb_eq in E; subst. symmetry; apply str_eqb_refl.
  - apply str_eqb_neq in E. symmetry. apply str_eqb_neq. congruence.
Qed.

Lemma hfind_hdel_ne k k' h : k <> k' -> hfind k (hdel k' h) = hfind k h.
Proof.
  intros N. induction h as [|[a v] h IH]; simpl; [reflexivity|].
  destruct (str_eqb a k') eqn:E1; simpl.
  - apply str_eqb_eq in E1; subst a.
    destruct (str_eqb k' k) eqn:E2; [apply str_eqb_eq in E2; congruence | exact IH].
  - destruct (str_eqb a k); [reflexivity | exact IH].
Qed.

Lemma hfind_hdel_eq k h : hfind k (hdel k h) = None.
Proof.
  induction h as [|[a v] h IH]; simpl; [reflexivity|].
  destruct (str_eqb a k) eqn:E; simpl; [exact IH | rewrite E; exact IH].
Qed.

Lemma hvals_hdel_ne k k' h : k <> k' -> hvals k (hdel k' h) = hvals k h.
Proof. intros N. unfold hvals. rewrite hfind_hdel_ne by exact N. reflexivity. Qed.

Lemma hvals_hdel_eq k h : hvals k (hdel k h) = [].
Proof. unfold hvals. rewrite hfind_hdel_eq. reflexivity. Qed.

Lemma hfind_hset_ne k k' vs h : k <> k' -> hfind k (hset k' vs h) = hfind k h.
Proof.
  intros N. unfold hset. simpl.
  destruct (str_eqb k' k) eqn:E; [apply str_eqb_eq in E; congruence|].
  apply hfind_hdel_ne; exact N.
Qed.

Lemma hvals_hset_ne k k' vs h : k <> k' -> hvals k (hset k' vs h) = hvals k h.
Proof. intros N. unfold hvals. rewrite hfind_hset_ne by exact N. reflexivity. Qed.

Lemma hvals_hset_eq k vs h : hvals k (hset k vs h) = vs.
Proof. unfold hvals, hset. simpl. rewrite str_eqb_refl. reflexivity. Qed.

Lemma hvals_hadd_ne k k' v h : k <> k' -> hvals k (hadd k' v h) = hvals k h.
Proof. intros N. unfold hadd. apply hvals_hset_ne; exact N. Qed.

Lemma hvals_hdel_all k ks h : ~ In k ks -> hvals k (hdel_all ks h) = hvals k h.
Proof.
  unfold hdel_all. revert h. induction ks as [|a ks IH]; intros h N; simpl; [reflexivity|].
  rewrite IH by (intros H; apply N; right; exact H).
  apply hvals_hdel_ne. intros ->. apply N. left; reflexivity.
Qed.

(* ------------------------------------------------------------------ join *)
Definition pre (sep : str) (l : list str) : str := flat_map (fun e => e ++ sep) l.

Lemma join_cons sep x y l : join sep (x :: y :: l) = x ++ sep ++ join sep (y :: l).
Proof. reflexivity. Qed.

Lemma join_pre sep l x t : join sep (l ++ x :: t) = pre sep l ++ join sep (x :: t).
Proof.
  induction l as [|a l IH]; [reflexivity|].
  destruct l as [|b l].
  - simpl. rewrite app_nil_r, <- app_assoc. reflexivity.
  - change ((a :: b :: l) ++ x :: t) with (a :: b :: (l ++ x :: t)).
    rewrite join_cons. change (b :: l ++ x :: t) with ((b :: l) ++ x :: t). rewrite IH.
    change (pre sep (a :: b :: l)) with ((a ++ sep) ++ pre sep (b :: l)).
    rewrite <- !app_assoc. reflexivity.
Qed.

Lemma pre_app sep a b : pre sep (a ++ b) = pre sep a ++ pre sep b.
Proof. unfold pre. apply flat_map_app. Qed.

(* explicit shape of the two canonical forms *)
Definition body_suffix (b : option str) : str := match b with Some x => lf :: x | None => [] end.

Lemma canon_rsa_shape cov r :
  canon_rsa cov r = pre [lf] (rsa_header_entries cov r) ++ url_part r ++ body_suffix (r_body r).
Proof.
  unfold canon_rsa.
  change ([url_part r] ++ match r_body r with Some b => [b] | None => [] end)
    with (url_part r :: match r_body r with Some b => [b] | None => [] end).
  rewrite join_pre. f_equal.
  destruct (r_body r); simpl; [reflexivity | rewrite app_nil_r; reflexivity].
Qed.

Definition hmac_lines (covh : list str) (r : request) : str :=
  flat_map (fun h => hmac_line r h ++ [lf]) covh.

Lemma canon_hmac_shape covh r :
  canon_hmac covh r = r_method r ++ [lf] ++ hmac_lines covh r ++ url_part r ++ [lf].
Proof. reflexivity. Qed.

Lemma flat_map_ext_in' {A B} (f g : A -> list B) l :
  (forall a, In a l -> f a = g a) -> flat_map f l = flat_map g l.
Proof.
  induction l as [|a l IH]; intros H; simpl; [reflexivity|].
  rewrite (H a) by (left; reflexivity). rewrite IH by (intros b Hb; apply H; right; exact Hb). reflexivity.
Qed.

(* ------------------------------------------------------------------ extensionality of the forms *)
Definition same_signed (cov : list str) (r1 r2 : request) : Prop :=
  r_method r1 = r_method r2 /\ r_path r1 = r_path r2 /\ r_rawquery r1 = r_rawquery r2 /\
  r_fragment r1 = r_fragment r2 /\ r_body r1 = r_body r2 /\
  forall k, In k cov -> hvals k (r_headers r1) = hvals k (r_headers r2).

Lemma same_signed_refl cov r : same_signed cov r r.
Proof. unfold same_signed; intuition. Qed.

Lemma same_signed_trans cov a b c : same_signed cov a b -> same_signed cov b c -> same_signed cov a c.
Proof.
  unfold same_signed. intros (A1&A2&A3&A4&A5&A6) (B1&B2&B3&B4&B5&B6).
  repeat split; try congruence. intros k Hk. rewrite A6, B6 by exact Hk. reflexivity.
Qed.

Lemma same_signed_sym cov a b : same_signed cov a b -> same_signed cov b a.
Proof.
  unfold same_signed. intros (A1&A2&A3&A4&A5&A6). repeat split; try congruence.
  intros k Hk. symmetry; apply A6; exact Hk.
Qed.

Lemma url_part_ext r1 r2 :
  r_path r1 = r_path r2 -> r_rawquery r1 = r_rawquery r2 -> r_fragment r1 = r_fragment r2 ->
  url_part r1 = url_part r2.
Proof. unfold url_part. intros -> -> ->. reflexivity. Qed.

Lemma rsa_header_entries_ext cov r1 r2 :
  (forall k, In k cov -> hvals k (r_headers r1) = hvals k (r_headers r2)) ->
  rsa_header_entries cov r1 = rsa_header_entries cov r2.
Proof.
  intros H. unfold rsa_header_entries. apply flat_map_ext_in'. intros k Hk. rewrite (H k Hk). reflexivity.
Qed.

Lemma hmac_lines_ext covh r1 r2 :
  (forall k, In k covh -> hvals k (r_headers r1) = hvals k (r_headers r2)) ->
  hmac_lines covh r1 = hmac_lines covh r2.
Proof.
  intros H. unfold hmac_lines. apply flat_map_ext_in'. intros k Hk. unfold hmac_line. rewrite (H k Hk). reflexivity.
Qed.

Lemma canon_rsa_ext cov r1 r2 : same_signed cov r1 r2 -> canon_rsa cov r1 = canon_rsa cov r2.
Proof.
  intros (A1&A2&A3&A4&A5&A6). rewrite !canon_rsa_shape.
  rewrite (rsa_header_entries_ext cov r1 r2 A6), (url_part_ext r1 r2 A2 A3 A4), A5. reflexivity.
Qed.

Lemma canon_hmac_ext covh r1 r2 : same_signed covh r1 r2 -> canon_hmac covh r1 = canon_hmac covh r2.
Proof.
  intros (A1&A2&A3&A4&A5&A6). rewrite !canon_hmac_shape.
  rewrite (hmac_lines_ext covh r1 r2 A6), (url_part_ext r1 r2 A2 A3 A4), A1. reflexivity.
Qed.

Lemma body_bytes_ext r1 r2 : r_body r1 = r_body r2 -> body_bytes r1 = body_bytes r2.
Proof. unfold body_bytes. intros ->. reflexivity. Qed.

Lemma mac_input_ext covh r1 r2 : same_signed covh r1 r2 -> mac_input covh r1 = mac_input covh r2.
Proof.
  intros H. unfold mac_input. rewrite (canon_hmac_ext covh r1 r2 H).
  destruct H as (_&_&_&_&A5&_). rewrite (body_bytes_ext r1 r2 A5). reflexivity.
Qed.

(* ------------------------------------------------------------------ names are distinct (computation) *)
Lemma cov_ok_not_touched cov k : cov_ok cov = true -> In k cov -> ~ In k chain_touched.
Proof.
  unfold cov_ok. rewrite forallb_forall. intros H Hk Hin.
  specialize (H k Hk). apply negb_true_iff in H.
  apply mem_str_In in Hin. congruence.
Qed.

Ltac touched := unfold chain_touched, hop_headers; simpl; tauto.

Lemma nt_ne cov k name : cov_ok cov = true -> In k cov -> In name chain_touched -> k <> name.
Proof. intros H Hk Hn ->. exact (cov_ok_not_touched cov name H Hk Hn). Qed.

(* ------------------------------------------------------------------ each step of the chain *)
Section Steps.
  Variable cov : list str.
  Hypothesis Hcov : cov_ok cov = true.

  Lemma ne_of k name : In k cov -> In name chain_touched -> k <> name.
  Proof. intros; eapply nt_ne; eauto. Qed.

  Lemma hmac_sign_same covh key r : same_signed cov (hmac_sign covh key r) r.
  Proof.
    unfold same_signed; simpl. repeat split; try reflexivity.
    intros k Hk. apply hvals_hdel_ne. apply ne_of; [exact Hk | touched].
  Qed.

  Lemma rsa_sign_same cv sk r : same_signed cov (rsa_sign cv sk r) r.
  Proof.
    unfold same_signed; simpl. repeat split; try reflexivity.
    intros k Hk. rewrite !hvals_hdel_ne; [reflexivity| |]; apply ne_of; try exact Hk; touched.
  Qed.

  Lemma sign_same cv covh c r : same_signed cov (sign cv covh c r) r.
  Proof.
    unfold sign. destruct (c_skip c); [apply same_signed_refl|].
    destruct (c_hmac c) as [k|], (c_signer c) as [sk|].
    - eapply same_signed_trans; [apply rsa_sign_same | apply hmac_sign_same].
    - apply hmac_sign_same.
    - apply rsa_sign_same.
    - apply same_signed_refl.
  Qed.

  Lemma sjs_bare tp p : (tp = [] \/ tp = [47]) -> has_prefix p [47] = true -> single_joining_slash tp p = p.
  Proof.
    intros [-> | ->] Hp; unfold single_joining_slash; rewrite Hp.
    - reflexivity.
    - destruct p as [|x p]; [discriminate|]. cbn [has_prefix] in Hp.
      apply andb_true_iff in Hp as [Hx _]. apply N.eqb_eq in Hx. subst x.
      reflexivity.
  Qed.

  Lemma bare_target_spec c : bare_target c = true -> (c_tpath c = [] \/ c_tpath c = [47]) /\ c_tquery c = [].
  Proof.
    unfold bare_target. intros H. apply andb_true_iff in H as [H1 H2]. split.
    - apply orb_true_iff in H1 as [H1|H1].
      + left. destruct (c_tpath c); [reflexivity | discriminate].
      + right. apply str_eqb_eq; exact H1.
    - destruct (c_tquery c); [reflexivity | discriminate].
  Qed.

  Lemma director_same c r :
    bare_target c = true -> has_prefix (r_path r) [47] = true -> same_signed cov (director c r) r.
  Proof.
    intros Hb Hp. destruct (bare_target_spec c Hb) as [Htp Htq].
    unfold same_signed; simpl. repeat split; try reflexivity.
    - apply sjs_bare; assumption.
    - rewrite Htq. reflexivity.
    - intros k Hk. rewrite hvals_hadd_ne by (apply ne_of; [exact Hk | touched]).
      destruct (hfind user_agent (r_headers r)); [reflexivity|].
      apply hvals_hset_ne. apply ne_of; [exact Hk | touched].
  Qed.

  (* hop-by-hop removal spares what the Connection header does not name *)
  Lemma not_hop_key protected h k :
    conn_safe protected h = true -> In k protected -> ~ In k hop_headers -> ~ In k (hop_keys h).
  Proof.
    unfold conn_safe, hop_keys. rewrite forallb_forall. intros Hs Hk Hh Hin.
    apply in_app_or in Hin as [Hin|Hin]; [|exact (Hh Hin)].
    apply in_map_iff in Hin as [t [Ht Hin]]. specialize (Hs t Hin).
    apply negb_true_iff in Hs. rewrite Ht in Hs.
    apply mem_str_In in Hk. congruence.
  Qed.

  Lemma not_hop k : In k cov -> ~ In k hop_headers.
  Proof.
    intros Hk Hin. apply (cov_ok_not_touched cov k Hcov Hk).
    unfold chain_touched. apply in_or_app. left; exact Hin.
  Qed.

  Lemma rp_headers_keep protected ip req_h h0 k :
    In k cov -> In k protected -> conn_safe protected h0 = true ->
    hvals k (rp_headers ip req_h h0) = hvals k h0.
  Proof.
    intros Hk Hp Hs.
    assert (Nua : k <> user_agent) by (apply ne_of; [exact Hk | touched]).
    assert (Nxf : k <> x_forwarded_for) by (apply ne_of; [exact Hk | touched]).
    assert (Nte : k <> te_h) by (apply ne_of; [exact Hk | touched]).
    assert (Nup : k <> upgrade_h) by (apply ne_of; [exact Hk | touched]).
    assert (Nco : k <> connection) by (apply ne_of; [exact Hk | touched]).
    unfold rp_headers.
    assert (Eua : forall h, hvals k (step_ua h) = hvals k h).
    { intros h. unfold step_ua. destruct (hfind user_agent h); [reflexivity | apply hvals_hset_ne; exact Nua]. }
    rewrite Eua. unfold rp_step_xff. rewrite hvals_hset_ne by exact Nxf.
    unfold rp_step_upgrade. 
    assert (Ete : hvals k (rp_step_te req_h (rp_step_hop h0)) = hvals k h0).
    { unfold rp_step_te. 
      assert (E1 : hvals k (rp_step_hop h0) = hvals k h0).
      { unfold rp_step_hop. apply hvals_hdel_all.
        eapply not_hop_key; [exact Hs | exact Hp | apply not_hop; exact Hk]. }
      destruct (contains_token _ _); [rewrite hvals_hset_ne by exact Nte|]; exact E1. }
    destruct (is_empty (upgrade_type h0)); [exact Ete|].
    rewrite !hvals_hset_ne by assumption. exact Ete.
  Qed.

  Lemma rp_edits_same protected ip req_h r :
    (forall k, In k cov -> In k protected) ->
    conn_safe protected (r_headers r) = true -> same_signed cov (rp_edits ip req_h r) r.
  Proof.
    intros Hsub Hs. unfold same_signed; simpl. repeat split; try reflexivity.
    intros k Hk. eapply rp_headers_keep; [exact Hk | apply Hsub; exact Hk | exact Hs].
  Qed.

  (* the wire: every covered header but Content-Length passes; Content-Length is recomputed *)
  Lemma wire_headers_keep r k : In k cov -> k <> content_length -> hvals k (wire_headers r) = hvals k (r_headers r).
  Proof.
    intros Hk Ncl.
    assert (Nua : k <> user_agent) by (apply ne_of; [exact Hk | touched]).
    unfold wire_headers.
    set (h1 := match wire_content_length r with
               | Some v => hset content_length [v] (hdel content_length (r_headers r))
               | None => hdel content_length (r_headers r) end).
    assert (E1 : hvals k h1 = hvals k (r_headers r)).
    { unfold h1. destruct (wire_content_length r).
      - rewrite hvals_hset_ne by exact Ncl. apply hvals_hdel_ne; exact Ncl.
      - apply hvals_hdel_ne; exact Ncl. }
    destruct (hvals user_agent h1) as [|v t].
    - rewrite hvals_hdel_ne by exact Nua. exact E1.
    - destruct (is_empty v); [rewrite hvals_hdel_ne by exact Nua | rewrite hvals_hset_ne by exact Nua]; exact E1.
  Qed.

  Lemma wire_headers_cl r :
    hvals content_length (wire_headers r) = match wire_content_length r with Some v => [v] | None => [] end.
  Proof.
    assert (Nua : content_length <> user_agent) by discriminate.
    unfold wire_headers.
    set (h1 := match wire_content_length r with
               | Some v => hset content_length [v] (hdel content_length (r_headers r))
               | None => hdel content_length (r_headers r) end).
    assert (E1 : hvals content_length h1 = match wire_content_length r with Some v => [v] | None => [] end).
    { unfold h1. destruct (wire_content_length r); [apply hvals_hset_eq | apply hvals_hdel_eq]. }
    destruct (hvals user_agent h1) as [|v t].
    - rewrite hvals_hdel_ne by exact Nua. exact E1.
    - destruct (is_empty v); [rewrite hvals_hdel_ne by exact Nua | rewrite hvals_hset_ne by exact Nua]; exact E1.
  Qed.

  Lemma wire_same r b :
    r_body r = Some b -> r_fragment r = [] -> (In content_length cov -> cl_canonical r = true) ->
    same_signed cov (wire r) r.
  Proof.
    intros Hb Hf Hcl. unfold same_signed; simpl. repeat split; try reflexivity.
    - symmetry; exact Hf.
    - unfold body_bytes. rewrite Hb. reflexivity.
    - intros k Hk. destruct (str_eqb k content_length) eqn:E.
      + apply str_eqb_eq in E. subst k. rewrite wire_headers_cl.
        specialize (Hcl Hk). unfold cl_canonical in Hcl. apply strs_eqb_eq in Hcl. symmetry; exact Hcl.
      + apply str_eqb_neq in E. apply wire_headers_keep; assumption.
  Qed.

  Lemma cl_canonical_transfer r1 r2 :
    same_signed cov r1 r2 -> r_chunked r1 = r_chunked r2 -> r_clen r1 = r_clen r2 -> In content_length cov ->
    cl_canonical r2 = true -> cl_canonical r1 = true.
  Proof.
    intros (A1&_&_&_&A5&A6) Hc Hl Hin H. unfold cl_canonical, wire_content_length in *.
    rewrite (A6 _ Hin), Hc, Hl, A1. exact H.
  Qed.
End Steps.

(* ------------------------------------------------------------------ projections through the chain *)
Lemma at_sign_time_fields c parsed ident r0 :
  let rs := at_sign_time c parsed ident r0 in
  r_method rs = r_method r0 /\ r_path rs = r_path r0 /\ r_rawquery rs = r_rawquery r0 /\
  r_fragment rs = r_fragment r0 /\ r_body rs = r_body r0 /\ r_chunked rs = r_chunked r0 /\ r_clen rs = r_clen r0.
Proof. destruct ident; simpl; repeat split; reflexivity. Qed.

Definition hmac_part (covh : list str) (c : cfg) (r : request) : request :=
  match c_hmac c with Some k => hmac_sign covh k r | None => r end.

Lemma sign_unfold cv covh c r :
  sign cv covh c r = if c_skip c then r else
                     match c_signer c with Some sk => rsa_sign cv sk (hmac_part covh c r) | None => hmac_part covh c r end.
Proof. reflexivity. Qed.

Lemma hmac_part_same cov covh c r : cov_ok cov = true -> same_signed cov (hmac_part covh c r) r.
Proof.
  intros H. unfold hmac_part. destruct (c_hmac c); [apply hmac_sign_same; exact H | apply same_signed_refl].
Qed.

Lemma sign_chunked cv covh c r : r_chunked (sign cv covh c r) = r_chunked r.
Proof. unfold sign. destruct (c_skip c), (c_hmac c), (c_signer c); reflexivity. Qed.
Lemma sign_clen cv covh c r : r_clen (sign cv covh c r) = r_clen r.
Proof. unfold sign. destruct (c_skip c), (c_hmac c), (c_signer c); reflexivity. Qed.

Lemma hop_keys_ext h1 h2 : hvals connection h1 = hvals connection h2 -> hop_keys h1 = hop_keys h2.
Proof. unfold hop_keys. intros ->. reflexivity. Qed.

Lemma conn_safe_ext p h1 h2 : hvals connection h1 = hvals connection h2 -> conn_safe p h1 = conn_safe p h2.
Proof. unfold conn_safe. intros ->. reflexivity. Qed.

Lemma sign_conn cv covh c r :
  hvals connection (r_headers (sign cv covh c r)) = hvals connection (r_headers r).
Proof.
  unfold sign, hmac_sign, rsa_sign.
  destruct (c_skip c), (c_hmac c), (c_signer c); cbn [r_headers]; rewrite ?hvals_hdel_ne by discriminate; reflexivity.
Qed.

Lemma director_conn c r : hvals connection (r_headers (director c r)) = hvals connection (r_headers r).
Proof.
  unfold director; cbn [r_headers]. rewrite hvals_hadd_ne by discriminate.
  destruct (hfind user_agent (r_headers r)); [reflexivity | apply hvals_hset_ne; discriminate].
Qed.

Lemma rp_edits_sig ip rh r :
  r_sso_sig (rp_edits ip rh r) = (if mem_str sso_signature (hop_keys (r_headers r)) then None else r_sso_sig r) /\
  r_kid (rp_edits ip rh r) = (if mem_str kid_h (hop_keys (r_headers r)) then None else r_kid r) /\
  r_gap_sig (rp_edits ip rh r) = (if mem_str gap_signature (hop_keys (r_headers r)) then None else r_gap_sig r).
Proof. repeat split; reflexivity. Qed.

Lemma sig_not_gone protected h k :
  conn_safe protected h = true -> In k protected -> In k sig_headers -> mem_str k (hop_keys h) = false.
Proof.
  intros Hs Hp Hk. destruct (mem_str k (hop_keys h)) eqn:E; [|reflexivity].
  apply mem_str_In in E. exfalso. revert E. eapply not_hop_key; [exact Hs | exact Hp |].
  unfold sig_headers in Hk. simpl in Hk.
  destruct Hk as [<-|[<-|[<-|[]]]]; unfold hop_headers; simpl; intros H;
    repeat (destruct H as [H|H]; [discriminate H|]); exact H.
Qed.

(* ------------------------------------------------------------------ main theorems *)
Section Main.
  Variables cv covh protected : list str.
  Hypothesis Hcv : cov_ok cv = true.
  Hypothesis Hcovh : cov_ok covh = true.
  Hypothesis Hsub1 : forall k, In k cv -> In k protected.
  Hypothesis Hsub2 : forall k, In k covh -> In k protected.
  Hypothesis Hsub3 : forall k, In k sig_headers -> In k protected.

  Variables (c : cfg) (parsed : list (str * str)) (ident : option identity) (ip : str) (r0 : request) (b : str).
  Hypothesis Hbare : bare_target c = true.
  Hypothesis Hpath : has_prefix (r_path r0) [47] = true.
  Hypothesis Hfrag : r_fragment r0 = [].
  Hypothesis Hbody : r_body r0 = Some b.
  Let rs := at_sign_time c parsed ident r0.
  Let rr := received cv covh c parsed ident ip r0.
  Hypothesis Hconn : conn_safe protected (r_headers rs) = true.
  Hypothesis Hcl : cl_canonical rs = true.

  Lemma received_same_gen cov :
    cov_ok cov = true -> (forall k, In k cov -> In k protected) -> same_signed cov rr rs.
  Proof.
    intros Hcov Hsub.
    destruct (at_sign_time_fields c parsed ident r0) as (F1&F2&F3&F4&F5&F6&F7). fold rs in F1, F2, F3, F4, F5, F6, F7.
    set (r1 := sign cv covh c rs).
    set (r2 := director c r1).
    set (r3 := rp_edits ip (r_headers rs) r2).
    assert (S1 : same_signed cov r1 rs) by (apply sign_same; exact Hcov).
    assert (S2 : same_signed cov r2 r1).
    { apply director_same; [exact Hcov | exact Hbare |].
      destruct S1 as (_&P&_). rewrite P, F2. exact Hpath. }
    assert (C2 : hvals connection (r_headers r2) = hvals connection (r_headers rs)).
    { unfold r2, r1. rewrite director_conn, sign_conn. reflexivity. }
    assert (S3 : same_signed cov r3 r2).
    { eapply rp_edits_same; [exact Hcov | exact Hsub |].
      rewrite (conn_safe_ext protected _ _ C2). exact Hconn. }
    assert (S30 : same_signed cov r3 rs).
    { eapply same_signed_trans; [exact S3|]. eapply same_signed_trans; [exact S2 | exact S1]. }
    assert (S4 : same_signed cov (wire r3) r3).
    { destruct S30 as (_&_&_&Q4&Q5&_).
      apply (wire_same cov Hcov r3 b).
      - rewrite Q5, F5. exact Hbody.
      - rewrite Q4, F4. exact Hfrag.
      - intros Hin. eapply (cl_canonical_transfer cov r3 rs).
        + repeat split; try apply S3; try (destruct S3 as (A1&A2&A3&A4&A5&A6), S2 as (B1&B2&B3&B4&B5&B6), S1 as (C1&C2'&C3&C4&C5&C6); congruence).
          intros k Hk. destruct S3 as (_&_&_&_&_&A6), S2 as (_&_&_&_&_&B6), S1 as (_&_&_&_&_&C6).
          rewrite A6, B6, C6 by exact Hk. reflexivity.
        + unfold r3, r2, r1. cbn [r_chunked rp_edits director]. apply sign_chunked.
        + unfold r3, r2, r1. cbn [r_clen rp_edits director]. apply sign_clen.
        + exact Hin.
        + exact Hcl. }
    eapply same_signed_trans; [exact S4 | exact S30].
  Qed.

  Theorem signed_is_received :
    canon_rsa cv rr = canon_rsa cv rs /\ canon_hmac covh rr = canon_hmac covh rs /\ r_body rr = r_body rs.
  Proof.
    pose proof (received_same_gen cv Hcv Hsub1) as S1.
    pose proof (received_same_gen covh Hcovh Hsub2) as S2.
    split; [apply canon_rsa_ext; exact S1|]. split; [apply canon_hmac_ext; exact S2|].
    destruct S1 as (_&_&_&_&A5&_). exact A5.
  Qed.

  Lemma conn_r2 : hvals connection (r_headers (director c (sign cv covh c rs))) = hvals connection (r_headers rs).
  Proof. rewrite director_conn, sign_conn. reflexivity. Qed.

  Lemma not_gone k : In k sig_headers ->
    mem_str k (hop_keys (r_headers (director c (sign cv covh c rs)))) = false.
  Proof.
    intros Hk. rewrite (hop_keys_ext _ _ conn_r2).
    eapply sig_not_gone; [exact Hconn | apply Hsub3; exact Hk | exact Hk].
  Qed.

  Theorem rsa_signature_verifies sk :
    c_skip c = false -> c_signer c = Some sk ->
    verify_rsa cv (published_certs c) rr = Some true /\ r_kid rr = Some (KeyId (pub sk)) /\
    cert_lookup (KeyId (pub sk)) (published_certs c) = Some (pub sk).
  Proof.
    intros Hskip Hsigner.
    assert (Esig : r_sso_sig rr = Some (RsaSig sk (Hash (canon_rsa cv (hmac_part covh c rs))))).
    { unfold rr, received. fold rs. cbn [r_sso_sig wire].
      destruct (rp_edits_sig ip (r_headers rs) (director c (sign cv covh c rs))) as (E&_&_). rewrite E.
      rewrite not_gone by (unfold sig_headers; simpl; tauto).
      cbn [r_sso_sig director]. rewrite sign_unfold, Hskip, Hsigner. reflexivity. }
    assert (Ekid : r_kid rr = Some (KeyId (pub sk))).
    { unfold rr, received. fold rs. cbn [r_kid wire].
      destruct (rp_edits_sig ip (r_headers rs) (director c (sign cv covh c rs))) as (_&E&_). rewrite E.
      rewrite not_gone by (unfold sig_headers; simpl; tauto).
      cbn [r_kid director]. rewrite sign_unfold, Hskip, Hsigner. reflexivity. }
    assert (Ecert : cert_lookup (KeyId (pub sk)) (published_certs c) = Some (pub sk)).
    { unfold published_certs. rewrite Hsigner. simpl. rewrite N.eqb_refl. reflexivity. }
    split; [|split; assumption].
    unfold verify_rsa. rewrite Esig, Ekid, Ecert. unfold rsa_verify, digest_eqb.
    rewrite N.eqb_refl. simpl. f_equal. apply str_eqb_eq.
    destruct signed_is_received as (E&_&_). rewrite E.
    symmetry. apply canon_rsa_ext. apply hmac_part_same. exact Hcv.
  Qed.

  Theorem hmac_signature_verifies key :
    c_skip c = false -> c_hmac c = Some key -> verify_hmac covh key rr = 3.
  Proof.
    intros Hskip Hh.
    assert (Egap : r_gap_sig rr = Some (Mac key (mac_input covh rs))).
    { unfold rr, received. fold rs. cbn [r_gap_sig wire].
      destruct (rp_edits_sig ip (r_headers rs) (director c (sign cv covh c rs))) as (_&_&E). rewrite E.
      rewrite not_gone by (unfold sig_headers; simpl; tauto).
      cbn [r_gap_sig director]. rewrite sign_unfold, Hskip. unfold hmac_part. rewrite Hh.
      destruct (c_signer c); reflexivity. }
    unfold verify_hmac. rewrite Egap. unfold mac_eqb.
    rewrite str_eqb_refl. simpl.
    assert (E : mac_input covh rs = mac_input covh rr).
    { symmetry. apply mac_input_ext. apply received_same_gen; assumption. }
    rewrite E, str_eqb_refl. reflexivity.
  Qed.
End Main.

(* the body is forwarded byte for byte, whatever the request and the configuration *)
Theorem body_intact cv covh c parsed ident ip r0 :
  r_body (received cv covh c parsed ident ip r0) = Some (body_bytes r0).
Proof.
  unfold received. cbn [r_body wire]. f_equal. unfold body_bytes.
  cbn [r_body rp_edits director].
  assert (E : forall r, r_body (sign cv covh c r) = r_body r).
  { intros r. unfold sign. destruct (c_skip c), (c_hmac c), (c_signer c); reflexivity. }
  rewrite E. destruct (at_sign_time_fields c parsed ident r0) as (_&_&_&_&F5&_&_). rewrite F5. reflexivity.
Qed.

(* ------------------------------------------------------------------ tampering: single-field injectivity *)
Definition same_headers (r1 r2 : request) : Prop :=
  forall k, hvals k (r_headers r1) = hvals k (r_headers r2).

Lemma query_part_inj q1 q2 :
  (if is_empty q1 then [] else 63 :: q1) = (if is_empty q2 then [] else 63 :: q2) -> q1 = q2.
Proof. destruct q1, q2; simpl; intros H; congruence. Qed.

Lemma body_suffix_inj b1 b2 : body_suffix b1 = body_suffix b2 -> b1 = b2.
Proof. destruct b1, b2; simpl; intros H; congruence. Qed.

Lemma url_part_shape r :
  url_part r = r_path r ++ (if is_empty (r_rawquery r) then [] else 63 :: r_rawquery r)
                        ++ (if is_empty (r_fragment r) then [] else 35 :: r_fragment r).
Proof. reflexivity. Qed.

Theorem tamper_path cov covh r1 r2 :
  same_headers r1 r2 -> r_method r1 = r_method r2 -> r_rawquery r1 = r_rawquery r2 ->
  r_fragment r1 = r_fragment r2 -> r_body r1 = r_body r2 -> r_path r1 <> r_path r2 ->
  canon_rsa cov r1 <> canon_rsa cov r2 /\ mac_input covh r1 <> mac_input covh r2.
Proof.
  intros Hh Hm Hq Hf Hb Hp. split; intros E; apply Hp.
  - rewrite !canon_rsa_shape, !url_part_shape in E.
    rewrite (rsa_header_entries_ext cov r1 r2 (fun k _ => Hh k)), Hq, Hf, Hb in E.
    apply app_inv_head in E. rewrite !app_assoc in E. do 3 apply app_inv_tail in E. exact E.
  - unfold mac_input in E. rewrite !canon_hmac_shape, !url_part_shape in E.
    rewrite (hmac_lines_ext covh r1 r2 (fun k _ => Hh k)), Hm, Hq, Hf, (body_bytes_ext r1 r2 Hb) in E.
    rewrite <- !app_assoc in E. do 3 apply app_inv_head in E.
    rewrite !app_assoc in E. do 4 apply app_inv_tail in E. exact E.
Qed.

Theorem tamper_query cov covh r1 r2 :
  same_headers r1 r2 -> r_method r1 = r_method r2 -> r_path r1 = r_path r2 ->
  r_fragment r1 = r_fragment r2 -> r_body r1 = r_body r2 -> r_rawquery r1 <> r_rawquery r2 ->
  canon_rsa cov r1 <> canon_rsa cov r2 /\ mac_input covh r1 <> mac_input covh r2.
Proof.
  intros Hh Hm Hp Hf Hb Hq. split; intros E; apply Hq; apply query_part_inj.
  - rewrite !canon_rsa_shape, !url_part_shape in E.
    rewrite (rsa_header_entries_ext cov r1 r2 (fun k _ => Hh k)), Hp, Hf, Hb in E.
    rewrite <- !app_assoc in E. do 2 apply app_inv_head in E.
    rewrite !app_assoc in E. do 2 apply app_inv_tail in E. exact E.
  - unfold mac_input in E. rewrite !canon_hmac_shape, !url_part_shape in E.
    rewrite (hmac_lines_ext covh r1 r2 (fun k _ => Hh k)), Hm, Hp, Hf, (body_bytes_ext r1 r2 Hb) in E.
    rewrite <- !app_assoc in E. do 4 apply app_inv_head in E.
    rewrite !app_assoc in E. do 3 apply app_inv_tail in E. exact E.
Qed.

Theorem tamper_body cov covh r1 r2 :
  same_headers r1 r2 -> r_method r1 = r_method r2 -> r_path r1 = r_path r2 ->
  r_rawquery r1 = r_rawquery r2 -> r_fragment r1 = r_fragment r2 ->
  (r_body r1 <> r_body r2 -> canon_rsa cov r1 <> canon_rsa cov r2) /\
  (body_bytes r1 <> body_bytes r2 -> mac_input covh r1 <> mac_input covh r2).
Proof.
  intros Hh Hm Hp Hq Hf. split; intros Hb E; apply Hb.
  - rewrite !canon_rsa_shape in E.
    rewrite (rsa_header_entries_ext cov r1 r2 (fun k _ => Hh k)), (url_part_ext r1 r2 Hp Hq Hf) in E.
    do 2 apply app_inv_head in E. apply body_suffix_inj; exact E.
  - unfold mac_input in E. rewrite !canon_hmac_shape in E.
    rewrite (hmac_lines_ext covh r1 r2 (fun k _ => Hh k)), (url_part_ext r1 r2 Hp Hq Hf), Hm in E.
    rewrite <- !app_assoc in E. do 5 apply app_inv_head in E. exact E.
Qed.

Theorem tamper_method covh r1 r2 :
  same_headers r1 r2 -> r_path r1 = r_path r2 -> r_rawquery r1 = r_rawquery r2 ->
  r_fragment r1 = r_fragment r2 -> r_body r1 = r_body r2 -> r_method r1 <> r_method r2 ->
  mac_input covh r1 <> mac_input covh r2.
Proof.
  intros Hh Hp Hq Hf Hb Hm E. apply Hm.
  unfold mac_input in E. rewrite !canon_hmac_shape in E.
  rewrite (hmac_lines_ext covh r1 r2 (fun k _ => Hh k)), (url_part_ext r1 r2 Hp Hq Hf), (body_bytes_ext r1 r2 Hb) in E.
  rewrite !app_assoc in E. do 5 apply app_inv_tail in E. exact E.
Qed.

(* one covered header: the entry the RSA form holds for it / the line the HMAC form holds for it *)
Lemma rsa_entry_nonempty r h : remove_empty (hvals h (r_headers r)) <> [] -> rsa_entry r h <> [].
Proof.
  unfold rsa_entry. generalize (hvals h (r_headers r)). intros l.
  assert (A : forall x, In x (remove_empty l) -> x <> []).
  { intros x Hx. unfold remove_empty in Hx. apply filter_In in Hx as [_ Hx]. destruct x; [discriminate | discriminate]. }
  destruct (remove_empty l) as [|x t]; [congruence|]. intros _.
  specialize (A x (or_introl eq_refl)). destruct t; simpl; [exact A|].
  destruct x; [congruence | discriminate].
Qed.

Lemma rsa_entries_one r h :
  (if is_empty (remove_empty (hvals h (r_headers r))) then []
   else [join [comma] (remove_empty (hvals h (r_headers r)))]) =
  (if is_empty (rsa_entry r h) then [] else [rsa_entry r h]).
Proof.
  destruct (remove_empty (hvals h (r_headers r))) as [|x t] eqn:E.
  - unfold rsa_entry. rewrite E. reflexivity.
  - assert (N : rsa_entry r h <> []) by (apply rsa_entry_nonempty; rewrite E; discriminate).
    unfold rsa_entry in *. rewrite E in *. simpl is_empty at 1.
    destruct (join [comma] (x :: t)); [congruence | reflexivity].
Qed.

Lemma rsa_header_entries_split pre_ h post r :
  rsa_header_entries (pre_ ++ h :: post) r =
  rsa_header_entries pre_ r ++ (if is_empty (rsa_entry r h) then [] else [rsa_entry r h]) ++ rsa_header_entries post r.
Proof.
  unfold rsa_header_entries. rewrite flat_map_app. cbn [flat_map]. cbv beta zeta.
  rewrite (rsa_entries_one r h). reflexivity.
Qed.

Lemma entry_pre_inj (j1 j2 : str) :
  pre [lf] (if is_empty j1 then [] else [j1]) = pre [lf] (if is_empty j2 then [] else [j2]) -> j1 = j2.
Proof.
  destruct j1 as [|a j1], j2 as [|c j2]; simpl; intros H; try congruence.
  rewrite !app_nil_r in H. inversion H. f_equal. apply app_inv_tail in H2. exact H2.
Qed.

Theorem tamper_header cov covh r1 r2 h :
  NoDup cov -> NoDup covh ->
  (forall k, k <> h -> hvals k (r_headers r1) = hvals k (r_headers r2)) ->
  r_method r1 = r_method r2 -> r_path r1 = r_path r2 -> r_rawquery r1 = r_rawquery r2 ->
  r_fragment r1 = r_fragment r2 -> r_body r1 = r_body r2 ->
  (In h cov -> rsa_entry r1 h <> rsa_entry r2 h -> canon_rsa cov r1 <> canon_rsa cov r2) /\
  (In h covh -> hmac_line r1 h <> hmac_line r2 h -> mac_input covh r1 <> mac_input covh r2).
Proof.
  intros ND NDh Hh Hm Hp Hq Hf Hb. split; intros Hin Hne E; apply Hne.
  - apply in_split in Hin as (l1 & l2 & ->).
    apply NoDup_remove_2 in ND.
    assert (N1 : forall k, In k l1 -> k <> h) by (intros k Hk ->; apply ND; apply in_or_app; left; exact Hk).
    assert (N2 : forall k, In k l2 -> k <> h) by (intros k Hk ->; apply ND; apply in_or_app; right; exact Hk).
    rewrite !canon_rsa_shape, !rsa_header_entries_split, !pre_app in E.
    rewrite (rsa_header_entries_ext l1 r1 r2 (fun k Hk => Hh k (N1 k Hk))),
            (rsa_header_entries_ext l2 r1 r2 (fun k Hk => Hh k (N2 k Hk))),
            (url_part_ext r1 r2 Hp Hq Hf), Hb in E.
    rewrite <- !app_assoc in E. apply app_inv_head in E.
    rewrite !app_assoc in E. do 3 apply app_inv_tail in E.
    apply entry_pre_inj; exact E.
  - apply in_split in Hin as (l1 & l2 & ->).
    apply NoDup_remove_2 in NDh.
    assert (N1 : forall k, In k l1 -> k <> h) by (intros k Hk ->; apply NDh; apply in_or_app; left; exact Hk).
    assert (N2 : forall k, In k l2 -> k <> h) by (intros k Hk ->; apply NDh; apply in_or_app; right; exact Hk).
    unfold mac_input in E. rewrite !canon_hmac_shape in E. unfold hmac_lines in E.
    rewrite !flat_map_app in E. simpl flat_map in E. fold (hmac_lines l1 r1) (hmac_lines l1 r2) (hmac_lines l2 r1) (hmac_lines l2 r2) in E.
    rewrite (hmac_lines_ext l1 r1 r2 (fun k Hk => Hh k (N1 k Hk))),
            (hmac_lines_ext l2 r1 r2 (fun k Hk => Hh k (N2 k Hk))),
            (url_part_ext r1 r2 Hp Hq Hf), Hm, (body_bytes_ext r1 r2 Hb) in E.
    rewrite <- !app_assoc in E. do 3 apply app_inv_head in E.
    rewrite !app_assoc in E. do 5 apply app_inv_tail in E. exact E.
Qed.

(* with the ideal hash and signature, a signature made for r1 does not verify on a request whose
   canonical form differs *)
Lemma rsa_verify_other cov pk sk r1 r2 :
  canon_rsa cov r1 <> canon_rsa cov r2 ->
  rsa_verify pk (Hash (canon_rsa cov r2)) (RsaSig sk (Hash (canon_rsa cov r1))) = false.
Proof.
  intros H. unfold rsa_verify, digest_eqb. apply andb_false_iff. right.
  apply str_eqb_neq. congruence.
Qed.

Lemma mac_other covh key r1 r2 :
  mac_input covh r1 <> mac_input covh r2 ->
  mac_eqb (Mac key (mac_input covh r1)) (Mac key (mac_input covh r2)) = false.
Proof.
  intros H. unfold mac_eqb. apply andb_false_iff. right. apply str_eqb_neq. exact H.
Qed.

(* ------------------------------------------------------------------ NoDup by computation *)
Fixpoint nodupb (l : list str) : bool :=
  match l with [] => true | x :: t => negb (mem_str x t) && nodupb t end.
Lemma nodupb_NoDup l : nodupb l = true -> NoDup l.
Proof.
  induction l as [|x t IH]; simpl; intros H; [constructor|].
  apply andb_true_iff in H as [H1 H2]. constructor; [|apply IH; exact H2].
  intros Hin. apply mem_str_In in Hin. rewrite Hin in H1. discriminate.
Qed.

(* ------------------------------------------------------------------ block injectivity (LF-free header values) *)
Lemma lf_split_inj (a b x y : str) :
  ~ In lf a -> ~ In lf b -> a ++ lf :: x = b ++ lf :: y -> a = b /\ x = y.
Proof.
  revert b. induction a as [|c a IH]; intros [|d b] Ha Hb H; simpl in H.
  - inversion H; auto.
  - inversion H; subst. exfalso. apply Hb. left; reflexivity.
  - inversion H; subst. exfalso. apply Ha. left; reflexivity.
  - inversion H; subst. destruct (IH b) as [E1 E2]; auto.
    + intros X; apply Ha; right; exact X.
    + intros X; apply Hb; right; exact X.
    + subst; auto.
Qed.

Lemma hmac_lines_inj covh r1 r2 t1 t2 :
  (forall h, In h covh -> ~ In lf (hmac_line r1 h) /\ ~ In lf (hmac_line r2 h)) ->
  hmac_lines covh r1 ++ t1 = hmac_lines covh r2 ++ t2 ->
  (forall h, In h covh -> hmac_line r1 h = hmac_line r2 h) /\ t1 = t2.
Proof.
  induction covh as [|h covh IH]; intros Hlf H.
  - split; [intros h []| exact H].
  - unfold hmac_lines in H. cbn [flat_map] in H. fold (hmac_lines covh r1) (hmac_lines covh r2) in H.
    rewrite <- !app_assoc in H. simpl in H.
    destruct (Hlf h (or_introl eq_refl)) as [L1 L2].
    destruct (lf_split_inj _ _ _ _ L1 L2 H) as [E1 E2].
    destruct (IH (fun k Hk => Hlf k (or_intror Hk)) E2) as [E3 E4].
    split; [|exact E4]. intros k [<-|Hk]; [exact E1 | apply E3; exact Hk].
Qed.

(* Equal MAC inputs force equal methods and equal lines for every covered header, given that
   methods and header values contain no line feed (net/http cannot parse one into them). What is
   left, URL line and body, is only known as one string: the path may contain a line feed. *)
Theorem hmac_block_injective covh r1 r2 :
  ~ In lf (r_method r1) -> ~ In lf (r_method r2) ->
  (forall h, In h covh -> ~ In lf (hmac_line r1 h) /\ ~ In lf (hmac_line r2 h)) ->
  mac_input covh r1 = mac_input covh r2 ->
  r_method r1 = r_method r2 /\ (forall h, In h covh -> hmac_line r1 h = hmac_line r2 h) /\
  url_part r1 ++ lf :: body_bytes r1 = url_part r2 ++ lf :: body_bytes r2.
Proof.
  intros M1 M2 Hlf E. unfold mac_input in E. rewrite !canon_hmac_shape in E.
  rewrite <- !app_assoc in E. simpl in E.
  destruct (lf_split_inj _ _ _ _ M1 M2 E) as [Em E2].
  destruct (hmac_lines_inj covh r1 r2 _ _ Hlf E2) as [El E3].
  rewrite <- ?app_assoc in E3. simpl in E3. auto.
Qed.

Lemma pre_inj (l1 l2 : list str) t1 t2 :
  length l1 = length l2 -> (forall e, In e l1 \/ In e l2 -> ~ In lf e) ->
  pre [lf] l1 ++ t1 = pre [lf] l2 ++ t2 -> l1 = l2 /\ t1 = t2.
Proof.
  revert l2. induction l1 as [|a l1 IH]; intros [|c l2] Hlen Hlf H; try discriminate.
  - auto.
  - unfold pre in H. cbn [flat_map] in H. fold (pre [lf] l1) (pre [lf] l2) in H.
    rewrite <- !app_assoc in H. simpl in H.
    destruct (lf_split_inj _ _ _ _ (Hlf a (or_introl (or_introl eq_refl))) (Hlf c (or_intror (or_introl eq_refl))) H) as [E1 E2].
    destruct (IH l2) as [E3 E4]; [simpl in Hlen; congruence | | exact E2 |].
    + intros e [He|He]; apply Hlf; [left; right; exact He | right; right; exact He].
    + subst; auto.
Qed.

(* RSA form: when the same covered headers are present in both requests (entry lists of equal
   length) and values are LF-free, equal forms force equal entries. *)
Theorem rsa_block_injective cov r1 r2 :
  length (rsa_header_entries cov r1) = length (rsa_header_entries cov r2) ->
  (forall e, In e (rsa_header_entries cov r1) \/ In e (rsa_header_entries cov r2) -> ~ In lf e) ->
  canon_rsa cov r1 = canon_rsa cov r2 ->
  rsa_header_entries cov r1 = rsa_header_entries cov r2 /\
  url_part r1 ++ body_suffix (r_body r1) = url_part r2 ++ body_suffix (r_body r2).
Proof. intros Hlen Hlf E. rewrite !canon_rsa_shape in E. exact (pre_inj _ _ _ _ Hlen Hlf E). Qed.

(* ------------------------------------------------------------------ concrete strings for examples *)
Definition s_get : str := [71;69;84]. (* "GET" *)
Definition s_delete : str := [68;69;76;69;84;69]. (* "DELETE" *)
Definition s_k1 : str := [47;107;49]. (* "/k1" *)
Definition s_bearer : str := [66;101;97;114;101;114;32;97;98;99]. (* "Bearer abc" *)
Definition s_bob : str := [98;111;98]. (* "bob" *)
Definition s_bob_mail : str := [98;111;98;64;101;120;97;109;112;108;101;46;99;111;109]. (* "bob@example.com" *)
Definition s_cookie_name : str := [95;115;115;111;95;112;114;111;120;121]. (* "_sso_proxy" *)
Definition s_zero : str := [48]. (* "0" *)
Definition s_backend : str := [49;50;55;46;48;46;48;46;49;58;57;48;48;48]. (* "127.0.0.1:9000" *)
Definition s_app : str := [97;112;112;46;101;120;97;109;112;108;101;46;116;101;115;116]. (* "app.example.test" *)
Definition s_json : str := [97;112;112;108;105;99;97;116;105;111;110;47;106;115;111;110]. (* "application/json" *)
Definition s_items : str := [47;97;112;105;47;118;49;47;105;116;101;109;115]. (* "/api/v1/items" *)
Definition s_q : str := [120;61;49;38;121;61;50]. (* "x=1&y=2" *)
Definition s_body : str := [123;34;107;34;58;34;118;34;125;10]. (* "{\"k\":\"v\"}\n" *)
Definition s_date : str := [77;111;110;44;32;48;50;32;74;97;110;32;50;48;48;54;32;49;53;58;48;52;58;48;53;32;71;77;84]. (* "Mon, 02 Jan 2006 15:04:05 GMT" *)
Definition s_x : str := [120]. (* "x" *)
Definition s_a : str := [47;97]. (* "/a" *)
Definition s_aqb : str := [47;97;63;98]. (* "/a?b" *)
Definition s_b : str := [98]. (* "b" *)
Definition s_a_nl_b : str := [47;97;10;98]. (* "/a\nb" *)
Definition s_c : str := [99]. (* "c" *)
Definition s_b_nl_c : str := [98;10;99]. (* "b\nc" *)
Definition s_ab : str := [97;44;98]. (* "a,b" *)
Definition s_a1 : str := [97]. (* "a" *)
Definition s_g1 : str := [103;49]. (* "g1" *)
Definition s_11 : str := [49;49]. (* "11" *)
Definition s_ip : str := [49;48;46;48;46;48;46;55]. (* "10.0.0.7" *)

Definition mk_req (m : str) (h : headers) (p q : str) (b : option str) : request :=
  {| r_method := m; r_host := s_app; r_headers := h; r_path := p; r_rawquery := q; r_fragment := [];
     r_body := b; r_chunked := false;
     r_clen := N.of_nat (length (match b with Some x => x | None => [] end)); r_sso_sig := None; r_kid := None; r_gap_sig := None |}.

Definition ex_cfg : cfg :=
  {| c_signer := Some 1; c_hmac := Some [107;101;121]; c_skip := false; c_pass_token := false;
     c_inject := [];
     c_cookie_name := s_cookie_name; c_preserve_host := false; c_thost := s_backend; c_tpath := []; c_tquery := [] |}.
Definition ex_ident : option identity :=
  Some {| i_user := s_bob; i_email := s_bob_mail; i_groups := [s_g1]; i_token := [] |}.
Definition ex_parsed : list (str * str) := [(s_cookie_name, s_cookie_name ++ [61;83])].  (* _sso_proxy=S *)

(* non-vacuity: a POST with a body and three covered headers (plus the session cookie) *)
Definition ex_post : request :=
  mk_req m_post [(content_type, [s_json]); (date_h, [s_date]); (authorization, [s_bearer]);
                 (content_length, [dec 10]); (cookie_h, [s_cookie_name ++ [61;83]])]
         s_items s_q (Some s_body).

(* K1 witness: Connection names a covered header *)
Definition ex_hop : request :=
  mk_req s_get [(authorization, [s_bearer]); (connection, [authorization])] s_k1 [] (Some []).
(* K2 witness: GET carrying Content-Length: 0 *)
Definition ex_cl0 : request := mk_req s_get [(content_length, [s_zero])] s_k1 [] (Some []).

(* both at once: Connection names a covered header that is present AND Content-Length: 0 on a GET *)
Definition ex_both : request :=
  mk_req s_get [(authorization, [s_bearer]); (connection, [authorization]); (content_length, [s_zero])] s_k1 [] (Some []).
(* a Connection token naming an ABSENT covered header (harmless) together with Content-Length: 0 *)
Definition ex_harmless_k1_k2 : request :=
  mk_req s_get [(connection, [content_md5]); (content_length, [s_zero])] s_k1 [] (Some []).

Definition dc := documented_covered.
Definition all_protected := dc ++ dc ++ sig_headers.

Lemma documented_facts :
  cov_ok dc = true /\ nodupb dc = true /\ hmac_names dc = dc /\
  forallb (fun k => str_eqb (canonical_key k) k) dc = true.
Proof. vm_compute. repeat split; reflexivity. Qed.

Lemma ex_post_guards :
  bare_target ex_cfg = true /\ has_prefix (r_path ex_post) [47] = true /\ r_fragment ex_post = [] /\
  r_body ex_post = Some s_body /\
  conn_safe all_protected (r_headers (at_sign_time ex_cfg ex_parsed ex_ident ex_post)) = true /\
  cl_canonical (at_sign_time ex_cfg ex_parsed ex_ident ex_post) = true /\
  verify_rsa dc (published_certs ex_cfg) (received dc dc ex_cfg ex_parsed ex_ident s_ip ex_post) = Some true /\
  verify_hmac dc [107;101;121] (received dc dc ex_cfg ex_parsed ex_ident s_ip ex_post) = 3 /\
  hvals cookie_h (r_headers (received dc dc ex_cfg ex_parsed ex_ident s_ip ex_post)) = [].
Proof. vm_compute. repeat split; reflexivity. Qed.

(* the full statement without the Connection guard is false *)
Lemma hop_by_hop_witness :
  bare_target ex_cfg = true /\ has_prefix (r_path ex_hop) [47] = true /\ r_fragment ex_hop = [] /\
  r_body ex_hop = Some [] /\ cl_canonical (at_sign_time ex_cfg [] ex_ident ex_hop) = true /\
  conn_safe all_protected (r_headers (at_sign_time ex_cfg [] ex_ident ex_hop)) = false /\
  hvals authorization (r_headers (at_sign_time ex_cfg [] ex_ident ex_hop)) = [s_bearer] /\
  hvals authorization (r_headers (received dc dc ex_cfg [] ex_ident s_ip ex_hop)) = [] /\
  canon_rsa dc (received dc dc ex_cfg [] ex_ident s_ip ex_hop) <> canon_rsa dc (at_sign_time ex_cfg [] ex_ident ex_hop) /\
  verify_rsa dc (published_certs ex_cfg) (received dc dc ex_cfg [] ex_ident s_ip ex_hop) = Some false /\
  verify_hmac dc [107;101;121] (received dc dc ex_cfg [] ex_ident s_ip ex_hop) = 4.
Proof.
  repeat split; try (vm_compute; reflexivity).
  intros H. vm_compute in H. discriminate H.
Qed.

(* naming the signature header itself removes the signature *)
Definition ex_hop_sig : request := mk_req s_get [(connection, [sso_signature])] s_k1 [] (Some []).
Lemma hop_by_hop_sig_witness :
  verify_rsa dc (published_certs ex_cfg) (received dc dc ex_cfg [] ex_ident s_ip ex_hop_sig) = None /\
  r_sso_sig (sign dc dc ex_cfg (at_sign_time ex_cfg [] ex_ident ex_hop_sig)) <> None.
Proof. split; [vm_compute; reflexivity | vm_compute; discriminate]. Qed.

(* the full statement without the Content-Length guard is false *)
Lemma content_length_witness :
  bare_target ex_cfg = true /\ has_prefix (r_path ex_cl0) [47] = true /\ r_fragment ex_cl0 = [] /\
  r_body ex_cl0 = Some [] /\
  conn_safe all_protected (r_headers (at_sign_time ex_cfg [] ex_ident ex_cl0)) = true /\
  cl_canonical (at_sign_time ex_cfg [] ex_ident ex_cl0) = false /\
  hvals content_length (r_headers (received dc dc ex_cfg [] ex_ident s_ip ex_cl0)) = [] /\
  canon_rsa dc (received dc dc ex_cfg [] ex_ident s_ip ex_cl0) <> canon_rsa dc (at_sign_time ex_cfg [] ex_ident ex_cl0) /\
  verify_rsa dc (published_certs ex_cfg) (received dc dc ex_cfg [] ex_ident s_ip ex_cl0) = Some false /\
  verify_hmac dc [107;101;121] (received dc dc ex_cfg [] ex_ident s_ip ex_cl0) = 4.
Proof.
  repeat split; try (vm_compute; reflexivity).
  intros H. vm_compute in H. discriminate H.
Qed.

(* ------------------------------------------------------------------ the canonical forms are not injective *)
(* (a) the RSA form does not contain the method *)
Lemma rsa_ignores_method cov m1 m2 h p q b :
  canon_rsa cov (mk_req m1 h p q b) = canon_rsa cov (mk_req m2 h p q b).
Proof. reflexivity. Qed.

Lemma not_injective_examples :
  (* (b) RSA: header names are not part of the form and empty entries are dropped *)
  canon_rsa dc (mk_req s_get [(date_h, [s_x])] s_a [] (Some [])) =
  canon_rsa dc (mk_req s_get [(authorization, [s_x])] s_a [] (Some [])) /\
  (* ... so an e-mail can be read as a user name *)
  canon_rsa dc (mk_req s_get [(x_forwarded_user, [s_bob_mail])] s_a [] (Some [])) =
  canon_rsa dc (mk_req s_get [(x_forwarded_user, [[]]); (x_forwarded_email, [s_bob_mail])] s_a [] (Some [])) /\
  (* (c) both forms: path/query boundary, path "/a?b" (sent as /a%3Fb) vs path "/a", query "b" *)
  canon_rsa dc (mk_req s_get [] s_aqb [] (Some [])) = canon_rsa dc (mk_req s_get [] s_a s_b (Some [])) /\
  mac_input dc (mk_req s_get [] s_aqb [] (Some [])) = mac_input dc (mk_req s_get [] s_a s_b (Some [])) /\
  (* (d) both forms: URL/body boundary, path "/a\nb" (sent as /a%0Ab), body "c" vs path "/a", body "b\nc" *)
  canon_rsa dc (mk_req m_post [] s_a_nl_b [] (Some s_c)) = canon_rsa dc (mk_req m_post [] s_a [] (Some s_b_nl_c)) /\
  mac_input dc (mk_req m_post [] s_a_nl_b [] (Some s_c)) = mac_input dc (mk_req m_post [] s_a [] (Some s_b_nl_c)) /\
  (* (e) both forms: two values vs one value with a comma *)
  canon_rsa dc (mk_req s_get [(authorization, [s_a1; s_b])] s_a [] (Some [])) =
  canon_rsa dc (mk_req s_get [(authorization, [s_ab])] s_a [] (Some [])) /\
  mac_input dc (mk_req s_get [(authorization, [s_a1; s_b])] s_a [] (Some [])) =
  mac_input dc (mk_req s_get [(authorization, [s_ab])] s_a [] (Some [])) /\
  (* (f) HMAC: a nil body and an empty body give the same MAC input *)
  mac_input dc (mk_req s_get [] s_a [] None) = mac_input dc (mk_req s_get [] s_a [] (Some [])).
Proof. vm_compute. repeat split; reflexivity. Qed.

(* ------------------------------------------------------------------ configuration of the HMAC key *)
Lemma split_on_nonnil sep s : split_on sep s <> [].
Proof.
  induction s as [|c s IH]; simpl; [discriminate|].
  destruct (N.eqb c sep); [discriminate|]. destruct (split_on sep s); [discriminate | discriminate].
Qed.

Lemma split_on_none sep s : ~ In sep s -> split_on sep s = [s].
Proof.
  induction s as [|c s IH]; intros H; simpl; [reflexivity|].
  destruct (N.eqb c sep) eqn:E; [apply N.eqb_eq in E; subst; exfalso; apply H; left; reflexivity|].
  rewrite IH by (intros X; apply H; right; exact X). reflexivity.
Qed.

Lemma split_on_app sep a s : ~ In sep a -> split_on sep (a ++ sep :: s) = a :: split_on sep s.
Proof.
  induction a as [|c a IH]; intros H; simpl.
  - rewrite N.eqb_refl. reflexivity.
  - destruct (N.eqb c sep) eqn:E; [apply N.eqb_eq in E; subst; exfalso; apply H; left; reflexivity|].
    rewrite IH by (intros X; apply H; right; exact X). reflexivity.
Qed.

(* The shared key is the secret exactly as written, for every byte string without ':' — no case
   folding, no trimming — and the algorithm must be one of the accepted names verbatim. *)
Theorem generate_hmac_key algs alg secret :
  ~ In 58 alg -> ~ In 58 secret ->
  generate_hmac algs (alg ++ 58 :: secret) = if mem_str alg algs then HmacOn secret else HmacConfigError.
Proof.
  intros Ha Hs. unfold generate_hmac. rewrite split_on_app by exact Ha. rewrite split_on_none by exact Hs. reflexivity.
Qed.

Lemma lower_upper_byte c : lower_byte (upper_byte c) = lower_byte c.
Proof.
  unfold lower_byte, upper_byte.
  destruct ((97 <=? c) && (c <=? 122)) eqn:E.
  - apply andb_true_iff in E as [E1 E2]. apply N.leb_le in E1, E2.
    assert (H1 : (65 <=? c - 32) = true) by (apply N.leb_le; lia).
    assert (H2 : (c - 32 <=? 90) = true) by (apply N.leb_le; lia).
    rewrite H1, H2. simpl.
    assert (H3 : (c <=? 90) = false) by (apply N.leb_gt; lia).
    rewrite H3, andb_false_r. lia.
  - reflexivity.
Qed.

Lemma lower_upper_ascii s : lower_ascii (upper_ascii s) = lower_ascii s.
Proof. unfold lower_ascii, upper_ascii. rewrite map_map. apply map_ext. exact lower_upper_byte. Qed.

Lemma lower_ascii_app a b : lower_ascii (a ++ b) = lower_ascii a ++ lower_ascii b.
Proof. apply map_app. Qed.

(* a deployer who follows the documentation (variable SSO_CONFIG_<SERVICE>_SIGNING_KEY, name in upper
   case) gets the key, whatever the case of the service name (needed a lower-case name before c723740) *)
Theorem hmac_config_found algs service spec :
  hmac_of_config algs service [(upper_ascii (clean_ws service ++ signing_key_suffix), spec)] = generate_hmac algs spec.
Proof.
  unfold hmac_of_config, env_vars. simpl.
  rewrite lower_upper_ascii, lower_ascii_app.
  change (lower_ascii signing_key_suffix) with signing_key_suffix. rewrite str_eqb_refl. reflexivity.
Qed.

Definition s_mysvc : str := [77;121;83;118;99]. (* "MySvc" *)
Definition s_sha256 : str := [115;104;97;50;53;54]. (* "sha256" *)
(* the former witness of C12-K3 (HmacOff before c723740) now finds its key *)
Lemma hmac_config_case_witness :
  hmac_of_config [s_sha256] s_mysvc [(upper_ascii (clean_ws s_mysvc ++ signing_key_suffix), s_sha256 ++ 58 :: s_x)] = HmacOn s_x.
Proof. vm_compute. reflexivity. Qed.
