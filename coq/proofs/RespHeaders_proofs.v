(* RespHeaders_proofs.v — lemmas for C18 (model: theories/RespHeaders.v). *)
From V Require Import Base Base_proofs RespHeaders.
From Coq Require Import ZifyN ZifyNat ZifyBool.
Require Coq.Strings.String.
Import Coq.Strings.String.StringSyntax.

(* ------------------------------------------------------------------------------------------ *)
(* 1. http.Header algebra *)

Lemma str_eqb_sym a b : str_eqb a b = str_eqb b a.
Proof.
  destruct (str_eqb a b) eqn:E; symmetry.
  - apply str_eqb_eq in E. subst. apply str_eqb_refl.
  - apply str_eqb_neq. apply str_eqb_neq in E. congruence.
Qed.

Section Hdr.
Context {A : Type}.
Implicit Types (h : hdr A) (k : str).

Lemma hget_hdel_raw k k' h : hget k (hdel_raw k' h) = if str_eqb k k' then [] else hget k h.
Proof.
  induction h as [|[k2 vs] h IH]; simpl; [destruct (str_eqb k k'); reflexivity|].
  destruct (str_eqb k' k2) eqn:E2.
  - rewrite IH. destruct (str_eqb k k') eqn:E1; [reflexivity|].
    apply str_eqb_eq in E2. subst. rewrite E1. reflexivity.
  - simpl. rewrite IH. destruct (str_eqb k k2) eqn:E3; [|reflexivity].
    apply str_eqb_eq in E3. subst. rewrite str_eqb_sym, E2. reflexivity.
Qed.

Lemma hget_hset_raw k k' (vs : list A) h : hget k (hset_raw k' vs h) = if str_eqb k k' then vs else hget k h.
Proof. unfold hset_raw. simpl. rewrite hget_hdel_raw. destruct (str_eqb k k'); reflexivity. Qed.

Lemma hget_hadd_raw k k' (v : A) h :
  hget k (hadd_raw k' v h) = if str_eqb k k' then hget k h ++ [v] else hget k h.
Proof.
  unfold hadd_raw. rewrite hget_hset_raw. destruct (str_eqb k k') eqn:E; [|reflexivity].
  apply str_eqb_eq in E. subst. reflexivity.
Qed.

Lemma hhas_hdel_raw k k' h : hhas k (hdel_raw k' h) = negb (str_eqb k k') && hhas k h.
Proof.
  induction h as [|[k2 vs] h IH]; simpl; [rewrite andb_false_r; reflexivity|].
  destruct (str_eqb k' k2) eqn:E2.
  - rewrite IH. apply str_eqb_eq in E2. subst. destruct (str_eqb k k2); reflexivity.
  - simpl. rewrite IH. destruct (str_eqb k k2) eqn:E3; [|reflexivity].
    apply str_eqb_eq in E3. subst. rewrite str_eqb_sym, E2. reflexivity.
Qed.

Lemma hhas_hset_raw k k' (vs : list A) h : hhas k (hset_raw k' vs h) = str_eqb k k' || hhas k h.
Proof. unfold hset_raw. simpl. rewrite hhas_hdel_raw. destruct (str_eqb k k'); reflexivity. Qed.

Lemma hhas_hadd_raw k k' (v : A) h : hhas k (hadd_raw k' v h) = str_eqb k k' || hhas k h.
Proof. unfold hadd_raw. apply hhas_hset_raw. Qed.

Lemma hget_nohas k h : hhas k h = false -> hget k h = [].
Proof.
  induction h as [|[k2 vs] h IH]; simpl; [reflexivity|]. intros H.
  apply orb_false_iff in H as [H1 H2]. rewrite H1. auto.
Qed.

(* merge under http.TimeoutHandler: replace by key *)
Lemma hget_merge_replace k (dst src : hdr A) :
  hget k (merge_replace dst src) = if hhas k src then hget k src else hget k dst.
Proof.
  induction src as [|[k2 vs] src IH]; [reflexivity|].
  unfold merge_replace. cbn [fold_right fst snd]. fold (merge_replace dst src).
  rewrite hget_hset_raw. cbn [hhas hget]. destruct (str_eqb k k2); cbn [orb]; [reflexivity | exact IH].
Qed.

(* keys of a map are fixed points of canon *)
Definition keys_canon h : Prop := Forall (fun kv => canon (fst kv) = fst kv) h.

Lemma keys_canon_hdel_raw k h : keys_canon h -> keys_canon (hdel_raw k h).
Proof.
  unfold keys_canon. induction h as [|[k2 vs] h IH]; simpl; intros H; [constructor|].
  inversion H; subst. destruct (str_eqb k k2); [auto | constructor; auto].
Qed.

Lemma keys_canon_hset_raw k (vs : list A) h : canon k = k -> keys_canon h -> keys_canon (hset_raw k vs h).
Proof. intros Hk H. constructor; [exact Hk | apply keys_canon_hdel_raw; exact H]. Qed.

Lemma keys_canon_hadd_raw k (v : A) h : canon k = k -> keys_canon h -> keys_canon (hadd_raw k v h).
Proof. intros. apply keys_canon_hset_raw; assumption. Qed.

(* values: every value in the map satisfies P *)
Definition hall (P : A -> Prop) h : Prop := Forall (fun kv => Forall P (snd kv)) h.

Lemma hall_hget (P : A -> Prop) k h : hall P h -> Forall P (hget k h).
Proof.
  unfold hall. induction h as [|[k2 vs] h IH]; simpl; intros H; [constructor|].
  inversion H; subst. destruct (str_eqb k k2); auto.
Qed.

Lemma hall_hdel_raw (P : A -> Prop) k h : hall P h -> hall P (hdel_raw k h).
Proof.
  unfold hall. induction h as [|[k2 vs] h IH]; simpl; intros H; [constructor|].
  inversion H; subst. destruct (str_eqb k k2); [auto | constructor; auto].
Qed.

Lemma hall_hset_raw (P : A -> Prop) k (vs : list A) h : Forall P vs -> hall P h -> hall P (hset_raw k vs h).
Proof. intros Hv H. constructor; [exact Hv | apply hall_hdel_raw; exact H]. Qed.

Lemma hall_hadd_raw (P : A -> Prop) k (v : A) h : P v -> hall P h -> hall P (hadd_raw k v h).
Proof.
  intros Hv H. apply hall_hset_raw; [|exact H]. apply Forall_app. split; [apply hall_hget; exact H | constructor; auto].
Qed.

Lemma hall_merge_replace (P : A -> Prop) (dst src : hdr A) : hall P dst -> hall P src -> hall P (merge_replace dst src).
Proof.
  intros Hd Hs. induction src as [|[k vs] src IH]; [exact Hd|].
  unfold merge_replace. cbn [fold_right fst snd]. fold (merge_replace dst src).
  inversion Hs; subst. apply hall_hset_raw; [assumption | apply IH; assumption].
Qed.

End Hdr.

(* ------------------------------------------------------------------------------------------ *)
(* 2. canonical keys *)

Lemma is_token_upper c : is_token_byte c = true -> is_token_byte (upper_byte c) = true.
Proof.
  unfold upper_byte. destruct (is_lower c) eqn:E; [|auto]. intros _.
  unfold is_lower in E. unfold is_token_byte, is_alnum, is_alpha, is_upper, is_digit, is_lower.
  assert (H1: (65 <=? c - 32) = true) by lia. assert (H2: (c - 32 <=? 90) = true) by lia.
  rewrite H1, H2. simpl. rewrite orb_true_r. reflexivity.
Qed.

Lemma is_token_low c : is_token_byte c = true -> is_token_byte (low_byte c) = true.
Proof.
  unfold low_byte. destruct (is_upper c) eqn:E; [|auto]. intros _.
  unfold is_upper in E. unfold is_token_byte, is_alnum, is_alpha, is_upper, is_digit, is_lower.
  assert (H1: (97 <=? c + 32) = true) by lia. assert (H2: (c + 32 <=? 122) = true) by lia.
  rewrite H1, H2. simpl. rewrite !orb_true_r. reflexivity.
Qed.

Lemma upper_byte_idem c : upper_byte (upper_byte c) = upper_byte c.
Proof.
  unfold upper_byte. destruct (is_lower c) eqn:E; [|rewrite E; reflexivity].
  unfold is_lower in *. assert (H: ((97 <=? c - 32) && (c - 32 <=? 122)) = false) by lia. rewrite H. reflexivity.
Qed.

Lemma low_byte_idem c : low_byte (low_byte c) = low_byte c.
Proof.
  unfold low_byte. destruct (is_upper c) eqn:E; [|rewrite E; reflexivity].
  unfold is_upper in *. assert (H: ((65 <=? c + 32) && (c + 32 <=? 90)) = false) by lia. rewrite H. reflexivity.
Qed.

Lemma canon_go_token u s : forallb is_token_byte s = true -> forallb is_token_byte (canon_go u s) = true.
Proof.
  revert u; induction s as [|c s IH]; intros u; simpl; [reflexivity|].
  intros H. apply andb_true_iff in H as [H1 H2]. apply andb_true_iff. split; [|apply IH; exact H2].
  destruct u; [apply is_token_upper | apply is_token_low]; exact H1.
Qed.

Lemma canon_go_idem u s : canon_go u (canon_go u s) = canon_go u s.
Proof.
  revert u; induction s as [|c s IH]; intros u; simpl; [reflexivity|].
  destruct u; [rewrite upper_byte_idem | rewrite low_byte_idem]; rewrite IH; reflexivity.
Qed.

Lemma canon_idem s : canon (canon s) = canon s.
Proof.
  unfold canon. destruct (forallb is_token_byte s) eqn:E.
  - rewrite (canon_go_token true s E). apply canon_go_idem.
  - rewrite E. reflexivity.
Qed.

Lemma wire_key_canon k k' : wire_key k = Some k' -> canon k' = k'.
Proof.
  unfold wire_key. destruct k; [discriminate|].
  destruct (forallb _ _); [|discriminate]. intros H; inversion H. apply canon_idem.
Qed.

Lemma canon_nontoken s : forallb is_token_byte s = false -> canon s = s.
Proof. unfold canon. intros ->. reflexivity. Qed.

Lemma canon_trailer_prefix x : canon (trailer_prefix ++ x) = trailer_prefix ++ x.
Proof. apply canon_nontoken. reflexivity. Qed.

(* ------------------------------------------------------------------------------------------ *)
(* 3. set_all, copy_header, deletions, reading field lines *)

Section Ops.
Context {A : Type}.
Implicit Types (h : hdr A) (k : str).

Lemma set_all_app (inj : str -> A) tbl x h :
  set_all inj (tbl ++ [x]) h = hset (fst x) (inj (snd x)) (set_all inj tbl h).
Proof. unfold set_all. rewrite fold_left_app. reflexivity. Qed.

Lemma tbl_lookup_app k tbl x :
  tbl_lookup k (tbl ++ [x]) = if str_eqb k (canon (fst x)) then Some (snd x) else tbl_lookup k tbl.
Proof. unfold tbl_lookup. rewrite fold_left_app. reflexivity. Qed.

(* setHeaders: afterwards every key of the table holds exactly the value of its last entry *)
Lemma hget_set_all (inj : str -> A) k tbl h :
  hget k (set_all inj tbl h) = match tbl_lookup k tbl with Some v => [inj v] | None => hget k h end.
Proof.
  induction tbl as [|x tbl IH] using rev_ind; [reflexivity|].
  rewrite set_all_app, tbl_lookup_app. unfold hset. rewrite hget_hset_raw.
  destruct (str_eqb k (canon (fst x))); [reflexivity | exact IH].
Qed.

Lemma hall_set_all (P : A -> Prop) (inj : str -> A) tbl h :
  (forall s, P (inj s)) -> hall P h -> hall P (set_all inj tbl h).
Proof.
  intros Hi. revert h. induction tbl as [|x tbl IH]; intros h H; [exact H|].
  apply IH. apply hall_hset_raw; [constructor; auto | exact H].
Qed.

Lemma hget_adds_nohit k k2 (vs : list A) d :
  str_eqb k (canon k2) = false -> hget k (fold_left (fun d v => hadd k2 v d) vs d) = hget k d.
Proof.
  intros E. revert d. induction vs as [|v vs IH]; intros d; [reflexivity|].
  cbn [fold_left]. rewrite IH. unfold hadd. rewrite hget_hadd_raw, E. reflexivity.
Qed.

Lemma hhas_adds_nohit k k2 (vs : list A) d :
  str_eqb k (canon k2) = false -> hhas k (fold_left (fun d v => hadd k2 v d) vs d) = hhas k d.
Proof.
  intros E. revert d. induction vs as [|v vs IH]; intros d; [reflexivity|].
  cbn [fold_left]. rewrite IH. unfold hadd. rewrite hhas_hadd_raw, E. reflexivity.
Qed.

Lemma hall_adds (P : A -> Prop) k2 (vs : list A) d :
  Forall P vs -> hall P d -> hall P (fold_left (fun d v => hadd k2 v d) vs d).
Proof.
  intros Hv. revert d. induction Hv as [|v vs Hv1 Hv2 IH]; intros d H; [exact H|].
  cbn [fold_left]. apply IH. apply hall_hadd_raw; assumption.
Qed.

Lemma copy_header_cons dst kvs (src : hdr A) :
  copy_header dst (kvs :: src) = copy_header (fold_left (fun d v => hadd (fst kvs) v d) (snd kvs) dst) src.
Proof. reflexivity. Qed.

(* copyHeader does not touch a key the source does not have *)
Lemma copy_header_nohit k dst (src : hdr A) :
  keys_canon src -> hhas k src = false ->
  hget k (copy_header dst src) = hget k dst /\ hhas k (copy_header dst src) = hhas k dst.
Proof.
  revert dst. induction src as [|[k2 vs] src IH]; intros dst Hc Hh; [split; reflexivity|].
  inversion Hc as [|? ? Hc1 Hc2]; subst. cbn [hhas] in Hh. apply orb_false_iff in Hh as [Hh1 Hh2].
  rewrite copy_header_cons. destruct (IH (fold_left (fun d v => hadd (fst (k2, vs)) v d) (snd (k2, vs)) dst) Hc2 Hh2) as [I1 I2].
  cbn [fst snd] in *. rewrite I1, I2. split.
  - apply hget_adds_nohit. rewrite Hc1. exact Hh1.
  - apply hhas_adds_nohit. rewrite Hc1. exact Hh1.
Qed.

Lemma hall_copy_header (P : A -> Prop) dst (src : hdr A) : hall P dst -> hall P src -> hall P (copy_header dst src).
Proof.
  revert dst. induction src as [|[k2 vs] src IH]; intros dst Hd Hs; [exact Hd|].
  inversion Hs; subst. rewrite copy_header_cons. apply IH; [|assumption].
  apply hall_adds; assumption.
Qed.

(* ModifyResponse's deletions, removeHopByHopHeaders *)
Lemma hhas_fold_hdel k ds h :
  hhas k (fold_left (fun h d => hdel d h) ds h) = negb (mem_str k (map canon ds)) && hhas k h.
Proof.
  revert h. induction ds as [|d ds IH]; intros h; [reflexivity|].
  cbn [fold_left map mem_str]. rewrite IH. unfold hdel. rewrite hhas_hdel_raw.
  destruct (str_eqb k (canon d)), (mem_str k (map canon ds)); reflexivity.
Qed.

Lemma keys_canon_fold_hdel ds h : keys_canon h -> keys_canon (fold_left (fun h d => hdel d h) ds h).
Proof.
  revert h. induction ds as [|d ds IH]; intros h H; [exact H|].
  cbn [fold_left]. apply IH. apply keys_canon_hdel_raw. exact H.
Qed.

Lemma hall_fold_hdel (P : A -> Prop) ds h : hall P h -> hall P (fold_left (fun h d => hdel d h) ds h).
Proof.
  revert h. induction ds as [|d ds IH]; intros h H; [exact H|].
  cbn [fold_left]. apply IH. apply hall_hdel_raw. exact H.
Qed.

Lemma keys_canon_remove_hop (proj : A -> str) h : keys_canon h -> keys_canon (remove_hop proj h).
Proof. intros H. unfold remove_hop. apply keys_canon_fold_hdel. apply keys_canon_fold_hdel. exact H. Qed.

Lemma hall_remove_hop (P : A -> Prop) (proj : A -> str) h : hall P h -> hall P (remove_hop proj h).
Proof. intros H. unfold remove_hop. apply hall_fold_hdel. apply hall_fold_hdel. exact H. Qed.

Lemma hhas_remove_hop_le (proj : A -> str) k h : hhas k h = false -> hhas k (remove_hop proj h) = false.
Proof.
  intros H. unfold remove_hop. rewrite !hhas_fold_hdel, H. rewrite !andb_false_r. reflexivity.
Qed.

(* reading field lines *)
Lemma read_lines_spec (inj : str -> A) (P : A -> Prop) k ls acc tr :
  read_lines inj ls acc = Some tr ->
  hhas k tr = hhas k acc || line_hits k ls /\
  (keys_canon acc -> keys_canon tr) /\
  ((forall s, P (inj s)) -> hall P acc -> hall P tr).
Proof.
  revert acc. induction ls as [|[k1 v1] ls IH]; intros acc H.
  - inversion H; subst. cbn. rewrite orb_false_r. auto.
  - cbn [read_lines] in H. destruct (wire_key k1) as [k1'|] eqn:W; [|discriminate].
    destruct (IH _ H) as [I1 [I2 I3]]. split; [|split].
    + rewrite I1, hhas_hadd_raw. cbn [line_hits existsb fst]. rewrite W.
      fold (line_hits k ls). rewrite orb_assoc. f_equal. apply orb_comm.
    + intros Hc. apply I2. apply keys_canon_hadd_raw; [eapply wire_key_canon; exact W | exact Hc].
    + intros Hi Ha. apply I3; [exact Hi|]. apply hall_hadd_raw; [apply Hi | exact Ha].
Qed.

End Ops.

(* ------------------------------------------------------------------------------------------ *)
(* 4. the reverse proxy: trailers, announcement, forward *)

Lemma canon_k_trailer : canon k_trailer = k_trailer. Proof. reflexivity. Qed.
Lemma canon_k_set_cookie : canon k_set_cookie = k_set_cookie. Proof. reflexivity. Qed.
Lemma canon_k_location : canon k_location = k_location. Proof. reflexivity. Qed.
Lemma canon_k_content_type : canon k_content_type = k_content_type. Proof. reflexivity. Qed.
Lemma canon_k_content_length : canon k_content_length = k_content_length. Proof. reflexivity. Qed.
Lemma canon_k_user : canon k_user = k_user. Proof. reflexivity. Qed.
Lemma canon_k_xcto : canon k_xcto = k_xcto. Proof. reflexivity. Qed.

(* what a protected key must not be for the handler operations and the trailer plumbing to leave
   it alone (checked by computation for the concrete keys) *)
Definition key_ok (k : str) : bool :=
  negb (str_eqb k k_set_cookie) && negb (str_eqb k k_location) && negb (str_eqb k k_content_type) &&
  negb (str_eqb k k_content_length) && negb (str_eqb k k_user) && negb (str_eqb k k_trailer) &&
  negb (has_prefix k trailer_prefix).

Lemma key_ok_parts k : key_ok k = true ->
  str_eqb k k_set_cookie = false /\ str_eqb k k_location = false /\ str_eqb k k_content_type = false /\
  str_eqb k k_content_length = false /\ str_eqb k k_user = false /\ str_eqb k k_trailer = false /\
  has_prefix k trailer_prefix = false.
Proof.
  unfold key_ok. rewrite !andb_true_iff, !negb_true_iff. tauto.
Qed.

Lemma not_prefixed k x : has_prefix k trailer_prefix = false -> str_eqb k (trailer_prefix ++ x) = false.
Proof.
  intros H. apply str_eqb_neq. intros E. subst.
  assert (has_prefix (trailer_prefix ++ x) trailer_prefix = true) by (apply has_prefix_spec; eauto).
  congruence.
Qed.

Section Trailers.
Context {A : Type}.

Lemma prefixed_nohit k (tr h : hdr A) :
  has_prefix k trailer_prefix = false ->
  let r := fold_left (fun d kvs => fold_left (fun d v => hadd (trailer_prefix ++ fst kvs) v d) (snd kvs) d) tr h in
  hget k r = hget k h /\ hhas k r = hhas k h.
Proof.
  intros Hp. revert h. induction tr as [|[k2 vs] tr IH]; intros h; [split; reflexivity|].
  cbn [fold_left fst snd]. destruct (IH (fold_left (fun d v => hadd (trailer_prefix ++ k2) v d) vs h)) as [I1 I2].
  cbn zeta in *. rewrite I1, I2. split.
  - apply hget_adds_nohit. rewrite canon_trailer_prefix. apply not_prefixed. exact Hp.
  - apply hhas_adds_nohit. rewrite canon_trailer_prefix. apply not_prefixed. exact Hp.
Qed.

Lemma all_in_nohit k ann (tr : hdr A) :
  forallb (fun kvs => mem_str (fst kvs) ann) tr = true -> mem_str k ann = false -> hhas k tr = false.
Proof.
  intros Hall Hk. induction tr as [|[k2 vs] tr IH]; [reflexivity|].
  cbn [forallb fst] in Hall. apply andb_true_iff in Hall as [H1 H2]. cbn [hhas].
  rewrite (IH H2), orb_false_r. apply str_eqb_neq. intros E. subst. congruence.
Qed.

Lemma mem_filter_out k T L :
  mem_str k T = true -> mem_str k (filter (fun x => negb (mem_str x T)) L) = false.
Proof.
  intros HT. destruct (mem_str k (filter _ L)) eqn:E; [|reflexivity].
  apply mem_str_In in E. apply filter_In in E as [_ E]. rewrite HT in E. discriminate.
Qed.

(* the trailers never reach key k when ModifyResponse removes it from the announced trailers,
   or when the upstream sends no trailer field of that name *)
Lemma trailers_into_nohit k td ann (tr h : hdr A) :
  keys_canon tr -> has_prefix k trailer_prefix = false ->
  (mem_str k (map canon td) = true \/ hhas k tr = false) ->
  hget k (trailers_into td ann tr h) = hget k h /\ hhas k (trailers_into td ann tr h) = hhas k h.
Proof.
  intros Hc Hp Hor. unfold trailers_into.
  destruct (forallb _ tr) eqn:Eall.
  - apply copy_header_nohit; [exact Hc|]. destruct Hor as [Hd|Hn]; [|exact Hn].
    eapply all_in_nohit; [exact Eall|]. unfold ann_after. apply mem_filter_out. exact Hd.
  - apply (prefixed_nohit k tr h Hp).
Qed.

Lemma hall_trailers_into (P : A -> Prop) td ann (tr h : hdr A) :
  hall P h -> hall P tr -> hall P (trailers_into td ann tr h).
Proof.
  intros Hh Ht. unfold trailers_into. destruct (forallb _ tr); [apply hall_copy_header; assumption|].
  revert h Hh. induction Ht as [|[k2 vs] tr Hv Ht IH]; intros h Hh; [exact Hh|].
  cbn [fold_left fst snd]. apply IH. apply hall_adds; assumption.
Qed.

End Trailers.

Lemma announce_nohit k ann h : str_eqb k k_trailer = false ->
  hget k (announce ann h) = hget k h /\ hhas k (announce ann h) = hhas k h.
Proof.
  intros E. unfold announce. destruct ann; [split; reflexivity|].
  unfold hadd. rewrite canon_k_trailer, hget_hadd_raw, hhas_hadd_raw, E. split; reflexivity.
Qed.

Lemma hall_announce (P : hval -> Prop) ann h : (forall s, P (VStr s)) -> hall P h -> hall P (announce ann h).
Proof. intros Hs H. unfold announce. destruct ann; [exact H|]. apply hall_hadd_raw; auto. Qed.

(* The reverse proxy leaves key k of the writer's map alone when: ModifyResponse deletes k from the
   upstream's headers (or the upstream does not send it); no 1xx response arrives while the real writer's map is exposed (append
   mode); and (replace mode) k cannot come back through a trailer. *)
Definition fwd_benign (deleted td : list str) (replace : bool) (k : str) (u : upstream) : Prop :=
  (mem_str k (map canon deleted) = true \/ line_hits k (u_lines u) = false) /\
  (replace = false -> u_n1xx u = 0%nat) /\
  (replace = true -> mem_str k (map canon td) = true \/ line_hits k (u_trailers u) = false).

Lemma forward_keeps k deleted td replace u outer :
  key_ok k = true -> fwd_benign deleted td replace k u ->
  match forward deleted td replace u outer with
  | Resp _ h => hget k h = hget k outer
  | NoResponse => True
  end.
Proof.
  intros Hok [Hdel [H1xx Htr]]. apply key_ok_parts in Hok as [_ [_ [_ [_ [_ [Hkt Hkp]]]]]].
  unfold forward.
  destruct (read_lines VStr (u_lines u) []) as [uh0|] eqn:Eu; [|reflexivity].
  destruct (existsb _ (u_announced u)); [reflexivity|].
  destruct (read_lines_spec VStr (fun _ => True) k _ _ _ Eu) as [Hu1 [Hc0 _]].
  assert (Hc : keys_canon (fold_left (fun h d => hdel d h) deleted (remove_hop hval_str uh0))).
  { apply keys_canon_fold_hdel, keys_canon_remove_hop, Hc0. constructor. }
  assert (Hn : hhas k (fold_left (fun h d => hdel d h) deleted (remove_hop hval_str uh0)) = false).
  { rewrite hhas_fold_hdel. destruct Hdel as [Hd|Hl]; [rewrite Hd; reflexivity|].
    rewrite hhas_remove_hop_le; [apply andb_false_r|]. rewrite Hu1, Hl. reflexivity. }
  destruct (read_lines VStr (u_trailers u) []) as [tr|] eqn:Et; [|exact I].
  destruct (read_lines_spec VStr (fun _ => True) k _ _ _ Et) as [Ht1 [Ht2 _]].
  destruct replace.
  - rewrite hget_merge_replace.
    destruct (trailers_into_nohit k td (u_announced u) tr
                (announce (ann_after td (u_announced u)) (copy_header [] (fold_left (fun h d => hdel d h) deleted (remove_hop hval_str uh0)))))
      as [_ T2]; [apply Ht2; constructor | exact Hkp | |].
    + destruct (Htr eq_refl) as [Hd|Hl]; [left; exact Hd | right]. rewrite Ht1, Hl. reflexivity.
    + rewrite T2. destruct (announce_nohit k (ann_after td (u_announced u))
                  (copy_header [] (fold_left (fun h d => hdel d h) deleted (remove_hop hval_str uh0))) Hkt) as [_ A2].
      rewrite A2. destruct (copy_header_nohit k [] _ Hc Hn) as [_ C2]. rewrite C2. reflexivity.
  - rewrite (H1xx eq_refl).
    destruct (announce_nohit k (ann_after td (u_announced u))
               (copy_header outer (fold_left (fun h d => hdel d h) deleted (remove_hop hval_str uh0))) Hkt) as [A1 _].
    rewrite A1. apply (copy_header_nohit k outer _ Hc Hn).
Qed.

(* every value in a response of the reverse proxy comes from the writer's map or is a string *)
Lemma forward_hall (P : hval -> Prop) deleted td replace u outer :
  (forall s, P (VStr s)) -> hall P outer ->
  match forward deleted td replace u outer with
  | Resp _ h => hall P h
  | NoResponse => True
  end.
Proof.
  intros Hs Ho. unfold forward.
  destruct (read_lines VStr (u_lines u) []) as [uh0|] eqn:Eu; [|exact Ho].
  destruct (existsb _ (u_announced u)); [exact Ho|].
  destruct (read_lines_spec VStr P [] _ _ _ Eu) as [_ [_ Hu]].
  assert (Huh : hall P (fold_left (fun h d => hdel d h) deleted (remove_hop hval_str uh0))).
  { apply hall_fold_hdel, hall_remove_hop, Hu; [exact Hs | constructor]. }
  destruct (read_lines VStr (u_trailers u) []) as [tr|] eqn:Et; [|exact I].
  destruct (read_lines_spec VStr P [] _ _ _ Et) as [_ [_ Ht]].
  destruct replace.
  - apply hall_merge_replace; [exact Ho|]. apply hall_trailers_into; [|apply Ht; [exact Hs | constructor]].
    apply hall_announce; [exact Hs|]. apply hall_copy_header; [constructor | exact Huh].
  - apply hall_announce; [exact Hs|]. apply hall_copy_header; [|exact Huh].
    destruct (u_n1xx u); [exact Ho | constructor].
Qed.

(* ------------------------------------------------------------------------------------------ *)
(* 5. handler operations and the middleware chain *)

Definition op_hits (k : str) (o : hop) : bool :=
  match o with
  | OpCookie _ => str_eqb k k_set_cookie
  | OpSet k' _ => str_eqb k (canon k')
  | OpHttpError => str_eqb k k_xcto || str_eqb k k_content_type || str_eqb k k_content_length
  end.

Lemma hget_apply_op cfg host k h o : op_hits k o = false -> hget k (apply_op cfg host h o) = hget k h.
Proof.
  destruct o as [op|k' v|]; cbn [op_hits apply_op]; intros H.
  - destruct (cookie_name_valid _); [|reflexivity].
    unfold hadd. rewrite canon_k_set_cookie, hget_hadd_raw, H. reflexivity.
  - unfold hset. rewrite hget_hset_raw, H. reflexivity.
  - apply orb_false_iff in H as [H H3]. apply orb_false_iff in H as [H1 H2].
    unfold hset, hdel. rewrite canon_k_xcto, canon_k_content_type, canon_k_content_length.
    rewrite !hget_hset_raw, hget_hdel_raw, H1, H2, H3. reflexivity.
Qed.

Lemma hget_apply_ops cfg host k ops h :
  forallb (fun o => negb (op_hits k o)) ops = true -> hget k (fold_left (apply_op cfg host) ops h) = hget k h.
Proof.
  revert h. induction ops as [|o ops IH]; intros h H; [reflexivity|].
  cbn [forallb] in H. apply andb_true_iff in H as [H1 H2]. cbn [fold_left].
  rewrite IH by exact H2. apply hget_apply_op. apply negb_true_iff. exact H1.
Qed.

Lemma pre_ops_nohit k cookies user : key_ok k = true ->
  forallb (fun o => negb (op_hits k o)) (pre_ops cookies user) = true.
Proof.
  intros Hok. apply key_ok_parts in Hok as [Hsc [_ [_ [_ [Hu _]]]]].
  unfold pre_ops. rewrite forallb_app. apply andb_true_iff. split.
  - induction cookies as [|c cs IH]; [reflexivity|]. cbn [map forallb op_hits]. rewrite Hsc, IH. reflexivity.
  - destruct user; [|reflexivity]. cbn [forallb op_hits]. rewrite canon_k_user, Hu. reflexivity.
Qed.

Definition is_auth401 (c : lclass) : bool := match c with LAuthOnly401 => true | _ => false end.

Lemma lclass_ops_nohit k c loc get : key_ok k = true -> is_auth401 c = false ->
  forallb (fun o => negb (op_hits k o)) (lclass_ops c loc get) = true.
Proof.
  intros Hok Hc. apply key_ok_parts in Hok as [_ [Hl [Hct _]]].
  assert (R : forallb (fun o => negb (op_hits k o))
                (OpSet k_location loc :: (if get then [OpSet k_content_type html_ct] else [])) = true).
  { cbn [forallb op_hits]. rewrite canon_k_location, Hl. destruct get; [|reflexivity].
    cbn [forallb op_hits]. rewrite canon_k_content_type, Hct. reflexivity. }
  destruct c; try exact R; try reflexivity; try discriminate.
  - cbn [lclass_ops forallb op_hits]. rewrite canon_k_content_type, Hct. reflexivity.
  - cbn [lclass_ops forallb op_hits]. rewrite canon_k_location, Hl. reflexivity.
Qed.

Lemma redirect_ops_nohit k q : key_ok k = true ->
  forallb (fun o => negb (op_hits k o)) (redirect_ops q) = true.
Proof.
  intros Hok. apply key_ok_parts in Hok as [_ [Hl [Hct _]]].
  unfold redirect_ops. cbn [forallb op_hits]. rewrite canon_k_location, Hl. destruct (q_get q); [|reflexivity].
  cbn [forallb op_hits]. rewrite canon_k_content_type, Hct. reflexivity.
Qed.

(* the override if there is one, else the table's value *)
Definition effective (tbl : list (str * str)) (cfg : config) (k : str) : option str :=
  match tbl_lookup k (c_overrides cfg) with Some o => Some o | None => tbl_lookup k tbl end.

Lemma hget_chain tbl hsts cfg k :
  hget k (chain_headers tbl hsts cfg) =
  if c_secure cfg && str_eqb k (canon (fst hsts)) then [VStr (snd hsts)]
  else match effective tbl cfg k with Some v => [VStr v] | None => [] end.
Proof.
  unfold chain_headers, effective.
  assert (E : hget k (set_all VStr (c_overrides cfg) (set_all VStr tbl [])) =
              match match tbl_lookup k (c_overrides cfg) with Some o => Some o | None => tbl_lookup k tbl end with
              | Some v => [VStr v] | None => [] end).
  { rewrite !hget_set_all. destruct (tbl_lookup k (c_overrides cfg)); [reflexivity|].
    destruct (tbl_lookup k tbl); reflexivity. }
  destruct (c_secure cfg); cbn [andb]; [|exact E].
  unfold hset. rewrite hget_hset_raw. destruct (str_eqb k (canon (fst hsts))); [reflexivity | exact E].
Qed.

(* a cookie of the proxy: flags, path and domain as configured *)
Definition cookie_good (cfg : config) (host : str) (v : hval) : Prop :=
  match v with
  | VStr _ => True
  | VCookie c =>
      ck_path c = [47] /\ ck_secure c = c_secure cfg /\ ck_httponly c = c_httponly cfg /\
      ck_domain c = domain_attr (cookie_domain cfg host) /\ ck_expires c = true /\
      (ck_name c = c_cookie_name cfg \/ ck_name c = c_cookie_name cfg ++ csrf_suffix)
  end.

Lemma hall_apply_op cfg host h o : hall (cookie_good cfg host) h -> hall (cookie_good cfg host) (apply_op cfg host h o).
Proof.
  intros H. destruct o as [op|k v|]; cbn [apply_op].
  - destruct (cookie_name_valid _); [|exact H]. apply hall_hadd_raw; [|exact H].
    destruct op; cbn; auto 10.
  - apply hall_hset_raw; [constructor; [exact I | constructor] | exact H].
  - apply hall_hset_raw; [constructor; [exact I | constructor]|].
    apply hall_hset_raw; [constructor; [exact I | constructor]|]. apply hall_hdel_raw. exact H.
Qed.

Lemma hall_apply_ops cfg host ops h :
  hall (cookie_good cfg host) h -> hall (cookie_good cfg host) (fold_left (apply_op cfg host) ops h).
Proof.
  revert h. induction ops as [|o ops IH]; intros h H; [exact H|]. cbn [fold_left]. apply IH, hall_apply_op, H.
Qed.

Lemma hall_chain cfg host tbl hsts : hall (cookie_good cfg host) (chain_headers tbl hsts cfg).
Proof.
  unfold chain_headers.
  assert (H : hall (cookie_good cfg host) (set_all VStr (c_overrides cfg) (set_all VStr tbl []))).
  { apply hall_set_all; [intros; exact I|]. apply hall_set_all; [intros; exact I | constructor]. }
  destruct (c_secure cfg); [|exact H]. apply hall_hset_raw; [constructor; [exact I | constructor] | exact H].
Qed.

(* ------------------------------------------------------------------------------------------ *)
(* 6. main theorems, generic in the tables *)

Definition outcome_benign (deleted td : list str) (cfg : config) (k : str) (o : outcome) : Prop :=
  match o with
  | OLocal _ _ _ _ => True
  | OForward _ _ u => fwd_benign deleted td (c_replace cfg) k u
  end.

Definition outcome_is_auth401 (o : outcome) : bool :=
  match o with OLocal c _ _ _ => is_auth401 c | OForward _ _ _ => false end.

(* The value list of a protected key on every response = exactly one value: the override if the
   upstream's configuration has one, else the table's — except that http.Error (the 401 of
   /oauth2/auth) re-sets X-Content-Type-Options to "nosniff". *)
Theorem protected_header tbl hsts deleted td cfg q o k :
  key_ok k = true -> str_eqb k (canon (fst hsts)) = false ->
  outcome_benign deleted td cfg k o ->
  match proxy_handle tbl hsts deleted td cfg q o with
  | NoResponse => True
  | Resp s h =>
      hget k h = match effective tbl cfg k with Some v => [VStr v] | None => [] end \/
      (outcome_is_auth401 o = true /\ k = k_xcto /\ hget k h = [VStr v_nosniff] /\ s = 401)
  end.
Proof.
  intros Hok Hh Hb. unfold proxy_handle.
  assert (Hch : hget k (chain_headers tbl hsts cfg) = match effective tbl cfg k with Some v => [VStr v] | None => [] end).
  { rewrite hget_chain, Hh, andb_false_r. reflexivity. }
  destruct (c_secure cfg && needs_redirect q).
  - left. rewrite hget_apply_ops by (apply redirect_ops_nohit; exact Hok). exact Hch.
  - destruct o as [c cookies user loc | cookies user u].
    + destruct (is_auth401 c) eqn:Ec.
      * destruct c; try discriminate. cbn [lclass_ops]. rewrite fold_left_app. cbn [fold_left].
        destruct (str_eqb k k_xcto) eqn:Ex.
        -- right. apply str_eqb_eq in Ex. subst k. split; [reflexivity | split; [reflexivity | split; [|reflexivity]]].
           cbn [apply_op]. unfold hset at 1. rewrite canon_k_xcto, hget_hset_raw, str_eqb_refl. reflexivity.
        -- left. rewrite hget_apply_op.
           ++ rewrite hget_apply_ops by (apply pre_ops_nohit; exact Hok). exact Hch.
           ++ apply key_ok_parts in Hok as [_ [_ [Hct [Hcl _]]]]. cbn [op_hits]. rewrite Ex, Hct, Hcl. reflexivity.
      * left. rewrite hget_apply_ops; [exact Hch|]. rewrite forallb_app.
        rewrite pre_ops_nohit by exact Hok. apply lclass_ops_nohit; assumption.
    + pose proof (forward_keeps k deleted td (c_replace cfg) u
                    (fold_left (apply_op cfg (q_host q)) (pre_ops cookies user) (chain_headers tbl hsts cfg)) Hok Hb) as F.
      destruct (forward _ _ _ _ _); [|exact I]. left. rewrite F.
      rewrite hget_apply_ops by (apply pre_ops_nohit; exact Hok). exact Hch.
Qed.

(* HSTS: with secure cookies every response carries exactly the proxy's value *)
Theorem hsts_header tbl hsts deleted td cfg q o :
  key_ok (canon (fst hsts)) = true -> str_eqb (canon (fst hsts)) k_xcto = false ->
  c_secure cfg = true ->
  outcome_benign deleted td cfg (canon (fst hsts)) o ->
  match proxy_handle tbl hsts deleted td cfg q o with
  | NoResponse => True
  | Resp _ h => hget (canon (fst hsts)) h = [VStr (snd hsts)]
  end.
Proof.
  intros Hok Hx Hs Hb. unfold proxy_handle. set (k := canon (fst hsts)) in *.
  assert (Hch : hget k (chain_headers tbl hsts cfg) = [VStr (snd hsts)]).
  { rewrite hget_chain, Hs. fold k. rewrite str_eqb_refl. reflexivity. }
  destruct (c_secure cfg && needs_redirect q).
  - rewrite hget_apply_ops by (apply redirect_ops_nohit; exact Hok). exact Hch.
  - destruct o as [c cookies user loc | cookies user u].
    + rewrite hget_apply_ops; [exact Hch|]. rewrite forallb_app.
      rewrite pre_ops_nohit by exact Hok. destruct (is_auth401 c) eqn:Ec; [|apply lclass_ops_nohit; assumption].
      destruct c; try discriminate. cbn [lclass_ops forallb op_hits].
      apply key_ok_parts in Hok as [_ [_ [Hct [Hcl _]]]]. rewrite Hx, Hct, Hcl. reflexivity.
    + pose proof (forward_keeps k deleted td (c_replace cfg) u
                    (fold_left (apply_op cfg (q_host q)) (pre_ops cookies user) (chain_headers tbl hsts cfg)) Hok Hb) as F.
      destruct (forward _ _ _ _ _); [|exact I]. rewrite F.
      rewrite hget_apply_ops by (apply pre_ops_nohit; exact Hok). exact Hch.
Qed.

(* Cookie flags: every cookie value anywhere in any response is one the proxy made, with
   Path=/, the configured Secure and HttpOnly, and the computed Domain attribute *)
Theorem cookie_flags tbl hsts deleted td cfg q o :
  match proxy_handle tbl hsts deleted td cfg q o with
  | NoResponse => True
  | Resp _ h => hall (cookie_good cfg (q_host q)) h
  end.
Proof.
  unfold proxy_handle. destruct (c_secure cfg && needs_redirect q).
  - apply hall_apply_ops, hall_chain.
  - destruct o as [c cookies user loc | cookies user u].
    + apply hall_apply_ops, hall_chain.
    + apply forward_hall; [intros; exact I|]. apply hall_apply_ops, hall_chain.
Qed.

(* ... and on responses the proxy produces itself the Set-Cookie list is exactly the handler's
   cookies, in order (when the overrides do not themselves set Set-Cookie) *)
Lemma hget_cookie_ops cfg host cookies h :
  cookie_name_valid (c_cookie_name cfg) = true ->
  hget k_set_cookie (fold_left (apply_op cfg host) (map OpCookie cookies) h) =
  hget k_set_cookie h ++ map (fun op => VCookie (cookie_of_op cfg host op)) cookies.
Proof.
  intros Hn. revert h. induction cookies as [|c cs IH]; intros h; [rewrite app_nil_r; reflexivity|].
  cbn [map fold_left]. rewrite IH. cbn [apply_op].
  assert (V : cookie_name_valid (ck_name (cookie_of_op cfg host c)) = true).
  { destruct c; cbn; [exact Hn|]. unfold cookie_name_valid in *. destruct (c_cookie_name cfg); [discriminate|].
    change ((n :: s) ++ csrf_suffix) with (n :: (s ++ csrf_suffix)). cbv beta iota.
    change (n :: s ++ csrf_suffix) with ((n :: s) ++ csrf_suffix). rewrite forallb_app, Hn. reflexivity. }
  rewrite V. unfold hadd. rewrite canon_k_set_cookie, hget_hadd_raw, str_eqb_refl, <- app_assoc. reflexivity.
Qed.

Theorem local_cookies tbl hsts deleted td cfg q c cookies user loc :
  cookie_name_valid (c_cookie_name cfg) = true ->
  tbl_lookup k_set_cookie (c_overrides cfg) = None -> tbl_lookup k_set_cookie tbl = None ->
  str_eqb k_set_cookie (canon (fst hsts)) = false ->
  (c_secure cfg && needs_redirect q) = false ->
  match proxy_handle tbl hsts deleted td cfg q (OLocal c cookies user loc) with
  | NoResponse => False
  | Resp _ h => hget k_set_cookie h = map (fun op => VCookie (cookie_of_op cfg (q_host q) op)) cookies
  end.
Proof.
  intros Hn Ho Ht Hh Hr. unfold proxy_handle. rewrite Hr. unfold pre_ops. rewrite <- app_assoc, fold_left_app.
  rewrite hget_apply_ops.
  - rewrite hget_cookie_ops by exact Hn. rewrite hget_chain, Hh, andb_false_r. unfold effective. rewrite Ho, Ht. reflexivity.
  - rewrite forallb_app. apply andb_true_iff. split.
    + destruct user; reflexivity.
    + destruct c; try reflexivity; cbn [lclass_ops]; destruct (q_get q); reflexivity.
Qed.

(* ------------------------------------------------------------------------------------------ *)
(* 7. the https redirect target *)

Lemma hex_val_digit u n : n < 16 -> hex_val (hex_digit u n) = Some n.
Proof.
  intros Hn. unfold hex_digit, hex_val, is_digit.
  destruct (n <? 10) eqn:E.
  - assert (H : ((48 <=? 48 + n) && (48 + n <=? 57)) = true) by lia. rewrite H. f_equal. lia.
  - destruct u.
    + assert (H1 : ((48 <=? 55 + n) && (55 + n <=? 57)) = false) by lia.
      assert (H2 : ((65 <=? 55 + n) && (55 + n <=? 70)) = true) by lia. rewrite H1, H2. f_equal. lia.
    + assert (H1 : ((48 <=? 87 + n) && (87 + n <=? 57)) = false) by lia.
      assert (H2 : ((65 <=? 87 + n) && (87 + n <=? 70)) = false) by lia.
      assert (H3 : ((97 <=? 87 + n) && (87 + n <=? 102)) = true) by lia. rewrite H1, H2, H3. f_equal. lia.
Qed.

Lemma div16_lt c : c < 256 -> c / 16 < 16.
Proof. intros H. apply N.div_lt_upper_bound; lia. Qed.
Lemma mod16_lt c : c mod 16 < 16.
Proof. apply N.mod_lt. lia. Qed.
Lemma div_mod_16 c : 16 * (c / 16) + c mod 16 = c.
Proof. symmetry. apply N.div_mod. lia. Qed.

(* percent-decoding inverts url.escape for every mode that escapes '%' itself *)
Lemma unescape_escape f s :
  f 37 = true -> Forall (fun c => c < 256) s -> unescape (escape f s) = Some s.
Proof.
  intros H37 Hs. induction Hs as [|c s Hc Hs IH]; [reflexivity|].
  unfold escape in *. cbn [flat_map]. destruct (f c) eqn:Ef.
  - unfold pct at 1. cbn [app unescape]. change (37 =? 37) with true. cbv iota.
    rewrite (hex_val_digit true _ (div16_lt c Hc)), (hex_val_digit true _ (mod16_lt c)), IH, div_mod_16. reflexivity.
  - cbn [app unescape]. destruct (c =? 37) eqn:E.
    + apply N.eqb_eq in E. subst. congruence.
    + rewrite IH. reflexivity.
Qed.

Definition hex_out (x : N) : bool := is_digit x || ((65 <=? x) && (x <=? 70)).
Lemma hex_digit_out n : n < 16 -> hex_out (hex_digit true n) = true.
Proof.
  intros Hn. unfold hex_out, hex_digit, is_digit. destruct (n <? 10) eqn:E.
  - assert (H : ((48 <=? 48 + n) && (48 + n <=? 57)) = true) by lia. rewrite H. reflexivity.
  - assert (H : ((65 <=? 55 + n) && (55 + n <=? 70)) = true) by lia. rewrite H. apply orb_true_r.
Qed.

(* every byte url.escape emits is a byte the mode leaves alone, '%', or an upper-case hex digit *)
Lemma escape_bytes f s :
  Forall (fun c => c < 256) s ->
  Forall (fun x => f x = false \/ x = 37 \/ hex_out x = true) (escape f s).
Proof.
  intros Hs. induction Hs as [|c s Hc Hs IH]; [constructor|].
  unfold escape in *. cbn [flat_map]. apply Forall_app. split; [|exact IH].
  destruct (f c) eqn:Ef.
  - unfold pct. constructor; [right; left; reflexivity|].
    constructor; [right; right; apply hex_digit_out, div16_lt, Hc|].
    constructor; [right; right; apply hex_digit_out, mod16_lt | constructor].
  - constructor; [left; exact Ef | constructor].
Qed.

(* bytes that end the authority part of a URL, or that browsers treat as such *)
Definition authority_delims : list N := [47; 63; 35; 64; 92].     (* / ? # @ \ *)
Definition path_delims : list N := [63; 35].                        (* ? # *)

Lemma mem_byte_cases c l : mem_byte c l = true -> In c l.
Proof.
  unfold mem_byte. intros H. apply existsb_exists in H as [x [Hx E]]. apply N.eqb_eq in E. subst. exact Hx.
Qed.

Lemma no_delims_from f delims s :
  (forall d, In d delims -> f d = true /\ d <> 37 /\ hex_out d = false) ->
  Forall (fun c => c < 256) s ->
  Forall (fun x => mem_byte x delims = false) (escape f s).
Proof.
  intros Hd Hs. pose proof (escape_bytes f s Hs) as Hb.
  eapply Forall_impl; [|exact Hb]. intros x Hx. cbv beta in Hx.
  destruct (mem_byte x delims) eqn:E; [|reflexivity].
  apply mem_byte_cases in E. destruct (Hd x E) as [D1 [D2 D3]].
  destruct Hx as [Hx|[Hx|Hx]]; congruence.
Qed.

Lemma host_no_delims s : Forall (fun c => c < 256) s ->
  Forall (fun x => mem_byte x authority_delims = false) (escape should_escape_host s).
Proof.
  apply no_delims_from. intros d Hd. cbn in Hd.
  repeat (destruct Hd as [<-|Hd]; [split; [reflexivity | split; [discriminate | reflexivity]]|]). contradiction.
Qed.

Lemma path_no_delims s : Forall (fun c => c < 256) s ->
  Forall (fun x => mem_byte x path_delims = false) (escaped_path s).
Proof.
  intros Hs. unfold escaped_path. destruct (str_eqb s [42]); [repeat constructor|].
  revert Hs. apply no_delims_from. intros d Hd. cbn in Hd.
  repeat (destruct Hd as [<-|Hd]; [split; [reflexivity | split; [discriminate | reflexivity]]|]). contradiction.
Qed.

Lemma unescape_escaped_path s : Forall (fun c => c < 256) s -> unescape (escaped_path s) = Some s.
Proof.
  intros Hs. unfold escaped_path. destruct (str_eqb s [42]) eqn:E.
  - apply str_eqb_eq in E. subst. reflexivity.
  - apply unescape_escape; [reflexivity | exact Hs].
Qed.

(* escape output is ASCII, so hexEscapeNonASCII leaves it alone *)
Lemma hex_out_ascii x : hex_out x = true -> x < 128.
Proof. unfold hex_out, is_digit. lia. Qed.

Lemma unescaped_ascii_host c : should_escape_host c = false -> c < 128.
Proof.
  unfold should_escape_host. rewrite negb_false_iff, !orb_true_iff. intros [[H|H]|H].
  - unfold is_alnum, is_alpha, is_digit, is_upper, is_lower in H. lia.
  - apply mem_byte_cases in H. cbn in H. lia.
  - apply mem_byte_cases in H. cbn in H. lia.
Qed.
Lemma unescaped_ascii_path c : should_escape_path c = false -> c < 128.
Proof.
  unfold should_escape_path. rewrite negb_false_iff, !orb_true_iff. intros [[H|H]|H].
  - unfold is_alnum, is_alpha, is_digit, is_upper, is_lower in H. lia.
  - apply mem_byte_cases in H. cbn in H. lia.
  - apply mem_byte_cases in H. cbn in H. lia.
Qed.

Lemma escape_ascii f s : (forall c, f c = false -> c < 128) -> Forall (fun c => c < 256) s ->
  Forall (fun x => x < 128) (escape f s).
Proof.
  intros Hf Hs. eapply Forall_impl; [|apply escape_bytes; exact Hs]. intros x [H|[H|H]].
  - apply Hf, H. - subst. reflexivity. - apply hex_out_ascii, H.
Qed.

Lemma hex_escape_ascii x : Forall (fun c => c < 128) x -> hex_escape_non_ascii x = x.
Proof.
  intros H. induction H as [|c x Hc Hx IH]; [reflexivity|].
  unfold hex_escape_non_ascii in *. cbn [flat_map]. assert (E : (128 <=? c) = false) by lia. rewrite E, IH. reflexivity.
Qed.

Lemma hex_escape_app x y : hex_escape_non_ascii (x ++ y) = hex_escape_non_ascii x ++ hex_escape_non_ascii y.
Proof. unfold hex_escape_non_ascii. apply flat_map_app. Qed.

Definition location_of (q : request) : str := hex_escape_non_ascii (https_dest q).

(* The target of the https redirect: scheme https; the authority is the request host, escaped so
   that it contains no byte ending an authority and decodes to exactly the host; then the
   escaped path (decodes to exactly the request's decoded path, contains no '?' or '#'), preceded
   by '/' if it does not start with one; then '?' and the query with non-ASCII bytes escaped. *)
Theorem redirect_location q :
  q_host q <> [] -> Forall (fun c => c < 256) (q_host q) -> Forall (fun c => c < 256) (q_path q) ->
  exists H S P Q,
    location_of q = bs "https://" ++ H ++ S ++ P ++ Q /\
    unescape H = Some (q_host q) /\ Forall (fun x => mem_byte x authority_delims = false) H /\
    unescape P = Some (q_path q) /\ Forall (fun x => mem_byte x path_delims = false) P /\
    ((S = [] /\ (P = [] \/ exists P', P = 47 :: P')) \/ S = [47]) /\
    Q = (if is_nil (q_rawquery q) then [] else 63 :: hex_escape_non_ascii (q_rawquery q)).
Proof.
  intros Hne Hh Hp.
  exists (escape should_escape_host (q_host q)).
  exists (match escaped_path (q_path q) with c :: _ => if negb (c =? 47) then [47] else [] | [] => [] end).
  exists (escaped_path (q_path q)).
  exists (if is_nil (q_rawquery q) then [] else 63 :: hex_escape_non_ascii (q_rawquery q)).
  assert (Hasc_h : Forall (fun x => x < 128) (escape should_escape_host (q_host q)))
    by (apply escape_ascii; [exact unescaped_ascii_host | exact Hh]).
  assert (Hasc_p : Forall (fun x => x < 128) (escaped_path (q_path q))).
  { unfold escaped_path. destruct (str_eqb (q_path q) [42]); [repeat constructor|].
    apply escape_ascii; [exact unescaped_ascii_path | exact Hp]. }
  split; [|split; [|split; [|split; [|split; [|split]]]]].
  - unfold location_of, https_dest. destruct (q_host q) as [|h0 hs] eqn:Eh; [congruence|]. rewrite <- Eh in *.
    assert (Hn : is_nil (q_host q) = false) by (rewrite Eh; reflexivity). rewrite Hn. cbn [negb orb andb].
    rewrite !hex_escape_app. rewrite (hex_escape_ascii _ Hasc_h), (hex_escape_ascii _ Hasc_p).
    change (hex_escape_non_ascii (bs "https:")) with (bs "https:").
    change (hex_escape_non_ascii [47; 47]) with [47; 47].
    change (bs "https://") with (bs "https:" ++ [47; 47]). rewrite <- !app_assoc. f_equal. f_equal. f_equal.
    f_equal; [|f_equal].
    + destruct (escaped_path (q_path q)) as [|c p]; [reflexivity|]. rewrite andb_true_r.
      destruct (negb (c =? 47)); reflexivity.
    + destruct (is_nil (q_rawquery q)); [reflexivity|]. reflexivity.
  - apply unescape_escape; [reflexivity | exact Hh].
  - apply host_no_delims, Hh.
  - apply unescape_escaped_path, Hp.
  - apply path_no_delims, Hp.
  - destruct (escaped_path (q_path q)) as [|c p]; [left; split; [reflexivity | left; reflexivity]|].
    destruct (c =? 47) eqn:E; cbn [negb]; [|right; reflexivity].
    apply N.eqb_eq in E. subst. left; split; [reflexivity | right; eexists; reflexivity].
  - reflexivity.
Qed.

Lemma canon_ct_ne_loc : str_eqb k_location (canon k_content_type) = false. Proof. reflexivity. Qed.

(* with secure cookies a plain-http request never reaches the router (so no upstream is called):
   the response is the same whatever the router would have done, it is a 301 and its Location
   is location_of q *)
Theorem https_redirect tbl hsts deleted td cfg q :
  c_secure cfg = true -> needs_redirect q = true ->
  forall o, exists h,
    proxy_handle tbl hsts deleted td cfg q o = Resp 301 h /\
    h = fold_left (apply_op cfg (q_host q)) (redirect_ops q) (chain_headers tbl hsts cfg) /\
    hget k_location h = [VStr (location_of q)].
Proof.
  intros Hs Hr o. eexists. split; [|split; [reflexivity|]].
  - unfold proxy_handle. rewrite Hs, Hr. reflexivity.
  - unfold redirect_ops. destruct (q_get q); cbn [fold_left apply_op]; unfold hset.
    + rewrite hget_hset_raw, canon_ct_ne_loc, canon_k_location, hget_hset_raw, str_eqb_refl. reflexivity.
    + rewrite canon_k_location, hget_hset_raw, str_eqb_refl. reflexivity.
Qed.

(* ------------------------------------------------------------------------------------------ *)
(* 8. sso-auth *)

Definition aop_hits (k : str) (o : aop) : bool :=
  match o with
  | ASet k' _ => str_eqb k (canon k')
  | AAddCookie _ => str_eqb k k_set_cookie
  | AHttpError => str_eqb k k_content_type || str_eqb k k_content_length
  end.

(* every response of the authenticator's service mux carries every header of its table with the
   table's value, whatever the handler does with other headers (and http.Error, which re-sets
   X-Content-Type-Options to the value the table has) *)
Theorem auth_headers tbl ops k v :
  tbl_lookup k tbl = Some v ->
  tbl_lookup k_xcto tbl = Some v_nosniff ->
  Forall (fun o => aop_hits k o = false) ops ->
  hget k (auth_handle tbl ops) = [VStr v].
Proof.
  intros Hk Hx Hops. unfold auth_handle.
  induction ops as [|o ops IH] using rev_ind.
  - cbn [fold_left]. rewrite hget_set_all, Hk. reflexivity.
  - apply Forall_app in Hops as [Ho1 Ho2]. inversion Ho2 as [|? ? Ho _]; subst.
    rewrite fold_left_app. cbn [fold_left]. specialize (IH Ho1).
    destruct o as [k' v'|l|]; cbn [apply_aop aop_hits] in *.
    + unfold hset. rewrite hget_hset_raw, Ho. exact IH.
    + unfold hadd. rewrite canon_k_set_cookie, hget_hadd_raw, Ho. exact IH.
    + apply orb_false_iff in Ho as [H1 H2]. unfold hset, hdel.
      rewrite canon_k_xcto, canon_k_content_type, canon_k_content_length.
      rewrite !hget_hset_raw, hget_hdel_raw, H1, H2.
      destruct (str_eqb k k_xcto) eqn:E; [|exact IH].
      apply str_eqb_eq in E. subst k. rewrite Hx in Hk. inversion Hk. reflexivity.
Qed.
