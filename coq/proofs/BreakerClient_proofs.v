(* BreakerClient_proofs.v — C15: the breaker in front of the directory API (google_admin.go). *)
From V Require Import Base Base_proofs Breaker Breaker_proofs BreakerClient.
From Coq Require Import ZifyBool ZifyNat Lia Permutation.
Open Scope Z_scope.

(* ---------- lists ---------- *)
Lemma map_remove_nth {A B} (f : A -> B) (l : list A) i : map f (remove_nth i l) = remove_nth i (map f l).
Proof.
  revert i; induction l as [|a l IH]; intros [|i]; simpl; try reflexivity. rewrite IH. reflexivity.
Qed.

Lemma remove_nth_perm {A} (l : list A) i x : nth_error l i = Some x -> Permutation l (x :: remove_nth i l).
Proof.
  revert i; induction l as [|a l IH]; intros [|i] H; simpl in *; try discriminate.
  - injection H as ->. reflexivity.
  - rewrite (IH i H) at 1. apply perm_swap.
Qed.

Lemma remove_nth_In {A} (l : list A) i x : In x (remove_nth i l) -> In x l.
Proof.
  revert i; induction l as [|a l IH]; intros [|i] H; simpl in *; auto.
  destruct H as [H|H]; [left; exact H | right; eapply IH; exact H].
Qed.

Lemma seq_S_app n : seq 0 (S n) = seq 0 n ++ [n].
Proof. rewrite seq_S. reflexivity. Qed.

(* ---------- what one breaker step does to the ghost in-flight list ---------- *)
Section B.
Variable trip reset : counts -> bool.
Variable backoff : counts -> Z.
Variable hom : Z.
Notation bstep := (step trip reset backoff hom).

Lemma start_inflight b :
  let '(b', o) := bstep b Start in
  (o_adm o = Some true -> inflight b' = inflight b ++ [gen b'] /\ o_ran o = true) /\
  (o_adm o <> Some true -> inflight b' = inflight b /\ o_adm o = Some false /\ o_ran o = false).
Proof.
  destruct b as [s g [c su fa] ex nw infl]. unf; simp.
  destruct s; simp.
  - split; [auto | congruence].
  - destruct (_ <=? c); simp; split; auto; congruence.
  - destruct (ex <? nw); simp; [destruct (_ <=? c); simp|]; split; auto; congruence.
Qed.

Lemma finish_inflight b i ok g : nth_error (inflight b) i = Some g ->
  inflight (fst (bstep b (Finish i ok))) = remove_nth i (inflight b).
Proof.
  intros En. destruct b as [s g1 [c su fa] ex nw infl]. unf; simp. rewrite En. simp.
  destruct s; simp.
  - destruct (Nat.eqb g g1); simp; [|reflexivity]. destruct ok; simp; [reflexivity|].
    destruct (trip _); reflexivity.
  - destruct (Nat.eqb g g1); simp; [|reflexivity]. destruct ok; simp; [|reflexivity].
    destruct (reset _); reflexivity.
  - destruct (ex <? nw); simp.
    + destruct (Nat.eqb g (S g1)); simp; [|reflexivity]. destruct ok; simp; [|reflexivity].
      destruct (reset _); reflexivity.
    + destruct (Nat.eqb g g1); simp; [|reflexivity]. destruct ok; reflexivity.
Qed.

Lemma finish_obs b i ok : o_adm (snd (bstep b (Finish i ok))) = None /\ o_ran (snd (bstep b (Finish i ok))) = false.
Proof.
  unfold step. destruct (nth_error (inflight b) i); [|simpl; auto].
  destruct (after_request _ _ _ _ _ _); simpl; auto.
Qed.

End B.

Section Client.
Variable trip reset : counts -> bool.
Variable backoff : counts -> Z.
Variable hom : Z.
Variable F : nat.
Variable dir : nat -> request -> answer.

Notation bstep := (step trip reset backoff hom).
Notation bstep_st := (step_st trip reset backoff hom).
Notation bexec := (exec trip reset backoff hom).
Notation bexec_from := (exec_from trip reset backoff hom).
Notation issue := (issue trip reset backoff hom).
Notation sstep := (sstep trip reset backoff hom F dir).
Notation sstep_st := (sstep_st trip reset backoff hom F dir).
Notation sexec := (sexec trip reset backoff hom F dir).
Notation sexec_from := (sexec_from trip reset backoff hom F dir).
Notation strace := (strace trip reset backoff hom F dir).
Notation strace_from := (strace_from trip reset backoff hom F dir).

(* ---------- issue: one Call, and the request arrives iff it was admitted ---------- *)
Lemma issue_spec s opid p :
  let '(s', ost, orq, odn) := issue s opid p in
  match p with
  | Ret r => s' = s /\ ost = None /\ orq = None /\ odn = Some (opid, r)
  | Req q rej k =>
      exists o, ost = Some o /\ (br s', o) = bstep (br s) Start /\ nops s' = nops s /\
      ((o_adm o = Some true /\ o_ran o = true /\ orq = Some (opid, nreq s, q) /\ odn = None /\
        pend s' = pend s ++ [mkpend opid (nreq s) q (gen (br s')) k] /\ nreq s' = S (nreq s)) \/
       (o_adm o = Some false /\ o_ran o = false /\ orq = None /\ odn = Some (opid, rej) /\
        pend s' = pend s /\ nreq s' = nreq s))
  end.
Proof.
  unfold BreakerClient.issue. destruct p as [r|q rej k]; [auto|].
  pose proof (start_inflight trip reset backoff hom (br s)) as HS.
  destruct (bstep (br s) Start) as [b' o]. destruct HS as [HA HR].
  destruct (o_adm o) as [[|]|] eqn:Ea.
  - destruct (HA eq_refl) as [_ Hr]. exists o. simpl. repeat split; auto. left. repeat split; auto.
  - destruct HR as (_ & _ & Hr); [discriminate|]. exists o. simpl. repeat split; auto. right. repeat split; auto.
  - destruct HR as (_ & Hx & _); [discriminate|]. discriminate.
Qed.

(* ---------- invariants of the concurrent system ---------- *)
Record SInv (s : sys) : Prop := mkSInv {
  si_align : map p_gen (pend s) = inflight (br s);      (* outstanding requests = calls in flight *)
  si_inv : Inv hom (br s);
  si_reach : exists bevs, br s = bexec bevs;             (* the breaker went through breaker steps only *)
  si_idx : Forall (fun p => (p_idx p < nreq s)%nat) (pend s);
  si_rej : Forall (fun p => forall a, rej_open (p_k p a)) (pend s)
}.

Lemma list_err_not_open c : RErr (list_err c) <> RErr EOpen.
Proof. unfold list_err. repeat match goal with |- context [if ?b then _ else _] => destruct b end; discriminate. Qed.
Lemma check_err_not_open c : RErr (check_err c) <> RErr EOpen.
Proof. unfold check_err. repeat match goal with |- context [if ?b then _ else _] => destruct b end; discriminate. Qed.

Lemma rej_open_members nested ms : forall acc k,
  (forall e k', (forall l, rej_open (k' l)) -> match nested with Some rec => rej_open (rec e k') | None => True end) ->
  (forall l, rej_open (k l)) -> rej_open (members_p nested ms acc k).
Proof.
  induction ms as [|m ms IH]; intros acc k Hn Hk; simpl; [apply Hk|].
  destruct (mb_type m); try (apply IH; assumption).
  destruct nested as [rec|]; [|apply IH; assumption].
  apply (Hn (mb_email m)). intros l. apply IH; assumption.
Qed.

Lemma rej_open_pages nested g fuel : forall tok acc k,
  (forall e k', (forall l, rej_open (k' l)) -> match nested with Some rec => rej_open (rec e k') | None => True end) ->
  (forall l, rej_open (k l)) -> rej_open (pages_p nested g fuel tok acc k).
Proof.
  induction fuel as [|fuel IH]; intros tok acc k Hn Hk; simpl; [constructor; discriminate|].
  constructor. intros [ms next|b|c|]; [|apply Hk|constructor; apply list_err_not_open|constructor; discriminate].
  apply rej_open_members; [exact Hn|]. intros l. destruct (is_nil_str next); [apply Hk | apply IH; assumption].
Qed.

Lemma rej_open_list_group F0 d : forall g k, (forall l, rej_open (k l)) -> rej_open (list_group F0 d g k).
Proof.
  induction d as [|d IH]; intros g k Hk; simpl; apply rej_open_pages; auto.
Qed.

Lemma rej_open_check gs email : forall acc, rej_open (check_prog gs email acc).
Proof.
  induction gs as [|g gs IH]; intros acc; simpl; constructor; [discriminate|].
  intros [ms next|b|c|]; try apply IH; [|constructor; discriminate].
  destruct (c =? 404); [apply IH | constructor; apply check_err_not_open].
Qed.

(* every Call of both operations answers a rejection with the breaker's error *)
Lemma rej_open_prog_of o : rej_open (prog_of F o).
Proof.
  destruct o as [g d|gs email|looks email|g]; simpl.
  - apply rej_open_list_group. intros l. constructor. discriminate.
  - apply rej_open_check.
  - unfold validate_prog. destruct looks as [|x looks]; [constructor; discriminate|].
    destruct (looks_uncached (x :: looks)); [apply rej_open_check | constructor; discriminate].
  - apply rej_open_list_group. intros l. constructor. discriminate.
Qed.

Lemma SInv_init : SInv sys_init.
Proof.
  constructor; simpl; auto.
  - apply Inv_init.
  - exists []. reflexivity.
Qed.

Lemma reach_step b e : (exists l, b = bexec l) -> exists l, bstep_st b e = bexec l.
Proof.
  intros [l ->]. exists (l ++ [e]). unfold Breaker.exec. rewrite exec_from_app. reflexivity.
Qed.

(* issuing preserves the invariant *)
Lemma issue_SInv s opid p : SInv s -> rej_open p ->
  SInv (fst (fst (fst (issue s opid p)))).
Proof.
  intros [Ha Hi Hr Hx Hj] Hp. pose proof (issue_spec s opid p) as H.
  destruct (issue s opid p) as [[[s' ost] orq] odn]. simpl.
  destruct p as [r|q rej k]; [destruct H as (-> & _); constructor; assumption|].
  destruct H as (o & _ & Hb & _ & Hc).
  assert (Eb : br s' = bstep_st (br s) Start) by (unfold Breaker.step_st; rewrite <- Hb; reflexivity).
  pose proof (start_inflight trip reset backoff hom (br s)) as HS. rewrite <- Hb in HS. destruct HS as [HA HR].
  inversion Hp as [|q0 k0 Hk]; subst.
  destruct Hc as [(Ea & _ & _ & _ & Ep & En)|(Ea & _ & _ & _ & Ep & En)].
  - destruct (HA Ea) as [Hin _]. constructor.
    + rewrite Ep, map_app, Ha, Hin. reflexivity.
    + rewrite Eb. apply step_Inv, Hi.
    + rewrite Eb. apply reach_step, Hr.
    + rewrite Ep, En. apply Forall_app. split; [eapply Forall_impl; [|exact Hx]; simpl; intros; lia|].
      constructor; [simpl; lia | constructor].
    + rewrite Ep. apply Forall_app. split; [exact Hj | constructor; [exact Hk | constructor]].
  - destruct HR as [Hin _]; [congruence|]. constructor.
    + rewrite Ep, Ha, Hin. reflexivity.
    + rewrite Eb. apply step_Inv, Hi.
    + rewrite Eb. apply reach_step, Hr.
    + rewrite Ep, En. exact Hx.
    + rewrite Ep. exact Hj.
Qed.

Lemma sstep_SInv s e : SInv s -> SInv (sstep_st s e).
Proof.
  intros HI. unfold BreakerClient.sstep_st, BreakerClient.sstep. destruct e as [o|i|dt].
  - assert (H0 : SInv (mksys (br s) (pend s) (nreq s) (S (nops s)))) by (destruct HI; constructor; assumption).
    pose proof (issue_SInv _ (nops s) (prog_of F o) H0 (rej_open_prog_of o)) as H.
    destruct (issue _ _ _) as [[[s' ost] orq] odn]. exact H.
  - destruct (nth_error (pend s) i) as [p|] eqn:En; [|exact HI].
    destruct HI as [Ha Hi Hr Hx Hj].
    assert (Eg : nth_error (inflight (br s)) i = Some (p_gen p)).
    { rewrite <- Ha. rewrite nth_error_map, En. reflexivity. }
    set (a := dir (p_idx p) (p_req p)).
    pose proof (finish_inflight trip reset backoff hom (br s) i (ans_ok a) _ Eg) as Hf.
    destruct (bstep (br s) (Finish i (ans_ok a))) as [b1 o1] eqn:Eb. simpl in Hf.
    assert (Eb1 : b1 = bstep_st (br s) (Finish i (ans_ok a))) by (unfold Breaker.step_st; rewrite Eb; reflexivity).
    assert (H1 : SInv (mksys b1 (remove_nth i (pend s)) (nreq s) (nops s))).
    { constructor; simpl.
      - rewrite map_remove_nth, Ha, Hf. reflexivity.
      - rewrite Eb1. apply step_Inv, Hi.
      - rewrite Eb1. apply reach_step, Hr.
      - apply remove_nth_Forall, Hx.
      - apply remove_nth_Forall, Hj. }
    assert (Hk : rej_open (p_k p a)).
    { rewrite Forall_forall in Hj. apply Hj. eapply nth_error_In; eauto. }
    pose proof (issue_SInv _ (p_op p) (p_k p a) H1 Hk) as H.
    destruct (issue _ _ _) as [[[s' ost] orq] odn]. exact H.
  - destruct HI as [Ha Hi Hr Hx Hj]. constructor; simpl; auto.
    + apply (step_Inv trip reset backoff hom (br s) (Tick dt)), Hi.
    + apply (reach_step (br s) (Tick dt)), Hr.
Qed.

Lemma sexec_from_SInv evs : forall s, SInv s -> SInv (sexec_from s evs).
Proof.
  unfold BreakerClient.sexec_from. induction evs as [|e evs IH]; intros s H; simpl; [exact H|].
  apply IH, sstep_SInv, H.
Qed.

Theorem sexec_SInv evs : SInv (sexec evs).
Proof. apply sexec_from_SInv, SInv_init. Qed.

(* ---------- one step: the directory receives a request iff a Call was admitted in that step ---------- *)
Lemma sstep_request_iff_admitted s e : SInv s ->
  let o := snd (sstep s e) in
  (* a request arrives only with an admitted Call of this very step, and gets the next index *)
  (forall opid n q, so_req o = Some (opid, n, q) ->
     n = nreq s /\ nreq (sstep_st s e) = S (nreq s) /\
     exists ob, so_start o = Some ob /\ o_adm ob = Some true /\ o_ran ob = true) /\
  (* an admitted Call sends exactly one request *)
  (forall ob, so_start o = Some ob -> o_adm ob = Some true ->
     exists opid q, so_req o = Some (opid, nreq s, q) /\ so_done o = None) /\
  (* a rejected Call sends nothing and ends the operation with the breaker's error *)
  (forall ob, so_start o = Some ob -> o_adm ob <> Some true ->
     o_adm ob = Some false /\ o_ran ob = false /\ so_req o = None /\ nreq (sstep_st s e) = nreq s /\
     exists opid, so_done o = Some (opid, RErr EOpen)) /\
  (* without a Call nothing is sent *)
  (so_start o = None -> so_req o = None /\ nreq (sstep_st s e) = nreq s).
Proof.
  intros HI. unfold BreakerClient.sstep_st, BreakerClient.sstep. destruct e as [op|i|dt].
  - pose proof (issue_spec (mksys (br s) (pend s) (nreq s) (S (nops s))) (nops s) (prog_of F op)) as H.
    pose proof (rej_open_prog_of op) as Hp.
    destruct (issue _ _ _) as [[[s' ost] orq] odn]. simpl.
    destruct (prog_of F op) as [r|q rej k].
    + destruct H as (-> & -> & -> & ->). simpl. repeat split; intros; try discriminate; auto.
    + inversion Hp; subst. destruct H as (o & -> & _ & _ & Hc). simpl in *.
      destruct Hc as [(Ea & Er & -> & -> & _ & En)|(Ea & Er & -> & -> & _ & En)].
      * split; [intros opid n q0 E; injection E as <- <- <-; repeat split; auto; exists o; auto|].
        split; [intros ob E _; eauto|]. split; [intros ob E Hn; injection E as <-; congruence|]. discriminate.
      * split; [discriminate|]. split; [intros ob E Hn; injection E as <-; congruence|].
        split; [intros ob E _; injection E as <-; repeat split; eauto|]. discriminate.
  - destruct (nth_error (pend s) i) as [p|] eqn:En.
    2:{ simpl. repeat split; intros; try discriminate; auto. }
    destruct HI as [Ha Hi Hr Hx Hj].
    assert (Hk : rej_open (p_k p (dir (p_idx p) (p_req p)))).
    { rewrite Forall_forall in Hj. apply Hj. eapply nth_error_In; eauto. }
    destruct (bstep (br s) (Finish i _)) as [b1 o1].
    pose proof (issue_spec (mksys b1 (remove_nth i (pend s)) (nreq s) (nops s)) (p_op p) (p_k p (dir (p_idx p) (p_req p)))) as H.
    destruct (issue _ _ _) as [[[s' ost] orq] odn]. simpl.
    destruct (p_k p _) as [r|q rej k].
    + destruct H as (-> & -> & -> & ->). simpl. repeat split; intros; try discriminate; auto.
    + inversion Hk; subst. destruct H as (o & -> & _ & _ & Hc). simpl in *.
      destruct Hc as [(Ea & Er & -> & -> & _ & En')|(Ea & Er & -> & -> & _ & En')].
      * split; [intros opid n q0 E; injection E as <- <- <-; repeat split; auto; exists o; auto|].
        split; [intros ob E _; eauto|]. split; [intros ob E Hn; injection E as <-; congruence|]. discriminate.
      * split; [discriminate|]. split; [intros ob E Hn; injection E as <-; congruence|].
        split; [intros ob E _; injection E as <-; repeat split; eauto|]. discriminate.
  - simpl. repeat split; intros; try discriminate; auto.
Qed.

(* the outcome reported for a request is the outcome of the answer the directory gave to it *)
Lemma sstep_report s e opid n ok ob :
  so_fin (snd (sstep s e)) = Some (opid, n, ok, ob) ->
  exists i p, e = Answer i /\ nth_error (pend s) i = Some p /\ p_op p = opid /\ p_idx p = n /\
              ok = ans_ok (dir n (p_req p)) /\ ob = snd (bstep (br s) (Finish i ok)).
Proof.
  unfold BreakerClient.sstep. destruct e as [op|i|dt].
  - destruct (issue _ _ _) as [[[s' ost] orq] odn]. discriminate.
  - destruct (nth_error (pend s) i) as [p|] eqn:En; [|discriminate].
    destruct (bstep (br s) (Finish i _)) as [b1 o1] eqn:Eb.
    destruct (issue _ _ _) as [[[s' ost] orq] odn]. simpl. intros E. injection E as <- <- <- <-.
    exists i, p. repeat split; auto. change (o1 = snd (bstep (br s) (Finish i (ans_ok (dir (p_idx p) (p_req p)))))). rewrite Eb. reflexivity.
  - discriminate.
Qed.


(* ---------- accounting over a whole run ---------- *)
Definition req_idx (x : nat * nat * request) : nat := snd (fst x).
Definition fin_idx (x : nat * nat * bool * obs) : nat := snd (fst (fst x)).

(* the shape of one step: an optional report (removing one outstanding request), then an
   optional Call that either adds one outstanding request with the next index or adds nothing *)
Lemma sstep_shape s e :
  let s' := sstep_st s e in let o := snd (sstep s e) in
  exists mid,
    ((so_fin o = None /\ mid = pend s) \/
     (exists i p ob, nth_error (pend s) i = Some p /\ mid = remove_nth i (pend s) /\
        so_fin o = Some (p_op p, p_idx p, ans_ok (dir (p_idx p) (p_req p)), ob))) /\
    ((so_start o = None /\ so_req o = None /\ pend s' = mid /\ nreq s' = nreq s) \/
     (exists ob opid q g k, so_start o = Some ob /\ was_rejected ob = false /\
        so_req o = Some (opid, nreq s, q) /\ pend s' = mid ++ [mkpend opid (nreq s) q g k] /\ nreq s' = S (nreq s)) \/
     (exists ob, so_start o = Some ob /\ was_rejected ob = true /\ so_req o = None /\
        pend s' = mid /\ nreq s' = nreq s)).
Proof.
  unfold BreakerClient.sstep_st, BreakerClient.sstep. destruct e as [op|i|dt].
  - exists (pend s). split; [left; destruct (issue _ _ _) as [[[? ?] ?] ?]; auto|].
    pose proof (issue_spec (mksys (br s) (pend s) (nreq s) (S (nops s))) (nops s) (prog_of F op)) as H.
    destruct (issue _ _ _) as [[[s' ost] orq] odn]. simpl.
    destruct (prog_of F op) as [r|q rej k].
    + destruct H as (-> & -> & -> & ->). left. auto.
    + destruct H as (o & -> & _ & _ & [(Ea & _ & -> & _ & Ep & En)|(Ea & _ & -> & _ & Ep & En)]); simpl in *.
      * right; left. exists o, (nops s), q, (gen (br s')), k. unfold was_rejected. rewrite Ea. auto.
      * right; right. exists o. unfold was_rejected. rewrite Ea. auto.
  - destruct (nth_error (pend s) i) as [p|] eqn:En.
    2:{ exists (pend s). simpl. split; left; auto. }
    exists (remove_nth i (pend s)).
    destruct (bstep (br s) (Finish i _)) as [b1 o1].
    pose proof (issue_spec (mksys b1 (remove_nth i (pend s)) (nreq s) (nops s)) (p_op p) (p_k p (dir (p_idx p) (p_req p)))) as H.
    destruct (issue _ _ _) as [[[s' ost] orq] odn]. simpl.
    split; [right; exists i, p, o1; auto|].
    destruct (p_k p _) as [r|q rej k].
    + destruct H as (-> & -> & -> & ->). left. auto.
    + destruct H as (o & -> & _ & _ & [(Ea & _ & -> & _ & Ep & En')|(Ea & _ & -> & _ & Ep & En')]); simpl in *.
      * right; left. exists o, (p_op p), q, (gen (br s')), k. unfold was_rejected. rewrite Ea. auto.
      * right; right. exists o. unfold was_rejected. rewrite Ea. auto.
  - exists (pend s). simpl. split; left; auto.
Qed.

Record Acc (s : sys) (os : list sobs) : Prop := mkAcc {
  (* the directory has received exactly the requests 0 .. nreq-1, in this order *)
  acc_reqs : map req_idx (reqs_of os) = seq 0 (nreq s);
  (* each of them is either still outstanding or has been reported exactly once *)
  acc_once : Permutation (seq 0 (nreq s)) (map fin_idx (fins_of os) ++ map p_idx (pend s));
  acc_pend : Forall (fun p => In (p_op p, p_idx p, p_req p) (reqs_of os)) (pend s);
  (* with the outcome of the answer the directory gave to that very request *)
  acc_fins : Forall (fun x => exists q, In (fst (fst (fst x)), fin_idx x, q) (reqs_of os) /\
                                        snd (fst x) = ans_ok (dir (fin_idx x) q)) (fins_of os);
  (* Calls = requests + rejections *)
  acc_calls : length (starts_of os) = (length (reqs_of os) + length (filter was_rejected (starts_of os)))%nat
}.

Lemma flat_map_snoc {A B} (f : A -> list B) l x : flat_map f (l ++ [x]) = flat_map f l ++ f x.
Proof. rewrite flat_map_app. simpl. rewrite app_nil_r. reflexivity. Qed.

Lemma Acc_step s os e : Acc s os -> Acc (sstep_st s e) (os ++ [snd (sstep s e)]).
Proof.
  intros [A1 A2 A3 A4 A5]. destruct (sstep_shape s e) as (mid & Hf & Hi).
  set (s' := sstep_st s e) in *. set (o := snd (sstep s e)) in *.
  unfold reqs_of, fins_of, starts_of in *. 
  (* the report part *)
  assert (Hmid : Permutation (seq 0 (nreq s))
                   (map fin_idx (flat_map (fun o => match so_fin o with Some x => [x] | None => [] end) (os ++ [o])) ++ map p_idx mid)
                 /\ Forall (fun p => In (p_op p, p_idx p, p_req p) (flat_map (fun o => match so_req o with Some x => [x] | None => [] end) os)) mid
                 /\ Forall (fun x => exists q, In (fst (fst (fst x)), fin_idx x, q) (flat_map (fun o => match so_req o with Some x => [x] | None => [] end) os) /\
                                        snd (fst x) = ans_ok (dir (fin_idx x) q))
                      (flat_map (fun o => match so_fin o with Some x => [x] | None => [] end) (os ++ [o]))).
  { rewrite flat_map_snoc. destruct Hf as [(Ef & ->)|(i & p & ob & En & -> & Ef)]; rewrite Ef.
    - rewrite app_nil_r. auto.
    - split; [|split].
      + rewrite A2, map_app. simpl. rewrite <- app_assoc. apply Permutation_app_head. simpl.
        change (Permutation (map p_idx (pend s)) (map p_idx (p :: remove_nth i (pend s)))).
        apply Permutation_map, remove_nth_perm, En.
      + apply remove_nth_Forall, A3.
      + apply Forall_app. split; [exact A4|]. constructor; [|constructor]. simpl.
        exists (p_req p). split; [|reflexivity]. rewrite Forall_forall in A3. apply A3. eapply nth_error_In; eauto. }
  destruct Hmid as (P & Q & R).
  assert (Hmono : forall x, In x (flat_map (fun o => match so_req o with Some x => [x] | None => [] end) os) ->
                  In x (flat_map (fun o => match so_req o with Some x => [x] | None => [] end) (os ++ [o]))).
  { intros x Hx. rewrite flat_map_snoc. apply in_or_app. left. exact Hx. }
  assert (R' : Forall (fun x => exists q, In (fst (fst (fst x)), fin_idx x, q) (flat_map (fun o => match so_req o with Some x => [x] | None => [] end) (os ++ [o])) /\
                                        snd (fst x) = ans_ok (dir (fin_idx x) q))
                      (flat_map (fun o => match so_fin o with Some x => [x] | None => [] end) (os ++ [o]))).
  { eapply Forall_impl; [|exact R]. intros x [q [Hq E]]. exists q. split; [apply Hmono, Hq | exact E]. }
  assert (Q' : Forall (fun p => In (p_op p, p_idx p, p_req p) (flat_map (fun o => match so_req o with Some x => [x] | None => [] end) (os ++ [o]))) mid).
  { eapply Forall_impl; [|exact Q]. intros p Hp. apply Hmono, Hp. }
  destruct Hi as [(Es & Er & Ep & En)|[(ob & opid & q & g & k & Es & Ew & Er & Ep & En)|(ob & Es & Ew & Er & Ep & En)]].
  - constructor; unfold reqs_of, fins_of, starts_of; rewrite ?En, ?Ep; auto.
    + rewrite flat_map_snoc, Er, app_nil_r. exact A1.
    + rewrite !flat_map_snoc, Es, Er, !app_nil_r. exact A5.
  - constructor; unfold reqs_of, fins_of, starts_of; rewrite ?En, ?Ep; auto.
    + rewrite flat_map_snoc, Er, map_app, A1, seq_S_app. reflexivity.
    + rewrite seq_S_app, map_app, app_assoc. apply Permutation_app; [exact P | reflexivity].
    + apply Forall_app. split; [exact Q'|]. constructor; [|constructor]. simpl.
      rewrite flat_map_snoc, Er. apply in_or_app. right. left. reflexivity.
    + rewrite !flat_map_snoc, Es, Er, filter_app, !app_length. simpl. rewrite Ew. simpl. lia.
  - constructor; unfold reqs_of, fins_of, starts_of; rewrite ?En, ?Ep; auto.
    + rewrite flat_map_snoc, Er, app_nil_r. exact A1.
    + rewrite !flat_map_snoc, Es, Er, filter_app, !app_length. simpl. rewrite Ew. simpl. lia.
Qed.

Lemma strace_from_snoc evs : forall s e,
  strace_from s (evs ++ [e]) = strace_from s evs ++ [snd (sstep (sexec_from s evs) e)] /\
  sexec_from s (evs ++ [e]) = sstep_st (sexec_from s evs) e.
Proof.
  unfold BreakerClient.sexec_from. induction evs as [|e0 evs IH]; intros s e; simpl.
  - destruct (sstep s e) as [s' o]. auto.
  - destruct (sstep s e0) as [s1 o1] eqn:Es.
    assert (Eb : sstep_st s e0 = s1) by (unfold BreakerClient.sstep_st; rewrite Es; reflexivity).
    rewrite Eb. destruct (IH s1 e) as [E1 E2]. rewrite E1, E2. auto.
Qed.

Theorem accounting evs : Acc (sexec evs) (strace evs).
Proof.
  induction evs as [|e evs IH] using rev_ind.
  - constructor; simpl; auto.
  - unfold BreakerClient.sexec, BreakerClient.strace in *.
    destruct (strace_from_snoc evs sys_init e) as [-> ->]. apply Acc_step, IH.
Qed.

(* ---------- composition with the breaker clauses ---------- *)
(* an open breaker: until the deadline has strictly passed, whatever operations start or resume,
   the directory receives nothing *)
Lemma sstep_open_quiet s e : SInv s -> st (br s) = Open -> stick_nonneg e ->
  now (br s) + sticks [e] <= expires (br s) ->
  let s' := sstep_st s e in let o := snd (sstep s e) in
  st (br s') = Open /\ gen (br s') = gen (br s) /\ expires (br s') = expires (br s) /\
  now (br s') = now (br s) + sticks [e] /\ so_req o = None /\ nreq s' = nreq s /\
  (forall ob, so_start o = Some ob -> o_adm ob = Some false /\ o_hooks ob = []).
Proof.
  intros HI Ho Ht Hd. unfold BreakerClient.sstep_st, BreakerClient.sstep.
  assert (Hissue : forall s0 opid p, Inv hom (br s0) -> st (br s0) = Open -> now (br s0) <= expires (br s0) ->
     let '(s1, ost, orq, odn) := issue s0 opid p in
     st (br s1) = Open /\ gen (br s1) = gen (br s0) /\ expires (br s1) = expires (br s0) /\ now (br s1) = now (br s0) /\
     orq = None /\ nreq s1 = nreq s0 /\ (forall ob, ost = Some ob -> o_adm ob = Some false /\ o_hooks ob = [])).
  { intros s0 opid p Hi0 Ho0 Hd0. unfold BreakerClient.issue. destruct p as [r|q rej k].
    - repeat split; auto; discriminate.
    - rewrite (open_rejects trip reset backoff hom (br s0) Ho0 Hd0). simpl.
      repeat split; auto; injection H as <-; reflexivity. }
  destruct e as [op|i|dt]; cbn [sticks stick_nonneg] in *.
  - pose proof (Hissue (mksys (br s) (pend s) (nreq s) (S (nops s))) (nops s) (prog_of F op) (si_inv _ HI) Ho) as H.
    simpl in H. destruct (issue _ _ _) as [[[s1 ost] orq] odn]. simpl.
    destruct H as (H1 & H2 & H3 & H4 & H5 & H6 & H7); [lia|]. repeat split; auto; try lia; apply H7; auto.
  - destruct (nth_error (pend s) i) as [p|] eqn:En.
    2:{ simpl. repeat split; auto; try lia; discriminate. }
    pose proof (open_step_before_deadline trip reset backoff hom (br s) (Finish i (ans_ok (dir (p_idx p) (p_req p))))
                  (si_inv _ HI) Ho I) as Hb. cbn [ticks] in Hb.
    pose proof (step_Inv trip reset backoff hom (br s) (Finish i (ans_ok (dir (p_idx p) (p_req p)))) (si_inv _ HI)) as Hi1.
    unfold Breaker.step_st in Hi1.
    destruct (bstep (br s) (Finish i _)) as [b1 o1]. simpl in Hi1.
    destruct Hb as (B1 & B2 & B3 & _ & _ & B6 & _); [lia|].
    pose proof (Hissue (mksys b1 (remove_nth i (pend s)) (nreq s) (nops s)) (p_op p) (p_k p (dir (p_idx p) (p_req p))) Hi1 B1) as H.
    simpl in H. destruct (issue _ _ _) as [[[s1 ost] orq] odn]. simpl.
    destruct H as (H1 & H2 & H3 & H4 & H5 & H6 & H7); [lia|]. repeat split; auto; try lia; try congruence; apply H7; auto.
  - simpl. repeat split; auto; try lia; discriminate.
Qed.

Lemma sticks_nonneg evs : Forall stick_nonneg evs -> 0 <= sticks evs.
Proof. induction 1 as [|e evs He _ IH]; simpl; [lia|]. destruct e; simpl in *; lia. Qed.

Lemma open_sends_nothing evs : forall s, SInv s -> st (br s) = Open -> Forall stick_nonneg evs ->
  now (br s) + sticks evs <= expires (br s) ->
  let s' := sexec_from s evs in
  st (br s') = Open /\ gen (br s') = gen (br s) /\ expires (br s') = expires (br s) /\ nreq s' = nreq s /\
  reqs_of (strace_from s evs) = [] /\
  Forall (fun ob => o_adm ob = Some false /\ o_hooks ob = []) (starts_of (strace_from s evs)).
Proof.
  induction evs as [|e evs IH]; intros s HI Ho Ht Hd.
  - simpl. repeat split; auto.
  - inversion Ht as [|? ? Hte Htr]; subst. pose proof (sticks_nonneg evs Htr) as Hnn.
    assert (Hd1 : now (br s) + sticks [e] <= expires (br s)) by (destruct e; simpl in *; lia).
    pose proof (sstep_open_quiet s e HI Ho Hte Hd1) as Hs. cbv zeta in Hs.
    pose proof (sstep_SInv s e HI) as HI1.
    destruct (sstep s e) as [s1 o] eqn:Es.
    assert (Eb : sstep_st s e = s1) by (unfold BreakerClient.sstep_st; rewrite Es; reflexivity).
    rewrite Eb in Hs, HI1. simpl in Hs.
    destruct Hs as (S1 & S2 & S3 & S4 & S5 & S6 & S7).
    assert (Hd2 : now (br s1) + sticks evs <= expires (br s1)).
    { rewrite S4, S3. destruct e; simpl in *; lia. }
    specialize (IH s1 HI1 S1 Htr Hd2). cbv zeta in IH.
    destruct IH as (I1 & I2 & I3 & I4 & I5 & I6).
    assert (Ex : sexec_from s (e :: evs) = sexec_from s1 evs).
    { unfold BreakerClient.sexec_from. simpl. rewrite Eb. reflexivity. }
    rewrite Ex. simpl. rewrite Es. unfold reqs_of, starts_of in *. simpl. rewrite S5. simpl.
    repeat split; try congruence.
    destruct (so_start o) as [ob|]; simpl; [constructor; [apply S7; reflexivity | exact I6] | exact I6].
Qed.

End Client.

(* ====================================================================================== *)
(* What a listing returns: pages concatenated, nested groups expanded up to the depth limit *)
(* ====================================================================================== *)
Section Result.
Variable tbl : request -> answer.

Definition exp_member (nx : option (str -> list str)) (m : member) : list str :=
  match mb_type m with
  | MUser => [mb_email m]
  | MGroup => match nx with None => [] | Some f => f (mb_email m) end
  | MOther => []
  end.

Definition nested_ok (n : option (str -> (list str -> prog) -> prog)) (nx : option (str -> list str)) : Prop :=
  match n, nx with
  | None, None => True
  | Some f, Some x => forall e k l, run_alone tbl (f e k) = ROk l -> run_alone tbl (k (x e)) = ROk l
  | _, _ => False
  end.

Lemma run_members n nx ms : nested_ok n nx -> forall acc k l,
  run_alone tbl (members_p n ms acc k) = ROk l ->
  run_alone tbl (k (acc ++ flat_map (exp_member nx) ms)) = ROk l.
Proof.
  intros Hn. induction ms as [|m ms IH]; intros acc k l H; simpl in *; [rewrite app_nil_r; exact H|].
  unfold exp_member at 1. destruct (mb_type m); simpl.
  - apply IH in H. rewrite <- app_assoc in H. exact H.
  - destruct n as [f|], nx as [x|]; simpl in Hn; try contradiction.
    + apply Hn in H. apply IH in H. rewrite <- app_assoc in H. exact H.
    + apply IH, H.
  - apply IH, H.
Qed.

Lemma run_pages n nx g fuel : nested_ok n nx -> forall tok acc k l,
  run_alone tbl (pages_p n g fuel tok acc k) = ROk l ->
  run_alone tbl (k (acc ++ flat_map (exp_member nx) (pages_of tbl g fuel tok))) = ROk l.
Proof.
  intros Hn. induction fuel as [|fuel IH]; intros tok acc k l H; simpl in *; [discriminate|].
  destruct (tbl (RList g tok)) as [ms next|b|c|]; simpl in *; try discriminate.
  - apply (run_members n nx ms Hn) in H. rewrite flat_map_app, app_assoc.
    destruct (is_nil_str next); [simpl; rewrite app_nil_r; exact H | apply IH, H].
  - rewrite app_nil_r. exact H.
Qed.

Lemma run_list_group F d : forall g k l,
  run_alone tbl (list_group F d g k) = ROk l -> run_alone tbl (k (expand tbl F d g)) = ROk l.
Proof.
  induction d as [|d IH]; intros g k l H; simpl in H.
  - apply (run_pages None None g F I) in H. exact H.
  - apply (run_pages _ (Some (expand tbl F d)) g F) in H; [exact H|].
    simpl. intros e k' l'. apply IH.
Qed.

(* a listing that succeeds returns exactly the expansion of what the directory answered *)
Theorem list_result_is_expansion F g d l :
  run_alone tbl (list_prog F g d) = ROk l -> l = expand tbl F d g.
Proof.
  unfold list_prog. intros H. apply run_list_group in H. simpl in H. congruence.
Qed.

(* a membership check that succeeds returns exactly the groups whose HasMember answer said yes *)
Lemma run_check gs email : forall acc l,
  run_alone tbl (check_prog gs email acc) = ROk l ->
  l = acc ++ filter (fun g => match tbl (RHas g email) with AHas true => true | _ => false end) gs.
Proof.
  induction gs as [|g gs IH]; intros acc l H; simpl in *; [rewrite app_nil_r; congruence|].
  destruct (tbl (RHas g email)) as [ms next|b|c|]; simpl in *; try discriminate.
  - apply IH, H.
  - destruct b; apply IH in H; [rewrite <- app_assoc in H|]; exact H.
  - destruct (c =? 404); [apply IH, H | discriminate].
Qed.

(* ... and an operation whose exchanges were all answered by content is the operation running alone *)
Lemma feed_run_alone xs : forall p r,
  feed p xs = FDone r -> Forall (fun x => snd x = tbl (fst x)) xs -> run_alone tbl p = r.
Proof.
  induction xs as [|[q a] xs IH]; intros p r H Hx; destruct p as [r0|q0 rej k]; simpl in *; try discriminate.
  - congruence.
  - inversion Hx as [|? ? Ha Hx']; subst. simpl in Ha.
    destruct (request_eqb q0 q) eqn:E; [|discriminate].
    assert (q0 = q).
    { destruct q0, q; simpl in E; try discriminate; apply andb_true_iff in E as [E1 E2];
      apply str_eqb_eq in E1, E2; congruence. }
    subst. apply IH; assumption.
Qed.

End Result.

(* ====================================================================================== *)
(* The clauses about the client, stated about the state reached by an ARBITRARY interleaving *)
(* ====================================================================================== *)
Section ClientClauses.
Variable trip reset : counts -> bool.
Variable backoff : counts -> Z.
Variable hom : Z.
Variable F : nat.
Variable dir : nat -> request -> answer.
Notation sstep := (sstep trip reset backoff hom F dir).
Notation sstep_st := (sstep_st trip reset backoff hom F dir).
Notation sexec := (sexec trip reset backoff hom F dir).
Notation sexec_from := (sexec_from trip reset backoff hom F dir).
Notation strace := (strace trip reset backoff hom F dir).
Notation strace_from := (strace_from trip reset backoff hom F dir).

Lemma client_breaker_reachable evs : let s := sexec evs in
  (exists bevs, br s = exec trip reset backoff hom bevs) /\
  map p_gen (pend s) = inflight (br s) /\
  cur (cnt (br s)) = Z.of_nat (length (pend s)).
Proof.
  intros s. destruct (sexec_SInv trip reset backoff hom F dir evs) as [Ha Hi Hr _ _]. fold s in Ha, Hi, Hr.
  split; [exact Hr|]. split; [exact Ha|]. rewrite (inv_cur _ _ Hi), <- Ha, map_length. reflexivity.
Qed.

Lemma client_request_iff_admitted evs e : let s := sexec evs in
  let o := snd (sstep s e) in
  (forall opid n q, so_req o = Some (opid, n, q) ->
     n = nreq s /\ nreq (sstep_st s e) = S (nreq s) /\
     exists ob, so_start o = Some ob /\ o_adm ob = Some true /\ o_ran ob = true) /\
  (forall ob, so_start o = Some ob -> o_adm ob = Some true ->
     exists opid q, so_req o = Some (opid, nreq s, q) /\ so_done o = None) /\
  (forall ob, so_start o = Some ob -> o_adm ob <> Some true ->
     o_adm ob = Some false /\ o_ran ob = false /\ so_req o = None /\ nreq (sstep_st s e) = nreq s /\
     exists opid, so_done o = Some (opid, RErr EOpen)) /\
  (so_start o = None -> so_req o = None /\ nreq (sstep_st s e) = nreq s).
Proof. intros s. apply sstep_request_iff_admitted, sexec_SInv. Qed.

Lemma client_accounting evs : let s := sexec evs in let os := strace evs in
  map req_idx (reqs_of os) = seq 0 (nreq s) /\
  Permutation (seq 0 (nreq s)) (map fin_idx (fins_of os) ++ map p_idx (pend s)) /\
  Forall (fun x => exists q, In (fst (fst (fst x)), fin_idx x, q) (reqs_of os) /\
                             snd (fst x) = ans_ok (dir (fin_idx x) q)) (fins_of os) /\
  length (starts_of os) = (length (reqs_of os) + length (filter was_rejected (starts_of os)))%nat.
Proof.
  intros s os. destruct (accounting trip reset backoff hom F dir evs) as [A1 A2 _ A4 A5]. auto.
Qed.

Lemma client_open_sends_nothing evs evs' : let s := sexec evs in let s' := sexec (evs ++ evs') in
  st (br s) = Open -> Forall stick_nonneg evs' -> now (br s) + sticks evs' <= expires (br s) ->
  st (br s') = Open /\ gen (br s') = gen (br s) /\ expires (br s') = expires (br s) /\ nreq s' = nreq s /\
  reqs_of (strace_from s evs') = [] /\
  Forall (fun ob => o_adm ob = Some false /\ o_hooks ob = []) (starts_of (strace_from s evs')).
Proof.
  intros s s' Ho Ht Hd. unfold s', BreakerClient.sexec, BreakerClient.sexec_from. rewrite fold_left_app.
  exact (open_sends_nothing trip reset backoff hom F dir evs' s (sexec_SInv trip reset backoff hom F dir evs) Ho Ht Hd).
Qed.

Lemma client_halfopen_cap evs : let s := sexec evs in
  st (br s) = HalfOpen ->
  Z.of_nat (count_gen (gen (br s)) (map p_gen (pend s))) <= half_open_max hom.
Proof.
  intros s H. destruct (sexec_SInv trip reset backoff hom F dir evs) as [Ha Hi _ _ _]. fold s in Ha, Hi.
  rewrite Ha. exact (inv_half _ _ Hi H).
Qed.

End ClientClauses.

(* ====================================================================================== *)
(* The layer above: GoogleProvider (google.go)                                               *)
(* ====================================================================================== *)
(* an uncached membership question is exactly CheckMemberships for all groups: every request it
   causes is a Call of the breaker, and nothing but the cache and the group list decides that *)
Lemma validate_goes_through_breaker looks email :
  (looks = [] -> validate_prog looks email = Ret (ROk [])) /\
  (looks <> [] -> looks_uncached looks = true ->
     validate_prog looks email = check_prog (map fst looks) email []) /\
  (looks <> [] -> looks_uncached looks = false -> exists l, validate_prog looks email = Ret (ROk l)).
Proof.
  unfold validate_prog. split; [intros ->; reflexivity|].
  split; intros Hn Hu; destruct looks as [|x looks]; try contradiction; rewrite Hu; eauto.
Qed.

Section Probe.
Variable trip reset : counts -> bool.
Variable backoff : counts -> Z.
Variable hom : Z.
Variable F : nat.
Variable dir : nat -> request -> answer.
Notation sstep := (sstep trip reset backoff hom F dir).
Notation sstep_st := (sstep_st trip reset backoff hom F dir).
Notation sexec := (sexec trip reset backoff hom F dir).

(* once the back-off deadline has strictly passed, the next operation that needs the directory
   reaches it: its first Call announces half-open and is admitted as a probe (composition with
   C15_open_expires) *)
Lemma probe_after_deadline s o q rej k : prog_of F o = Req q rej k ->
  st (br s) = Open -> expires (br s) < now (br s) -> cur (cnt (br s)) < half_open_max hom ->
  let s' := sstep_st s (Begin o) in let ob := snd (sstep s (Begin o)) in
  so_req ob = Some (nops s, nreq s, q) /\ so_done ob = None /\
  st (br s') = HalfOpen /\ gen (br s') = S (gen (br s)) /\
  exists b, so_start ob = Some b /\ o_adm b = Some true /\ o_ran b = true /\ o_hooks b = [HState Open HalfOpen].
Proof.
  intros Hp Ho Hd Hc. unfold BreakerClient.sstep_st, BreakerClient.sstep, BreakerClient.issue. rewrite Hp.
  cbn [br pend nreq nops].
  pose proof (open_expired_start trip reset backoff hom (br s) Ho Hd) as H.
  destruct (step trip reset backoff hom (br s) Start) as [b' ob].
  destruct H as (H1 & H2 & H3 & H4 & H5).
  assert (Ea : o_adm ob = Some true) by (apply H4; exact Hc).
  rewrite Ea in *. simpl. repeat split; auto. exists ob. auto.
Qed.

Lemma validate_probe_after_deadline evs g c looks email : let s := sexec evs in
  looks_uncached ((g, c) :: looks) = true ->
  st (br s) = Open -> expires (br s) < now (br s) -> cur (cnt (br s)) < half_open_max hom ->
  let o := OValidate ((g, c) :: looks) email in
  let s' := sstep_st s (Begin o) in let ob := snd (sstep s (Begin o)) in
  so_req ob = Some (nops s, nreq s, RHas g email) /\ so_done ob = None /\
  st (br s') = HalfOpen /\ gen (br s') = S (gen (br s)) /\
  exists b, so_start ob = Some b /\ o_adm b = Some true /\ o_ran b = true /\ o_hooks b = [HState Open HalfOpen].
Proof.
  intros s Hu Ho Hd Hc.
  refine (probe_after_deadline s (OValidate ((g, c) :: looks) email) (RHas g email) _ _ _ Ho Hd Hc).
  cbn [prog_of]. unfold validate_prog. rewrite Hu. reflexivity.
Qed.

End Probe.

(* error mapping, as the code has it *)
Example list_err_table :
  list_err 400 = EBadRequest /\ list_err 404 = EGroupNotFound /\ list_err 429 = ERateLimit /\
  list_err 503 = EUnavailable /\ list_err 403 = EApi 403 /\ list_err 500 = EApi 500.
Proof. vm_compute. repeat split. Qed.
Example check_err_table :
  check_err 400 = EBadRequest /\ check_err 429 = ERateLimit /\ check_err 503 = EUnavailable /\
  check_err 403 = EApi 403 /\ check_err 500 = EApi 500.
Proof. vm_compute. repeat split. Qed.

Lemma list_first_call F g d : exists k,
  list_prog (S F) g d = Req (RList g []) (RErr EOpen) k /\
  (forall c, k (AErr c) = Ret (RErr (list_err c))) /\ k ABad = Ret (RErr EOther).
Proof. destruct d; simpl; eexists; repeat split. Qed.

Lemma check_call g gs email acc : exists k,
  check_prog (g :: gs) email acc = Req (RHas g email) (RErr EOpen) k /\
  k (AErr 404) = check_prog gs email acc /\
  (forall c, c <> 404 -> k (AErr c) = Ret (RErr (check_err c))) /\
  k (AHas true) = check_prog gs email (acc ++ [g]) /\ k (AHas false) = check_prog gs email acc /\
  k ABad = Ret (RErr EOther).
Proof.
  simpl. eexists. split; [reflexivity|]. repeat split.
  intros c Hc. destruct (Z.eqb_spec c 404); [contradiction | reflexivity].
Qed.

(* non-vacuity: the seeded scenario — the breaker trips between two pages of one listing *)
Definition s_big : str := [98; 105; 103]%N.   Definition s_down : str := [100; 111; 119; 110]%N.
Definition s_ok : str := [111; 107]%N.         Definition s_u : str := [117]%N.
Definition s_a : str := [97]%N.                Definition s_b : str := [98]%N.    Definition s_p2 : str := [112; 50]%N.
Definition nv_dir (n : nat) (q : request) : answer :=
  match q with
  | RList _ [] => AMembers [mkmember s_a MUser] s_p2
  | RList _ _ => AMembers [mkmember s_b MUser] []
  | RHas g _ => if str_eqb g s_down then AErr 503 else AHas true
  end.
Definition nv_cevs : list sevent :=
  [Begin (OList s_big 0); Begin (OCheck [s_down] s_u); Answer 1; Begin (OCheck [s_down] s_u); Answer 1;
   Begin (OCheck [s_ok] s_u); Answer 0].
Definition nv_sexec := sexec nv_trip nv_reset nv_backoff 2 10 nv_dir.
Example nv_client_trip_between_pages :
  st (br (nv_sexec (firstn 5 nv_cevs))) = Open /\ length (pend (nv_sexec (firstn 5 nv_cevs))) = 1%nat /\
  map (fun o => (so_req o, so_done o)) (skipn 5 (strace nv_trip nv_reset nv_backoff 2 10 nv_dir nv_cevs)) =
    [(None, Some (3%nat, RErr EOpen)); (None, Some (0%nat, RErr EOpen))].
Proof. vm_compute. auto. Qed.
Example nv_expand :
  run_alone (nv_dir 0) (list_prog 10 s_big 0) = ROk [s_a; s_b] /\ expand (nv_dir 0) 10 0 s_big = [s_a; s_b].
Proof. vm_compute. auto. Qed.
