From V Require Import Base Base_proofs Validators ProxyCore.
From Coq Require Import ZifyBool.
Open Scope Z_scope.

Ltac dm :=
  match goal with
  | |- context [match ?x with _ => _ end] => destruct x eqn:?
  | H : context [match ?x with _ => _ end] |- _ => destruct x eqn:?
  end.

(* ---------- what "the authenticator confirmed" means, in terms of its answers ---------- *)
Definition groups_confirmed (allowed : list str) (a : answers) : Prop :=
  no_group_check allowed = true \/
  exists ug g, user_groups a = UgOk ug /\ In g ug /\ In g allowed.

Definition groups_unavailable (allowed : list str) (a : answers) : Prop :=
  no_group_check allowed = false /\ user_groups a = UgUnavail.

(* still inside the grace period counted from the stamp in the cookie (or from now if none) *)
Definition outage_grace (now : Z) (c : cfg) (s : session) : Prop :=
  now < (match s_grace s with Some g => g | None => now end) + c_G c.

Definition refresh_confirmed (allowed : list str) (a : answers) : Prop :=
  exists tok dur, redeem_refresh a = RrOk tok dur /\ groups_confirmed allowed a.
Definition refresh_outage (allowed : list str) (a : answers) : Prop :=
  redeem_refresh a = RrUnavail \/
  (exists tok dur, redeem_refresh a = RrOk tok dur /\ groups_unavailable allowed a).

Definition validate_confirmed (allowed : list str) (a : answers) : Prop :=
  a_validate a = St 200 /\ groups_confirmed allowed a.
Definition validate_outage (allowed : list str) (a : answers) : Prop :=
  (exists code, a_validate a = St code /\ unavailable code = true) \/
  (a_validate a = St 200 /\ groups_unavailable allowed a).

Lemma matched_nonempty allowed ug :
  flat_map (fun u => filter (str_eqb u) allowed) ug <> [] <-> exists g, In g ug /\ In g allowed.
Proof.
  split.
  - intros H. destruct (flat_map _ ug) as [|x l] eqn:E; [congruence|].
    assert (Hin: In x (flat_map (fun u => filter (str_eqb u) allowed) ug)) by (rewrite E; left; reflexivity).
    apply in_flat_map in Hin as [u [Hu Hx]]. apply filter_In in Hx as [Hx1 Hx2].
    apply str_eqb_eq in Hx2. subst. eauto.
  - intros [g [Hg Ha]] E.
    assert (Hin: In g (flat_map (fun u => filter (str_eqb u) allowed) ug)).
    { apply in_flat_map. exists g. split; [exact Hg|]. apply filter_In. split; [exact Ha | apply str_eqb_refl]. }
    rewrite E in Hin. destruct Hin.
Qed.

Lemma validate_group_ok allowed a m calls :
  validate_group_p allowed a = (VgOk m true, calls) -> groups_confirmed allowed a.
Proof.
  unfold validate_group_p, groups_confirmed. destruct (no_group_check allowed) eqn:E; [auto|].
  destruct (user_groups a) as [ug| |] eqn:Eu; intros H; inversion H; subst. right.
  match goal with H : negb ?b = true |- _ => destruct (flat_map (fun u => filter (str_eqb u) allowed) ug) eqn:Ef; [discriminate|] end.
  assert (Hne: flat_map (fun u => filter (str_eqb u) allowed) ug <> []) by (rewrite Ef; discriminate).
  apply matched_nonempty in Hne as [g [Hg Ha]]. eauto.
Qed.

Lemma validate_group_unavail allowed a calls :
  validate_group_p allowed a = (VgUnavail, calls) -> groups_unavailable allowed a.
Proof.
  unfold validate_group_p, groups_unavailable. destruct (no_group_check allowed) eqn:E; [discriminate|].
  destruct (user_groups a) eqn:Eu; intros H; inversion H; auto.
Qed.

Lemma within_grace_true now G s s1 : within_grace now G s = (true, s1) ->
  now < (match s_grace s with Some g => g | None => now end) + G.
Proof. unfold within_grace. intros H. inversion H. lia. Qed.

(* ---------- RefreshSession ---------- *)
Lemma refresh_ok_means now c allowed s a s' calls :
  refresh_session now c allowed s a = (RfOk, s', calls) ->
  s_refresh_tok s <> [] /\ calls <> [] /\
  (refresh_confirmed allowed a \/ (refresh_outage allowed a /\ outage_grace now c s)).
Proof.
  unfold refresh_session. destruct (s_refresh_tok s) eqn:Et; [discriminate|].
  intros H. split; [discriminate|].
  destruct (redeem_refresh a) as [tok dur| | |] eqn:Er.
  - destruct (validate_group_p allowed a) as [vg cl] eqn:Ev. destruct vg as [m [|]| |].
    + inversion H; subst. split; [discriminate|]. left. exists tok, dur. split; [exact Er|].
      eapply validate_group_ok; eauto.
    + discriminate.
    + destruct (within_grace now (c_G c) s) as [ok s1] eqn:Eg. destruct ok; [|discriminate].
      inversion H; subst. split; [discriminate|]. right. split.
      * right. exists tok, dur. split; [exact Er|]. eapply validate_group_unavail; eauto.
      * eapply within_grace_true; eauto.
    + discriminate.
  - destruct (within_grace now (c_G c) s) as [ok s1] eqn:Eg. destruct ok; [|discriminate].
    inversion H; subst. split; [discriminate|]. right. split; [left; exact Er | eapply within_grace_true; eauto].
  - discriminate.
  - discriminate.
Qed.

(* what a successful refresh may change: lifetime, upstream, slug, e-mail, refresh token never *)
Lemma refresh_preserves now c allowed s a r s' calls :
  refresh_session now c allowed s a = (r, s', calls) ->
  s_lifetime_dl s' = s_lifetime_dl s /\ s_upstream s' = s_upstream s /\ s_slug s' = s_slug s /\
  s_email s' = s_email s /\ s_valid_dl s' = s_valid_dl s /\ s_refresh_tok s' = s_refresh_tok s.
Proof.
  unfold refresh_session, within_grace. intros H.
  repeat dm; inversion H; subst; cbn; auto 10.
Qed.

Lemma validate_preserves now c allowed s a ok s' calls :
  validate_session now c allowed s a = (ok, s', calls) ->
  s_lifetime_dl s' = s_lifetime_dl s /\ s_upstream s' = s_upstream s /\ s_slug s' = s_slug s /\
  s_email s' = s_email s /\ s_refresh_dl s' = s_refresh_dl s /\ s_refresh_tok s' = s_refresh_tok s /\
  s_access s' = s_access s.
Proof.
  unfold validate_session, within_grace. intros H.
  repeat dm; inversion H; subst; cbn; auto 10.
Qed.

Lemma validate_ok_means now c allowed s a s' calls :
  validate_session now c allowed s a = (true, s', calls) ->
  calls <> [] /\ (validate_confirmed allowed a \/ (validate_outage allowed a /\ outage_grace now c s)).
Proof.
  unfold validate_session. destruct (a_validate a) as [code|] eqn:Ea; [|discriminate].
  destruct (code =? 200) eqn:E200.
  - assert (code = 200) by lia. subst code.
    destruct (validate_group_p allowed a) as [vg cl] eqn:Ev. destruct vg as [m [|]| |]; intros H.
    + inversion H; subst. split; [discriminate|]. left. split; [exact Ea|]. eapply validate_group_ok; eauto.
    + discriminate.
    + destruct (within_grace now (c_G c) s) as [ok s1] eqn:Eg. destruct ok; [|discriminate].
      inversion H; subst. split; [discriminate|]. right. split.
      * right. split; [exact Ea|]. eapply validate_group_unavail; eauto.
      * eapply within_grace_true; eauto.
    + discriminate.
  - destruct (unavailable code) eqn:Eu; [|discriminate].
    destruct (within_grace now (c_G c) s) as [ok s1] eqn:Eg. destruct ok; [|discriminate].
    intros H. inversion H; subst. split; [discriminate|]. right. split.
    + left. exists code. auto.
    + eapply within_grace_true; eauto.
Qed.

(* the deadlines a successful check writes *)
Lemma validate_ok_deadline now c allowed s a s' calls :
  validate_session now c allowed s a = (true, s', calls) -> s_valid_dl s' = now + c_V c.
Proof.
  unfold validate_session, within_grace. intros H. repeat dm; inversion H; subst; reflexivity.
Qed.

Lemma grace_stamp_refresh now c allowed s a s' calls :
  refresh_session now c allowed s a = (RfOk, s', calls) ->
  (refresh_confirmed allowed a /\ s_grace s' = None) \/
  (refresh_outage allowed a /\ s_grace s' = Some (match s_grace s with Some g => g | None => now end) /\
   s_refresh_dl s' = now + c_V c /\ s_access s' = s_access s /\ outage_grace now c s).
Proof.
  unfold refresh_session. destruct (s_refresh_tok s) eqn:Et; [discriminate|].
  destruct (redeem_refresh a) as [tok dur| | |] eqn:Er; intros H.
  - destruct (validate_group_p allowed a) as [vg cl] eqn:Ev. destruct vg as [m [|]| |]; try discriminate.
    + inversion H; subst. left. split; [|reflexivity]. exists tok, dur. split; [exact Er|]. eapply validate_group_ok; eauto.
    + destruct (within_grace now (c_G c) s) as [ok s1] eqn:Eg. destruct ok; [|discriminate].
      inversion H; subst. pose proof (within_grace_true _ _ _ _ Eg) as Hwg.
      unfold within_grace in Eg. inversion Eg; subst. right. cbn. split; [|auto].
      right. exists tok, dur. split; [exact Er|]. eapply validate_group_unavail; eauto.
  - destruct (within_grace now (c_G c) s) as [ok s1] eqn:Eg. destruct ok; [|discriminate].
    inversion H; subst. pose proof (within_grace_true _ _ _ _ Eg) as Hwg.
    unfold within_grace in Eg. inversion Eg; subst. right. cbn. split; [left; exact Er | auto].
  - discriminate.
  - discriminate.
Qed.

Lemma grace_stamp_validate now c allowed s a s' calls :
  validate_session now c allowed s a = (true, s', calls) ->
  (validate_confirmed allowed a /\ s_grace s' = None) \/
  (validate_outage allowed a /\ s_grace s' = Some (match s_grace s with Some g => g | None => now end) /\
   outage_grace now c s).
Proof.
  unfold validate_session. destruct (a_validate a) as [code|] eqn:Ea; [|discriminate].
  destruct (code =? 200) eqn:E200.
  - assert (code = 200) by lia. subst code.
    destruct (validate_group_p allowed a) as [vg cl] eqn:Ev. destruct vg as [m [|]| |]; intros H; try discriminate.
    + inversion H; subst. left. split; [|reflexivity]. split; [exact Ea|]. eapply validate_group_ok; eauto.
    + destruct (within_grace now (c_G c) s) as [ok s1] eqn:Eg. destruct ok; [|discriminate].
      inversion H; subst. pose proof (within_grace_true _ _ _ _ Eg) as Hwg.
      unfold within_grace in Eg. inversion Eg; subst. right. cbn. split; [|auto].
      right. split; [exact Ea|]. eapply validate_group_unavail; eauto.
  - destruct (unavailable code) eqn:Eu; [|discriminate]. intros H.
    destruct (within_grace now (c_G c) s) as [ok s1] eqn:Eg. destruct ok; [|discriminate].
    inversion H; subst. pose proof (within_grace_true _ _ _ _ Eg) as Hwg.
    unfold within_grace in Eg. inversion Eg; subst. right. cbn. split; [|auto]. left. eauto.
Qed.

Section Auth.
Variable lower : str -> str.

(* ---------- Authenticate: soundness of success ---------- *)
Definition session_ok (now : Z) (c : cfg) (u : upolicy) (host : str) (s : session) (a : answers) : Prop :=
  s_slug s = c_slug c /\ s_upstream s = host /\ now <= s_lifetime_dl s /\
  (s_refresh_dl s < now ->
     s_refresh_tok s <> [] /\
     (refresh_confirmed (p_groups (u_rules u)) a \/
      (refresh_outage (p_groups (u_rules u)) a /\ outage_grace now c s))) /\
  (now <= s_refresh_dl s -> s_valid_dl s < now ->
     validate_confirmed (p_groups (u_rules u)) a \/
     (validate_outage (p_groups (u_rules u)) a /\ outage_grace now c s)) /\
  request_gate lower (u_rules u) (s_email s) = true.

Lemma authenticate_sound now c u host ck a :
  ao_err (authenticate lower now c u host ck a) = None ->
  exists s, ck = Sealed s /\ session_ok now c u host s a.
Proof.
  unfold authenticate. destruct ck as [| |s]; [discriminate | discriminate |].
  destruct (str_eqb (s_slug s) (c_slug c)) eqn:Eslug; [|discriminate].
  destruct (str_eqb host (s_upstream s)) eqn:Eup; [|discriminate].
  cbn [negb]. unfold expired.
  destruct (s_lifetime_dl s <? now) eqn:El; [discriminate|].
  apply str_eqb_eq in Eslug. apply str_eqb_eq in Eup.
  intros H. exists s. split; [reflexivity|]. unfold session_ok.
  split; [exact Eslug|]. split; [auto|]. split; [lia|].
  destruct (s_refresh_dl s <? now) eqn:Er.
  - destruct (refresh_session now c (p_groups (u_rules u)) s a) as [[r s'] calls] eqn:Erf.
    destruct r; try discriminate.
    pose proof (refresh_ok_means _ _ _ _ _ _ _ Erf) as [Ht [_ Hc]].
    pose proof (refresh_preserves _ _ _ _ _ _ _ _ Erf) as [_ [_ [_ [Hem _]]]].
    split; [auto|]. split; [lia|].
    destruct (request_gate lower (u_rules u) (s_email s')) eqn:Eg; [|discriminate]. congruence.
  - destruct (s_valid_dl s <? now) eqn:Ev.
    + destruct (validate_session now c (p_groups (u_rules u)) s a) as [[ok s'] calls] eqn:Evs.
      destruct ok; [|discriminate].
      pose proof (validate_ok_means _ _ _ _ _ _ _ Evs) as [_ Hc].
      pose proof (validate_preserves _ _ _ _ _ _ _ _ Evs) as [_ [_ [_ [Hem _]]]].
      split; [lia|]. split; [auto|].
      destruct (request_gate lower (u_rules u) (s_email s')) eqn:Eg; [|discriminate]. congruence.
    + split; [lia|]. split; [lia|].
      destruct (request_gate lower (u_rules u) (s_email s)) eqn:Eg; [reflexivity | discriminate].
Qed.

(* every error clears the cookie; success never clears it *)
Lemma authenticate_error_clears now c u host ck a e :
  ao_err (authenticate lower now c u host ck a) = Some e ->
  ao_cookie (authenticate lower now c u host ck a) = CCleared /\
  ao_session (authenticate lower now c u host ck a) = None.
Proof.
  unfold authenticate. intros H. repeat dm; cbn in *; try discriminate; auto.
Qed.

(* a due check makes at least one call; a fresh session makes none and is not re-saved *)
Lemma authenticate_calls now c u host s a :
  ao_err (authenticate lower now c u host (Sealed s) a) = None ->
  ((s_refresh_dl s < now \/ s_valid_dl s < now) -> ao_calls (authenticate lower now c u host (Sealed s) a) <> []) /\
  (now <= s_refresh_dl s -> now <= s_valid_dl s ->
     ao_calls (authenticate lower now c u host (Sealed s) a) = [] /\
     ao_cookie (authenticate lower now c u host (Sealed s) a) = CNone /\
     ao_session (authenticate lower now c u host (Sealed s) a) = Some s).
Proof.
  unfold authenticate, expired.
  destruct (negb (str_eqb (s_slug s) (c_slug c))); [discriminate|].
  destruct (negb (str_eqb host (s_upstream s))); [discriminate|].
  destruct (s_lifetime_dl s <? now); [discriminate|].
  destruct (s_refresh_dl s <? now) eqn:Er.
  - destruct (refresh_session now c (p_groups (u_rules u)) s a) as [[r s'] calls] eqn:Erf.
    destruct r; try discriminate.
    pose proof (refresh_ok_means _ _ _ _ _ _ _ Erf) as [_ [Hc _]].
    destruct (request_gate lower (u_rules u) (s_email s')); [|discriminate].
    intros _. cbn. split; [auto | lia].
  - destruct (s_valid_dl s <? now) eqn:Ev.
    + destruct (validate_session now c (p_groups (u_rules u)) s a) as [[ok s'] calls] eqn:Evs.
      destruct ok; [|discriminate].
      pose proof (validate_ok_means _ _ _ _ _ _ _ Evs) as [Hc _].
      destruct (request_gate lower (u_rules u) (s_email s')); [|discriminate].
      intros _. cbn. split; [auto | lia].
    + destruct (request_gate lower (u_rules u) (s_email s)); [|discriminate].
      intros _. cbn. split; [lia | auto].
Qed.

(* whatever Authenticate re-saves keeps lifetime, binding, slug and e-mail *)
Lemma authenticate_saved_preserves now c u host s a s' :
  ao_cookie (authenticate lower now c u host (Sealed s) a) = CSaved s' ->
  s_lifetime_dl s' = s_lifetime_dl s /\ s_upstream s' = s_upstream s /\ s_slug s' = s_slug s /\
  s_email s' = s_email s /\ s_refresh_tok s' = s_refresh_tok s /\
  ao_err (authenticate lower now c u host (Sealed s) a) = None /\
  (s_valid_dl s' = s_valid_dl s \/ s_valid_dl s' = now + c_V c) /\
  (s_refresh_dl s < now \/ s_valid_dl s < now).
Proof.
  unfold authenticate, expired.
  destruct (negb (str_eqb (s_slug s) (c_slug c))); [discriminate|].
  destruct (negb (str_eqb host (s_upstream s))); [discriminate|].
  destruct (s_lifetime_dl s <? now); [discriminate|].
  destruct (s_refresh_dl s <? now) eqn:Er.
  - destruct (refresh_session now c (p_groups (u_rules u)) s a) as [[r s1] calls] eqn:Erf.
    pose proof (refresh_preserves _ _ _ _ _ _ _ _ Erf) as [H1 [H2 [H3 [H4 [H5 H6]]]]].
    destruct r; try discriminate.
    destruct (request_gate lower (u_rules u) (s_email s1)); [|discriminate].
    cbn. intros H; inversion H; subst. repeat split; auto. left; lia.
  - destruct (s_valid_dl s <? now) eqn:Ev.
    + destruct (validate_session now c (p_groups (u_rules u)) s a) as [[ok s1] calls] eqn:Evs.
      pose proof (validate_preserves _ _ _ _ _ _ _ _ Evs) as [H1 [H2 [H3 [H4 [H5 [H6 H7]]]]]].
      destruct ok; [|discriminate].
      pose proof (validate_ok_deadline _ _ _ _ _ _ _ Evs) as Hd.
      destruct (request_gate lower (u_rules u) (s_email s1)); [|discriminate].
      cbn. intros H; inversion H; subst. repeat split; auto. right; lia.
    + destruct (request_gate lower (u_rules u) (s_email s)); discriminate.
Qed.

(* ---------- Proxy dispatch ---------- *)
Lemma proxy_forward_sound now c u r a id :
  rs_out (proxy_handle lower now c u r a) = Forward id ->
  (whitelisted u r = true /\ id = None) \/
  (whitelisted u r = false /\ exists s, r_cookie r = Sealed s /\ session_ok now c u (r_host r) s a /\
     exists s', id = Some s' /\ s_email s' = s_email s).
Proof.
  unfold proxy_handle. destruct (whitelisted u r) eqn:Ew.
  - cbn. intros H; inversion H. left; auto.
  - destruct (ao_err (authenticate lower now c u (r_host r) (r_cookie r) a)) as [e|] eqn:Ee.
    + destruct e; cbn; discriminate.
    + cbn. intros H; inversion H; subst. right. split; [reflexivity|].
      destruct (authenticate_sound _ _ _ _ _ _ Ee) as [s [Hck Hok]]. exists s. split; [exact Hck|]. split; [exact Hok|].
      rewrite Hck in *. clear H.
      unfold authenticate, expired in *.
      repeat dm; cbn in *; try discriminate; eexists; split; try reflexivity;
        match goal with
        | H : refresh_session _ _ _ _ _ = _ |- _ => apply refresh_preserves in H; tauto
        | H : validate_session _ _ _ _ _ = _ |- _ => apply validate_preserves in H; tauto
        | _ => reflexivity
        end.
Qed.

Lemma proxy_otherwise now c u r a :
  (forall id, rs_out (proxy_handle lower now c u r a) <> Forward id) ->
  (rs_out (proxy_handle lower now c u r a) = SignIn \/
   rs_out (proxy_handle lower now c u r a) = Status 401 \/
   rs_out (proxy_handle lower now c u r a) = Status 403 \/
   rs_out (proxy_handle lower now c u r a) = Status 500) /\
  rs_cookie (proxy_handle lower now c u r a) = CCleared.
Proof.
  unfold proxy_handle. destruct (whitelisted u r); [intros H; exfalso; eapply H; reflexivity|].
  destruct (ao_err (authenticate lower now c u (r_host r) (r_cookie r) a)) as [e|] eqn:Ee.
  - intros _. pose proof (authenticate_error_clears _ _ _ _ _ _ _ Ee) as [Hc _].
    split; [destruct e; cbn; auto | exact Hc].
  - intros H; exfalso; eapply H; reflexivity.
Qed.

(* /oauth2/auth answers 202 only in the session case — the skip-auth list plays no role *)
Lemma auth_only_202 now c u r a :
  r_endpoint r = EAuthOnly ->
  (rs_out (handle lower now c u r a) = Status 202 <->
   exists s, r_cookie r = Sealed s /\ ao_err (authenticate lower now c u (r_host r) (Sealed s) a) = None) /\
  (rs_out (handle lower now c u r a) = Status 202 ->
   exists s, r_cookie r = Sealed s /\ session_ok now c u (r_host r) s a) /\
  (rs_out (handle lower now c u r a) = Status 202 \/ rs_out (handle lower now c u r a) = Status 401).
Proof.
  intros Hep. unfold handle. rewrite Hep. cbn [rs_out].
  destruct (ao_err (authenticate lower now c u (r_host r) (r_cookie r) a)) as [e|] eqn:Ee.
  - split; [|split; [discriminate | right; reflexivity]].
    split; [discriminate|]. intros [s [Hs He]]. rewrite Hs in Ee. congruence.
  - destruct (authenticate_sound _ _ _ _ _ _ Ee) as [s [Hck Hok]].
    split; [|split; [eauto | left; reflexivity]].
    split; [|reflexivity]. intros _. exists s. split; [exact Hck|]. rewrite <- Hck. exact Ee.
Qed.

(* favicon: 404 unless the session authenticates; then handled as a normal proxied request *)
Lemma favicon_rule now c u r a :
  r_endpoint r = EFavicon ->
  (ao_err (authenticate lower now c u (r_host r) (r_cookie r) a) <> None ->
     rs_out (handle lower now c u r a) = Status 404) /\
  (forall id, rs_out (handle lower now c u r a) = Forward id ->
     exists s, r_cookie r = Sealed s /\ session_ok now c u (r_host r) s a).
Proof.
  intros Hep. unfold handle. rewrite Hep.
  destruct (ao_err (authenticate lower now c u (r_host r) (r_cookie r) a)) as [e|] eqn:Ee.
  - split; [reflexivity | cbn; discriminate].
  - split; [congruence|]. intros id _. eapply authenticate_sound; eauto.
Qed.

(* ---------- revocation: a denied due check refuses, clears, and does not serve ---------- *)
Definition denied_at_refresh (allowed : list str) (a : answers) : Prop :=
  redeem_refresh a = RrRevoked \/ redeem_refresh a = RrErr \/
  (exists tok dur, redeem_refresh a = RrOk tok dur /\ no_group_check allowed = false /\
     (user_groups a = UgErr \/ exists ug, user_groups a = UgOk ug /\ forall g, In g ug -> ~ In g allowed)).

Definition denied_at_validate (allowed : list str) (a : answers) : Prop :=
  a_validate a = Transport \/
  (exists code, a_validate a = St code /\ code <> 200 /\ unavailable code = false) \/
  (a_validate a = St 200 /\ no_group_check allowed = false /\
     (user_groups a = UgErr \/ exists ug, user_groups a = UgOk ug /\ forall g, In g ug -> ~ In g allowed)).

Lemma matched_empty allowed ug :
  (forall g, In g ug -> ~ In g allowed) -> flat_map (fun u => filter (str_eqb u) allowed) ug = [].
Proof.
  intros H. destruct (flat_map _ ug) eqn:E; [reflexivity|].
  assert (Hne: flat_map (fun u => filter (str_eqb u) allowed) ug <> []) by (rewrite E; discriminate).
  apply matched_nonempty in Hne as [g [Hg Ha]]. exfalso. eapply H; eauto.
Qed.

Lemma revocation_refresh now c u host s a :
  s_slug s = c_slug c -> s_upstream s = host -> now <= s_lifetime_dl s -> s_refresh_dl s < now ->
  s_refresh_tok s = [] \/ denied_at_refresh (p_groups (u_rules u)) a ->
  exists e, ao_err (authenticate lower now c u host (Sealed s) a) = Some e /\
            ao_cookie (authenticate lower now c u host (Sealed s) a) = CCleared.
Proof.
  intros Hs Hu Hl Hr Hd. unfold authenticate, expired.
  rewrite Hs, str_eqb_refl. rewrite <- Hu, str_eqb_refl. cbn [negb].
  assert ((s_lifetime_dl s <? now) = false) as -> by lia.
  assert ((s_refresh_dl s <? now) = true) as -> by lia.
  unfold refresh_session. destruct Hd as [Ht|Hd].
  - rewrite Ht. cbn. eexists; split; reflexivity.
  - destruct (s_refresh_tok s); [cbn; eexists; split; reflexivity|].
    destruct Hd as [Hd|[Hd|[tok [dur [Hd [Hn Hg]]]]]]; rewrite Hd; try (cbn; eexists; split; reflexivity).
    unfold validate_group_p. rewrite Hn. destruct Hg as [Hg|[ug [Hg Hnone]]]; rewrite Hg; try (cbn; eexists; split; reflexivity).
    rewrite (matched_empty _ _ Hnone). cbn. eexists; split; reflexivity.
Qed.

Lemma revocation_validate now c u host s a :
  s_slug s = c_slug c -> s_upstream s = host -> now <= s_lifetime_dl s -> now <= s_refresh_dl s -> s_valid_dl s < now ->
  denied_at_validate (p_groups (u_rules u)) a ->
  ao_err (authenticate lower now c u host (Sealed s) a) = Some ENotAuthorized /\
  ao_cookie (authenticate lower now c u host (Sealed s) a) = CCleared.
Proof.
  intros Hs Hu Hl Hr Hv Hd. unfold authenticate, expired.
  rewrite Hs, str_eqb_refl. rewrite <- Hu, str_eqb_refl. cbn [negb].
  assert ((s_lifetime_dl s <? now) = false) as -> by lia.
  assert ((s_refresh_dl s <? now) = false) as -> by lia.
  assert ((s_valid_dl s <? now) = true) as -> by lia.
  unfold validate_session. destruct Hd as [Hd|[[code [Hd [Hne Hun]]]|[Hd [Hn Hg]]]]; rewrite Hd.
  - auto.
  - assert ((code =? 200) = false) as -> by lia. rewrite Hun. auto.
  - cbn [Z.eqb Pos.eqb]. unfold validate_group_p. rewrite Hn.
    destruct Hg as [Hg|[ug [Hg Hnone]]]; rewrite Hg; auto.
    rewrite (matched_empty _ _ Hnone). cbn. auto.
Qed.

(* grace is granted only for 429 / 503 *)
Lemma unavailable_iff code : unavailable code = true <-> code = 429 \/ code = 503.
Proof. unfold unavailable. lia. Qed.

End Auth.
